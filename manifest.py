#!/usr/bin/env python3
"""Regenerates MANIFEST.json from the table below (one entry per claimed property)."""
import json, subprocess

NOTE = ("Trusted base: go/packages, go/types and go/ssa (x/tools v0.50.0) model the program the compiler builds; "
        "the reference tables embedded in the checker; for crash-site rules the Go compiler's prove pass (check_bce) "
        "and the library post-condition table. Decides structural necessary conditions only - see level text and DESIGN.md section 4.")

claimed = {
 "C07": dict(
   text="Decides from source the parameters a symmetric edit would change without breaking the self round-trip: LZHUF constants, all entries of the position-code and CRC tables (derived by the checker from the canonical length table / polynomial), little-endian header layout, checksum/size/data ordering and CRC coverage on SSA, initial tree state. Does not decide byte-for-byte agreement with a reference codec on all inputs (tree update arithmetic, match selection, bit packing).",
   technique="constant/table evaluation against reference tables derived in the checker; SSA ordering and data-dependence of header writes/reads",
   ref="DESIGN.md section 4, C07"),
 "C19": dict(
   text="Decides from source: the dialer registry map is only touched under its mutex (must-hold lockset over every function of package transport, covers all schedules of concurrent register/unregister/dial); no index/slice/panic/unchecked assertion/division reachable from ParseURL, DialURL, DialURLContext can fail (compiler prove pass + fact engine, covers all raw strings); ErrMissingDialer is returned exactly on the not-found edge of the lookup keyed by the scheme and otherwise the looked-up dialer is called; ParseURL's success return is dominated by the short-target and digipeaters-unsupported (ardop, telnet) guards; target/digis derive from the upper-cased path. Does not decide component fidelity (equality of strings) for all tuples.",
   technique="must-hold lockset dataflow on SSA; crash-site inventory discharged by compiler BCE proofs and a difference-bound fact engine; dominance/guard analysis of returns",
   ref="DESIGN.md section 4, C19"),
 "C20": dict(
   text="Decides from source: the constant formats reaching Sprintf in decToMinDec have the DD-MM.MMMMH / DDD-MM.MMMMH shape on the latitude resp. longitude edge; the hemisphere letter, decided by enumerating the finite set of cases the function can distinguish (coordinate kind x sign of the value, which is only inspected through comparisons with zero) and following the branch structure to the constant reaching %c; NewCourse formats %03d of a value proven within [0,359] and the stringer appends M/T on the right edge; optional pointer fields are dereferenced only under their non-nil test; body, subject and recipient are set non-empty on every path. Does not decide numeric accuracy nor minutes < 60 (floating-point rounding: 10.9999999 prints 10-60.0000N, a value property).",
   technique="fmt verb parsing of constant formats per phi edge; abstract case enumeration over branch conditions; interval proof on SSA; dominance of non-nil tests",
   ref="DESIGN.md section 4, C20"),
 "C05": dict(
   text="Decides from source, against reference tables embedded in the checker (FBB protocol document shipped in docs/F6FBB-B2F): framing bytes, block size, chunk-size range, offset limit, SID features, answer constants, checksum line format; an arm for every FBB answer letter in both cases with the prescribed class (H -> Defer is a recorded known finding, pinned by an existing test); only answer constants or handler answers can be stored in a proposal's answer; proposal line field count agrees with the parser (5), one answer byte per proposal; precedence sort stable and after the size sort; sender frame markers all dispatched by the receiver, zero length byte read as 256, two NUL terminators on both sides; emitted block proven <= 5 proposals; non-B2 peers refused. Does not decide transcript-level conformance (checksum values, turn-taking, comment handling) - that needs an independent peer as oracle.",
   technique="constant and switch-arm tables compared with embedded protocol reference tables; writer/reader sibling agreement on SSA; length proof for the emitted block",
   ref="DESIGN.md section 4, C05"),
 "C16": dict(
   text="Decides from source: taint analysis over package fbb showing the callback's password can reach no writer, logger or error - only the MD5 hash (so it never appears on the wire for any input); every call through the callback field is protected by a non-nil test (clause reasoning over the early error exit) and that exit precedes all handshake output; the salt equals the 64 reference bytes and the hash covers challenge, password, salt (order checked when the payload is a plain concatenation); the ;PR line and each 'address|response' pair are computed by secureLoginResponse from the challenge and the callback's password for that very address, the pair only on the password-known edge, ;PR only after a successful callback; recognised-form checks of mask 0x3f on digest byte 3, %08d and last-eight slicing. Does not decide the numeric response for all challenge/password pairs (arithmetic on run-time values).",
   technique="interprocedural taint analysis on SSA with md5.Sum as declassifier; guard/clause dominance for the nil callback; constant table and data-dependence checks",
   ref="DESIGN.md section 4, C16"),
 "C02": dict(
   text="Decides from source, for all cut positions at once (facts about paths, not inputs): every report of a sent message (SetSent with rejected not provably true, TrafficStats.Sent) is dominated by payload write -> remote read -> nil-error edge -> a guard that lets only 'F' or ';' pass; early-reported rejected MIDs leave the pending set in the same step; in the receiver every path from a successful payload read to the next iteration / normal return / statistics passes ProcessInbound, whose error leaves the function, and which receives exactly the verified message; the directory mailbox answers 'already received' only on the success edge of opening in/<MID>.b2f. Does not decide bounded-time return, byte identity, or the multi-session eventually-exactly-once clause.",
   technique="dominance and guard-chain analysis on SSA (edge dominance, exit-guard clauses), reachability avoiding a call, role summaries over the module call graph",
   ref="DESIGN.md section 4, C02"),
 "C04": dict(
   text="Decides from source: the decompressor's Close verdict (CRC-16 + size) dominates every return of decoded data for every lzhuf.Reader created outside lzhuf, and Message parses only after that call's nil-error edge; the store accepting a received payload is dominated by pass edges of guards depending on all four integrity sources (running checksum, compressed size, header length byte, offset) whose failing edges reach error exits only; lzhuf Reader.Close returns nil only past guards on sticky errors, CRC (under the crc16 flag only) and size; delivery and sent-reporting chains shared with C02. Does not decide the checksum/CRC arithmetic itself nor which alterations a reference codec would also accept.",
   technique="typestate-style dominance analysis on SSA (verdict before use), guard/data-dependence classification of integrity checks, error-exit classification",
   ref="DESIGN.md section 4, C04"),
 "C01": dict(
   text="Decides from source: every return of Exchange reachable after the connection was used is dominated by the registration of a deferred close of that connection; the sender's dispatch has an arm per answer constant, every payload write/read is dominated by 'answer == Accept' of the very proposal transferred, deferral/rejection/transfer bookkeeping happens only on the matching answer edge (transfer only after the write succeeded), duplicate MIDs in a block are deferred; the emitted block is proven <= 5 proposals and the answers are matched against that same slice; reporting chains shared with C02 (sent after confirmation, received after the handler succeeded, one report per MID). Does not decide byte-identical delivery, exactly-once accounting across turn-overs or stream segmentations (run-time quantities).",
   technique="dominance analysis on SSA (deferred-close registration, answer-equality guards on transfer call sites), length proof by the fact engine, shared reporting-chain rules",
   ref="DESIGN.md section 4, C01"),
 "C08": dict(
   text="Decides from source: Read inspects position and size only through comparisons, so the three orderings are enumerated and the branch structure followed for each: every ordering reaches the decoder (only pos<size) or returns a non-nil error/EOF - no state returns (0,nil) forever; between any two increments of the position an edge establishing pos<size is taken (output never exceeds the declared size); Close's nil return lies past guards on sticky errors, CRC (under the crc16 flag only) and size; a failed byte read is recorded before returning, the bit reader masks to the requested width, Read consults the bit reader error; the window cursor is constant-initialised or masked; crash-site inventory of NewReader/Read/Close and callees in lzhuf discharged by compiler proofs and the fact engine. The adaptive-tree indices (decodeChar/update/reconst, 22 sites) are listed as ASSUMED (tree-shape invariant), not discharged. Does not decide that the bytes read are the canonical decoding, tree-index safety, or termination of the tree walk.",
   technique="abstract case enumeration over comparison orderings on the SSA CFG; path search for an unguarded increment; guard dominance; crash-site inventory with compiler BCE proofs and difference-bound facts",
   ref="DESIGN.md section 4, C08"),
 "C10": dict(
   text="Decides from source: every append to GetOutbound's result is dominated, for that message, by Header.Del of each mailbox-private key (set computed from the X-... constants the package uses); routing conditions of each append (sole-recipient forwarder match / no forwarders and not P2P-only, with infeasible CFG edges ruled out by the fact engine); deferred MIDs skipped on every branch; non-Defer answers only outside send-only mode, Reject only on the file-exists edge; the deferral set written only by Prepare (fresh map, unconditionally) and SetDeferred; SetSent is exactly one rename out/->sent/; ProcessInbound flags unread before serialising and stores as in/<MID>.b2f. Does not decide equivalence with a reference model over operation histories (listings, counts, restarts).",
   technique="dominance of header deletions over result appends; guard classification on SSA with integer-feasibility of edges; who-may-write rules on a struct field; file-system effect inventory over the package call graph",
   ref="DESIGN.md section 4, C10"),
 "C11": dict(
   text="Decides from source (atomic rename assumed): every content-writing call in package mailbox targets a path that the same function renames to the final name, the rename being dominated by the success of open, every write and close (phi-aware nil reasoning over the merged error variable); the three public writers store only through such a helper; the temporary name starts with a dot and the loader skips dot files before opening; marking sent is one rename. Covers every crash point of the writers at once because no path publishes partial content. Does not decide fsync durability or directory corruption.",
   technique="effect-ordering analysis on SSA (write/close success dominates rename), who-may-call rule for raw writers, constant-prefix check of temporary names",
   ref="DESIGN.md section 4, C11"),
 "C12": dict(
   text="Decides from source by interprocedural taint analysis over mailbox and fbb: values controlled by the remote at the handler boundary (Message parameters of ProcessInbound, Proposal parameters of GetInboundAnswer(s), and everything derived: MID(), header values) cannot reach a path operand of any mutating file-system call unless their use is dominated by the pass edge of a confinement check on that very value (predicate refusing '/' - and '\\' in the windows configuration -, filepath.IsLocal, Base). Covers all MID/header strings at once. Does not decide symlinks inside the mailbox or OS-specific name handling; SetSent/SetDeferred identifiers are local and not sources.",
   technique="interprocedural, call-site-sensitive taint analysis on SSA with guard sanitisers recognised through predicate summaries",
   ref="DESIGN.md section 4, C12"),
 "C15": dict(
   text="Decides from source: wherever package telnet reads login lines through a bufio.Reader over a connection it then returns, the reader is stored in the returned value and the returned type's own Read reads through it (no byte buffered beyond the login can be lost, for every segmentation); every blocking read of a context-bound dial is dominated by a context-derived watcher/deadline that unblocks it and is not stopped before the last read; the timeout entry points turn the caller's timeout into the context of DialContext (so the dial returns by the deadline whatever the server does or does not send). Does not decide login success for all credentials, prompt recognition, or blocking writes.",
   technique="ownership/escape analysis of the buffered reader on SSA; dominance of a context watcher over blocking reads; data dependence of the context on the timeout",
   ref="DESIGN.md section 4, C15"),
 "C17": dict(
   text="Decides from source, for every schedule at once: for each goroutine started in package fbb, every variable shared with the spawner is examined field-granularly - accesses inside the goroutine (nested closures included) against accesses the spawner and its other closures can make after the go statement; a pair on the same storage with a write is reported unless the storage is a channel, sync/atomic value, Ticker/Timer; method calls count as writes unless read-only by table (and a read-only call still conflicts with a write on the other side) or, for module methods, by mod-ref. In each status reporter the Done report is issued only on the closed-channel path, which returns without another report; all other reports leave Done unset; the spawner closes that channel exactly once by a defer registered right after the go statement. Does not decide the numeric range of the reported counts, nor races inside the application's StatusUpdater/transport.",
   technique="goroutine-sharing analysis on SSA (closure bindings, reachability after the go statement, field-granular read/write sets with a method effect table); dominance analysis of the final report",
   ref="DESIGN.md section 4, C17"),
 "C18": dict(
   text="Decides from source: every bufio.Scanner over caller-supplied text in fbb has its token limit raised before the first Scan to at least len(input)+1 (proved by the fact engine) and its Err() consulted so that every normal return lies on the nil edge; the wrap position is computed with unicode/utf8 (or on single-byte output), each chunk is proven <= 998 bytes and followed by CRLF in the same step; the Body header is the decimal length of the very value stored as body; the translation charset equals the announced charset. Does not decide equality of input and stored text for all strings, nor the translator's behaviour for unrepresentable characters.",
   technique="API-discipline rules on SSA (scanner limit/Err typestate), length proofs by the difference-bound fact engine with callee summaries, data-dependence checks",
   ref="DESIGN.md section 4, C18"),
 "C09": dict(
   text="Decides from source: no writer call inside a range over a map and every slice filled from a map is sorted before being iterated, in everything reachable from Message.Write (canonical header order); terminators written equal the one the reader accepts, header line shapes, Mid first and only once; Body/File headers carry the lengths of the stored body / appended attachment data; Q-encoding labels equal the transcoding charset at every site; SetDate writes UTC in the first layout ParseDate tries and Write refuses unparsable dates before writing. Does not decide round-trip equality over all messages (special characters, trimming, address normalisation).",
   technique="syntax/SSA discipline rules over the call-graph closure of the serialiser; writer/reader sibling agreement on constants; data-dependence of size headers",
   ref="DESIGN.md section 4, C09"),
 "C13": dict(
   text="Decides from source for package agwpe: every constructor parameter reaches the returned frame, constructors set the kind of the AGWPE table, call sites pass the owning port; packed header layout (36 bytes, field offsets), little-endian, kind letters, PID 0xF0, DataLen = len(data); no single raw Read for a fixed-length field; no frame is handed over with a non-blocking send (the one in demux.Enqueue is a recorded known finding; any other site is reported); Conn.Read returns the copy count, keeps and first serves the remainder; Conn.Write sends one data frame with the connection's port/callsigns/bytes and reports len(p); every answer subscription precedes its request, waits for exactly the table's answer kinds and every wait follows the write; connection/port demux filters and the filter predicate; crash-site inventory from all entry points of the driver (two panics excepted with reasons tied to other rules). Does not decide end-to-end stream equality under all segmentations/schedules nor liveness of the demux.",
   technique="constructor parameter-flow and table checks, struct layout from types, select/send classification on SSA, request/response ordering by dominance, crash-site inventory with compiler BCE proofs and difference-bound facts",
   ref="DESIGN.md section 4, C13"),
 "C14": dict(
   text="Decides from source for package ardop: crash-site inventory from all goroutines and methods of the driver (compiler proofs + fact engine; 11 sites excepted with reasons, listed as assumed); every unchecked type assertion on a control message's value - direct, through Bool/State/String/Int, or through the get* wrappers - runs only under commands whose parser arm assigns exactly that dynamic type on every path; no arithmetic on a 16-bit wire length before widening; CRC bytes and frame bodies read with io.ReadFull, error tested, mismatch refuses the frame; all byte order objects BigEndian, 16-bit length on both sides, data truncated to 65535 (proved) with the count reported, C:/D: prefixes and CRC coverage on the serial edge, CRCFAULT leads back to the send; flush lock released only by updateBuffer on BUFFER 0, taken by Write on the BUFFER arm, Flush returns nil only from the wait; SetPTT is a plain call on the PTT arm of the dispatch goroutine; Close exits only after sending DISCONNECT; Read returns the copy count, keeps and first serves the remainder; ARQ payloads are queued with a blocking send. Does not decide stream equality, retransmission timing, event interleavings, or the unsynchronised TNC state fields.",
   technique="crash-site inventory (compiler BCE + difference-bound facts), producer/consumer agreement on dynamic types across parser arms and guarded assertions, width/endianness/typestate rules on SSA, dominance of effects",
   ref="DESIGN.md section 4, C14"),
 "C03": dict(
   text="Decides from source, for all remote transcripts at once: crash-site inventory over the 119 functions reachable from Exchange in fbb, lzhuf (decoder) and mailbox: every index/slice site proven in range by the compiler's prove pass or by the fact engine (length guards, library post-conditions, caller facts, field invariants), bounded make sizes, nil-guarded calls through func fields, no reachable panic/log.Fatal/os.Exit/unchecked assertion except a reviewed exception table (handler contract, local outbox state, sort.Interface contract) and the adaptive-tree indices, both listed as ASSUMED and never counted as discharged; every loop that reads from the remote tests, on each iteration, the error of a read with the error edge leaving the loop; the decompressor cannot return (0,nil) forever; the connection is closed on every exit. Does not decide nil dereferences, termination of non-reading loops, memory used inside the standard library, decompression ratio.",
   technique="crash-site inventory over the call-graph closure, discharged by compiler bounds-check-elimination proofs and a difference-bound fact engine with interprocedural facts; natural-loop analysis of remote reads; abstract case enumeration; dominance of the deferred close",
   ref="DESIGN.md section 4, C03"),
 "C06": dict(
   text="Thin claim, stated as such: decides structural necessary conditions of CHUNKING INDEPENDENCE only - the per-call counters of Writer.Write and Reader.Read never flow into persistent codec state (only into indexing of the caller's buffer, comparisons with len(p), increments, the result), Write returns only with n >= len(p) proved, every match byte that does not fit the caller's buffer is kept (identically) in the hold-back buffer which is served before decoding resumes, io.EOF only when the hold-back buffer is empty, Close drains the lookahead before the end code and header. Losslessness itself (decode(encode(x)) == x: tree update, match search, bit packing, the empty input, the tree rebuild) is NOT decided by any static rule here - it is an equality of run-time byte strings.",
   technique="information-flow rule on SSA for per-call counters, length proof by the fact engine, dominance/edge rules for the hold-back buffer",
   ref="DESIGN.md section 4, C06"),
}

# rules added after the seeded changes (DESIGN.md sections 4 and 11); appended to the claim text
ADDED = {
 "C01": " Also: SOH/STX length bytes proved in range and equal to the bytes that follow; no raw Read and no second buffered reader on the session connection; borrowed reader buffers not used after the next read; each answer stored into the proposal it was asked for (single, batched, FS line); proposal fields written and parsed at the same positions with the MID kept verbatim; readSection consumes its terminator on every successful path. Header values of one key are written in their own order (C01-valueorder).",
 "C02": " Also: a failed store in DirHandler.ProcessInbound reaches the session as an error on every path (C02-store); the deferred close of Exchange (C02-close). The deferred clean-up of Exchange never reads from the connection (C02-cleanup); Prepare resets per-session state (C02-session).",
 "C03": " Also: Buffer.Grow/Builder.Grow/slices.Grow with a remote-declared size count as allocation sites.",
 "C04": " Also: when the reader variable may hold a gzip.Reader as well, a discarded read error is a violation (gzip reports its checksum verdict from Read only); the SOH length byte is compared with the raw lengths of the header strings, unmasked (C04-hdrcheck). The decompressor is only handed to calls that read to io.EOF (C04-fulldecode); every iteration of the data-block loop appends the byte it read (C04-allbytes).",
 "C05": " Also: SOH/STX length bytes (C05-framelen); answer/proposal alignment (C05-align); field order and verbatim MID (C05-fieldorder); header length compared with raw lengths (C05-hdrcheck); the FF/FQ decision and the clearing of remoteNoMsgs by a proposal block (C05-turn); the offset of an answer cut by a forward scan. The forwarder line is left only when its list is exhausted (C05-fwline).",
 "C06": " Also two necessary conditions of losslessness itself: the ring buffer's wrap-around mirror covers exactly F-1 slots (C06-mirror); the Huffman code accumulator is at least as wide as the deepest leaf _MaxFreq allows (Fibonacci bound) and every putCode call is proved to move at most 16 bits (C06-codewidth). The match length the encoder announces is the length it then skips (C06-length); no package-level variable of lzhuf is written at run time (C06-shared).",
 "C07": " Also: EOF only with an empty hold-back buffer, per-call counters do not reach codec state, mirror region and code width as in C06. Announced match length equals skipped length (C07-length); no package-level state written at run time (C07-shared).",
 "C08": " Also: EOF only with an empty hold-back buffer (C08-drain).",
 "C09": " Also: readSection consumes the terminator unconditionally; every iteration of the attachment loop writes data and CRLF (C09-sections); Header.Add/Set/Get/Del canonicalise keys the same way (C09-keys). Attachment names and subjects pass QEncoding.Encode on every path (C09-encoded); Message.Bytes returns a buffer owned by the call (C09-owned); values of one key keep their order (C09-valueorder).",
 "C10": " Also: the sole-recipient test counts To and Cc; Prepare resets the deferral set; SetUnread changes X-Unread only, before serialising, and rewrites the message's own file (C10-unread). An append inside the forwarder loop leaves the loop (C10-once); the deferral map exists whenever SetDeferred can run.",
 "C11": " Also: a publishing function performs no other mutation of the final name.",
 "C12": " Also: identifiers given to SetSent/SetDeferred only reach renames between symmetric names or are checked (C12-localid); OpenMessage replaces X-FilePath with the opened path (C12-filepath).",
 "C13": " Also: a fresh frame value per iteration of the receive loop; io.EOF only on the closed-channel edge; frames reach the TNC connection whole - under a TNC mutex or in one Write (C13-serial); borrowed reader buffers (C13-borrow). A port comparison may not be skipped for a particular port number.",
 "C14": " Also: the frame buffer is not modified inside the retransmission loop; io.EOF only on the closed-channel edge; borrowed reader buffers (ReadSlice result used after reading the CRC bytes: C14-borrow); an arm's assignment counts only if the arm cannot be left before it. The decode loop is left only at the end of the link (C14-decoder); the BUFFER arm takes the flush lock unconditionally; a flag that gates delivery of ARQ data is opened by the dispatch goroutine itself (C14-gate; the two stores of tnc.connected in other goroutines are known findings).",
 "C15": " Also: the parsed dial_timeout reaches the context; the returned type's Read never drops the login reader; the login consumes whole CR-terminated lines only and all formats are constant (C15-login). ReadSlice is refused for login lines; the timeout installation may not depend on the caller's context state.",
 "C16": " Also: len(response) >= 8 proved; no constant-size buffer between the inputs and md5.Sum (C16-whole); the loop over local addresses is left only when exhausted and every iteration writes (C16-auxlist); the prompt test is made only for lines that are not ;PQ lines (C16-challenge). The handshake writes no package-level variable (C16-shared); cleanString removes LF as well as CR (C16-lines).",
 "C17": " Also: no session field read by the un-joined reporters is written by code reachable from Exchange, and the counters reported belong to the spawning call (C17-owner). A progress value that subtracts TxBufferLen is clamped at zero (C17-clamp); pending-message details live in per-iteration storage (C17-pending).",
 "C18": " Also: the charset translator is obtained per call; every store to Message.body is followed by the matching Body header on every path; the text is split at every LF with a constant separator (C18-split); every text returned by BodyFromBytes went through the declared charset's translator (C18-decode).",
 "C19": " Also: no dialer call-out under the registry lock; writes need the exclusive lock; registering always replaces the scheme's entry (C19-register); the host parameter overrides unconditionally. The target is a literal split of the path at its last '/' (no Base/Dir/Clean).",
 "C20": " Also: every labelled optional line stands under non-nil tests only; every Course returned by NewCourse carries the caller's reference. The COURSE operand is a string or a Stringer as passed (C20-stringer); a blank hemisphere for a coordinate of exactly zero is reported (known finding).",
}
for k, v in ADDED.items():
    if k in claimed:
        claimed[k]["text"] += v

not_applicable = {
}

props = [json.loads(l) for l in open('properties.jsonl')]
checks = []
na = []
for p in props:
    pid = p["id"]
    if pid in claimed:
        c = claimed[pid]
        checks.append({
            "property_id": pid,
            "quick_cmd": f"./run.sh {pid} quick",
            "thorough_cmd": f"./run.sh {pid} thorough",
            "evidence_file": f"/verif/evidence/{pid}.json",
            "replay_cmd_template": "./run.sh --explain {path}",
            "engine": "wlcheck",
            "level_claimed": {"category": "other", "text": c["text"], "design_ref": c["ref"]},
            "level_note": c.get("note", NOTE),
            "technique": "static analysis: " + c["technique"],
        })
    else:
        na.append({"property_id": pid, "reason": not_applicable.get(pid, "check not built yet (framework under construction, DESIGN.md section 8); will be claimed at level other once all its rules are armed")})

m = {
 "version": 1,
 "setup_cmd": "./setup.sh",
 "hooks": {"guard": "verif", "enable": "none needed: the checks read /repo's source (static analysis); no hook or instrumentation exists in /repo",
           "baseline_off_cmd": "cd /repo && go test -vet=off -count=1 ./...", "source_commits": [], "add_only": True},
 "engines": [{"name": "wlcheck", "path": "checker/", "serves_properties": sorted(claimed), "kind_free_text": "repository-specific static checker on go/packages + go/ssa (rules per property, obligations with floors, known findings, mutant replay in the thorough tier)"}],
 "checks": checks,
 "not_applicable": na,
 "notes": "All claims are at level 'other': each check decides structural necessary conditions of its property from /repo's current source (no execution). Genuine defects found were repaired in /repo as 'fix:' commits and are listed in KNOWN_FINDINGS.txt.",
}
json.dump(m, open('MANIFEST.json', 'w'), indent=1)
print("claimed:", sorted(claimed), "n/a:", [x["property_id"] for x in na])
