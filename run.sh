#!/bin/sh
# ./run.sh <property> <quick|thorough>      run one property check against /repo's working tree
# ./run.sh --explain <violation file>       re-run the check a violation file came from
cd "$(dirname "$0")"
. ./env.sh
if [ ! -x bin/wlcheck ] || [ -n "$(find checker -newer bin/wlcheck -name '*.go' 2>/dev/null | head -1)" ]; then
	./setup.sh >&2 || { echo "ERROR building the checker"; exit 2; }
fi
REPO=${VERIF_REPO:-/repo}
if [ "$1" = "--explain" ]; then
	exec bin/wlcheck -explain "$2" -repo "$REPO" -verif "$(pwd)"
fi
TIER=${2:-${VERIF_TIER:-quick}}
exec bin/wlcheck -property "$1" -tier "$TIER" -repo "$REPO" -verif "$(pwd)"
