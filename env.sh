# Environment shared by setup.sh and run.sh (DESIGN.md section 1).
export PATH=/opt/veriftools/go1.26.8/bin:$PATH
export GOTOOLCHAIN=local GOFLAGS=-mod=mod GOPROXY=off GOSUMDB=off GOWORK=off
export GOCACHE=${GOCACHE:-/root/.cache/go-build}
