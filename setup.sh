#!/bin/sh
# Build the checker offline from files on disk only.
set -e
cd "$(dirname "$0")"
. ./env.sh
mkdir -p bin evidence
cd checker
go build -o ../bin/wlcheck .
