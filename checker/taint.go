package main

// E3 — taint (source -> sink with sanitisers) on SSA (DESIGN.md A.4): package-wide fixpoint,
// context-insensitive propagation into module callees and back through their returns, default
// propagation through unknown callees, memory by access path.

import (
	"go/token"
	"go/types"
	"strings"

	"golang.org/x/tools/go/ssa"
)

type taintCfg struct {
	c         *Ctx
	inScope   func(*ssa.Function) bool                    // module functions whose bodies are analysed
	cleanCall func(name string) bool                      // callee whose result is clean whatever its arguments
	guarded   func(v ssa.Value, use ssa.Instruction) bool // the use of tainted v at `use` is sanitised
	cleanSite func(ci ssa.CallInstruction) bool           // this very call is a declassifier (e.g. a write into a hash object)
}

type taintState struct {
	cfg     taintCfg
	tainted map[ssa.Value]bool
	from    map[ssa.Value]ssa.Value
	memory  map[string]bool // function-qualified access paths of tainted memory
	work    []ssa.Value
	deps    map[interface{}][]bool
}

func newTaint(cfg taintCfg) *taintState {
	return &taintState{cfg: cfg, tainted: map[ssa.Value]bool{}, from: map[ssa.Value]ssa.Value{}, memory: map[string]bool{}}
}

func (t *taintState) mark(v, from ssa.Value) {
	if v == nil || t.tainted[v] {
		return
	}
	t.tainted[v] = true
	if from != nil {
		t.from[v] = from
	}
	t.work = append(t.work, v)
}

func cleanType(ty types.Type) bool {
	switch u := ty.Underlying().(type) {
	case *types.Basic:
		return u.Info()&(types.IsBoolean|types.IsNumeric) != 0
	}
	return false
}

func rootFn(fn *ssa.Function) *ssa.Function {
	for fn != nil && fn.Parent() != nil {
		fn = fn.Parent()
	}
	return fn
}

func memKey(fn *ssa.Function, path string) string {
	return rootFn(fn).String() + "|" + derefPath(path)
}

// taintMemory marks the storage at addr as tainted and taints every load of an overlapping path
// in the same function tree.
func (t *taintState) taintMemory(addr ssa.Value, from ssa.Value) {
	instr, ok := addr.(ssa.Instruction)
	var fn *ssa.Function
	if ok {
		fn = instr.Parent()
	} else if p, isP := addr.(*ssa.Parameter); isP {
		fn = p.Parent()
	} else if fv, isFV := addr.(*ssa.FreeVar); isFV {
		fn = fv.Parent()
	}
	if fn == nil {
		return
	}
	path := pathOf(addr)
	key := memKey(fn, path)
	if t.memory[key] {
		return
	}
	t.memory[key] = true
	t.mark(addr, from) // a pointer to tainted storage carries the taint to whoever receives it
	eachInstrDeep(rootFn(fn), func(_ *ssa.Function, in ssa.Instruction) {
		switch x := in.(type) {
		case *ssa.UnOp:
			if x.Op == token.MUL && pathOverlaps(path, pathOf(x.X)) {
				t.mark(x, from)
			}
		case *ssa.Slice:
			if pathOverlaps(path, pathOf(x.X)) {
				t.mark(x, from)
			}
		}
	})
}

func (t *taintState) run() {
	c := t.cfg.c
	for len(t.work) > 0 {
		v := t.work[len(t.work)-1]
		t.work = t.work[:len(t.work)-1]
		refs := v.Referrers()
		if refs == nil {
			continue
		}
		for _, ref := range *refs {
			if t.cfg.guarded != nil && t.cfg.guarded(v, ref) {
				continue
			}
			switch x := ref.(type) {
			case *ssa.Store:
				if x.Val == v {
					t.taintMemory(x.Addr, v)
				}
			case *ssa.MapUpdate:
				if x.Value == v || x.Key == v {
					t.mark(x.Map, v)
					t.taintMemory(x.Map, v)
				}
			case *ssa.Return:
				// results flow to every call site of this function in the module — unless the value
				// derives from the function's own parameters: that flow is handled per call site
				// (context-sensitively) in call(), so that a shared accessor such as Header.Get does
				// not smear taint from one caller to all others
				fn := x.Parent()
				if t.cfg.inScope(fn) && fn.Parent() == nil && dependsOnParams(v, fn) {
					continue
				}
				idx := -1
				for i, res := range x.Results {
					if res == v {
						idx = i
					}
				}
				for _, site := range c.siteIdx().sites[fn] {
					val := site.Value()
					if val == nil {
						continue
					}
					if len(x.Results) == 1 {
						t.mark(val, v)
					} else {
						for _, r2 := range *val.Referrers() {
							if ex, ok := r2.(*ssa.Extract); ok && ex.Index == idx {
								t.mark(ex, v)
							}
						}
					}
				}
			case *ssa.MakeClosure:
				for i, b := range x.Bindings {
					if b == v {
						fn := x.Fn.(*ssa.Function)
						t.mark(fn.FreeVars[i], v)
						t.taintMemory(fn.FreeVars[i], v)
					}
				}
			case ssa.CallInstruction:
				t.call(x, v)
			case *ssa.BinOp:
				switch x.Op {
				case token.EQL, token.NEQ, token.LSS, token.LEQ, token.GTR, token.GEQ:
				default:
					if !cleanType(x.Type()) {
						t.mark(x, v)
					}
				}
			case *ssa.If, *ssa.Jump, *ssa.Panic, *ssa.RunDefers, *ssa.Send:
			default:
				if val, ok := ref.(ssa.Value); ok {
					if cleanType(val.Type()) {
						if _, isExtract := ref.(*ssa.Extract); !isExtract {
							continue
						}
						continue
					}
					t.mark(val, v)
				}
			}
		}
	}
}

func (t *taintState) call(ci ssa.CallInstruction, v ssa.Value) {
	call := ci.Common()
	name := callName(call)
	if t.cfg.cleanCall != nil && t.cfg.cleanCall(name) {
		return
	}
	if t.cfg.cleanSite != nil && t.cfg.cleanSite(ci) {
		return
	}
	if strings.HasPrefix(name, "builtin.") {
		switch name {
		case "builtin.append":
			if val := ci.Value(); val != nil {
				t.mark(val, v)
			}
		case "builtin.copy":
			if call.Args[1] == v {
				t.taintMemory(call.Args[0], v)
				t.mark(call.Args[0], v)
			}
		}
		return
	}
	callee := call.StaticCallee()
	if callee != nil && callee.Blocks != nil && t.cfg.inScope(callee) {
		for i, a := range call.Args {
			if a == v && i < len(callee.Params) {
				t.mark(callee.Params[i], v)
				// per-site result: tainted when some result of the callee depends on this parameter
				if val := ci.Value(); val != nil {
					for ri, dep := range t.retDeps(callee, i) {
						if !dep {
							continue
						}
						if callee.Signature.Results().Len() == 1 {
							if !cleanType(val.Type()) {
								t.mark(val, v)
							}
						} else {
							for _, r2 := range *val.Referrers() {
								if ex, ok := r2.(*ssa.Extract); ok && ex.Index == ri && !cleanType(ex.Type()) {
									t.mark(ex, v)
								}
							}
						}
					}
				}
			}
		}
		return
	}
	if call.IsInvoke() {
		// interface call: propagate into module implementations in scope
		hit := false
		for _, impl := range t.cfg.c.implementations(call.Method) {
			if impl.Blocks == nil || !t.cfg.inScope(impl) {
				continue
			}
			hit = true
			if call.Value == v && len(impl.Params) > 0 {
				t.mark(impl.Params[0], v)
			}
			for i, a := range call.Args {
				if a == v && i+1 < len(impl.Params) {
					t.mark(impl.Params[i+1], v)
				}
			}
		}
		if hit {
			return
		}
	}
	// unknown callee: result depends on every argument and the receiver
	if val := ci.Value(); val != nil {
		if tup, ok := val.Type().(*types.Tuple); ok {
			for _, r2 := range *val.Referrers() {
				if ex, ok := r2.(*ssa.Extract); ok && !cleanType(tup.At(ex.Index).Type()) {
					t.mark(ex, v)
				}
			}
		} else if !cleanType(val.Type()) {
			t.mark(val, v)
		}
	}
}

// chain renders how a value became tainted (shortest recorded provenance), for reports.
func (t *taintState) chain(v ssa.Value) string {
	var parts []string
	for i := 0; v != nil && i < 8; i++ {
		parts = append(parts, pathOf(v))
		v = t.from[v]
	}
	for i, j := 0, len(parts)-1; i < j; i, j = i+1, j-1 {
		parts[i], parts[j] = parts[j], parts[i]
	}
	return strings.Join(parts, " -> ")
}

// paramValues: the parameter itself plus loads of the stack slot it was spilled to.
func isParamValue(v ssa.Value, par *ssa.Parameter) bool {
	if v == ssa.Value(par) {
		return true
	}
	if ld, ok := v.(*ssa.UnOp); ok && ld.Op == token.MUL {
		if al, ok := ld.X.(*ssa.Alloc); ok {
			for _, ref := range *al.Referrers() {
				if st, ok := ref.(*ssa.Store); ok && st.Addr == ssa.Value(al) && st.Val == ssa.Value(par) {
					return true
				}
			}
		}
	}
	return false
}

func dependsOnParams(v ssa.Value, fn *ssa.Function) bool {
	return dependsOn(v, func(x ssa.Value) bool {
		for _, par := range fn.Params {
			if isParamValue(x, par) {
				return true
			}
		}
		return false
	})
}

// retDeps[result index] = the result may depend on parameter i of fn.
func (t *taintState) retDeps(fn *ssa.Function, i int) []bool {
	type key struct {
		fn *ssa.Function
		i  int
	}
	if t.deps == nil {
		t.deps = map[interface{}][]bool{}
	}
	k := key{fn, i}
	if d, ok := t.deps[k]; ok {
		return d
	}
	n := fn.Signature.Results().Len()
	d := make([]bool, n)
	par := fn.Params[i]
	for _, ret := range returnsOf(fn) {
		for ri, res := range ret.Results {
			if ri < n && !d[ri] && dependsOnBarrier(res, func(x ssa.Value) bool { return isParamValue(x, par) }, t.cleanValue) {
				d[ri] = true
			}
		}
	}
	t.deps[k] = d
	return d
}

// cleanValue: the value is the result of a call whose result is clean by configuration, or has a
// type that cannot carry the tainted content (bool, numbers).
func (t *taintState) cleanValue(v ssa.Value) bool {
	if ex, ok := v.(*ssa.Extract); ok {
		v = ex.Tuple
	}
	if call, ok := v.(*ssa.Call); ok && t.cfg.cleanCall != nil && t.cfg.cleanCall(callName(&call.Call)) {
		return true
	}
	if call, ok := v.(*ssa.Call); ok && t.cfg.cleanSite != nil && t.cfg.cleanSite(call) {
		return true
	}
	return false
}
