package main

// Round 3 (H4): rules of C05 / C16 / C17 that were anchored in ONE function now look at the static
// call tree below the anchor:
//
//   - readHandshake (C05-sid, C16-challenge, C16-reply "challenge captured"): the per-line tests
//     and stores may live in same-package helpers and methods called - directly or through further
//     helpers - from readHandshake. Every helper occurrence is a *frame* (h4rFrame): the chain of
//     call sites from the anchor, the helper's parameters bound to the arguments of exactly that
//     chain (g5Env), and the branch conditions holding around every call of the chain. Values are
//     compared after resolving parameters to the outermost frame (g5Resolve), so "the same line" is
//     an identity of SSA values of readHandshake, not of names. Results are bound at the call site:
//     a value a helper hands back is looked at per return of the helper, restricted to the returns
//     compatible with what the caller tested on the other results (h4rResultAlts); an error a helper
//     hands back must be returned by the caller on every path on which it is non-nil (h4rErrReturned).
//   - sendHandshake (C16-reply ";PR response", auxiliary pair): the ;PR line is found by the text
//     that is written, wherever the write is; a string returned by a helper contributes one text
//     alternative per return of the helper, with the conditions of that return (h4TextAlts).
//   - C17-done: the spawner's deferred close may be made inside a function or method that the
//     deferred call (or the deferred closure) calls, on a channel field of the struct built for the
//     goroutine (h4rHelperCloses).
//
// As before: nothing keyed on a helper's name; depth limit 3; whatever cannot be bound is undecided.

import (
	"go/token"
	"strings"

	"golang.org/x/tools/go/ssa"
)

const h4rMaxDepth = 3

// h4rFrame is one way a same-package function is reached from the anchor by plain static calls.
type h4rFrame struct {
	fn    *ssa.Function
	chain []ssa.CallInstruction // call sites, outermost first; empty for the anchor itself
	env   g5Env                 // parameters of every function on the chain -> arguments of that chain
}

// h4rFrames lists the anchor and every occurrence of a same-package function below it (calls made
// by defer/go statements are not followed: the conditions at such a statement do not hold when the
// callee runs).
func h4rFrames(anchor *ssa.Function, maxDepth int) []h4rFrame {
	var out []h4rFrame
	var visit func(fn *ssa.Function, chain []ssa.CallInstruction, env g5Env, onStack map[*ssa.Function]bool)
	visit = func(fn *ssa.Function, chain []ssa.CallInstruction, env g5Env, onStack map[*ssa.Function]bool) {
		out = append(out, h4rFrame{fn, chain, env})
		if len(chain) >= maxDepth {
			return
		}
		onStack[fn] = true
		defer delete(onStack, fn)
		for _, ci := range allCalls(fn) {
			call, ok := ci.(*ssa.Call)
			if !ok {
				continue
			}
			callee := call.Call.StaticCallee()
			if callee == nil || callee.Blocks == nil || onStack[callee] || pkgRel(callee) != pkgRel(anchor) {
				continue
			}
			env2, ok := env.with(callee, call)
			if !ok {
				continue
			}
			visit(callee, append(chain[:len(chain):len(chain)], ssa.CallInstruction(call)), env2, onStack)
		}
	}
	visit(anchor, nil, g5Env{}, map[*ssa.Function]bool{})
	return out
}

// condsAt: the branch conditions that hold at block b of the frame's function: those dominating b
// and those dominating every call of the chain (in their own functions).
func (f h4rFrame) condsAt(b *ssa.BasicBlock) []Cond {
	out := append([]Cond(nil), condsAt(b)...)
	for _, site := range f.chain {
		out = append(out, condsAt(site.Block())...)
	}
	return out
}

// h4rStrTest: v is strings.<fn>(X, "<lit>") (through !); returns X and the polarity.
func h4rStrTest(v ssa.Value, fn, lit string) (x ssa.Value, positive bool, ok bool) {
	positive = true
	for {
		if u, isNot := v.(*ssa.UnOp); isNot && u.Op == token.NOT {
			v, positive = u.X, !positive
			continue
		}
		break
	}
	call, isCall := v.(*ssa.Call)
	if !isCall || callName(&call.Call) != "strings."+fn || len(call.Call.Args) != 2 {
		return nil, false, false
	}
	if s, isS := constString(call.Call.Args[1]); !isS || s != lit {
		return nil, false, false
	}
	return call.Call.Args[0], positive, true
}

// prefixFact: among the conditions at block b of frame f, the test HasPrefix(line, lit) is known to
// be `want` for the very line value `line` (an outermost-frame value).
func (f h4rFrame) prefixFact(b *ssa.BasicBlock, lit string, line ssa.Value, want bool) bool {
	for _, cd := range f.condsAt(b) {
		if x, pos, ok := h4rStrTest(cd.V, "HasPrefix", lit); ok && (cd.Truth == pos) == want && g5Resolve(x, f.env) == line {
			return true
		}
	}
	return false
}

// ---- C16-challenge ------------------------------------------------------------------------------------

// c16PromptTests: every evaluation of the prompt test HasSuffix(line, ">") in the call tree below
// the anchor is made only where HasPrefix(line, ";PQ") is known to be false for the same line - at
// the evaluation itself, or (the test hoisted into a local) at every branch that uses its result.
func c16PromptTests(c *Ctx, r *Report, fn *ssa.Function) {
	n := 0
	for _, f := range h4rFrames(fn, h4rMaxDepth) {
		for _, ci := range callsTo(f.fn, false, "strings.HasSuffix") {
			call, isCall := ci.(*ssa.Call)
			if !isCall {
				continue
			}
			x, _, ok := h4rStrTest(call, "HasSuffix", ">")
			if !ok {
				continue
			}
			n++
			line := g5Resolve(x, f.env)
			notPQ := f.prefixFact(call.Block(), ";PQ", line, false)
			if !notPQ {
				// use points: all uses are branches (through !), each on the not-;PQ edge
				var ifs []*ssa.If
				all := true
				var uses func(v ssa.Value, d int)
				uses = func(v ssa.Value, d int) {
					if v.Referrers() == nil || d > 3 {
						return
					}
					for _, ref := range *v.Referrers() {
						switch u := ref.(type) {
						case *ssa.If:
							ifs = append(ifs, u)
						case *ssa.UnOp:
							uses(u, d+1)
						case *ssa.DebugRef:
						default:
							all = false
						}
					}
				}
				uses(call, 0)
				notPQ = all && len(ifs) > 0
				for _, ifi := range ifs {
					if !f.prefixFact(ifi.Block(), ";PQ", line, false) {
						notPQ = false
					}
				}
			}
			r.Check("C16-challenge", fnName(fn), "prompt test", c.pos(call.Pos()), notPQ,
				"made only for lines that are not ;PQ lines", "the prompt test (line ends in '>') is made before the ;PQ test: a challenge ending in '>' is taken for the prompt, no challenge is recorded, no ;PR is sent - and a session without a login callback carries on instead of failing")
		}
	}
	if n == 0 {
		r.Add("C16-challenge", fnName(fn), "prompt test", c.pos(fn.Pos())).Bad("no test of the prompt suffix '>' found in readHandshake (unresolved)")
	}
}

// ---- values handed back by helpers --------------------------------------------------------------------

// h4rResultAlts: the values v can stand for. v is used at block `at` of frame f. If v is result i
// of a static call of a same-package function, there is one alternative per return of that
// function - except the returns that contradict what the caller knows at `at` about the OTHER
// results of the same call (a comma-ok style `if x, ok := h(..); ok {`: only the returns whose ok
// can be true). Each alternative is the returned value with the callee's parameters bound (env).
// Anything else: v itself. ok is false when a callee has no return left.
type h4rVal struct {
	v   ssa.Value
	env g5Env
}

func h4rResultAlts(v ssa.Value, f h4rFrame, at *ssa.BasicBlock, depth int) ([]h4rVal, bool) {
	self := []h4rVal{{v, f.env}}
	var call *ssa.Call
	idx := 0
	switch x := v.(type) {
	case *ssa.Call:
		call = x
	case *ssa.Extract:
		call, _ = x.Tuple.(*ssa.Call)
		idx = x.Index
	}
	if call == nil || depth >= h4rMaxDepth {
		return self, true
	}
	callee := call.Call.StaticCallee()
	if callee == nil || callee.Blocks == nil || pkgRel(callee) != pkgRel(f.fn) || callee == f.fn || callee.Signature.Results().Len() <= idx {
		return self, true
	}
	env2, ok := f.env.with(callee, call)
	if !ok {
		return self, true
	}
	// what the caller knows about the other results
	known := map[int]bool{}
	for _, cd := range condsAt(at) {
		val, truth := cd.V, cd.Truth
		for {
			if u, isNot := val.(*ssa.UnOp); isNot && u.Op == token.NOT {
				val, truth = u.X, !truth
				continue
			}
			break
		}
		if ex, isEx := val.(*ssa.Extract); isEx && ex.Tuple == ssa.Value(call) && ex.Index != idx {
			known[ex.Index] = truth
		}
	}
	var out []h4rVal
	sub := h4rFrame{callee, append(f.chain[:len(f.chain):len(f.chain)], ssa.CallInstruction(call)), env2}
	for _, ret := range returnsOf(callee) {
		if len(ret.Results) <= idx {
			continue
		}
		excluded := false
		for j, want := range known {
			if j < len(ret.Results) {
				if b, isC := constBool(resOf(ret, j)); isC && b != want {
					excluded = true
				}
			}
		}
		if excluded {
			continue
		}
		alts, ok := h4rResultAlts(resOf(ret, idx), sub, ret.Block(), depth+1)
		if !ok {
			return nil, false
		}
		out = append(out, alts...)
	}
	return out, len(out) > 0
}

// ---- C16-reply: the challenge is taken from the ;PQ line ------------------------------------------------

// c16ChallengeCaptured: somewhere in the call tree below the anchor a store to the field
// SecureChallenge is made where HasPrefix(line, ";PQ") holds, and every value the store can write
// there is a slice of that very line (directly, or handed back by a helper that received the
// line). When the store is made in a helper, the struct written must be the one the anchor
// returns: the address resolves to a local of the anchor that the anchor's returns load.
func c16ChallengeCaptured(c *Ctx, fn *ssa.Function) bool {
	found := false
	for _, f := range h4rFrames(fn, h4rMaxDepth) {
		eachInstr(f.fn, func(_ *ssa.BasicBlock, _ int, instr ssa.Instruction) {
			st, ok := instr.(*ssa.Store)
			if !ok || !strings.HasSuffix(pathOf(st.Addr), ".SecureChallenge") {
				return
			}
			// the line this store is made for
			var line ssa.Value
			for _, cd := range f.condsAt(st.Block()) {
				if x, pos, ok := h4rStrTest(cd.V, "HasPrefix", ";PQ"); ok && cd.Truth == pos {
					line = g5Resolve(x, f.env)
				}
			}
			if line == nil {
				return
			}
			alts, ok := h4rResultAlts(st.Val, f, st.Block(), 0)
			if !ok {
				return
			}
			nonEmpty := false
			for _, cd := range condsAt(st.Block()) {
				if h4NonEmptyFact(cd, st.Val) {
					nonEmpty = true
				}
			}
			for _, a := range alts {
				if s, isC := constString(a.v); isC && s == "" && nonEmpty {
					continue // "no challenge" answer of a helper, excluded by the caller's test
				}
				sl, isSl := a.v.(*ssa.Slice)
				if !isSl || g5Resolve(sl.X, a.env) != line {
					return
				}
			}
			if len(f.chain) > 0 {
				fa, isFA := st.Addr.(*ssa.FieldAddr)
				if !isFA {
					return
				}
				al, isAl := g5Resolve(fa.X, f.env).(*ssa.Alloc)
				if !isAl || al.Parent() != fn {
					return
				}
				returned := false
				for _, ret := range returnsOf(fn) {
					for _, res := range ret.Results {
						if ld, isLd := res.(*ssa.UnOp); isLd && ld.Op == token.MUL && ld.X == ssa.Value(al) {
							returned = true
						}
					}
				}
				if !returned {
					return
				}
			}
			found = true
		})
	}
	return found
}

// ---- C05-sid: ErrNoFB2 reaches the anchor's error result --------------------------------------------------

// h4rErrReturned: the error ev that the call `site` hands back is returned by the function
// containing the call whenever it is not nil: following the branch structure from the call with
// "ev != nil" known (tests of ev against nil are decided, every other branch is followed both ways),
// every path ends in a return whose error result is ev itself; no path runs into the call again.
func h4rErrReturned(site *ssa.Call, ev ssa.Value) bool {
	fn := site.Parent()
	ok := true
	seen := map[*ssa.BasicBlock]bool{}
	var scan func(b *ssa.BasicBlock, from int)
	scan = func(b *ssa.BasicBlock, from int) {
		for _, in := range b.Instrs[from:] {
			if in == ssa.Instruction(site) {
				ok = false // the loop goes round with the error dropped
				return
			}
		}
		next := func(s *ssa.BasicBlock) {
			if !seen[s] {
				seen[s] = true
				scan(s, 0)
			}
		}
		switch t := b.Instrs[len(b.Instrs)-1].(type) {
		case *ssa.Return:
			n := len(t.Results)
			if b == fn.Recover || n == 0 || resOf(t, n-1) != ev {
				ok = false
			}
		case *ssa.If:
			if x, neq, isNil := g5NilCompare(t.Cond); isNil && (x == ev || origin(x) == ev) {
				if neq {
					next(b.Succs[0])
				} else {
					next(b.Succs[1])
				}
				return
			}
			next(b.Succs[0])
			next(b.Succs[1])
		case *ssa.Jump:
			next(b.Succs[0])
		}
	}
	scan(site.Block(), instrIndex(site)+1)
	return ok
}

// c05SidRefused: a return in the call tree below the anchor yields the package's ErrNoFB2 on the
// false edge of a SID.Has("B2") test, and on the way up every caller returns the helper's error
// whenever it is not nil - so the anchor itself returns it.
func c05SidRefused(c *Ctx, fn *ssa.Function) bool {
	for _, f := range h4rFrames(fn, h4rMaxDepth) {
		for _, ret := range returnsOf(f.fn) {
			n := len(ret.Results)
			if n == 0 {
				continue
			}
			ld, ok := resOf(ret, n-1).(*ssa.UnOp)
			if !ok || !strings.HasSuffix(pathOf(ld), "fbb.ErrNoFB2") {
				continue
			}
			tested := false
			for _, cd := range condsAt(ret.Block()) {
				if call, ok := cd.V.(*ssa.Call); ok && callName(&call.Call) == "fbb.sid.Has" && !cd.Truth {
					if s, ok := constString(call.Call.Args[1]); ok && s == "B2" {
						tested = true
					}
				}
			}
			if !tested {
				continue
			}
			up := true
			for _, site := range f.chain {
				call := site.(*ssa.Call)
				ev := errResult(call)
				if ev == nil || !h4rErrReturned(call, ev) {
					up = false
				}
			}
			if up {
				return true
			}
		}
	}
	return false
}

// ---- C16-reply: the ;PR line, found by what is written -------------------------------------------------

// h4rPROcc is one way a ;PR line is written below the anchor. call is the instruction at which the
// response value enters the line: the write itself, or - when the written value is a parameter of
// the function containing the write - the call that passes it (so a writer helper that only formats
// is looked through, as writeSecureLoginResponse always was); chain are the calls above it.
type h4rPROcc struct {
	g5Occurrence
	resp  ssa.Value           // the value written as response, in the frame of call; nil if not resolved
	write ssa.CallInstruction // the write
	exact bool                // the text is exactly ";PR: " + <value> + "\r"
	text  string
}

func h4rPRWrites(anchor *ssa.Function, isResp func(ssa.Value) bool) []h4rPROcc {
	var out []h4rPROcc
	for _, f := range h4rFrames(anchor, h4rMaxDepth) {
		for _, ci := range allCalls(f.fn) {
			if _, isCall := ci.(*ssa.Call); !isCall {
				continue
			}
			alts, ok := h4WrittenText(ci, isResp)
			if !ok {
				continue
			}
			isPR := false
			for _, a := range alts {
				if l := h4Merge(a.leaves); len(l) > 0 && l[0].kind == h4Const && strings.HasPrefix(l[0].s, ";PR") {
					isPR = true
				}
			}
			if !isPR {
				continue
			}
			occ := h4rPROcc{g5Occurrence: g5Occurrence{chain: f.chain, call: ci}, write: ci}
			if len(alts) == 1 {
				l := h4Merge(alts[0].leaves)
				occ.text = h4Render(l)
				if len(l) == 3 && l[1].kind != h4Const && l[2].kind == h4Const {
					occ.exact = l[0].s == ";PR: " && l[2].s == "\r"
					occ.resp = l[1].v
				}
			}
			// a value that is a parameter of the writing function enters at the call that passes it
			for occ.resp != nil && len(occ.chain) > 0 {
				p, isP := unwrap(occ.resp).(*ssa.Parameter)
				if !isP || p.Parent() != occ.call.Parent() {
					break
				}
				site := occ.chain[len(occ.chain)-1]
				arg := g9ParamArg(p, site)
				if arg == nil {
					break
				}
				occ.resp, occ.call, occ.chain = arg, site, occ.chain[:len(occ.chain)-1]
			}
			out = append(out, occ)
		}
	}
	return out
}

// ---- C17-done: the close made inside a function the spawner calls ----------------------------------------

// h4rRoot: a pointer kept in a local variable that is assigned exactly once (it is captured by a
// closure, e.g. the deferred one) is the value stored there.
func h4rRoot(v ssa.Value) ssa.Value {
	for i := 0; i < 4 && v != nil; i++ {
		v = h4StripArg(v)
		ld, ok := v.(*ssa.UnOp)
		if !ok || ld.Op != token.MUL {
			return v
		}
		al := g9SlotOf(ld.X)
		if al == nil || g9StoreCount(al) != 1 {
			return v
		}
		var stored ssa.Value
		for _, ref := range *al.Referrers() {
			if st, ok := ref.(*ssa.Store); ok && st.Addr == ssa.Value(al) {
				stored = st.Val
			}
		}
		if stored == nil {
			return v
		}
		v = stored
	}
	return v
}

// h4rCallCloses: the channels - named in the spawner's terms (h4SpawnerChan) - that a static call
// of a module function closes: the callee executes close(X) on every path to its returns, X being
// a channel parameter or a channel field of a struct parameter, bound to the argument of this call;
// for a field the struct must be one built for the goroutine whose field is set exactly once. A
// close the callee makes only on some paths, or on anything else, is not counted.
func (c *Ctx) h4rCallCloses(com *ssa.CallCommon) []string {
	if com.IsInvoke() {
		return nil
	}
	callee := com.StaticCallee()
	if callee == nil || callee.Blocks == nil || !c.inModule(callee) || len(callee.Params) != len(com.Args) {
		return nil
	}
	argOf := func(v ssa.Value) ssa.Value {
		if p, ok := v.(*ssa.Parameter); ok {
			for i, q := range callee.Params {
				if q == p {
					return com.Args[i]
				}
			}
		}
		return nil
	}
	var out []string
	for _, ci := range callsTo(callee, false, "builtin.close") {
		call, ok := ci.(*ssa.Call)
		if !ok || !g9AlwaysRuns(call) {
			continue
		}
		x := h4StripArg(call.Call.Args[0])
		if a := argOf(x); a != nil {
			if n := c.h4SpawnerChan(h4rRoot(a), 0); n != "" {
				out = append(out, n)
			}
			continue
		}
		ld, ok := x.(*ssa.UnOp)
		if !ok || ld.Op != token.MUL {
			continue
		}
		fa, ok := ld.X.(*ssa.FieldAddr)
		if !ok {
			continue
		}
		a := argOf(fa.X)
		if a == nil {
			continue
		}
		// the callee must not re-assign the field before closing it
		stored := false
		eachInstr(callee, func(_ *ssa.BasicBlock, _ int, in ssa.Instruction) {
			if st, ok := in.(*ssa.Store); ok {
				if f2, ok := st.Addr.(*ssa.FieldAddr); ok && f2.Field == fa.Field && f2.X.Type() == fa.X.Type() {
					stored = true
				}
			}
		})
		if stored {
			continue
		}
		name, n := "", 0
		for _, fi := range c.h4FieldInits(a) {
			if fi.field == fieldName(fa.X.Type(), fa.Field) {
				name = h4InitName(c.h4SpawnerChan(fi.val, 0), fi, a)
				n++
			}
		}
		if n == 1 && name != "" {
			out = append(out, name)
		}
	}
	return out
}

// h4rSpilledParam: al is the stack slot go/ssa copies a by-value parameter into (its address is
// taken, e.g. for a field access) and nothing else is ever stored into it or into a part of it:
// every load of it, or of a field of it, yields the parameter's value. Returns the parameter.
func h4rSpilledParam(al *ssa.Alloc) *ssa.Parameter {
	if al.Referrers() == nil {
		return nil
	}
	var par *ssa.Parameter
	writes := 0
	var scan func(addr ssa.Value, d int)
	scan = func(addr ssa.Value, d int) {
		if addr.Referrers() == nil || d > 3 {
			return
		}
		for _, ref := range *addr.Referrers() {
			switch x := ref.(type) {
			case *ssa.Store:
				if x.Addr == addr {
					writes++
					if p, ok := x.Val.(*ssa.Parameter); ok && addr == ssa.Value(al) && p.Parent() == al.Parent() {
						par = p
					}
				} else {
					writes += 2 // the address escapes
				}
			case *ssa.FieldAddr:
				scan(x, d+1)
			case *ssa.IndexAddr:
				scan(x, d+1)
			case *ssa.MakeClosure:
				writes += 2
			case ssa.CallInstruction:
				for _, a := range x.Common().Args {
					if a == addr {
						writes += 2 // handed to a callee by address
					}
				}
			}
		}
	}
	scan(al, 0)
	if writes != 1 {
		return nil
	}
	return par
}

// h4rAlwaysWrites: the call runs a same-package function that performs a plain write (Fprintf,
// WriteString, ...) on every path to its returns - an iteration that makes this call writes something.
func h4rAlwaysWrites(ci ssa.CallInstruction) bool {
	call, ok := ci.(*ssa.Call)
	if !ok || call.Parent() == nil {
		return false
	}
	callee := call.Call.StaticCallee()
	if callee == nil || callee.Blocks == nil || pkgRel(callee) != pkgRel(call.Parent()) {
		return false
	}
	for _, in := range allCalls(callee) {
		if k, isCall := in.(*ssa.Call); isCall && h4PlainWrite[callName(&k.Call)] && g9AlwaysRuns(k) {
			return true
		}
	}
	return false
}

// h4rFieldOf: v is a field loaded from the object that resolves, through the parameter bindings of
// env, to root (e.g. the receiver of a helper method bound to the receiver of the anchor).
func h4rFieldOf(v ssa.Value, env g5Env, root ssa.Value) bool {
	ld, ok := v.(*ssa.UnOp)
	if !ok || ld.Op != token.MUL {
		return false
	}
	fa, ok := ld.X.(*ssa.FieldAddr)
	return ok && g5Resolve(fa.X, env) == root
}
