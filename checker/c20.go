package main

// C20 — position reports state the given position in valid Winlink format.

import (
	"fmt"
	"go/token"
	"go/types"
	"strings"

	"golang.org/x/tools/go/ssa"
)

func init() {
	register("C20", false,
		"Structural necessary conditions decided from source: (C20-format) every constant format that can reach the Sprintf of decToMinDec has the shape DD-MM.MMMMH / DDD-MM.MMMMH: zero-padded degrees of width 2 on the latitude edge and 3 on the longitude edge with precision 0, '-', zero-padded minutes of width 7 precision 4, one %c; (C20-hemi) the hemisphere letter reaching %c is N/S under latitude and E/W under longitude, N/E only where the value is known non-negative and S/W only where negative (decided by enumerating kind x sign and following the branch structure, through same-package helpers and local closures that select the letter, with parameters bound to the arguments); (C20-course) NewCourse formats the degrees zero-padded to width 3 and the value formatted is proven within [0,359] (guards on the parameter) - or stores the three digit bytes one by one, each recognised as '0' + the hundreds/tens/units digit (written with / and % by 10 and 100) of one value derived from the parameter and proven within [0,359] -, the stringer appends M exactly on the Magnetic edge and T otherwise; (C20-optional) every dereference of an optional pointer field of PosReport in Message - and in the same-package helpers and local closures Message calls to assemble the text - is dominated by its non-nil test and each optional line is written only on that edge (formats are folded through helper parameters; the conditions at every call on the way to the write count); (C20-valid) Message sets a non-empty body, subject and recipient on every path before returning (so Validate cannot fail on them), the body being a buffer that received a line with a literal prefix on every path, possibly returned by a helper. NOT decided: numeric accuracy and the 'minutes < 60' clause (floating-point rounding of values: 10.9999999 prints 10-60.0000N) - a value property no structural rule reaches.",
		checkC20)
}

type fmtVerb struct {
	lit   string // literal text before the verb
	flags string
	width int
	prec  int
	verb  byte
	// width / precision given as '*': taken from the argument list (ip_h5.go evaluates it per case)
	widthStar, precStar bool
}

func parseVerbs(format string) (verbs []fmtVerb, tail string) {
	lit := ""
	for i := 0; i < len(format); i++ {
		if format[i] != '%' {
			lit += string(format[i])
			continue
		}
		i++
		if i < len(format) && format[i] == '%' {
			lit += "%"
			continue
		}
		v := fmtVerb{lit: lit, width: -1, prec: -1}
		lit = ""
		for i < len(format) && strings.ContainsRune("+-# 0", rune(format[i])) {
			v.flags += string(format[i])
			i++
		}
		if i < len(format) && format[i] == '*' {
			v.widthStar = true
			i++
		}
		if i < len(format) && format[i] >= '0' && format[i] <= '9' {
			v.width = 0
			for i < len(format) && format[i] >= '0' && format[i] <= '9' {
				v.width = v.width*10 + int(format[i]-'0')
				i++
			}
		}
		if i < len(format) && format[i] == '.' {
			i++
			v.prec = 0
			if i < len(format) && format[i] == '*' {
				v.precStar = true
				i++
			}
			for i < len(format) && format[i] >= '0' && format[i] <= '9' {
				v.prec = v.prec*10 + int(format[i]-'0')
				i++
			}
		}
		if i < len(format) {
			v.verb = format[i]
		}
		verbs = append(verbs, v)
	}
	return verbs, lit
}

// condOnParam finds, among the conditions holding at block b (plus the condition on the edge from
// b to succ when given), the truth value of a bare boolean parameter.
func boolParamAt(b *ssa.BasicBlock, to *ssa.BasicBlock, name string) (truth, known bool) {
	conds := condsAt(b)
	if to != nil {
		if ifi, ok := b.Instrs[len(b.Instrs)-1].(*ssa.If); ok && b.Succs[0] != b.Succs[1] {
			conds = append(conds, Cond{ifi.Cond, b.Succs[0] == to, ifi})
		}
	}
	for _, cd := range conds {
		v := cd.V
		t := cd.Truth
		for {
			if u, ok := v.(*ssa.UnOp); ok && u.Op == token.NOT {
				v, t = u.X, !t
				continue
			}
			break
		}
		if p, ok := v.(*ssa.Parameter); ok && p.Name() == name {
			return t, true
		}
		if ld, ok := v.(*ssa.UnOp); ok && ld.Op == token.MUL && pathOf(ld) == name {
			return t, true
		}
	}
	return false, false
}

func checkC20(c *Ctx, r *Report) {
	const pkg = "catalog"
	if c.Pkg(pkg) == nil {
		r.Fail("anchor", "package catalog not found")
		return
	}
	pr := newProver(c)

	// ---- C20-format and C20-hemi in decToMinDec
	r.Rule("C20-format", 2, "coordinate format strings")
	r.Rule("C20-hemi", 6, "hemisphere letter for each coordinate kind and sign")
	if fn := c.Func(pkg, "decToMinDec"); fn == nil {
		r.Fail("C20-format", "anchor catalog.decToMinDec not found")
	} else {
		where := fnName(fn)
		calls := callsTo(fn, false, "fmt.Sprintf")
		if len(calls) == 0 {
			r.Fail("C20-format", "decToMinDec no longer formats with fmt.Sprintf: the format rules cannot be applied (unresolved, see DESIGN.md C20)")
		}
		latParam := ""
		for _, p := range fn.Params {
			if b, ok := p.Type().Underlying().(*types.Basic); ok && b.Kind() == types.Bool {
				latParam = p.Name()
			}
		}
		for _, ci := range calls {
			fv := ci.Common().Args[0]
			type cand struct {
				s      string
				lat    bool
				latKnw bool
			}
			var cands []cand
			if s, ok := constString(fv); ok {
				t, k := boolParamAt(ci.Block(), nil, latParam)
				cands = append(cands, cand{s, t, k})
			} else if ph, ok := fv.(*ssa.Phi); ok {
				for i, e := range ph.Edges {
					s, ok := constString(e)
					if !ok {
						r.Add("C20-format", where, "format operand", c.pos(ci.Pos())).Bad("a non-constant format can reach Sprintf (unresolved)")
						continue
					}
					pred := ph.Block().Preds[i]
					t, k := boolParamAt(pred, ph.Block(), latParam)
					cands = append(cands, cand{s, t, k})
				}
			} else {
				// neither a constant nor a phi of constants (a field of a table entry selected by the flag,
				// a helper's result): judged per enumerated case, which reports what it cannot resolve
				h5CaseFormat(c, r, fn, where, ci, latParam)
			}
			// a format whose use (latitude / longitude) is not given by a branch on the flag around it,
			// or whose width is passed as an argument ('*'), is judged per enumerated case instead:
			// the case selects the format and the width that reach the call (ip_h5.go)
			byCase := false
			for _, cd := range cands {
				vs, _ := parseVerbs(cd.s)
				for _, v := range vs {
					if v.widthStar || v.precStar {
						byCase = true
					}
				}
				if !cd.latKnw {
					byCase = true
				}
			}
			if byCase {
				cands = nil
				h5CaseFormat(c, r, fn, where, ci, latParam)
			}
			for _, cd := range cands {
				o := r.Add("C20-format", where, fmt.Sprintf("format %q", cd.s), c.pos(ci.Pos()))
				verbs, tail := parseVerbs(cd.s)
				wantW := 3
				kind := "longitude"
				if cd.lat {
					wantW, kind = 2, "latitude"
				}
				switch {
				case !cd.latKnw:
					o.Bad("cannot tell whether this format is used for latitude or longitude")
				case len(verbs) != 3 || tail != "":
					o.Bad("%s format must be degrees, '-', minutes, hemisphere letter; found %d verbs and tail %q", kind, len(verbs), tail)
				case verbs[0].verb != 'f' || !strings.Contains(verbs[0].flags, "0") || verbs[0].width != wantW || verbs[0].prec != 0 || verbs[0].lit != "":
					o.Bad("%s degrees must be formatted %%0%d.0f (zero padded, width %d, no decimals); found flags %q width %d precision %d verb %c", kind, wantW, wantW, verbs[0].flags, verbs[0].width, verbs[0].prec, verbs[0].verb)
				case verbs[1].lit != "-" || verbs[1].verb != 'f' || !strings.Contains(verbs[1].flags, "0") || verbs[1].width != 7 || verbs[1].prec != 4:
					o.Bad("minutes must follow '-' and be formatted %%07.4f (MM.MMMM); found literal %q flags %q width %d precision %d verb %c", verbs[1].lit, verbs[1].flags, verbs[1].width, verbs[1].prec, verbs[1].verb)
				case verbs[2].lit != "" || verbs[2].verb != 'c' || verbs[2].width > 1:
					o.Bad("the hemisphere letter must follow the minutes directly as %%c")
				default:
					o.OK("%s: zero-padded degrees width %d, '-', minutes %%07.4f, hemisphere %%c", kind, wantW)
				}
			}
			// hemisphere letter: the argument formatted by the last verb (the third argument, unless a
			// '*' width or precision takes an argument before it)
			if len(ci.Common().Args) == 2 {
				if sl, ok := ci.Common().Args[1].(*ssa.Slice); ok {
					// find store to that element of the varargs array
					letterIdx := h5LetterArg(fv)
					var letter ssa.Value
					if al, ok := sl.X.(*ssa.Alloc); ok {
						for _, ref := range *al.Referrers() {
							ia, ok := ref.(*ssa.IndexAddr)
							if !ok {
								continue
							}
							if k, _ := constInt(ia.Index); k != letterIdx {
								continue
							}
							for _, r2 := range *ia.Referrers() {
								if st, ok := r2.(*ssa.Store); ok {
									letter = unwrap(st.Val)
								}
							}
						}
					}
					c20hemi(c, r, pr, fn, where, letter, latParam, ci)
				}
			}
		}
	}

	// ---- C20-course
	r.Rule("C20-course", 3, "course formatting")
	if fn := c.Func(pkg, "NewCourse"); fn == nil {
		r.Fail("C20-course", "anchor catalog.NewCourse not found")
	} else {
		where := fnName(fn)
		// fmt.Appendf(nil, format, ...) yields the bytes Sprintf yields as a string (ip_h5.go)
		calls := callsTo(fn, false, "fmt.Sprintf", "fmt.Appendf")
		if len(calls) == 0 && c20courseDigits(c, r, pr, fn) {
			// the digits are computed arithmetically and were examined one by one (below)
		} else if len(calls) != 1 {
			r.Fail("C20-course", "NewCourse has %d fmt.Sprintf calls, expected the one formatting the degrees, and does not assign the three digits one by one either (unresolved)", len(calls))
		} else {
			ci := calls[0]
			fi := h5FormatIndex(ci)
			o := r.Add("C20-course", where, "degrees format", c.pos(ci.Pos()))
			if s, ok := constString(ci.Common().Args[fi]); !ok {
				o.Bad("format is not constant (unresolved)")
			} else if fi > 0 && !h5EmptySlice(ci.Common().Args[0]) {
				o.Bad("the degrees are appended to a buffer that is not known to be empty: the three digit positions would hold what was there before")
			} else {
				verbs, tail := parseVerbs(s)
				if len(verbs) == 1 && tail == "" && verbs[0].lit == "" && verbs[0].verb == 'd' && verbs[0].width == 3 && strings.Contains(verbs[0].flags, "0") && !strings.ContainsAny(verbs[0].flags, "+ -") {
					o.OK("degrees formatted %q: three digits, zero padded", s)
				} else {
					o.Bad("degrees formatted %q: the position report needs exactly three digits (%%03d); e.g. 5 would not print as 005", s)
				}
			}
			// the formatted value is within [0, 999] — in fact [0,359]
			o = r.Add("C20-course", where, "formatted value within three digits", c.pos(ci.Pos()))
			var arg ssa.Value
			if sl, ok := ci.Common().Args[fi+1].(*ssa.Slice); ok {
				if al, ok := sl.X.(*ssa.Alloc); ok {
					for _, ref := range *al.Referrers() {
						if ia, ok := ref.(*ssa.IndexAddr); ok {
							for _, r2 := range *ia.Referrers() {
								if st, ok := r2.(*ssa.Store); ok {
									arg = unwrap(st.Val)
								}
							}
						}
					}
				}
			}
			if arg == nil {
				o.Bad("could not identify the value formatted")
			} else if h5Within(pr, arg, 0, 359, ci) {
				o.OK("0 <= %s <= 359 at the call (guards on the parameter; 360 is mapped to 0)", pathOf(arg))
			} else if h5Within(pr, arg, 0, 999, ci) {
				o.Bad("the value formatted is within three digits but 360 is not normalised to 000 (0 <= v <= 359 not established)")
			} else {
				o.Bad("the value formatted is not proven within [0,359]: more than three digits or a sign could be printed")
			}
		}
	}
	// every course NewCourse hands out carries the caller's reference (magnetic / true)
	if fn := c.Func(pkg, "NewCourse"); fn != nil {
		var magPar *ssa.Parameter
		for _, p := range fn.Params {
			if b, ok := p.Type().Underlying().(*types.Basic); ok && b.Kind() == types.Bool {
				magPar = p
			}
		}
		for _, ret := range returnsOf(fn) {
			v := resOf(ret, 0)
			if isNilConst(v) {
				continue
			}
			o := r.Add("C20-course", fnName(fn), "returned course carries the reference asked for", c.pos(ret.Pos()))
			al, ok := v.(*ssa.Alloc)
			if !ok || magPar == nil {
				o.Bad("could not identify the Course value returned (unresolved)")
				continue
			}
			good, other := false, false
			var scan func(al *ssa.Alloc, depth int)
			scan = func(al *ssa.Alloc, depth int) {
				for _, ref := range *al.Referrers() {
					switch x := ref.(type) {
					case *ssa.FieldAddr:
						if !strings.HasSuffix(pathOf(x), ".Magnetic") {
							continue
						}
						for _, r2 := range *x.Referrers() {
							if st, ok := r2.(*ssa.Store); ok {
								if sameSlotValue(st.Val, magPar) {
									good = true
								} else {
									other = true
								}
							}
						}
					case *ssa.Store:
						// whole-struct copy from a composite literal built in a temporary
						if x.Addr == ssa.Value(al) && depth < 3 {
							if ld, ok := x.Val.(*ssa.UnOp); ok && ld.Op == token.MUL {
								if src, ok := ld.X.(*ssa.Alloc); ok {
									scan(src, depth+1)
									continue
								}
							}
							other = true
						}
					}
				}
			}
			scan(al, 0)
			if good && !other {
				o.OK("Magnetic is the caller's argument")
			} else {
				o.Bad("a Course is returned whose Magnetic field is not the caller's argument (e.g. a literal built on a boundary path): NewCourse(360, true) prints 000T instead of 000M")
			}
		}
	}
	if fn := c.Func(pkg, "(Course).String"); fn == nil {
		r.Fail("C20-course", "anchor catalog.Course.String not found")
	} else {
		where := fnName(fn)
		for _, ci := range callsTo(fn, false, "fmt.Sprintf") {
			s, ok := constString(ci.Common().Args[0])
			o := r.Add("C20-course", where, fmt.Sprintf("suffix format %q", s), c.pos(ci.Pos()))
			if !ok {
				o.Bad("format is not constant (unresolved)")
				continue
			}
			mag, known := false, false
			for _, cd := range condsAt(ci.Block()) {
				if strings.HasSuffix(pathOf(cd.V), ".Magnetic") {
					mag, known = cd.Truth, true
				}
			}
			want := "%sT"
			if mag {
				want = "%sM"
			}
			switch {
			case !known:
				o.Bad("the call is not on a branch of the Magnetic flag")
			case s != want:
				o.Bad("on the Magnetic=%v edge the course is formatted %q, expected %q (digits followed by the letter)", mag, s, want)
			default:
				o.OK("Magnetic=%v edge formats %q", mag, s)
			}
		}
	}

	// the suffix clause for a stringer that does not (only) use Sprintf: by case on the flag (ip_h5.go)
	if fn := c.Func(pkg, "(Course).String"); fn != nil {
		h5StringerSuffix(c, r, fn)
	}

	// ---- C20-optional and C20-valid in PosReport.Message
	r.Rule("C20-optional", 4, "optional fields dereferenced only under their non-nil test")
	r.Rule("C20-valid", 3, "body, subject and recipient always set")
	if fn := c.Func(pkg, "(PosReport).Message"); fn == nil {
		r.Fail("C20-optional", "anchor catalog.PosReport.Message not found")
	} else {
		where := fnName(fn)
		// the body may be assembled in same-package helpers / local closures that Message calls:
		// the rules look at Message and at everything it calls statically there (ip_g9.go)
		for _, sf := range g9Scope(fn) {
			c20derefs(c, r, sf)
		}
		// every line of an optional (pointer) field is written under the non-nil tests of optional
		// fields and under nothing else - whatever helper computes the value printed, and whichever
		// helper does the writing (the format is folded with the helper's parameters bound to the
		// arguments; the conditions are those at the write and at every call on the way to it)
		optLabels := map[string]bool{}
		g9Lines(c, fn, nil, nil, func(l g9Line) {
			label := ""
			for _, lb := range []string{"LATITUDE", "LONGITUDE", "SPEED", "COURSE"} {
				if strings.HasPrefix(l.format, lb+":") {
					label = lb
				}
			}
			if label == "" {
				return
			}
			optLabels[label] = true
			extra, nilTests := "", 0
			for _, cd := range l.conds {
				if g9NilTestOfField(cd) {
					nilTests++
					continue
				}
				if cd.note != "" {
					extra = cd.note
					continue
				}
				extra = c.exprAt(cd.fn, cd.V.Pos())
				if extra == "" {
					extra = pathOf(cd.V)
				}
			}
			o := r.Add("C20-optional", where, "line "+label+" written iff set", c.pos(l.labelAt().Pos()))
			switch {
			case extra != "":
				o.Bad("the %s line is conditional on %s, which is not a non-nil test of the optional field: a field that is set (e.g. a speed of exactly zero) is silently omitted, or an unset one printed", label, extra)
			case nilTests == 0:
				o.Bad("the %s line is written unconditionally although its field is optional", label)
			default:
				o.OK("written exactly under the non-nil test(s) of the optional field(s)")
			}
		})
		for _, l := range []string{"LATITUDE", "LONGITUDE", "SPEED", "COURSE"} {
			if !optLabels[l] {
				r.Add("C20-optional", where, "line "+l+" written iff set", c.pos(fn.Pos())).Bad("no write of a %s line with a constant label found (unresolved)", l)
			}
		}
		// C20-valid
		type need struct {
			callee string
			what   string
		}
		for _, n := range []need{{"fbb.Message.SetBody", "body"}, {"fbb.Message.SetSubject", "subject"}, {"fbb.Message.AddTo", "recipient"}} {
			// the call is made by Message itself or by a helper Message always calls
			ci, chain, domAll, found := g9Establishing(fn, n.callee, nil)
			o := r.Add("C20-valid", where, n.callee, c.pos(fn.Pos()))
			if !found {
				o.Bad("no call of %s: the message would fail Validate (%s missing)", n.callee, n.what)
				continue
			}
			nonEmpty := false
			arg := ci.Common().Args[1]
			switch n.what {
			case "body":
				// a non-blank constant, or buf.String() of a buffer that received a write with a non-empty
				// literal prefix on every path - possibly returned by a helper that assembles the text
				nonEmpty = g9NonEmptyText(c, ci.Parent(), arg, ci, chain, 0)
			case "subject":
				s, ok := constString(g9Up(arg, chain))
				nonEmpty = ok && strings.TrimSpace(s) != ""
			case "recipient":
				if sl, ok := arg.(*ssa.Slice); ok {
					if al, ok := sl.X.(*ssa.Alloc); ok {
						for _, ref := range *al.Referrers() {
							if ia, ok := ref.(*ssa.IndexAddr); ok {
								for _, r2 := range *ia.Referrers() {
									if st, ok := r2.(*ssa.Store); ok {
										if s, ok := constString(g9Up(st.Val, chain)); ok && s != "" {
											nonEmpty = true
										}
									}
								}
							}
						}
					}
				}
			}
			switch {
			case !domAll:
				o.Bad("%s is not called on every path to the return: %s can be missing", n.callee, n.what)
			case !nonEmpty:
				o.Bad("%s is called with a value not established non-empty", n.callee)
			default:
				o.OK("called on every path with a non-empty %s", n.what)
			}
		}
	}
	c20Extra4(c, r)
	r.NotCov = append(r.NotCov, "numeric accuracy of degrees/minutes; minutes < 60 (rounding of 59.99995.. to 60.0000)", "validity of mycall (From/Mbo) supplied by the caller")
}

// c20hemi decides the hemisphere letter by enumerating the finite set of cases the function can
// distinguish — the coordinate kind (latitude flag) and the sign of the value, which it only ever
// inspects through comparisons with zero — and following the branch structure of the SSA for each
// case to the constant that reaches %c (no execution: the conditions are evaluated over the
// abstract sign).
func c20hemi(c *Ctx, r *Report, pr *prover, fn *ssa.Function, where string, letter ssa.Value, latParam string, ci ssa.CallInstruction) {
	if letter == nil {
		r.Add("C20-hemi", where, "hemisphere operand", c.pos(ci.Pos())).Bad("could not identify the value formatted with %%c")
		return
	}
	var decParam *ssa.Parameter
	for _, p := range fn.Params {
		if b, ok := p.Type().Underlying().(*types.Basic); ok && b.Info()&types.IsFloat != 0 {
			decParam = p
		}
	}
	for _, lat := range []bool{true, false} {
		for _, sign := range []int{-1, 0, 1} {
			kind := map[bool]string{true: "latitude", false: "longitude"}[lat]
			sname := map[int]string{-1: "negative", 0: "zero", 1: "positive"}[sign]
			o := r.Add("C20-hemi", where, kind+" "+sname, c.pos(ci.Pos()))
			// follow the branch structure for this case - through same-package functions called
			// statically too, parameters bound to the abstract arguments (ip_g9.go) - to the call
			ev := &g9Cases{c: c, sign: sign}
			bind := map[*ssa.Parameter]g9Abs{}
			for _, p := range fn.Params {
				switch {
				case p.Name() == latParam:
					bind[p] = g9Abs{kind: g9Boolean, b: lat}
				case p == decParam:
					bind[p] = g9Abs{kind: g9Coord}
				}
			}
			ev.stopAt = ci
			fr, _, stuck := ev.run(fn, bind, ci.Block(), nil, 0)
			if stuck != "" {
				o.Bad("cannot decide the letter: %s", stuck)
				continue
			}
			var lv ssa.Value
			if a := ev.eval(letter, fr, 0); a.kind == g9Constant {
				lv = a.c
			}
			n, ok := constInt(lv)
			if !ok {
				o.Bad("the hemisphere letter is not a constant on this path")
				continue
			}
			ch := string(rune(n))
			var allowed string
			switch {
			case lat && sign > 0:
				allowed = "N"
			case lat && sign < 0:
				allowed = "S"
			case !lat && sign > 0:
				allowed = "E"
			case !lat && sign < 0:
				allowed = "W"
			case lat:
				allowed = "NS" // on the equator either letter is correct - but it must be a letter
			default:
				allowed = "EW"
			}
			if strings.Contains(allowed, ch) {
				o.OK("branch structure selects %q", ch)
			} else {
				o.Bad("a %s %s is printed with hemisphere letter %q (expected one of %q)", sname, kind, ch, allowed)
				if sign == 0 && ch == " " {
					o.Reason = fmt.Sprintf("a %s of exactly zero is printed with a blank instead of a hemisphere letter (%q expected): the line does not have the form the position report requires", kind, allowed)
				}
			}
		}
	}
}

func isZeroFloat(v ssa.Value) bool {
	c, ok := v.(*ssa.Const)
	if !ok || c.Value == nil {
		return false
	}
	return c.Value.String() == "0"
}

func flipOp(op token.Token) token.Token {
	switch op {
	case token.LSS:
		return token.GTR
	case token.GTR:
		return token.LSS
	case token.LEQ:
		return token.GEQ
	case token.GEQ:
		return token.LEQ
	}
	return op
}

func negOp(op token.Token) token.Token {
	switch op {
	case token.LSS:
		return token.GEQ
	case token.GEQ:
		return token.LSS
	case token.GTR:
		return token.LEQ
	case token.LEQ:
		return token.GTR
	case token.EQL:
		return token.NEQ
	case token.NEQ:
		return token.EQL
	}
	return op
}

// c20courseDigits handles a NewCourse that assigns the three digit bytes one by one instead of
// formatting with %03d: for every Course it returns, each element of the digit array must be
// '0' + the decimal digit of its place (hundreds, tens, units) of one and the same value, that
// value must derive from the degrees parameter without a narrowing conversion, and 0 <= value <= 359
// must be proved where the digits are stored - which puts each byte in '0'..'9' and makes the three
// bytes exactly what %03d prints. Returns false when no digit is assigned element-wise at all (the
// caller then reports the function as unresolved); anything it cannot decide is a violation.
func c20courseDigits(c *Ctx, r *Report, pr *prover, fn *ssa.Function) bool {
	where := fnName(fn)
	var degPar *ssa.Parameter
	for _, p := range fn.Params {
		if b, ok := p.Type().Underlying().(*types.Basic); ok && b.Info()&types.IsInteger != 0 {
			degPar = p
		}
	}
	type course struct {
		ret   *ssa.Return
		vals  map[int64]*ssa.Store
		multi bool
		al    *ssa.Alloc
		field string
	}
	var courses []course
	any := false
	for _, ret := range returnsOf(fn) {
		v := resOf(ret, 0)
		if isNilConst(v) {
			continue
		}
		al, ok := v.(*ssa.Alloc)
		if !ok {
			courses = append(courses, course{ret: ret})
			continue
		}
		// the digit array: the field of Course that is an array of bytes
		field := ""
		if st, ok := al.Type().Underlying().(*types.Pointer).Elem().Underlying().(*types.Struct); ok {
			for i := 0; i < st.NumFields(); i++ {
				if arr, ok := st.Field(i).Type().Underlying().(*types.Array); ok && arr.Len() == 3 {
					if b, ok := arr.Elem().Underlying().(*types.Basic); ok && b.Kind() == types.Uint8 {
						field = st.Field(i).Name()
					}
				}
			}
		}
		vals, multi := g9DigitStores(al, field)
		if len(vals) > 0 {
			any = true
		}
		courses = append(courses, course{ret, vals, multi, al, field})
	}
	if !any {
		return false
	}
	for _, cs := range courses {
		// digits written by a loop (or otherwise not with one constant index each): the function is
		// run over symbolic values and the same obligations are stated on the result (ip_h5.go)
		if cs.multi && cs.al != nil && h5CourseDigitsByRun(c, r, pr, fn, cs.al, cs.field, cs.ret, degPar) {
			continue
		}
		var value ssa.Value
		var at ssa.Instruction
		same := true
		for place := int64(0); place < 3; place++ {
			o := r.Add("C20-course", where, fmt.Sprintf("digit %d of the course", place+1), c.pos(cs.ret.Pos()))
			st := cs.vals[place]
			switch {
			case cs.multi:
				o.Bad("the digit array is also written in a way that is not followed (copy, variable index, repeated assignment): cannot decide what it holds")
				continue
			case st == nil:
				o.Bad("digit %d is never assigned on this path: the course would carry a zero byte instead of a decimal digit", place+1)
				continue
			case !instrDominates(st, cs.ret):
				o.Bad("digit %d is not assigned on every path to the return", place+1)
				continue
			}
			o.Pos = c.pos(st.Pos())
			v, p, ok := g9DigitOf(st.Val)
			switch {
			case !ok:
				o.Bad("cannot decide that this byte is a decimal digit: it is not '0' plus a digit selected with / and %% by 10 or 100")
			case int64(p) != place:
				o.Bad("position %d of the course holds the %s digit of the value (the report needs hundreds, tens, units in this order)", place+1, []string{"hundreds", "tens", "units"}[p])
			default:
				if value == nil {
					value, at = v, st
				} else if value != v {
					same = false
				}
				o.OK("'0' + the %s digit of %s: within '0'..'9' for a value in [0,999]", []string{"hundreds", "tens", "units"}[p], pathOf(v))
			}
		}
		o := r.Add("C20-course", where, "formatted value within three digits", c.pos(cs.ret.Pos()))
		switch {
		case value == nil:
			o.Bad("could not identify the value whose digits are stored")
		case !same:
			o.Bad("the three digits are taken from different values")
		case degPar == nil || !dependsOn(value, func(x ssa.Value) bool { return x == ssa.Value(degPar) }) || g9Narrowed(value, degPar):
			o.Bad("the value whose digits are stored does not derive from the degrees parameter unchanged in width")
		case h5Within(pr, value, 0, 359, at):
			o.OK("0 <= %s <= 359 where the digits are stored (guards on the parameter; 360 is mapped to 0): the three bytes are exactly what %%03d prints", pathOf(value))
		case h5Within(pr, value, 0, 999, at):
			o.Bad("the value is within three digits but 360 is not normalised to 000 (0 <= v <= 359 not established)")
		default:
			o.Bad("the value whose digits are stored is not proven within [0,359]: a digit byte outside '0'..'9' (or a wrapped one) could be stored")
		}
	}
	return true
}

// g9Narrowed: on the way from the parameter to v the value passes a conversion to an integer type
// too narrow for 0..359 (the digits would be those of another number).
func g9Narrowed(v ssa.Value, par *ssa.Parameter) bool {
	narrowed := false
	dependsOn(v, func(x ssa.Value) bool {
		if cv, ok := x.(*ssa.Convert); ok {
			if b, ok := cv.Type().Underlying().(*types.Basic); ok {
				switch b.Kind() {
				case types.Int8, types.Uint8, types.Bool, types.Float32, types.Float64, types.String:
					narrowed = true
				}
			}
		}
		return false
	})
	return narrowed
}

// c20derefs: every dereference, in fn, of an optional pointer field (a pointer loaded from a field)
// stands under the non-nil test of that field and under no condition other than non-nil tests of
// optional fields. A helper that receives the pointer as a parameter is examined with the
// parameter bound to the field at its call sites: the test may be made in the helper on the
// parameter, or on the field at every call site.
func c20derefs(c *Ctx, r *Report, fn *ssa.Function) {
	where := fnName(fn)
	nilGuard := func(b *ssa.BasicBlock, path string) bool {
		for _, cd := range condsAt(b) {
			if bo, ok := cd.V.(*ssa.BinOp); ok && isNilConst(bo.Y) && pathOf(bo.X) == path {
				if (bo.Op == token.NEQ && cd.Truth) || (bo.Op == token.EQL && !cd.Truth) {
					return true
				}
			}
		}
		return false
	}
	eachInstr(fn, func(_ *ssa.BasicBlock, _ int, instr ssa.Instruction) {
		ld, ok := instr.(*ssa.UnOp)
		if !ok || ld.Op != token.MUL {
			return
		}
		if _, isPtr := ld.X.Type().Underlying().(*types.Pointer); !isPtr {
			return
		}
		ptrPath := pathOf(ld.X)
		shown := ptrPath
		guarded := false
		if par, isPar := ld.X.(*ssa.Parameter); isPar {
			// pointer parameter of a helper: an optional field if a caller passes one
			sites := c.callSites(fn)
			isField := false
			for _, s := range sites {
				if a := g9ParamArg(par, s); a != nil && strings.Contains(pathOf(a), ".") {
					if _, inner := a.(*ssa.UnOp); inner {
						isField = true
						shown = pathOf(a)
					}
				}
			}
			if !isField {
				return
			}
			guarded = nilGuard(ld.Block(), ptrPath)
			if !guarded {
				guarded = true
				for _, s := range sites {
					a := g9ParamArg(par, s)
					if _, isCall := s.(*ssa.Call); !isCall || a == nil || !nilGuard(s.Block(), pathOf(a)) {
						guarded = false
					}
				}
			}
		} else {
			// deref of a pointer that was itself loaded from a field of the receiver
			inner, ok := ld.X.(*ssa.UnOp)
			if !ok || inner.Op != token.MUL {
				if _, isF := ld.X.(*ssa.Field); !isF {
					return
				}
			}
			if !strings.Contains(ptrPath, ".") {
				return
			}
			guarded = nilGuard(ld.Block(), ptrPath)
		}
		r.Check("C20-optional", where, "dereference *"+shown, c.pos(ld.Pos()), guarded,
			"dominated by the true edge of "+shown+" != nil", "optional field "+shown+" is dereferenced without a dominating non-nil test (nil pointer panic when the field is unset)")
		// ... and by nothing else: the line must appear whenever the field is set
		extra := ""
		for _, cd := range condsAt(ld.Block()) {
			if b, ok := cd.V.(*ssa.BinOp); ok && isNilConst(b.Y) && (strings.Contains(pathOf(b.X), ".") || pathOf(b.X) == ptrPath) {
				if _, isPtr := b.X.Type().Underlying().(*types.Pointer); isPtr {
					continue
				}
			}
			extra = pathOf(cd.V)
		}
		r.Check("C20-optional", where, "line of "+shown+" appears whenever it is set", c.pos(ld.Pos()), extra == "",
			"the only conditions on the path are non-nil tests of optional fields", "the line is additionally conditional on "+extra+": a field that is set (e.g. to zero) can be silently omitted")
	})
}
