package main

// C19 — connect URLs parse to exactly their components and reach the right dialer.

import (
	"strings"

	"golang.org/x/tools/go/ssa"
)

func init() {
	register("C19", true,
		"Structural necessary conditions decided from source: (C19-lock) every read or write of the dialer registry map happens while its mutex is held (must-hold lockset over every function of package transport, a helper being entered with the lock held only if every one of its call sites holds it, and every function leaving the lock as it found it - so concurrent register/unregister/dial cannot race on the map), and no dialer is called, directly or by a callee, while it is held; (C19-register) RegisterDialer and RegisterContextDialer replace the scheme's entry on every path to a return (map update, a fresh map holding the entry where the registry is nil, or delegation of scheme and dialer to a function that does); (C19-crash) crash-site inventory over ParseURL, DialURL, DialURLContext and everything they reach in package transport: every index/slice expression is proven in range by the compiler's prove pass or by the fact engine, no panic/log.Fatal/unchecked type assertion/unguarded division is reachable - so no raw string can panic the parser; (C19-dispatch) DialURLContext (or the function it forwards to unchanged) returns ErrMissingDialer exactly on the not-found edge of the registry lookup keyed by the scheme of the URL passed in - the lookup made there or by a helper that returns both of its results - and otherwise calls the looked-up dialer; ParseURL's success return is dominated by the 'target shorter than three characters' guard and by the digipeaters-unsupported guard (whose conjuncts mean exactly 'at least one digipeater' and 'scheme is ardop or telnet', the latter decided by enumerating the outcomes of the scheme's comparisons, also inside a predicate function), the host parameter overrides the authority host exactly when it is non-empty, and target and digipeaters derive from the upper-cased path. NOT decided: component fidelity (escaping, digi order, parameter preservation) for all tuples - equality of run-time strings.",
		checkC19)
}

// c19NoDigiSchemes: the transports of this module without digipeater support (sorted; DESIGN.md 2.3).
var c19NoDigiSchemes = []string{"ardop", "telnet"}

func checkC19(c *Ctx, r *Report) {
	const pkg = "transport"
	if c.Pkg(pkg) == nil {
		r.Fail("anchor", "package transport not found")
		return
	}
	// the registry is found by its type (a map from scheme to a dialer interface, with the mutex
	// beside it); an access through a receiver counts when every call site passes the registry
	// (h5Registry, ip_h5.go)
	reg, why := h5FindRegistry(c, pkg)
	if reg == nil {
		r.Fail("anchor", "dialer registry of package transport: %s", why)
		return
	}
	c19Reg0 = reg
	defer func() { c19Reg0 = nil }()
	mapName, muName := reg.short(reg.mapPath), reg.short(reg.muPath)
	// ---- C19-lock
	r.Rule("C19-lock", 4, "every access to "+mapName+" is made while "+muName+" is held")
	isMu := reg.isMu
	isLock := func(ci ssa.CallInstruction) bool {
		n := callName(ci.Common())
		return (n == "sync.Mutex.Lock" || n == "sync.RWMutex.Lock" || n == "sync.RWMutex.RLock") && isMu(ci.Common().Args[0])
	}
	isUnlock := func(ci ssa.CallInstruction) bool {
		n := callName(ci.Common())
		return (n == "sync.Mutex.Unlock" || n == "sync.RWMutex.Unlock" || n == "sync.RWMutex.RUnlock") && isMu(ci.Common().Args[0])
	}
	// exclusive holds only: a read lock of an RWMutex does not protect a write
	isXLock := func(ci ssa.CallInstruction) bool {
		n := callName(ci.Common())
		return (n == "sync.Mutex.Lock" || n == "sync.RWMutex.Lock") && isMu(ci.Common().Args[0])
	}
	isXUnlock := func(ci ssa.CallInstruction) bool {
		n := callName(ci.Common())
		return (n == "sync.Mutex.Unlock" || n == "sync.RWMutex.Unlock") && isMu(ci.Common().Args[0])
	}
	// the lock state on entry of a helper is lifted from its call sites (all of them must hold the
	// lock), so an access may live in a helper that is only called inside the critical section
	ls, lsX := g6NewLockset(c, isLock, isUnlock), g6NewLockset(c, isXLock, isXUnlock)
	nAcc := 0
	for _, fn := range c.SrcFuncs(pkg) {
		var held, heldX map[ssa.Instruction]bool
		eachInstr(fn, func(_ *ssa.BasicBlock, _ int, instr ssa.Instruction) {
			// an access is any instruction that has the map field's address, or a value loaded from
			// it, as an operand (load, store, lookup, update, delete, len, range)
			touches := false
			for _, op := range instr.Operands(nil) {
				v := *op
				if v == nil {
					continue
				}
				if reg.isMap(v) {
					if _, isFA := v.(*ssa.FieldAddr); isFA {
						if _, isLoadOrStore := instr.(*ssa.UnOp); !isLoadOrStore {
							if _, isStore := instr.(*ssa.Store); !isStore {
								continue
							}
						}
					}
					touches = true
				}
			}
			if _, isFA := instr.(*ssa.FieldAddr); isFA || !touches {
				return
			}
			if held == nil {
				held = ls.held(fn)
			}
			nAcc++
			what := "read"
			switch x := instr.(type) {
			case *ssa.Store, *ssa.MapUpdate:
				what = "write"
			case *ssa.Call:
				if callName(&x.Call) == "builtin.delete" {
					what = "delete"
				}
			}
			desc := what + " of " + mapName
			if s := c.exprAt(fn, instr.Pos()); s != "" {
				desc += " in " + s
			}
			if what != "read" {
				if heldX == nil {
					heldX = lsX.held(fn)
				}
				r.Check("C19-lock", fnName(fn), desc, c.pos(instr.Pos()), heldX[instr],
					muName+" is held exclusively on every path to this write", muName+" is not held exclusively on every path to this write (a read lock admits concurrent readers and writers: concurrent map read and map write with a dial or another unregister)")
				return
			}
			r.Check("C19-lock", fnName(fn), desc, c.pos(instr.Pos()), held[instr],
				muName+" is held on every path to this access", muName+" is not held on every path to this access (data race with concurrent register/unregister/dial)")
		})
	}
	_ = nAcc
	// a selection of the registry's map field through a pointer that cannot be bound to the registry
	// variable at every call site would escape the lockset above: reported, never skipped
	for _, fa := range reg.unbound() {
		r.Add("C19-lock", fnName(fa.Parent()), "access of "+mapName+" through "+derefPath(pathOf(fa)), c.pos(fa.Pos())).Bad("the registry map is reached through %s, which cannot be bound to the registry variable at every call site (exported or address-taken function, method reachable through an interface, or call sites passing different storage): the lock rules cannot follow this access", derefPath(pathOf(fa)))
	}
	// no dialer is called while the registry lock is held: a dial can take minutes, and a dialer
	// that delegates through the registry would deadlock on itself
	for _, fn := range c.SrcFuncs(pkg) {
		// "made without holding the lock" means released on every path (free), not merely "not held
		// on every path": a lock taken on one branch only is still a lock a dial may run under
		var free map[ssa.Instruction]bool
		for _, ci := range allCalls(fn) {
			if !ci.Common().IsInvoke() {
				// a function of the package that makes the interface call on behalf of this one
				callee := ci.Common().StaticCallee()
				if callee == nil || pkgRel(callee) != pkg {
					continue
				}
				via := g6CallsOutVia(callee, pkg, 0, map[*ssa.Function]bool{})
				if via == "" {
					continue
				}
				if free == nil {
					free = ls.free(fn)
				}
				r.Check("C19-lock", fnName(fn), "call-out through "+c.exprAt(fn, ci.Pos()), c.pos(ci.Pos()), free[ci],
					"made without holding "+muName+" (the interface call is in "+via+")", "a function that makes an interface call ("+via+") is called while "+muName+" is held: concurrent register/unregister/dial calls block for the whole dial, and a dialer that dials through the registry deadlocks")
				continue
			}
			if free == nil {
				free = ls.free(fn)
			}
			r.Check("C19-lock", fnName(fn), "call-out "+c.exprAt(fn, ci.Pos()), c.pos(ci.Pos()), free[ci],
				"made without holding "+muName, "an interface call (a dialer) is made while "+muName+" is held: concurrent register/unregister/dial calls block for the whole dial, and a dialer that dials through the registry deadlocks")
		}
	}
	// every function leaves the lock as it found it: the lockset above is computed per function, so a
	// helper that returns with the lock held would make its caller's call-outs look unlocked
	for _, fn := range c.SrcFuncs(pkg) {
		if !ls.touches(fn) {
			continue
		}
		for _, ret := range returnsOf(fn) {
			onEntry := ls.entryHeld(fn)
			bad := muName + " is still held after this return although it was not on entry: the caller goes on (dials) inside the critical section and nobody releases the lock"
			if onEntry {
				bad = muName + " has been released at this return although every caller holds it across the call: the caller's later accesses are unprotected"
			}
			// entered with the lock: still held on every path; entered without: released on every path
			// (a lock that may still be held on one path is a lock nobody releases)
			same := ls.heldAtReturn(fn, ret)
			if !onEntry {
				same = ls.freeAtReturn(fn, ret)
			}
			r.Check("C19-lock", fnName(fn), "lock state at return", c.pos(ret.Pos()), same,
				muName+" is left as it was on entry (released here or by a deferred unlock registered on every path)", bad)
		}
	}

	// ---- C19-register: the last registration for a scheme wins, on every path
	r.Rule("C19-register", 2, "registering a dialer always replaces the scheme's entry")
	{
		// decided over every path and through delegation with bound parameters (c19Registers, ip_g6.go)
		for _, n := range []string{"RegisterDialer", "RegisterContextDialer"} {
			fn := c.Func(pkg, n)
			if fn == nil {
				r.Fail("C19-register", "anchor transport.%s not found", n)
				continue
			}
			r.Check("C19-register", fnName(fn), "every return follows "+mapName+"[scheme] = dialer", c.pos(fn.Pos()), c19Registers(fn, pkg),
				"the entry for the scheme is replaced on every path (by a map update, by installing a map that holds the entry where the registry is nil, or by delegating scheme and dialer to a function that does)", "a return can be reached without replacing the scheme's entry (e.g. when one is already registered): a later dial reaches the old dialer instead of the one registered last (installing a fresh map counts only where the registry is known to be nil)")
		}
	}

	// ---- C19-crash
	r.Rule("C19-crash", 1, "crash-site inventory from ParseURL/DialURL/DialURLContext")
	entries := []*ssa.Function{c.Func(pkg, "ParseURL"), c.Func(pkg, "DialURL"), c.Func(pkg, "DialURLContext")}
	for i, n := range []string{"ParseURL", "DialURL", "DialURLContext"} {
		if entries[i] == nil {
			r.Fail("C19-crash", "anchor transport.%s not found", n)
			return
		}
	}
	st := crashInventory(c, r, crashCfg{
		rule:    "C19-crash",
		entries: entries,
		scope:   func(fn *ssa.Function) bool { return pkgRel(fn) == pkg },
		bcePkgs: []string{pkg},
	})
	r.Infos["crash_inventory"] = st
	g6CrashScopeObligation(c, r, "C19-crash", pkg, entries, st)

	// ---- C19-dispatch
	r.Rule("C19-dispatch", 4, "dispatch on the registry lookup; ParseURL guards")
	if entry := entries[2]; entry != nil {
		where := fnName(entry)
		// the function that dispatches: the entry point, or the function it forwards to unchanged;
		// the lookup: made there, or by a helper that hands back both of its results (ip_g6.go)
		fn := c19DispatchFn(entry, pkg)
		in := ""
		if fn != entry {
			in = " in " + fnName(fn) + " (to which " + entry.Name() + " forwards its parameters and whose results it returns)"
		}
		var look *c19RegLookup
		for _, l := range c19Lookups(fn, pkg, 0) {
			l := l
			look = &l
		}
		o := r.Add("C19-dispatch", where, "lookup keyed by url.Scheme", c.pos(fn.Pos()))
		if look == nil {
			o.Bad("no comma-ok lookup in "+mapName+" found (neither in %s nor in a helper that returns the lookup's two results)", fnName(fn))
		} else if !strings.HasSuffix(look.keyPath(), ".Scheme") {
			o.Bad("registry lookup at %s is keyed by %s, not by the URL's scheme", c.pos(look.tuple.Pos()), look.keyPath())
		} else if g6ParamIndex(fn, look.keyRoot) < 0 {
			o.Bad("registry lookup at %s is keyed by %s, which is not the scheme of the URL passed in", c.pos(look.tuple.Pos()), look.keyPath())
		} else if look.errForm {
			o.OK(mapName+"[%s] with comma-ok, made by %s which hands back the looked-up dialer with a nil error on the found edge and ErrMissingDialer itself on every other return, called at %s%s", look.keyPath(), look.via, c.pos(look.tuple.Pos()), in)
		} else if look.via != "" {
			o.OK(mapName+"[%s] with comma-ok, made by %s which returns both results unchanged, called at %s%s", look.keyPath(), look.via, c.pos(look.tuple.Pos()), in)
		} else {
			o.OK(mapName+"[%s] with comma-ok at %s%s", look.keyPath(), c.pos(look.tuple.Pos()), in)
		}
		if look != nil {
			isOK := func(v ssa.Value) bool {
				ex, ok := v.(*ssa.Extract)
				return ok && ex.Tuple == look.tuple && ex.Index == look.okIdx
			}
			nMissing, nCall := 0, 0
			for _, ret := range returnsOf(fn) {
				if len(ret.Results) != 2 {
					nCall++
					r.Add("C19-dispatch", where, "return dialer.DialURLContext(ctx, url)", c.pos(ret.Pos())).Bad("return of %s does not have the shape (conn, error)", fnName(fn))
					continue
				}
				errV := resOf(ret, 1)
				// ErrMissingDialer itself - or, when the lookup helper reports a miss as an error (nil
				// exactly when found, ErrMissingDialer by identity otherwise), that error handed on
				isMissing := false
				if ld, ok := errV.(*ssa.UnOp); ok && strings.HasSuffix(pathOf(ld), "transport.ErrMissingDialer") {
					isMissing = true
				}
				if look.errForm && isOK(errV) {
					isMissing = true
				}
				if isMissing {
					nMissing++
					good := false
					for _, cd := range condsAt(ret.Block()) {
						if _, notFound := h5LookupEdge(look, cd); notFound {
							good = true
						}
					}
					r.Check("C19-dispatch", where, "return ErrMissingDialer", c.pos(ret.Pos()), good,
						"returned exactly on the not-found edge of the registry lookup", "ErrMissingDialer is returned on a path that is not the not-found edge of the lookup")
					continue
				}
				// the other returns must hand back the looked-up dialer's result
				nCall++
				good := false
				var why string
				if ex, ok := errV.(*ssa.Extract); ok {
					if call, ok := ex.Tuple.(*ssa.Call); ok && call.Call.IsInvoke() {
						recv := call.Call.Value
						if e0, ok := recv.(*ssa.Extract); ok && e0.Tuple == look.tuple && e0.Index == look.dIdx {
							for _, cd := range condsAt(call.Block()) {
								if found, _ := h5LookupEdge(look, cd); found {
									good = true
								}
							}
							if !good {
								why = "the dialer is called without the found edge of the lookup dominating the call"
							}
						} else {
							why = "the dialer called is not the value looked up for the scheme (" + pathOf(recv) + ")"
						}
					}
				}
				if why == "" && !good {
					why = "return does not pass on the result of the looked-up dialer"
				}
				r.Check("C19-dispatch", where, "return dialer.DialURLContext(ctx, url)", c.pos(ret.Pos()), good,
					"calls the dialer found for the scheme, on the found edge", why)
			}
			if nMissing == 0 {
				r.Add("C19-dispatch", where, "return ErrMissingDialer", c.pos(fn.Pos())).Bad("no return of ErrMissingDialer found")
			}
			if nCall == 0 {
				r.Add("C19-dispatch", where, "return dialer.DialURLContext(ctx, url)", c.pos(fn.Pos())).Bad("no return of the dialer's result found")
			}
		}
	}
	if fn := entries[0]; fn != nil {
		where := fnName(fn)
		pr := newProver(c)
		var okRet *ssa.Return
		for _, ret := range returnsOf(fn) {
			if isNilConst(resOf(ret, 1)) && !isNilConst(resOf(ret, 0)) {
				okRet = ret
			}
		}
		var target ssa.Value
		var digis ssa.Value
		var allDigis []ssa.Value
		eachInstr(fn, func(_ *ssa.BasicBlock, _ int, instr ssa.Instruction) {
			if st, ok := instr.(*ssa.Store); ok {
				if fa, ok := st.Addr.(*ssa.FieldAddr); ok {
					switch fieldName(fa.X.Type(), fa.Field) {
					case "Target":
						target = st.Val
					case "Digis":
						if digis == nil {
							digis = st.Val
						}
						allDigis = append(allDigis, st.Val)
					}
				}
			}
		})
		o := r.Add("C19-dispatch", where, "success return guarded by len(target) >= 3", c.pos(fn.Pos()))
		switch {
		case okRet == nil || target == nil:
			o.Bad("could not identify the success return (%v) and the value stored in URL.Target (%v)", okRet != nil, target != nil)
		case pr.LE(nil, false, 3, target, true, 0, okRet):
			o.OK("len(%s) >= 3 holds at the success return %s (dominating guard)", pathOf(target), c.pos(okRet.Pos()))
		default:
			o.Bad("a target shorter than three characters can reach the success return at %s", c.pos(okRet.Pos()))
		}
		o = r.Add("C19-dispatch", where, "digipeaters refused for schemes without digipeater support", c.pos(fn.Pos()))
		// decided by enumerating {no digipeater, at least one} x {every scheme compared with, any
		// other}: whatever the shape of the tests (one compound guard, an early success return for
		// an empty list followed by a switch on the scheme, a predicate), ErrDigisUnsupported must
		// be what is returned exactly with at least one digipeater and scheme ardop or telnet
		// (h5DigiGuard, ip_h5.go)
		if ok, why := h5DigiGuard(c, fn, pkg, c19NoDigiSchemes); ok {
			o.OK("a return of ErrDigisUnsupported is taken exactly when at least one digipeater is present and the scheme is one of %s (every test on the number of digipeaters and on the scheme evaluated for no/some digipeaters, for every constant the scheme is compared with and for any other scheme): no success return is reachable in those cases and no refusal in any other", strings.Join(c19NoDigiSchemes, ", "))
		} else {
			o.Bad("%s", why)
		}
		// the host query parameter overrides the host whenever it is non-empty
		o = r.Add("C19-dispatch", where, "host parameter overrides the host", c.pos(fn.Pos()))
		if ok, why := c19HostOverride(c, fn, pkg); ok {
			o.OK("URL.Host = Params.Get(\"host\") whenever that value is non-empty, whatever the authority host")
		} else {
			o.Bad("%s", why)
		}
		o = r.Add("C19-dispatch", where, "target and digipeaters are upper-cased", c.pos(fn.Pos()))
		isUpper := func(v ssa.Value) bool {
			call, ok := v.(*ssa.Call)
			return ok && callName(&call.Call) == "strings.ToUpper"
		}
		// every list assigned to URL.Digis is upper-cased, or has no element to upper-case
		digisUpper := false
		{
			n := 0
			for _, d := range allDigis {
				switch {
				case dependsOn(d, isUpper):
					n++
				case h5EmptySlice(d):
				default:
					n = -len(allDigis) - 1
				}
			}
			digisUpper = n > 0
		}
		if target != nil && digis != nil && dependsOn(target, isUpper) && digisUpper {
			o.OK("URL.Target and URL.Digis derive from strings.ToUpper of the path")
		} else {
			o.Bad("URL.Target or URL.Digis does not derive from the upper-cased path")
		}
		// the target is exactly what follows the last '/' of the path (empty after a trailing slash):
		// nothing that normalises the path - Base strips trailing slashes, Dir/Clean resolve dot
		// segments - stands between the path and its split
		o = r.Add("C19-dispatch", where, "target is the last path element, taken literally", c.pos(fn.Pos()))
		normalises := func(v ssa.Value) bool {
			call, ok := v.(*ssa.Call)
			if !ok {
				return false
			}
			switch callName(&call.Call) {
			case "path.Base", "path.Dir", "path.Clean", "path/filepath.Base", "path/filepath.Dir", "path/filepath.Clean", "strings.TrimRight", "strings.TrimSuffix", "strings.Trim":
				return true
			}
			return false
		}
		literal := func(v ssa.Value) bool {
			return dependsOn(v, func(x ssa.Value) bool {
				if ex, ok := x.(*ssa.Extract); ok {
					if call, ok := ex.Tuple.(*ssa.Call); ok && (callName(&call.Call) == "path.Split" || callName(&call.Call) == "strings.Cut") {
						return true
					}
				}
				if call, ok := x.(*ssa.Call); ok && strings.HasPrefix(callName(&call.Call), "strings.LastIndex") {
					return true
				}
				return false
			})
		}
		// the split may be made by a helper of the package (a hand-written path.Split): a result of
		// such a call is judged by what the helper returns for it - a literal split only if every
		// return is one, normalised if any return is (h5DependsDeep, ip_h5.go)
		shallowLiteral, shallowNormalises := literal, normalises
		literal = func(v ssa.Value) bool {
			return h5DependsDeep(v, pkg, func(x ssa.Value) bool { return shallowLiteral(x) }, true, 0)
		}
		normalises = func(x ssa.Value) bool {
			return shallowNormalises(x) || h5HelperResult(x, pkg, func(_ *ssa.Return, res ssa.Value) bool {
				return h5DependsDeep(res, pkg, shallowNormalises, false, 1)
			}, false)
		}
		switch {
		case target == nil:
			o.Bad("could not identify the value stored as URL.Target (unresolved)")
		case dependsOn(target, normalises):
			o.Bad("URL.Target goes through a call that normalises the path (Base/Dir/Clean/Trim...): a trailing slash is dropped, so 'ax25://port/DIGI/TARGET/' - empty target, must be refused - is accepted with the last digipeater as target, and dot segments swallow digipeaters")
		case !literal(target):
			o.Bad("URL.Target is not derived from a split of the path at its last '/' (unresolved)")
		default:
			o.OK("path.Split (or an equivalent cut at the last '/') of the path, with no normalisation")
		}
	}
	r.NotCov = append(r.NotCov, "component fidelity for all tuples (escaping, empty parts, digi order, query parameter preservation)", "nil dereference of a nil *URL passed to DialURL", "behaviour of the registered dialers")
}

// pkgRel returns the module-relative package path of the function's package.
func pkgRel(fn *ssa.Function) string {
	for fn.Parent() != nil {
		fn = fn.Parent()
	}
	if fn.Pkg == nil {
		return ""
	}
	return relOf(fn.Pkg.Pkg.Path())
}
