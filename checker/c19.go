package main

// C19 — connect URLs parse to exactly their components and reach the right dialer.

import (
	"go/token"
	"strings"

	"golang.org/x/tools/go/ssa"
)

func init() {
	register("C19", true,
		"Structural necessary conditions decided from source: (C19-lock) every read or write of the dialer registry map happens while its mutex is held (must-hold lockset over every function of package transport, so concurrent register/unregister/dial cannot race on the map); (C19-crash) crash-site inventory over ParseURL, DialURL, DialURLContext and everything they reach in package transport: every index/slice expression is proven in range by the compiler's prove pass or by the fact engine, no panic/log.Fatal/unchecked type assertion/unguarded division is reachable - so no raw string can panic the parser; (C19-dispatch) DialURLContext returns ErrMissingDialer exactly on the not-found edge of the registry lookup keyed by the URL's scheme and otherwise calls the looked-up dialer; ParseURL's success return is dominated by the 'target shorter than three characters' guard and by the digipeaters-unsupported guard (which depends on the scheme and on the number of digipeaters), and target and digipeaters derive from the upper-cased path. NOT decided: component fidelity (escaping, digi order, parameter preservation) for all tuples - equality of run-time strings.",
		checkC19)
}

func checkC19(c *Ctx, r *Report) {
	const pkg = "transport"
	if c.Pkg(pkg) == nil {
		r.Fail("anchor", "package transport not found")
		return
	}
	// ---- C19-lock
	r.Rule("C19-lock", 4, "every access to dialers.m is made while dialers.mu is held")
	isMu := func(v ssa.Value) bool { return strings.HasSuffix(pathOf(v), "transport.dialers.mu") }
	isLock := func(ci ssa.CallInstruction) bool {
		n := callName(ci.Common())
		return (n == "sync.Mutex.Lock" || n == "sync.RWMutex.Lock" || n == "sync.RWMutex.RLock") && isMu(ci.Common().Args[0])
	}
	isUnlock := func(ci ssa.CallInstruction) bool {
		n := callName(ci.Common())
		return (n == "sync.Mutex.Unlock" || n == "sync.RWMutex.Unlock" || n == "sync.RWMutex.RUnlock") && isMu(ci.Common().Args[0])
	}
	// exclusive holds only: a read lock of an RWMutex does not protect a write
	isXLock := func(ci ssa.CallInstruction) bool {
		n := callName(ci.Common())
		return (n == "sync.Mutex.Lock" || n == "sync.RWMutex.Lock") && isMu(ci.Common().Args[0])
	}
	isXUnlock := func(ci ssa.CallInstruction) bool {
		n := callName(ci.Common())
		return (n == "sync.Mutex.Unlock" || n == "sync.RWMutex.Unlock") && isMu(ci.Common().Args[0])
	}
	nAcc := 0
	for _, fn := range c.SrcFuncs(pkg) {
		var held, heldX map[ssa.Instruction]bool
		eachInstr(fn, func(_ *ssa.BasicBlock, _ int, instr ssa.Instruction) {
			// an access is any instruction that has the map field's address, or a value loaded from
			// it, as an operand (load, store, lookup, update, delete, len, range)
			touches := false
			for _, op := range instr.Operands(nil) {
				v := *op
				if v == nil {
					continue
				}
				if strings.HasSuffix(pathOf(v), "transport.dialers.m") {
					if _, isFA := v.(*ssa.FieldAddr); isFA {
						if _, isLoadOrStore := instr.(*ssa.UnOp); !isLoadOrStore {
							if _, isStore := instr.(*ssa.Store); !isStore {
								continue
							}
						}
					}
					touches = true
				}
			}
			if _, isFA := instr.(*ssa.FieldAddr); isFA || !touches {
				return
			}
			if held == nil {
				held = heldAt(fn, isLock, isUnlock)
			}
			nAcc++
			what := "read"
			switch x := instr.(type) {
			case *ssa.Store, *ssa.MapUpdate:
				what = "write"
			case *ssa.Call:
				if callName(&x.Call) == "builtin.delete" {
					what = "delete"
				}
			}
			desc := what + " of dialers.m"
			if s := c.exprAt(fn, instr.Pos()); s != "" {
				desc += " in " + s
			}
			if what != "read" {
				if heldX == nil {
					heldX = heldAt(fn, isXLock, isXUnlock)
				}
				r.Check("C19-lock", fnName(fn), desc, c.pos(instr.Pos()), heldX[instr],
					"dialers.mu is held exclusively on every path to this write", "dialers.mu is not held exclusively on every path to this write (a read lock admits concurrent readers and writers: concurrent map read and map write with a dial or another unregister)")
				return
			}
			r.Check("C19-lock", fnName(fn), desc, c.pos(instr.Pos()), held[instr],
				"dialers.mu is held on every path to this access", "dialers.mu is not held on every path to this access (data race with concurrent register/unregister/dial)")
		})
	}
	_ = nAcc
	// no dialer is called while the registry lock is held: a dial can take minutes, and a dialer
	// that delegates through the registry would deadlock on itself
	for _, fn := range c.SrcFuncs(pkg) {
		var held map[ssa.Instruction]bool
		for _, ci := range allCalls(fn) {
			if !ci.Common().IsInvoke() {
				continue
			}
			if held == nil {
				held = heldAt(fn, isLock, isUnlock)
			}
			r.Check("C19-lock", fnName(fn), "call-out "+c.exprAt(fn, ci.Pos()), c.pos(ci.Pos()), !held[ci],
				"made without holding dialers.mu", "an interface call (a dialer) is made while dialers.mu is held: concurrent register/unregister/dial calls block for the whole dial, and a dialer that dials through the registry deadlocks")
		}
	}

	// ---- C19-register: the last registration for a scheme wins, on every path
	r.Rule("C19-register", 2, "registering a dialer always replaces the scheme's entry")
	{
		isUpdate := func(fn *ssa.Function, in ssa.Instruction) bool {
			mu, ok := in.(*ssa.MapUpdate)
			if !ok || !strings.HasSuffix(pathOf(mu.Map), "transport.dialers.m") {
				return false
			}
			keyOK, valOK := false, false
			for _, p := range fn.Params {
				if isStringLike(p.Type()) && sameSlotValue(mu.Key, p) {
					keyOK = true
				}
				if !isStringLike(p.Type()) && dependsOn(mu.Value, func(x ssa.Value) bool { return sameSlotValue(x, p) }) {
					valOK = true
				}
			}
			return keyOK && valOK
		}
		registers := map[*ssa.Function]bool{}
		var decide func(fn *ssa.Function, depth int) bool
		decide = func(fn *ssa.Function, depth int) bool {
			if v, ok := registers[fn]; ok {
				return v
			}
			registers[fn] = false
			var ups []ssa.Instruction
			eachInstr(fn, func(_ *ssa.BasicBlock, _ int, in ssa.Instruction) {
				if isUpdate(fn, in) {
					ups = append(ups, in)
				}
				if call, ok := in.(*ssa.Call); ok && depth < 3 {
					if callee := call.Call.StaticCallee(); callee != nil && callee != fn && pkgRel(callee) == pkg && len(call.Call.Args) >= 2 {
						// delegation: scheme passed on unchanged, dialer passed on (possibly wrapped)
						passScheme, passDialer := false, false
						for _, p := range fn.Params {
							if isStringLike(p.Type()) && sameSlotValue(call.Call.Args[0], p) {
								passScheme = true
							}
							if !isStringLike(p.Type()) && dependsOn(call.Call.Args[1], func(x ssa.Value) bool { return sameSlotValue(x, p) }) {
								passDialer = true
							}
						}
						if passScheme && passDialer && decide(callee, depth+1) {
							ups = append(ups, in)
						}
					}
				}
			})
			all := len(ups) > 0
			for _, ret := range returnsOf(fn) {
				dom := false
				for _, u := range ups {
					if instrDominates(u, ret) {
						dom = true
					}
				}
				if !dom {
					all = false
				}
			}
			registers[fn] = all
			return all
		}
		for _, n := range []string{"RegisterDialer", "RegisterContextDialer"} {
			fn := c.Func(pkg, n)
			if fn == nil {
				r.Fail("C19-register", "anchor transport.%s not found", n)
				continue
			}
			r.Check("C19-register", fnName(fn), "every return follows dialers.m[scheme] = dialer", c.pos(fn.Pos()), decide(fn, 0),
				"the entry for the scheme is replaced on every path (directly or by delegating scheme and dialer to a function that does)", "a return can be reached without replacing the scheme's entry (e.g. when one is already registered): a later dial reaches the old dialer instead of the one registered last")
		}
	}

	// ---- C19-crash
	r.Rule("C19-crash", 1, "crash-site inventory from ParseURL/DialURL/DialURLContext")
	entries := []*ssa.Function{c.Func(pkg, "ParseURL"), c.Func(pkg, "DialURL"), c.Func(pkg, "DialURLContext")}
	for i, n := range []string{"ParseURL", "DialURL", "DialURLContext"} {
		if entries[i] == nil {
			r.Fail("C19-crash", "anchor transport.%s not found", n)
			return
		}
	}
	st := crashInventory(c, r, crashCfg{
		rule:    "C19-crash",
		entries: entries,
		scope:   func(fn *ssa.Function) bool { return pkgRel(fn) == pkg },
		bcePkgs: []string{pkg},
	})
	r.Infos["crash_inventory"] = st

	// ---- C19-dispatch
	r.Rule("C19-dispatch", 4, "dispatch on the registry lookup; ParseURL guards")
	if fn := entries[2]; fn != nil {
		where := fnName(fn)
		var look *ssa.Lookup
		eachInstr(fn, func(_ *ssa.BasicBlock, _ int, instr ssa.Instruction) {
			if l, ok := instr.(*ssa.Lookup); ok && l.CommaOk && strings.HasSuffix(pathOf(l.X), "transport.dialers.m") {
				look = l
			}
		})
		o := r.Add("C19-dispatch", where, "lookup keyed by url.Scheme", c.pos(fn.Pos()))
		if look == nil {
			o.Bad("no comma-ok lookup in dialers.m found")
		} else if !strings.HasSuffix(pathOf(look.Index), ".Scheme") {
			o.Bad("registry lookup at %s is keyed by %s, not by the URL's scheme", c.pos(look.Pos()), pathOf(look.Index))
		} else {
			o.OK("dialers.m[%s] with comma-ok at %s", pathOf(look.Index), c.pos(look.Pos()))
		}
		if look != nil {
			isOK := func(v ssa.Value) bool {
				ex, ok := v.(*ssa.Extract)
				return ok && ex.Tuple == ssa.Value(look) && ex.Index == 1
			}
			nMissing, nCall := 0, 0
			for _, ret := range returnsOf(fn) {
				errV := resOf(ret, 1)
				if ld, ok := errV.(*ssa.UnOp); ok && strings.HasSuffix(pathOf(ld), "transport.ErrMissingDialer") {
					nMissing++
					good := false
					for _, cd := range condsAt(ret.Block()) {
						if isOK(cd.V) && !cd.Truth {
							good = true
						}
					}
					r.Check("C19-dispatch", where, "return ErrMissingDialer", c.pos(ret.Pos()), good,
						"returned exactly on the not-found edge of the registry lookup", "ErrMissingDialer is returned on a path that is not the not-found edge of the lookup")
					continue
				}
				// the other returns must hand back the looked-up dialer's result
				nCall++
				good := false
				var why string
				if ex, ok := errV.(*ssa.Extract); ok {
					if call, ok := ex.Tuple.(*ssa.Call); ok && call.Call.IsInvoke() {
						recv := call.Call.Value
						if e0, ok := recv.(*ssa.Extract); ok && e0.Tuple == ssa.Value(look) && e0.Index == 0 {
							for _, cd := range condsAt(call.Block()) {
								if isOK(cd.V) && cd.Truth {
									good = true
								}
							}
							if !good {
								why = "the dialer is called without the found edge of the lookup dominating the call"
							}
						} else {
							why = "the dialer called is not the value looked up for the scheme (" + pathOf(recv) + ")"
						}
					}
				}
				if why == "" && !good {
					why = "return does not pass on the result of the looked-up dialer"
				}
				r.Check("C19-dispatch", where, "return dialer.DialURLContext(ctx, url)", c.pos(ret.Pos()), good,
					"calls the dialer found for the scheme, on the found edge", why)
			}
			if nMissing == 0 {
				r.Add("C19-dispatch", where, "return ErrMissingDialer", c.pos(fn.Pos())).Bad("no return of ErrMissingDialer found")
			}
			if nCall == 0 {
				r.Add("C19-dispatch", where, "return dialer.DialURLContext(ctx, url)", c.pos(fn.Pos())).Bad("no return of the dialer's result found")
			}
		}
	}
	if fn := entries[0]; fn != nil {
		where := fnName(fn)
		pr := newProver(c)
		var okRet *ssa.Return
		for _, ret := range returnsOf(fn) {
			if isNilConst(resOf(ret, 1)) && !isNilConst(resOf(ret, 0)) {
				okRet = ret
			}
		}
		var target ssa.Value
		var digis ssa.Value
		eachInstr(fn, func(_ *ssa.BasicBlock, _ int, instr ssa.Instruction) {
			if st, ok := instr.(*ssa.Store); ok {
				if fa, ok := st.Addr.(*ssa.FieldAddr); ok {
					switch fieldName(fa.X.Type(), fa.Field) {
					case "Target":
						target = st.Val
					case "Digis":
						if digis == nil {
							digis = st.Val
						}
					}
				}
			}
		})
		o := r.Add("C19-dispatch", where, "success return guarded by len(target) >= 3", c.pos(fn.Pos()))
		switch {
		case okRet == nil || target == nil:
			o.Bad("could not identify the success return (%v) and the value stored in URL.Target (%v)", okRet != nil, target != nil)
		case pr.LE(nil, false, 3, target, true, 0, okRet):
			o.OK("len(%s) >= 3 holds at the success return %s (dominating guard)", pathOf(target), c.pos(okRet.Pos()))
		default:
			o.Bad("a target shorter than three characters can reach the success return at %s", c.pos(okRet.Pos()))
		}
		o = r.Add("C19-dispatch", where, "digipeaters refused for schemes without digipeater support", c.pos(fn.Pos()))
		found := false
		if okRet != nil {
			for _, g := range exitGuardsCached(fn) {
				ret, ok := g.Exit.Instrs[len(g.Exit.Instrs)-1].(*ssa.Return)
				if !ok || len(ret.Results) != 2 {
					continue
				}
				ld, ok := resOf(ret, 1).(*ssa.UnOp)
				if !ok || !strings.HasSuffix(pathOf(ld), "transport.ErrDigisUnsupported") {
					continue
				}
				if !g.Head.Dominates(okRet.Block()) || g.Head == okRet.Block() || insideChain(g, okRet.Block()) {
					continue
				}
				depLen, depScheme := false, false
				schemes := map[string]bool{}
				for _, cd := range g.Conj {
					if dependsOn(cd.V, func(v ssa.Value) bool {
						call, ok := v.(*ssa.Call)
						return ok && callName(&call.Call) == "builtin.len"
					}) {
						// the condition must mean exactly "at least one digipeater"
						cl := pr.collect(cd.If)
						cl.f = newFactSet()
						cl.addCond(cd.V, cd.Truth, 0)
						cl.f.close()
						for name, j := range cl.f.idx {
							if strings.HasPrefix(name, "len:") && cl.f.d[cl.f.idx[""]][j] == -1 {
								depLen = true
							}
						}
					}
					if dependsOn(cd.V, func(v ssa.Value) bool {
						b, ok := v.(*ssa.BinOp)
						if !ok || b.Op != token.EQL {
							return false
						}
						s, isS := constString(b.Y)
						if isS && strings.HasSuffix(pathOf(b.X), ".Scheme") {
							schemes[s] = true
						}
						return false
					}) {
					}
				}
				depScheme = schemes["ardop"] && schemes["telnet"] // the transports of this module without digipeater support
				if depLen && depScheme {
					found = true
				}
			}
		}
		if found {
			o.OK("a return of ErrDigisUnsupported, taken when digipeaters are present and the scheme is one of the constants compared, guards the success return")
		} else {
			o.Bad("no guard returning ErrDigisUnsupported (depending on the number of digipeaters and on the scheme being ardop or telnet) dominates the success return")
		}
		// the host query parameter overrides the host whenever it is non-empty
		o = r.Add("C19-dispatch", where, "host parameter overrides the host", c.pos(fn.Pos()))
		{
			var hostStore *ssa.Store
			eachInstr(fn, func(_ *ssa.BasicBlock, _ int, instr ssa.Instruction) {
				st, ok := instr.(*ssa.Store)
				if !ok {
					return
				}
				fa, ok := st.Addr.(*ssa.FieldAddr)
				if !ok || fieldName(fa.X.Type(), fa.Field) != "Host" {
					return
				}
				if dependsOn(st.Val, func(v ssa.Value) bool {
					call, ok := v.(*ssa.Call)
					if !ok || callName(&call.Call) != "net/url.Values.Get" {
						return false
					}
					k, _ := constString(call.Call.Args[1])
					return k == "host"
				}) {
					hostStore = st
				}
			})
			switch {
			case hostStore == nil:
				o.Bad("the 'host' query parameter is never stored in URL.Host")
			default:
				bad := ""
				nonEmpty := false
				for _, cd := range condsAt(hostStore.Block()) {
					if !instrDominates(cd.If, hostStore) {
						continue
					}
					b, isB := cd.V.(*ssa.BinOp)
					if isB {
						if sv, isS := constString(b.Y); isS && sv == "" && (b.X == hostStore.Val || pathOf(b.X) == pathOf(hostStore.Val)) && (b.Op == token.NEQ) == cd.Truth {
							nonEmpty = true
							continue
						}
					}
					if dependsOn(cd.V, func(v ssa.Value) bool {
						ld, ok := v.(*ssa.UnOp)
						return ok && ld.Op == token.MUL && strings.HasSuffix(pathOf(ld), ".Host")
					}) {
						bad = "the override is made conditional on the current value of the host at " + c.pos(cd.V.Pos())
					}
				}
				if bad != "" {
					o.Bad("%s: a URL with both an authority host and ?host= keeps the wrong one", bad)
				} else if !nonEmpty {
					o.Bad("the host is overwritten even when the parameter is empty")
				} else {
					o.OK("URL.Host = Params.Get(\"host\") whenever that value is non-empty, whatever the authority host")
				}
			}
		}
		o = r.Add("C19-dispatch", where, "target and digipeaters are upper-cased", c.pos(fn.Pos()))
		isUpper := func(v ssa.Value) bool {
			call, ok := v.(*ssa.Call)
			return ok && callName(&call.Call) == "strings.ToUpper"
		}
		if target != nil && digis != nil && dependsOn(target, isUpper) && dependsOn(digis, isUpper) {
			o.OK("URL.Target and URL.Digis derive from strings.ToUpper of the path")
		} else {
			o.Bad("URL.Target or URL.Digis does not derive from the upper-cased path")
		}
	}
	r.NotCov = append(r.NotCov, "component fidelity for all tuples (escaping, empty parts, digi order, query parameter preservation)", "nil dereference of a nil *URL passed to DialURL", "behaviour of the registered dialers")
}

// pkgRel returns the module-relative package path of the function's package.
func pkgRel(fn *ssa.Function) string {
	for fn.Parent() != nil {
		fn = fn.Parent()
	}
	if fn.Pkg == nil {
		return ""
	}
	return relOf(fn.Pkg.Pkg.Path())
}
