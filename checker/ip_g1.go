package main

// Shape-independent formulations of session rules (C01/C02/C04/C05): library post-conditions for
// the chunk loop of the sender and interprocedural (same-package, static-call) versions of the
// reporting chains. Nothing here is keyed on the name of a helper: helpers are found by following
// static calls, facts found inside a helper are bound to the actual arguments of the call, and a
// fact lifted from a helper to its callers must hold at every call site.

import (
	"fmt"
	"go/token"
	"strings"

	"golang.org/x/tools/go/ssa"
)

// ---- fact engine: post-conditions -------------------------------------------------------------

// bufferNextLen adds the post-condition of x = (*bytes.Buffer).Next(n):
//
//	0 <= len(x) <= n                       (Next panics for a negative n, so n >= 0 where it returned)
//	len(x) <= b.Len() as of the call
//	len(x) == n   when  n <= b.Len() as of the call
//
// "b.Len() as of the call" is the value of any call of Len on the same receiver that dominates x
// with no mutating method of that receiver in between (the identification keyAt already makes for
// read-only methods); the premise n <= b.Len() is a query of its own, asked at the call.
func (cl *collector) bufferNextLen(x *ssa.Call, lt term, depth int) {
	p, f, q := cl.p, cl.f, cl.q
	args := x.Call.Args
	if len(args) != 2 {
		return
	}
	n := args[1]
	cl.define(n, depth+1)
	f.addLE(lt, p.intTerm(n, q), 0)
	recv := pathOf(args[0])
	exact := false
	eachInstr(x.Parent(), func(_ *ssa.BasicBlock, _ int, in ssa.Instruction) {
		l, ok := in.(*ssa.Call)
		if !ok || callName(&l.Call) != "bytes.Buffer.Len" || len(l.Call.Args) != 1 || pathOf(l.Call.Args[0]) != recv {
			return
		}
		if !instrDominates(l, x) || !strings.HasPrefix(p.keyAt(l, x), "pure:") {
			return
		}
		cl.define(l, depth+1)
		f.addLE(lt, p.intTerm(l, q), 0)
		if !exact && p.depth < 2 {
			p.depth++
			exact = p.LE(n, false, 0, l, false, 0, x)
			p.depth--
		}
	})
	if exact {
		f.addEQ(lt, p.intTerm(n, q), 0)
	}
}

// minLower adds a constant lower bound for t = min(a, b, ...): k <= t when k <= every argument.
// The premise is asked where the min is computed: a relation between SSA registers that holds
// where they are defined holds wherever they are used.
func (cl *collector) minLower(x *ssa.Call, t term) {
	p := cl.p
	if p.depth >= 2 || len(x.Call.Args) == 0 {
		return
	}
	p.depth++
	defer func() { p.depth-- }()
	for _, k := range []int64{1, 0} {
		all := true
		for _, a := range x.Call.Args {
			if !p.LE(nil, false, k, a, false, 0, x) {
				all = false
				break
			}
		}
		if all {
			cl.f.addLE(term{"", k}, t, 0)
			return
		}
	}
}

// sameCount: the integer values m and n are equal whenever instruction at executes (identical
// registers, or equality proved by the fact engine in both directions).
func sameCount(pr *prover, m ssa.Value, mLen bool, n ssa.Value, at ssa.Instruction) bool {
	if !mLen && strip(m) == strip(n) {
		return true
	}
	return pr.LE(m, mLen, 0, n, false, 0, at) && pr.LE(n, false, 0, m, mLen, 0, at)
}

// ---- following static calls ---------------------------------------------------------------------

const ipG1MaxDepth = 3

// helperOf: the module function with a body that call k statically resolves to (nil for interface
// calls, calls of function values and functions outside the module).
func (c *Ctx) helperOf(k ssa.CallInstruction) *ssa.Function {
	if k == nil || k.Common().IsInvoke() {
		return nil
	}
	h := k.Common().StaticCallee()
	if h == nil || h.Blocks == nil || !c.inModule(h) {
		return nil
	}
	return h
}

// liftSites: the call sites of fn when a fact about "whenever fn runs" may be established at its
// callers instead: fn is unexported, never used as a value or reached through an interface, and
// every use is a plain call (a deferred or spawned call does not run where it is written). nil when
// the set cannot be enumerated - the caller of liftSites then has to report.
func (c *Ctx) liftSites(fn *ssa.Function) []*ssa.Call {
	var out []*ssa.Call
	for _, s := range c.callSites(fn) {
		call, ok := s.(*ssa.Call)
		if !ok {
			return nil
		}
		out = append(out, call)
	}
	return out
}

// exportedFn: fn (or the function a closure is nested in) belongs to the module's exported API.
func exportedFn(fn *ssa.Function) bool {
	root := rootFn(fn)
	return root != nil && root.Object() != nil && root.Object().Exported()
}

// paramIndex: v is parameter i of fn (receiver = 0, as in the argument list of a static call),
// possibly loaded from the slot the parameter was spilled to because a closure captures it; -1
// otherwise.
func paramIndex(fn *ssa.Function, v ssa.Value) int {
	v = unwrap(v)
	if ld, ok := v.(*ssa.UnOp); ok && ld.Op == token.MUL {
		if al, ok := ld.X.(*ssa.Alloc); ok && al.Parent() == fn {
			var only ssa.Value
			n := 0
			for _, g := range withClosures(fn) {
				eachInstr(g, func(_ *ssa.BasicBlock, _ int, in ssa.Instruction) {
					st, ok := in.(*ssa.Store)
					if !ok {
						return
					}
					if st.Addr == ssa.Value(al) {
						n++
						only = st.Val
					} else if fv, isFV := st.Addr.(*ssa.FreeVar); isFV && fv.Name() == al.Comment {
						n += 2 // assigned inside a closure
					}
				})
			}
			if n == 1 {
				v = only
			}
		}
	}
	if p, ok := v.(*ssa.Parameter); ok {
		for i, q := range fn.Params {
			if q == p {
				return i
			}
		}
	}
	return -1
}

// returnsErrOf: ret hands back, as its error result, the error result of call k itself (so the
// function returns nil there exactly when k returned nil).
func returnsErrOf(ret *ssa.Return, k *ssa.Call) bool {
	ev := errResult(k)
	return ev != nil && len(ret.Results) > 0 && resOf(ret, len(ret.Results)-1) == ev
}

// okImpliesCall: the nil-error outcome of call k implies that a call accepted by target returned a
// nil error: k is such a call, or k statically calls a module function every return of which is
// either an error exit, or dominated by the nil-error edge of such a call, or hands back that
// call's own error. want is an access path in the namespace of the function containing k that
// target may inspect ("" = none); it is re-bound to the callee's parameter names on the way down.
func (c *Ctx) okImpliesCall(k *ssa.Call, want string, target func(k *ssa.Call, want string) bool, depth int) bool {
	if target(k, want) {
		return true
	}
	h := c.helperOf(k)
	if h == nil || depth > ipG1MaxDepth || errResult(k) == nil {
		return false
	}
	wants := []string{""}
	if want != "" {
		wants = nil
		for j, a := range k.Call.Args {
			if j < len(h.Params) && pathOf(a) == want {
				wants = append(wants, h.Params[j].Name())
			}
		}
	}
	rets := returnsOf(h)
	for _, w := range wants {
		all, some := true, false
		for _, ret := range rets {
			if isErrorExit(ret) {
				continue
			}
			ok := false
			eachInstr(h, func(_ *ssa.BasicBlock, _ int, in ssa.Instruction) {
				k2, isCall := in.(*ssa.Call)
				if ok || !isCall || errResult(k2) == nil || !instrDominates(k2, ret) {
					return
				}
				if (okEdgeDominates(k2, ret.Block()) || returnsErrOf(ret, k2)) && c.okImpliesCall(k2, w, target, depth+1) {
					ok = true
				}
			})
			if !ok {
				all = false
				break
			}
			some = true
		}
		if all && some {
			return true
		}
	}
	return false
}

// okCallDominating: some call in fn whose nil-error edge dominates block b implies (okImpliesCall)
// the success of a target call.
func (c *Ctx) okCallDominating(fn *ssa.Function, b *ssa.BasicBlock, want string, target func(k *ssa.Call, want string) bool) *ssa.Call {
	var found *ssa.Call
	eachInstr(fn, func(_ *ssa.BasicBlock, _ int, in ssa.Instruction) {
		k, isCall := in.(*ssa.Call)
		if found != nil || !isCall || errResult(k) == nil {
			return
		}
		if okEdgeDominates(k, b) && c.okImpliesCall(k, want, target, 0) {
			found = k
		}
	})
	return found
}

// errLeaves: the error result of call k leaves the function that contains k: the call's result is
// handed back straight away (return f(...)), or some return on the non-nil edge of a test of that
// error hands back the error itself or another error that is non-nil there (wrapped with %w,
// replaced by a sentinel). The test may examine a phi that merges the error with others.
func errLeaves(k *ssa.Call) bool {
	ev := errResult(k)
	if ev == nil {
		return false
	}
	// the values a test of the error may examine: the error, or a non-loop phi it flows into
	tested := []ssa.Value{ev}
	for _, ref := range *ev.Referrers() {
		if ph, ok := ref.(*ssa.Phi); ok {
			tested = append(tested, ph)
		}
	}
	for _, ret := range returnsOf(k.Parent()) {
		if len(ret.Results) == 0 {
			continue
		}
		rv := resOf(ret, len(ret.Results)-1)
		if rv == ev && ret.Block() == k.Block() {
			return true // return f(...): nothing lies between the call and the return
		}
		for _, cd := range condsAt(ret.Block()) {
			for _, tv := range tested {
				if is, isNil := nilTest(cd, tv); is && !isNil && (rv == tv || rv == ev || isErrorExit(ret)) {
					return true
				}
			}
		}
	}
	return false
}

// errLeavesUp: the error of call k ends the turn: it leaves the function containing k and, when
// that function is an unexported helper, the error of each call of the helper leaves the caller in
// turn - up to the exported API of the module (what Exchange does with an error is the business of
// the close rules). Returns the place where the error is dropped, "" when it is not.
func (c *Ctx) errLeavesUp(k *ssa.Call, depth int) string {
	fn := k.Parent()
	if !errLeaves(k) {
		return fnName(fn)
	}
	if exportedFn(fn) {
		return ""
	}
	if depth > ipG1MaxDepth {
		return "the callers of " + fnName(fn) + " (call chain too deep to follow)"
	}
	sites := c.h1AllSites(fn) // ip_h1.go: also the calls made through method values kept in local tables
	if sites == nil {
		return "the callers of " + fnName(fn) + " (its call sites cannot be enumerated)"
	}
	for _, s := range sites {
		if exportedFn(s.Parent()) {
			continue
		}
		call, ok := s.(*ssa.Call)
		if !ok {
			return fnName(s.Parent()) + " (deferred or spawned call: its result is dropped)"
		}
		if where := c.errLeavesUp(call, depth+1); where != "" {
			return where
		}
	}
	return ""
}

// ---- C02-process across helpers -----------------------------------------------------------------

const payloadRead = "fbb.Session.readCompressed"

var connWriters = []string{"fmt.Fprintf", "fmt.Fprint", "fmt.Fprintln", "fbb.Session.writeCompressed"}

// procWalk follows the paths that continue after a successful payload read and reports the first
// thing reachable without the inbound handler having been called: the next round (the read, or the
// call that led to it, executed again), a write to the connection, the Received statistics, or the
// end of the turn (a normal return to the exported API). A normal return of an unexported helper is
// followed into every caller.
type procWalk struct {
	c      *Ctx
	leak   string
	noLift bool // summarising a callee: its own normal return is the question, callers are not visited
	seen   map[*ssa.BasicBlock]bool
	calls  []*ssa.Call // helper calls accepted as "performs ProcessInbound or fails": their error must leave too
}

func isProcessInbound(k *ssa.Call, _ string) bool { return invokes(k, "ProcessInbound") }

// alwaysProcesses: every path through h passes ProcessInbound (directly or in a callee of the same
// kind) before anything that counts as a leak, or leaves h through an error exit.
func (c *Ctx) alwaysProcesses(h *ssa.Function, depth int) bool {
	if depth > ipG1MaxDepth || !c.performsInvoke(h, "ProcessInbound", map[*ssa.Function]bool{}) {
		return false
	}
	w := &procWalk{c: c, noLift: true, seen: map[*ssa.BasicBlock]bool{}}
	w.walk(h.Blocks[0], 0, nil, depth+1)
	for _, k := range w.calls {
		if !errLeaves(k) {
			return false
		}
	}
	return w.leak == ""
}

// performsInvoke: fn or a module function it statically calls makes an interface call of method.
func (c *Ctx) performsInvoke(fn *ssa.Function, method string, seen map[*ssa.Function]bool) bool {
	if fn == nil || seen[fn] || fn.Blocks == nil {
		return false
	}
	seen[fn] = true
	found := false
	eachInstr(fn, func(_ *ssa.BasicBlock, _ int, in ssa.Instruction) {
		ci, ok := in.(ssa.CallInstruction)
		if !ok || found {
			return
		}
		if invokes(ci, method) {
			found = true
		} else if h := c.helperOf(ci); h != nil && c.performsInvoke(h, method, seen) {
			found = true
		}
	})
	return found
}

// walk continues at instruction idx of block b; anchor is the call in b's function whose
// re-execution starts the next round (the payload read, or the call of the helper that read).
func (w *procWalk) walk(b *ssa.BasicBlock, idx int, anchor *ssa.Call, depth int) {
	c := w.c
	if w.leak != "" {
		return
	}
	if idx == 0 {
		if w.seen[b] {
			return
		}
		w.seen[b] = true
		if anchor != nil && b != anchor.Block() && b.Dominates(anchor.Block()) {
			w.leak = "the next loop iteration (" + b.Comment + " at " + c.pos(firstPos(b)) + ")"
			return
		}
	}
	for _, in := range b.Instrs[idx:] {
		switch x := in.(type) {
		case *ssa.Return:
			if isErrorExit(x) {
				return
			}
			fn := b.Parent()
			sites := c.liftSites(fn)
			lift := !w.noLift && sites != nil && depth <= ipG1MaxDepth
			for _, s := range sites {
				if exportedFn(s.Parent()) {
					lift = false // the turn ends here
				}
			}
			if !lift {
				w.leak = "a normal return at " + c.pos(x.Pos())
				return
			}
			for _, s := range sites {
				w.walk(s.Block(), instrIndex(s)+1, s, depth+1)
			}
			return
		case *ssa.Call:
			if invokes(x, "ProcessInbound") {
				return // passes through ProcessInbound: fine from here (its error is checked separately)
			}
			if h := c.helperOf(x); h != nil && c.alwaysProcesses(h, depth) {
				w.calls = append(w.calls, x)
				return
			}
			switch {
			case x == anchor || c.callPerforms(x, payloadRead):
				w.leak = "the next payload read at " + c.pos(x.Pos())
			case c.callPerforms(x, connWriters...):
				w.leak = "a write to the connection at " + c.pos(x.Pos())
			}
		case *ssa.Store:
			if strings.HasSuffix(pathOf(x.Addr), ".trafficStats.Received") {
				w.leak = "the Received statistics at " + c.pos(x.Pos())
			}
		}
		if w.leak != "" {
			return
		}
	}
	for _, s := range b.Succs {
		w.walk(s, 0, anchor, depth)
	}
}

func firstPos(b *ssa.BasicBlock) token.Pos {
	for _, in := range b.Instrs {
		if in.Pos().IsValid() {
			return in.Pos()
		}
	}
	return token.NoPos
}

// okStarts: the program points at which "call k returned a nil error" first holds: the nil
// successor of the test of its error; when the error is handed straight back by an unexported helper,
// the same for every call of that helper. ok=false: the error is not tested.
func (c *Ctx) okStarts(k *ssa.Call, depth int) (starts []walkStart, ok bool) {
	ev := errResult(k)
	if ev == nil {
		return nil, false
	}
	for _, ref := range *ev.Referrers() {
		b, isB := ref.(*ssa.BinOp)
		if !isB || (b.Op != token.NEQ && b.Op != token.EQL) || !(isNilConst(b.Y) || isNilConst(b.X)) {
			continue
		}
		for _, r2 := range *b.Referrers() {
			if ifi, isIf := r2.(*ssa.If); isIf {
				nilSucc := 0
				if b.Op == token.NEQ {
					nilSucc = 1
				}
				starts = append(starts, walkStart{ifi.Block().Succs[nilSucc], 0, k})
			}
		}
	}
	if len(starts) > 0 {
		return starts, true
	}
	// return s.readCompressed(...): the caller sees the very same error
	fn := k.Parent()
	direct := false
	for _, ret := range returnsOf(fn) {
		if returnsErrOf(ret, k) && ret.Block() == k.Block() {
			direct = true
		}
	}
	sites := c.liftSites(fn)
	if !direct || sites == nil || depth > ipG1MaxDepth {
		return nil, false
	}
	for _, s := range sites {
		st, ok := c.okStarts(s, depth+1)
		if !ok {
			return nil, false
		}
		starts = append(starts, st...)
	}
	return starts, true
}

type walkStart struct {
	b      *ssa.BasicBlock
	idx    int
	anchor *ssa.Call
}

// isReadOf: k is the payload read of the proposal with access path want.
func isReadOf(k *ssa.Call, want string) bool {
	if callName(&k.Call) != payloadRead || len(k.Call.Args) == 0 {
		return false
	}
	return want != "" && pathOf(k.Call.Args[len(k.Call.Args)-1]) == want
}

// verifiedMessage decides "the value v, used at instruction at of fn, is result 0 of
// Proposal.Message on the proposal whose payload read just succeeded, with the nil edges of both
// calls dominating". When v is a parameter of an unexported helper the question is asked about the
// actual argument at every call of the helper; when Message is called on a parameter, the payload
// read may have succeeded in the callers.
func (c *Ctx) verifiedMessage(fn *ssa.Function, v ssa.Value, at ssa.Instruction, depth int) (bool, string) {
	var from *ssa.Call
	dependsOn(v, func(u ssa.Value) bool {
		if ex, ok := u.(*ssa.Extract); ok && ex.Index == 0 {
			if call, ok := ex.Tuple.(*ssa.Call); ok && callName(&call.Call) == "fbb.Proposal.Message" {
				from = call
				return true
			}
		}
		return false
	})
	if from == nil || from.Parent() != fn {
		from = nil
		if i := paramIndex(fn, v); i >= 0 && depth < ipG1MaxDepth {
			if sites := c.liftSites(fn); sites != nil {
				for _, s := range sites {
					if ok, why := c.verifiedMessage(s.Parent(), s.Call.Args[i], s, depth+1); !ok {
						return false, why
					}
				}
				return true, ""
			}
		}
		return false, "the message handed to ProcessInbound is not the result of Proposal.Message (decompress and verify)"
	}
	if !okEdgeDominates(from, at.Block()) {
		return false, "the message is handed to ProcessInbound although the error of Proposal.Message at " + c.pos(from.Pos()) + " was not tested: damaged data can be delivered"
	}
	// Message() is called on the proposal that was just read, after the read succeeded
	prop := from.Call.Args[0]
	if c.okCallDominating(fn, from.Block(), pathOf(prop), isReadOf) != nil {
		return true, ""
	}
	if c.readOKAtCallers(fn, prop, depth) {
		return true, ""
	}
	return false, "Proposal.Message is not called on the proposal whose payload read just succeeded"
}

// readOKAtCallers: prop is a parameter of the unexported helper fn and every call of fn is
// dominated by the nil-error edge of the payload read of the proposal passed for it.
func (c *Ctx) readOKAtCallers(fn *ssa.Function, prop ssa.Value, depth int) bool {
	i := paramIndex(fn, prop)
	sites := c.liftSites(fn)
	if i < 0 || sites == nil || depth >= ipG1MaxDepth {
		return false
	}
	for _, s := range sites {
		a := s.Call.Args[i]
		if c.okCallDominating(s.Parent(), s.Block(), pathOf(a), isReadOf) == nil && !c.readOKAtCallers(s.Parent(), a, depth+1) {
			return false
		}
	}
	return true
}

// processedBefore: block b of fn is dominated by the nil-error edge of ProcessInbound - of the call
// itself, of a helper that returns nil only when ProcessInbound did, or at every call of fn when fn
// is an unexported helper.
func (c *Ctx) processedBefore(fn *ssa.Function, b *ssa.BasicBlock, depth int) bool {
	if c.okCallDominating(fn, b, "", isProcessInbound) != nil {
		return true
	}
	sites := c.liftSites(fn)
	if sites == nil || depth >= ipG1MaxDepth {
		return false
	}
	for _, s := range sites {
		if !c.processedBefore(s.Parent(), s.Block(), depth+1) {
			return false
		}
	}
	return true
}

// ---- C01-dispatch across helpers ------------------------------------------------------------------

// answerHoldsAt: instruction at of fn only executes when '<prop>.answer == k' holds for the
// proposal prop: the equality edge of such a test dominates at, or prop is a parameter of the
// unexported helper fn and the same holds at every call of fn for the argument passed for prop.
func (c *Ctx) answerHoldsAt(fn *ssa.Function, at ssa.Instruction, prop ssa.Value, k int64, depth int) bool {
	obj := pathOf(prop)
	for _, cd := range condsAt(at.Block()) {
		if o, kk, eq, ok := answerIs(cd); ok && eq && kk == k && o == obj {
			return true
		}
	}
	i := paramIndex(fn, prop)
	sites := c.liftSites(fn)
	if i < 0 || sites == nil || depth >= ipG1MaxDepth {
		return false
	}
	// the helper must not change an answer between its entry and the instruction
	changed := false
	eachInstr(fn, func(_ *ssa.BasicBlock, _ int, in ssa.Instruction) {
		if st, ok := in.(*ssa.Store); ok && strings.HasSuffix(pathOf(st.Addr), ".answer") && instrReaches(st, at) {
			changed = true
		}
	})
	if changed {
		return false
	}
	for _, s := range sites {
		if i >= len(s.Call.Args) || !c.answerHoldsAt(s.Parent(), s, s.Call.Args[i], k, depth+1) {
			return false
		}
	}
	return true
}

// ---- C02-confirm across helpers -------------------------------------------------------------------

const payloadWrite = "fbb.Session.writeCompressed"

// confirmAt decides, for instruction t of fn: whenever t executes, [needWrite: a call performing the
// payload write returned, and after it] a read from the remote returned a nil error and delivered
// 'F' or ';'. A *confirmer* is a call k of fn that dominates t and is
//   - a remote read whose nil-error edge and byte guard dominate t (readConfirms), or
//   - a static call of a module function returning an error, whose nil-error edge dominates t, and
//     every return of which is an error exit or is itself confirmed inside the callee (confirmAt on
//     the return, callers of the callee not consulted).
//
// The payload write has to dominate the confirmer; when fn is an unexported helper it may instead
// dominate every call of fn (writeBefore), and when fn has no confirmer at all the whole obligation
// is put to every call of fn (lift).
func (c *Ctx) confirmAt(fn *ssa.Function, t ssa.Instruction, needWrite, lift bool, depth int) (bool, string) {
	var reasons, minor []string // minor: about calls that do not follow a payload write anyway
	var found string
	confirmer := false
	eachInstr(fn, func(_ *ssa.BasicBlock, _ int, instr ssa.Instruction) {
		k, ok := instr.(*ssa.Call)
		if found != "" || !ok || !instrDominates(k, t) {
			return
		}
		note := func(format string, a ...interface{}) {
			if needWrite && c.writeBefore(fn, k, depth) == "" {
				minor = append(minor, fmt.Sprintf(format, a...))
			} else {
				reasons = append(reasons, fmt.Sprintf(format, a...))
			}
		}
		desc, selfWrites := "", false
		if c.isRemoteRead(k) {
			var why string
			if desc, why = c.readConfirms(fn, k, t); desc == "" {
				note("%s", why)
			}
		}
		if h := c.helperOf(k); desc == "" && h != nil && errResult(k) != nil && depth < ipG1MaxDepth && c.performsRemoteRead(h, map[*ssa.Function]bool{}) {
			if !okEdgeDominates(k, t.Block()) {
				note("the call at %s reads from the remote but the nil edge of its error does not dominate the report", c.pos(k.Pos()))
				return
			}
			if d, ok := c.nilReturnConfirmed(h, false, depth+1); ok {
				desc = fmt.Sprintf("%s (%s) returns nil only after: %s", c.exprAt(fn, k.Pos()), c.pos(k.Pos()), d)
			} else if d2, ok := c.nilReturnConfirmed(h, true, depth+1); needWrite && ok {
				desc, selfWrites = fmt.Sprintf("%s (%s) returns nil only after: %s", c.exprAt(fn, k.Pos()), c.pos(k.Pos()), d2), true
			} else {
				note("%s at %s can return nil without the peer's confirmation (%s)", c.exprAt(fn, k.Pos()), c.pos(k.Pos()), d)
			}
		}
		if desc == "" {
			return
		}
		confirmer = true
		if !needWrite || selfWrites {
			found = desc
			return
		}
		if w := c.writeBefore(fn, k, depth); w != "" {
			found = w + " -> " + desc
		} else {
			reasons = append(reasons, fmt.Sprintf("no call performing the payload write precedes the read at %s", c.pos(k.Pos())))
		}
	})
	if found != "" {
		return true, found
	}
	if !confirmer && lift && depth < ipG1MaxDepth {
		if sites := c.liftSites(fn); sites != nil {
			var descs []string
			all := true
			for _, s := range sites {
				ok, d := c.confirmAt(s.Parent(), s, needWrite, true, depth+1)
				if !ok {
					all = false
					if len(reasons) == 0 {
						reasons = append(reasons, fmt.Sprintf("at the call of %s at %s: %s", fnName(fn), c.pos(s.Pos()), d))
					}
					break
				}
				descs = append(descs, fmt.Sprintf("call at %s: %s", c.pos(s.Pos()), d))
			}
			if all {
				return true, fmt.Sprintf("established at every call of %s (%s)", fnName(fn), strings.Join(descs, "; "))
			}
		}
	}
	if len(reasons) > 0 {
		return false, strings.Join(reasons, "; ")
	}
	if needWrite && c.writeBefore(fn, t, depth) == "" {
		return false, "no call performing the payload write dominates this report: a message can be reported sent without having been transmitted in this function (lift the obligation or restore the order)"
	}
	if len(minor) > 0 {
		return false, "no read from the remote lies between the payload write and this report: the message is reported sent before the peer confirmed the block (" + strings.Join(minor, "; ") + ")"
	}
	return false, "no read from the remote lies between the payload write and this report: the message is reported sent before the peer confirmed the block"
}

// nilReturnConfirmed: every return of h that can hand back a nil error is confirmed inside h.
func (c *Ctx) nilReturnConfirmed(h *ssa.Function, needWrite bool, depth int) (string, bool) {
	desc, n := "", 0
	for _, ret := range returnsOf(h) {
		if isErrorExit(ret) {
			continue
		}
		ok, d := c.confirmAt(h, ret, needWrite, false, depth)
		if !ok {
			return fmt.Sprintf("return at %s: %s", c.pos(ret.Pos()), d), false
		}
		n++
		if desc == "" {
			desc = d
		}
	}
	if n == 0 {
		return "no return hands back a nil error", false
	}
	return desc, true
}

// writeBefore: a call performing the payload write dominates instruction k of fn - in fn, or, when
// fn is an unexported helper, at every call of fn. Returns a description, "" when not established.
func (c *Ctx) writeBefore(fn *ssa.Function, k ssa.Instruction, depth int) string {
	var w ssa.CallInstruction
	eachInstr(fn, func(_ *ssa.BasicBlock, _ int, instr ssa.Instruction) {
		if ci, ok := instr.(*ssa.Call); ok && w == nil && instrDominates(ci, k) && c.callPerforms(ci, payloadWrite) {
			w = ci
		}
	})
	if w != nil {
		return fmt.Sprintf("payload write (%s)", c.pos(w.Pos()))
	}
	sites := c.liftSites(fn)
	if sites == nil || depth >= ipG1MaxDepth {
		return ""
	}
	first := ""
	for _, s := range sites {
		d := c.writeBefore(s.Parent(), s, depth+1)
		if d == "" {
			return ""
		}
		if first == "" {
			first = d
		}
	}
	return first + " before every call of " + fnName(fn)
}

// performsRemoteRead: fn or a module function it statically calls reads from the session's reader.
func (c *Ctx) performsRemoteRead(fn *ssa.Function, seen map[*ssa.Function]bool) bool {
	if fn == nil || seen[fn] || fn.Blocks == nil {
		return false
	}
	seen[fn] = true
	found := false
	eachInstr(fn, func(_ *ssa.BasicBlock, _ int, in ssa.Instruction) {
		ci, ok := in.(ssa.CallInstruction)
		if !ok || found {
			return
		}
		if c.isRemoteRead(ci) {
			found = true
		} else if h := c.helperOf(ci); h != nil && c.performsRemoteRead(h, seen) {
			found = true
		}
	})
	return found
}

// ---- C01-chunk / C05-framelen: the body of an STX block -------------------------------------------

var writerWrites = map[string]bool{
	"bufio.Writer.Write": true, "bufio.Writer.WriteByte": true, "bufio.Writer.WriteString": true, "bufio.Writer.WriteRune": true,
	"bufio.Writer.ReadFrom": true, "fmt.Fprintf": true, "fmt.Fprint": true, "fmt.Fprintln": true, "io.WriteString": true, "io.Copy": true, "io.CopyN": true,
}

// stxBodyCounted: the bytes handed to the writer between the STX header write hdr and the next
// Flush of that writer are counted by n, the value of the length byte. Everything the function
// writes to that writer on a path from hdr up to the next Flush (or hdr again) is collected; the
// body is accepted when that is
//   - one WriteByte executed once per iteration of a loop that runs exactly n times: a counter from 0
//     in steps of 1 (for i := 0; i < m; i++, or the index of a range loop) compared with m at the
//     loop header, m equal to n (the same register, or proved equal by the fact engine), no way out
//     of the loop other than the header or a path that leaves the function; or
//   - one Write(s), not repeated by a loop of its own, with len(s) equal to n in the same sense.
func stxBodyCounted(pr *prover, hdr *ssa.Call, n ssa.Value) (bool, string) {
	fn := hdr.Parent()
	writer := hdr.Call.Args[0]
	sameWriter := func(v ssa.Value) bool { return v == writer || pathOf(v) == pathOf(writer) }
	var body []*ssa.Call
	seen := map[*ssa.BasicBlock]bool{}
	var walk func(b *ssa.BasicBlock, idx int)
	walk = func(b *ssa.BasicBlock, idx int) {
		if idx == 0 {
			if seen[b] {
				return
			}
			seen[b] = true
		}
		for _, in := range b.Instrs[idx:] {
			k, ok := in.(*ssa.Call)
			if !ok || len(k.Call.Args) == 0 || k.Call.IsInvoke() {
				continue
			}
			if k == hdr {
				return
			}
			name := callName(&k.Call)
			if !sameWriter(k.Call.Args[0]) {
				continue
			}
			if name == "bufio.Writer.Flush" {
				return
			}
			if writerWrites[name] {
				body = append(body, k)
			}
		}
		for _, s := range b.Succs {
			walk(s, 0)
		}
	}
	walk(hdr.Block(), instrIndex(hdr)+1)
	if len(body) != 1 {
		return false, fmt.Sprintf("%d writes to the writer lie between the STX header and the flush", len(body))
	}
	w := body[0]
	// innermost loop around w that does not also contain the header write
	var inner *loop
	for _, lp := range naturalLoops(fn) {
		lp := lp
		if lp.body[w.Block()] && !lp.body[hdr.Block()] && (inner == nil || len(lp.body) < len(inner.body)) {
			inner = &lp
		}
	}
	switch callName(&w.Call) {
	case "bufio.Writer.Write":
		if inner != nil {
			return false, "the Write after the STX header is repeated by a loop"
		}
		if !sameCount(pr, w.Call.Args[1], true, n, w) {
			return false, "the length of the slice written after the STX header is not proved equal to the length byte"
		}
		return true, "one Write of a slice whose length equals the length byte"
	case "bufio.Writer.WriteByte":
		if inner == nil {
			return false, "a single byte follows the STX header"
		}
		for _, l := range inner.latches {
			if !w.Block().Dominates(l) {
				return false, "the WriteByte after the STX header is not executed on every iteration of its loop"
			}
		}
		// ip_h1r3.go: the bottom-tested form (for range n) counts as well; its own reason wins when it has one
		if ok, why := h1RotatedCount(pr, inner, n); ok || why != "" {
			return ok, why
		}
		for b := range inner.body {
			for _, s := range b.Succs {
				if !inner.body[s] && b != inner.header && !regionExits(s) {
					return false, "the loop writing the block body can be left early"
				}
			}
		}
		ifi, ok := inner.header.Instrs[len(inner.header.Instrs)-1].(*ssa.If)
		if !ok || !inner.body[inner.header.Succs[0]] || inner.body[inner.header.Succs[1]] {
			return false, "the loop writing the block body is not bounded at its header"
		}
		cmp, ok := ifi.Cond.(*ssa.BinOp)
		if !ok || cmp.Op != token.LSS || !countsFromZero(cmp.X, inner) {
			return false, "the loop writing the block body is not a counter from 0 in steps of 1 compared with '<'"
		}
		if !isIntType(cmp.Y.Type()) || !sameCount(pr, cmp.Y, false, n, cmp) {
			return false, "the bound of the loop writing the block body is not proved equal to the length byte"
		}
		return true, "one WriteByte per iteration of a loop that runs exactly as many times as the length byte says"
	}
	return false, "the block body is not written by WriteByte in a counting loop or by one Write"
}

// countsFromZero: x, compared at the header of loop lp, is 0 on the first visit and one more on each
// further visit: phi(0, x+1) (three-clause for) or phi(-1, x) + 1 (range loop).
func countsFromZero(x ssa.Value, lp *loop) bool {
	isStep := func(v ssa.Value, of ssa.Value) bool {
		b, ok := v.(*ssa.BinOp)
		if !ok || b.Op != token.ADD || b.X != of {
			return false
		}
		k, isC := constInt(b.Y)
		return isC && k == 1
	}
	check := func(ph *ssa.Phi, first int64, next func(e ssa.Value) bool) bool {
		if ph.Block() != lp.header {
			return false
		}
		for i, e := range ph.Edges {
			if lp.body[ph.Block().Preds[i]] {
				if !next(e) {
					return false
				}
			} else if k, isC := constInt(e); !isC || k != first {
				return false
			}
		}
		return true
	}
	if ph, ok := x.(*ssa.Phi); ok {
		return check(ph, 0, func(e ssa.Value) bool { return isStep(e, ph) })
	}
	if b, ok := x.(*ssa.BinOp); ok {
		if ph, isPhi := b.X.(*ssa.Phi); isPhi && isStep(b, ph) {
			return check(ph, -1, func(e ssa.Value) bool { return e == x })
		}
	}
	return false
}
