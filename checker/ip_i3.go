package main

// Shape-independent formulations of two rules (engineer I3):
//
//   - C08-sticky "failed ReadByte stores the error before returning": decided for every byte read of
//     the bit reader wherever it lives (the anchored method, a helper method or function, a local
//     closure, a method value), by following the failure paths of the read to the exits of the
//     function that contains it; a helper that hands the error back makes each of ITS call sites a
//     read (every call site, parameters bound to the actual arguments).
//   - C14-framing "serial prefix C: and CRC over the command": decided by a small symbolic execution
//     of the frame writer for the serial and for the TCP host interface: the bytes that reach the
//     writer on every path without a write error must be "C:" + M + big-endian crc16Sum(M), resp. M.
//
// Nothing here is keyed on the name of a helper, of a local variable or of a parameter. Whatever
// cannot be resolved stays undecided, and undecided is reported.

import (
	"fmt"
	"go/constant"
	"go/token"
	"go/types"
	"sort"
	"strings"

	"golang.org/x/tools/go/ssa"
)

const i3MaxDepth = 3

func i3IsErrorType(t types.Type) bool {
	return types.Identical(t, types.Universe.Lookup("error").Type())
}

// i3Named returns the named type behind t (through one pointer), or nil.
func i3Named(t types.Type) *types.Named {
	if p, ok := t.Underlying().(*types.Pointer); ok {
		t = p.Elem()
	}
	if p, ok := t.(*types.Pointer); ok {
		t = p.Elem()
	}
	n, _ := t.(*types.Named)
	return n
}

// i3LocalCallSites enumerates the calls of a function literal: every MakeClosure of it is either
// called directly or kept in a local variable that is assigned exactly once and only ever called.
// ok is false when the literal is used in any other way (deferred, spawned, passed on, stored).
func i3LocalCallSites(lit *ssa.Function) (sites []*ssa.Call, ok bool) {
	parent := lit.Parent()
	if parent == nil {
		return nil, false
	}
	ok = true
	var onlyCalled func(v ssa.Value)
	onlyCalled = func(v ssa.Value) {
		if v.Referrers() == nil {
			ok = false
			return
		}
		for _, ref := range *v.Referrers() {
			switch x := ref.(type) {
			case *ssa.DebugRef:
			case *ssa.Call:
				if x.Call.Value != v {
					ok = false // handed to a callee as an argument
					return
				}
				for _, a := range x.Call.Args {
					if a == v {
						ok = false
						return
					}
				}
				sites = append(sites, x)
			case *ssa.Store:
				al, isAl := x.Addr.(*ssa.Alloc)
				if !isAl || x.Val != v || g9StoreCount(al) != 1 {
					ok = false
					return
				}
				for _, ld := range g9Aliases(v) {
					if ld != v {
						onlyCalled(ld)
					}
				}
				// loads inside closures that capture the variable
				for _, r2 := range *al.Referrers() {
					if mc, isMC := r2.(*ssa.MakeClosure); isMC {
						cf := mc.Fn.(*ssa.Function)
						for i, b := range mc.Bindings {
							if b != ssa.Value(al) || i >= len(cf.FreeVars) || cf.FreeVars[i].Referrers() == nil {
								continue
							}
							for _, r3 := range *cf.FreeVars[i].Referrers() {
								if ld, isLd := r3.(*ssa.UnOp); isLd && ld.Op == token.MUL {
									onlyCalled(ld)
								} else if _, isDbg := r3.(*ssa.DebugRef); !isDbg {
									ok = false
								}
							}
						}
					}
				}
			default:
				ok = false
				return
			}
		}
	}
	n := 0
	for _, g := range withClosures(rootFn(lit)) {
		eachInstr(g, func(_ *ssa.BasicBlock, _ int, in ssa.Instruction) {
			if mc, isMC := in.(*ssa.MakeClosure); isMC && mc.Fn == ssa.Value(lit) {
				n++
				onlyCalled(mc)
			}
		})
	}
	if n == 0 {
		// a literal without free variables is a plain function value
		for _, g := range withClosures(rootFn(lit)) {
			eachInstr(g, func(_ *ssa.BasicBlock, _ int, in ssa.Instruction) {
				for _, op := range in.Operands(nil) {
					if *op != ssa.Value(lit) {
						continue
					}
					if call, isCall := in.(*ssa.Call); isCall && call.Call.Value == ssa.Value(lit) {
						n++
						sites = append(sites, call)
					} else if _, isDbg := in.(*ssa.DebugRef); !isDbg {
						ok = false
					}
				}
			})
		}
	}
	if n == 0 || len(sites) == 0 {
		return nil, false
	}
	return sites, ok
}

// i3SitesOf: every call site of fn (plain calls only), or ok=false when they cannot be enumerated.
// Beyond liftSites: function literals (i3LocalCallSites), and methods with an exported name whose
// receiver type is unexported and hidden from other packages (i3HiddenType).
func (c *Ctx) i3SitesOf(fn *ssa.Function) ([]*ssa.Call, bool) {
	if fn.Parent() != nil {
		return i3LocalCallSites(fn)
	}
	if s := c.liftSites(fn); len(s) > 0 {
		return s, true
	}
	if fn.Object() == nil || !fn.Object().Exported() || fn.Signature.Recv() == nil {
		return nil, false
	}
	recv := i3Named(fn.Signature.Recv().Type())
	if recv == nil || recv.Obj().Exported() || !c.i3HiddenType(recv) {
		return nil, false
	}
	si := c.siteIdx()
	if si.taken[fn] {
		return nil, false
	}
	var out []*ssa.Call
	for _, k := range si.sites[fn] {
		call, ok := k.(*ssa.Call)
		if !ok {
			return nil, false
		}
		out = append(out, call)
	}
	return out, len(out) > 0
}

// i3HiddenType: no code outside the module can call a method of the unexported named type t: no
// value of type t or *t is ever converted to an interface in the module, and t does not occur in
// the exported surface of its package (signatures of exported functions and of exported methods of
// exported types, exported variables, exported or embedded fields of exported struct types).
func (c *Ctx) i3HiddenType(t *types.Named) bool {
	same := func(u types.Type) bool {
		n := i3Named(u)
		return n != nil && n.Obj() == t.Obj()
	}
	for _, fn := range c.moduleFuncs() {
		leak := false
		eachInstr(fn, func(_ *ssa.BasicBlock, _ int, in ssa.Instruction) {
			if mi, ok := in.(*ssa.MakeInterface); ok && same(mi.X.Type()) {
				leak = true
			}
		})
		if leak {
			return false
		}
	}
	pkg := t.Obj().Pkg()
	if pkg == nil {
		return false
	}
	seen := map[types.Type]bool{}
	var mentions func(u types.Type, depth int) bool
	mentions = func(u types.Type, depth int) bool {
		if u == nil || seen[u] || depth > 8 {
			return false
		}
		seen[u] = true
		if same(u) {
			return true
		}
		switch x := u.(type) {
		case *types.Pointer:
			return mentions(x.Elem(), depth+1)
		case *types.Slice:
			return mentions(x.Elem(), depth+1)
		case *types.Array:
			return mentions(x.Elem(), depth+1)
		case *types.Chan:
			return mentions(x.Elem(), depth+1)
		case *types.Map:
			return mentions(x.Key(), depth+1) || mentions(x.Elem(), depth+1)
		case *types.Signature:
			for i := 0; i < x.Params().Len(); i++ {
				if mentions(x.Params().At(i).Type(), depth+1) {
					return true
				}
			}
			for i := 0; i < x.Results().Len(); i++ {
				if mentions(x.Results().At(i).Type(), depth+1) {
					return true
				}
			}
		case *types.Struct:
			for i := 0; i < x.NumFields(); i++ {
				if f := x.Field(i); (f.Exported() || f.Embedded()) && mentions(f.Type(), depth+1) {
					return true
				}
			}
		case *types.Interface:
			for i := 0; i < x.NumMethods(); i++ {
				if mentions(x.Method(i).Type(), depth+1) {
					return true
				}
			}
		case *types.Named:
			if x.Obj().Pkg() != pkg {
				return false
			}
			if mentions(x.Underlying(), depth+1) {
				return true
			}
			for i := 0; i < x.NumMethods(); i++ {
				if m := x.Method(i); m.Exported() && mentions(m.Type(), depth+1) {
					return true
				}
			}
		}
		return false
	}
	scope := pkg.Scope()
	for _, name := range scope.Names() {
		o := scope.Lookup(name)
		if !o.Exported() {
			continue
		}
		if mentions(o.Type(), 0) {
			return false
		}
	}
	return true
}

// ---- C08-sticky ---------------------------------------------------------------------------------

// i3Sticky decides "a failed byte read of the bit reader is recorded in its sticky error field".
type i3Sticky struct {
	c      *Ctx
	pkg    string
	anchor *ssa.Function
	recvT  *types.Named // the bit reader type: receiver of the anchor
	fields map[int]bool // its sticky error fields: error-typed fields handed out by an accessor method
	where  []string     // functions in which a read was decided (for the message)
}

// i3Read is one byte read (or a call of a helper that hands a byte read's error back) in fn.
type i3Read struct {
	fn   *ssa.Function
	call *ssa.Call
	ev   ssa.Value // its error result
	obj  string    // access path (in fn) of the bit reader whose byte source is read; "" when unknown
	objV ssa.Value // that value
	rdr  ssa.Value // the byte source itself when the bit reader is not known in this frame
}

// isByteRead: the call reads one byte from a byte source: a method ReadByte() (byte, error), called
// through an interface, statically, or through a method value. Returns the byte source.
func i3IsByteRead(com *ssa.CallCommon) (ssa.Value, bool) {
	obj := calleeObj(com)
	if obj == nil || obj.Name() != "ReadByte" {
		return nil, false
	}
	sig, _ := obj.Type().(*types.Signature)
	if sig == nil || sig.Recv() == nil || sig.Params().Len() != 0 || sig.Results().Len() != 2 || !i3IsErrorType(sig.Results().At(1).Type()) {
		return nil, false
	}
	if com.IsInvoke() {
		return com.Value, true
	}
	if mc, ok := com.Value.(*ssa.MakeClosure); ok { // method value: src.ReadByte held in a variable
		if len(mc.Bindings) == 1 {
			return mc.Bindings[0], true
		}
		return nil, false
	}
	if len(com.Args) > 0 {
		return com.Args[0], true
	}
	return nil, false
}

func (s *i3Sticky) isBitReader(t types.Type) bool {
	n := i3Named(t)
	return n != nil && s.recvT != nil && n.Obj() == s.recvT.Obj()
}

// objOfSource: the byte source v is loaded from a field of a bit reader: returns that bit reader.
func (s *i3Sticky) objOfSource(v ssa.Value) ssa.Value {
	v = origin(unwrap(v))
	switch x := v.(type) {
	case *ssa.UnOp:
		if fa, ok := x.X.(*ssa.FieldAddr); ok && x.Op == token.MUL && s.isBitReader(fa.X.Type()) {
			return fa.X
		}
	case *ssa.Field:
		if s.isBitReader(x.X.Type()) {
			return x.X
		}
	}
	return nil
}

// stickyFields: the error-typed fields of the bit reader type that one of its methods hands out
// (every return of a method with the single result error is a load of that field of the receiver).
func (s *i3Sticky) stickyFields() {
	s.fields = map[int]bool{}
	for _, fn := range s.c.SrcFuncs(s.pkg) {
		sig := fn.Signature
		if fn.Parent() != nil || sig.Recv() == nil || !s.isBitReader(sig.Recv().Type()) || sig.Params().Len() != 0 || sig.Results().Len() != 1 || !i3IsErrorType(sig.Results().At(0).Type()) {
			continue
		}
		field, agree := -1, true
		for _, ret := range returnsOf(fn) {
			f := -1
			switch x := origin(resOf(ret, 0)).(type) {
			case *ssa.UnOp:
				if fa, ok := x.X.(*ssa.FieldAddr); ok && x.Op == token.MUL && paramIndex(fn, fa.X) == 0 {
					f = fa.Field
				}
			case *ssa.Field:
				if paramIndex(fn, x.X) == 0 {
					f = x.Field
				}
			}
			if f < 0 || (field >= 0 && f != field) {
				agree = false
			}
			field = f
		}
		if agree && field >= 0 {
			s.fields[field] = true
		}
	}
}

// stickyStore: st assigns a sticky error field of a bit reader; returns the bit reader value.
func (s *i3Sticky) stickyStore(st *ssa.Store) (ssa.Value, bool) {
	fa, ok := st.Addr.(*ssa.FieldAddr)
	if !ok || !s.isBitReader(fa.X.Type()) || !s.fields[fa.Field] {
		return nil, false
	}
	return fa.X, true
}

// i3ConstNonNil: an error value that is not nil by construction: a concrete value converted to the
// interface, a fresh error, a package-level error variable (assumed never nil, as in isErrorExit).
func i3ConstNonNil(v ssa.Value) bool {
	switch x := origin(v).(type) {
	case *ssa.MakeInterface:
		return true
	case *ssa.Call:
		n := callName(&x.Call)
		return n == "errors.New" || n == "fmt.Errorf"
	case *ssa.UnOp:
		if g, ok := x.X.(*ssa.Global); ok && x.Op == token.MUL && i3IsErrorType(g.Type().(*types.Pointer).Elem()) {
			return true
		}
	}
	return false
}

// i3NonNilUnder: the error value v is not nil where the conditions conds hold.
func i3NonNilUnder(v ssa.Value, conds []Cond, depth int) bool {
	if i3ConstNonNil(v) {
		return true
	}
	v = origin(v)
	for _, cd := range conds {
		if is, isNil := nilTest(cd, v); is && !isNil {
			return true
		}
		// v == E with E a non-nil error constant
		if b, ok := cd.V.(*ssa.BinOp); ok && (b.Op == token.EQL) == cd.Truth && (b.Op == token.EQL || b.Op == token.NEQ) {
			if (origin(b.X) == v && i3ConstNonNil(b.Y)) || (origin(b.Y) == v && i3ConstNonNil(b.X)) {
				return true
			}
		}
	}
	if ph, ok := v.(*ssa.Phi); ok && depth < 3 {
		for i, e := range ph.Edges {
			pred := ph.Block().Preds[i]
			under := append(append([]Cond(nil), condsAt(pred)...), edgeCond(pred, ph.Block())...)
			if !i3NonNilUnder(e, under, depth+1) {
				return false
			}
		}
		return len(ph.Edges) > 0
	}
	return false
}

func i3NonNilAt(v ssa.Value, b *ssa.BasicBlock) bool { return i3NonNilUnder(v, condsAt(b), 0) }

// i3NilOnlyIf: x is nil only when ev is nil: x is ev, or a merge of ev with non-nil error constants
// (`if err == io.EOF { err = io.ErrUnexpectedEOF }`).
func i3NilOnlyIf(x, ev ssa.Value, depth int) bool {
	x = origin(x)
	if x == ev {
		return true
	}
	ph, ok := x.(*ssa.Phi)
	if !ok || depth > 3 {
		return false
	}
	some := false
	for _, e := range ph.Edges {
		switch {
		case i3NilOnlyIf(e, ev, depth+1):
			some = true
		case i3ConstNonNil(e):
		default:
			return false
		}
	}
	return some
}

// setter: fn always assigns its parameter val to a sticky field of its parameter obj (the store
// dominates every return).
func (s *i3Sticky) setter(fn *ssa.Function) (obj, val int, ok bool) {
	if fn == nil || fn.Blocks == nil || pkgRel(fn) != s.pkg {
		return 0, 0, false
	}
	found := false
	eachInstr(fn, func(_ *ssa.BasicBlock, _ int, in ssa.Instruction) {
		st, isSt := in.(*ssa.Store)
		if !isSt || found {
			return
		}
		base, isSticky := s.stickyStore(st)
		if !isSticky {
			return
		}
		oi, vi := paramIndex(fn, base), paramIndex(fn, st.Val)
		if oi < 0 || vi < 0 {
			return
		}
		for _, ret := range returnsOf(fn) {
			if !instrDominates(st, ret) {
				return
			}
		}
		obj, val, found = oi, vi, true
	})
	return obj, val, found
}

// records: instruction in (of the function of rd) records the failure of the read rd: it stores an
// error that is not nil there into a sticky field of the very bit reader whose source was read.
func (s *i3Sticky) records(in ssa.Instruction, rd i3Read) bool {
	if rd.obj == "" {
		return false
	}
	switch x := in.(type) {
	case *ssa.Store:
		base, ok := s.stickyStore(x)
		return ok && pathOf(base) == rd.obj && i3NonNilAt(x.Val, x.Block())
	case *ssa.Call:
		h := x.Call.StaticCallee()
		if h == nil || x.Call.IsInvoke() {
			return false
		}
		oi, vi, ok := s.setter(h)
		if !ok || oi >= len(x.Call.Args) || vi >= len(x.Call.Args) {
			return false
		}
		return pathOf(x.Call.Args[oi]) == rd.obj && i3NonNilAt(x.Call.Args[vi], x.Block())
	}
	return false
}

// decide follows the failure paths of the read to the exits of its function.
func (s *i3Sticky) decide(rd i3Read, depth int, onStack map[*ssa.Function]bool) (bool, string) {
	c := s.c
	fn := rd.fn
	at := c.pos(rd.call.Pos())
	if rd.ev == nil {
		return false, fmt.Sprintf("the error result of the byte read at %s is discarded", at)
	}
	if depth > i3MaxDepth || onStack[fn] {
		return false, fmt.Sprintf("the byte read at %s is more than %d helpers away from where its error is recorded (not followed)", at, i3MaxDepth)
	}
	type item struct {
		b   *ssa.BasicBlock
		idx int
	}
	seen := map[*ssa.BasicBlock]bool{}
	work := []item{{rd.call.Block(), instrIndex(rd.call) + 1}}
	recorded, forwards := 0, false
	for len(work) > 0 {
		it := work[len(work)-1]
		work = work[:len(work)-1]
		if it.idx == 0 {
			if seen[it.b] {
				continue
			}
			seen[it.b] = true
		}
		stop := false
		for _, in := range it.b.Instrs[it.idx:] {
			if s.records(in, rd) {
				recorded++
				stop = true
				break
			}
		}
		if stop {
			continue
		}
		switch t := it.b.Instrs[len(it.b.Instrs)-1].(type) {
		case *ssa.Return:
			n := len(t.Results)
			res := fn.Signature.Results()
			if n > 0 && i3IsErrorType(res.At(n-1).Type()) && fn != s.anchor {
				r := resOf(t, n-1)
				if r == rd.ev || i3NilOnlyIf(r, rd.ev, 0) || i3NonNilAt(r, t.Block()) {
					forwards = true
					continue
				}
			}
			return false, fmt.Sprintf("%s can return at %s after a failed byte read (%s) without recording the error in the bit reader: decoding continues on zero bits and Close reports success", fn.Name(), c.pos(t.Pos()), at)
		case *ssa.If:
			nilEdge := -1
			if b, ok := t.Cond.(*ssa.BinOp); ok && (b.Op == token.EQL || b.Op == token.NEQ) {
				var other ssa.Value
				switch {
				case isNilConst(b.Y):
					other = b.X
				case isNilConst(b.X):
					other = b.Y
				}
				if other != nil && i3NilOnlyIf(other, rd.ev, 0) {
					nilEdge = 0
					if b.Op == token.NEQ {
						nilEdge = 1
					}
				}
			}
			for i, succ := range it.b.Succs {
				if i != nilEdge { // on the nil edge the read did not fail
					work = append(work, item{succ, 0})
				}
			}
		default:
			for _, succ := range it.b.Succs {
				work = append(work, item{succ, 0})
			}
		}
	}
	if !forwards {
		if recorded == 0 {
			return false, fmt.Sprintf("the error of the byte read at %s is neither recorded nor handed back by %s", at, fn.Name())
		}
		s.where = append(s.where, fn.Name())
		return true, ""
	}
	// fn hands the error back (on the paths that do not record it): every call of fn is a byte read
	// of its caller, with the bit reader bound to the actual argument
	sites, ok := c.i3SitesOf(fn)
	if !ok {
		return false, fmt.Sprintf("%s hands the error of the byte read at %s back to its callers, and its call sites cannot be enumerated (exported, used as a value, deferred or spawned)", fn.Name(), at)
	}
	onStack[fn] = true
	defer delete(onStack, fn)
	for _, k := range sites {
		up := i3Read{fn: k.Parent(), call: k, ev: errResult(k)}
		if rd.objV != nil {
			if i := paramIndex(fn, rd.objV); i >= 0 && i < len(k.Call.Args) {
				up.objV = k.Call.Args[i]
				up.obj = pathOf(up.objV)
			} else if ld, isLd := rd.objV.(*ssa.UnOp); isLd && ld.Op == token.MUL && k.Parent() == fn.Parent() {
				// a variable captured by the function literal: the same variable, under the same
				// name, in the enclosing function that calls it
				if _, isFV := ld.X.(*ssa.FreeVar); isFV {
					up.obj = rd.obj
				}
			}
		} else if rd.rdr != nil {
			if i := paramIndex(fn, rd.rdr); i >= 0 && i < len(k.Call.Args) {
				up.rdr = k.Call.Args[i]
				if o := s.objOfSource(up.rdr); o != nil {
					up.objV, up.obj, up.rdr = o, pathOf(o), nil
				}
			}
		}
		if ok, why := s.decide(up, depth+1, onStack); !ok {
			return false, why
		}
	}
	return true, ""
}

// i3StickyRecorded decides the first obligation of C08-sticky for the anchored method of the bit
// reader. ok text / failure text are returned for the obligation.
func (c *Ctx) i3StickyRecorded(pkg string, anchor *ssa.Function) (bool, string) {
	s := &i3Sticky{c: c, pkg: pkg, anchor: anchor}
	if anchor.Signature.Recv() != nil {
		s.recvT = i3Named(anchor.Signature.Recv().Type())
	}
	if s.recvT == nil {
		return false, "the anchored function is not a method of a named bit reader type (unresolved)"
	}
	s.stickyFields()
	if len(s.fields) == 0 {
		return false, fmt.Sprintf("no method of %s hands out an error field of the bit reader: a recorded error could not be consulted (unresolved)", s.recvT.Obj().Name())
	}
	// the byte reads: every ReadByte on the byte source of a bit reader anywhere in the package, and
	// every ReadByte in the static call tree of the anchor
	inTree := map[*ssa.Function]bool{}
	for _, fn := range c.syncTree([]*ssa.Function{anchor}, pkg) {
		inTree[fn] = true
	}
	// closures held in a once-assigned local variable
	for changed := true; changed; {
		changed = false
		for fn := range inTree {
			eachInstr(fn, func(_ *ssa.BasicBlock, _ int, in ssa.Instruction) {
				if call, ok := in.(*ssa.Call); ok {
					if h := g9LocalFunc(&call.Call); h != nil && pkgRel(h) == pkg && !inTree[h] {
						for _, g := range c.syncTree([]*ssa.Function{h}, pkg) {
							inTree[g] = true
						}
						changed = true
					}
				}
			})
		}
	}
	var reads []i3Read
	nTree := 0
	bad := ""
	for _, fn := range c.SrcFuncs(pkg) {
		fn := fn
		eachInstr(fn, func(_ *ssa.BasicBlock, _ int, in ssa.Instruction) {
			ci, ok := in.(ssa.CallInstruction)
			if !ok {
				return
			}
			src, ok := i3IsByteRead(ci.Common())
			if !ok {
				return
			}
			obj := s.objOfSource(src)
			if obj == nil && !inTree[fn] {
				return // a byte read on something that is not a bit reader's source
			}
			if inTree[fn] {
				nTree++
			}
			call, isCall := in.(*ssa.Call)
			if !isCall {
				bad = fmt.Sprintf("the byte read at %s is deferred or spawned: its error cannot be recorded before the function returns", c.pos(in.Pos()))
				return
			}
			rd := i3Read{fn: fn, call: call, ev: errResult(call)}
			if obj != nil {
				rd.objV, rd.obj = obj, pathOf(obj)
			} else {
				rd.rdr = src
			}
			reads = append(reads, rd)
		})
	}
	if bad != "" {
		return false, bad
	}
	if nTree == 0 {
		return false, fmt.Sprintf("expected a ReadByte call in the static call tree of %s, found 0 (unresolved)", anchor.Name())
	}
	for _, rd := range reads {
		if ok, why := s.decide(rd, 0, map[*ssa.Function]bool{}); !ok {
			return false, why
		}
	}
	// the recorded error is never replaced by something that may be nil
	for _, fn := range c.SrcFuncs(pkg) {
		why := ""
		eachInstr(fn, func(_ *ssa.BasicBlock, _ int, in ssa.Instruction) {
			st, ok := in.(*ssa.Store)
			if !ok || why != "" {
				return
			}
			base, ok := s.stickyStore(st)
			if !ok {
				return
			}
			if al, isAl := base.(*ssa.Alloc); isAl && al.Parent() == fn {
				return // initialisation of a bit reader that is being built
			}
			if i3NonNilAt(st.Val, st.Block()) {
				return
			}
			if vi := paramIndex(fn, st.Val); vi >= 0 {
				sites, ok := c.i3SitesOf(fn)
				good := ok
				for _, k := range sites {
					if vi >= len(k.Call.Args) || !i3NonNilAt(k.Call.Args[vi], k.Block()) {
						good = false
					}
				}
				if good {
					return
				}
			}
			why = fmt.Sprintf("the bit reader's error field is assigned a value at %s that is not known to be a non-nil error: a recorded failure can be cleared and Close reports success", c.pos(st.Pos()))
		})
		if why != "" {
			return false, why
		}
	}
	sort.Strings(s.where)
	var uniq []string
	for i, w := range s.where {
		if i == 0 || w != s.where[i-1] {
			uniq = append(uniq, w)
		}
	}
	return true, fmt.Sprintf("every path from a failed byte read (in %s) to a return passes a store of a non-nil error to the bit reader's error field, and the field is never assigned anything else", strings.Join(uniq, ", "))
}

// ---- C14-framing: what the command frame writer puts on the wire --------------------------------
//
// i3x executes the frame writer symbolically, once per host interface (the transport flag fixed to
// serial resp. TCP), over every path (the function and the same-package helpers and local closures
// it calls are loop-free or the run gives up). Byte strings are sequences of atoms: constant bytes,
// opaque values (identified by the SSA value that produced them), the two bytes of a 16-bit integer
// in big/little endian order, single bytes of an integer. Tracked storage: the writer parameter
// (the wire), local bytes.Buffer/strings.Builder variables, local byte arrays and make([]byte, k).
// Recognised writes: w.Write, io.WriteString, fmt.Fprint/Fprintf/Fprintln with string operands,
// binary.Write, buffer methods, ByteOrder.PutUint16/AppendUint16, append, stores of byte(x>>8) and
// byte(x) into array slots. Anything else that receives the writer or tracked storage makes the
// run undecided.

type i3Int struct {
	crc  bool      // crc16Sum(arg)
	arg  []i3Atom  // the bytes summed
	v    ssa.Value // otherwise an opaque integer value
	inst int
}

func (n *i3Int) key() string {
	if n == nil {
		return "?"
	}
	if n.crc {
		return "crc16Sum(" + i3Key(n.arg) + ")"
	}
	return fmt.Sprintf("int%p@%d", n.v, n.inst)
}

type i3Atom struct {
	kind byte // 's' constant bytes, 'v' opaque byte string, 'B'/'L' 16-bit integer big/little endian, 'b' byte(n >> sh), '?' unknown
	s    string
	v    ssa.Value
	inst int
	n    *i3Int
	sh   int64
}

func (a i3Atom) key() string {
	switch a.kind {
	case 's':
		return fmt.Sprintf("%q", a.s)
	case 'v':
		return fmt.Sprintf("val%p@%d", a.v, a.inst)
	case 'B':
		return "be16(" + a.n.key() + ")"
	case 'L':
		return "le16(" + a.n.key() + ")"
	case 'b':
		return fmt.Sprintf("byte(%s>>%d)", a.n.key(), a.sh)
	}
	return "?(" + a.s + ")"
}

// i3Norm merges adjacent constants, drops empty ones and joins the two bytes of one integer.
func i3Norm(in []i3Atom) []i3Atom {
	var out []i3Atom
	for _, a := range in {
		if a.kind == 's' && a.s == "" {
			continue
		}
		if n := len(out); n > 0 {
			last := &out[n-1]
			if a.kind == 's' && last.kind == 's' {
				last.s += a.s
				continue
			}
			if a.kind == 'b' && last.kind == 'b' && a.n.key() == last.n.key() {
				if last.sh == 8 && a.sh == 0 {
					*last = i3Atom{kind: 'B', n: a.n}
					continue
				}
				if last.sh == 0 && a.sh == 8 {
					*last = i3Atom{kind: 'L', n: a.n}
					continue
				}
			}
		}
		out = append(out, a)
	}
	return out
}

func i3Key(as []i3Atom) string {
	var parts []string
	for _, a := range i3Norm(as) {
		parts = append(parts, a.key())
	}
	return strings.Join(parts, " + ")
}

func i3Unknown(why string) []i3Atom { return []i3Atom{{kind: '?', s: why}} }

type i3xFrame struct {
	fn    *ssa.Function
	inst  int
	up    *i3xFrame
	binds map[ssa.Value]i3xRef // parameters and free variables -> values of the calling frame
	depth int
}

type i3xRef struct {
	v  ssa.Value
	fr *i3xFrame
}

type i3xKey struct {
	v    ssa.Value
	inst int
}

type i3xBlk struct {
	b    *ssa.BasicBlock
	inst int
}

type i3xVal struct {
	bytes   []i3Atom
	isBytes bool
	num     *i3Int
	tuple   []i3xVal
	ref     *i3xRef // any other value: where it lives
	buf     *i3xKey // a buffer created by this call
}

// i3xFld is a field of a local struct variable (a small helper type that carries the writer, the
// flag or an error between the steps of the frame writer).
type i3xFld struct {
	al   ssa.Value
	inst int
	f    int
}

type i3xState struct {
	out     []i3Atom
	flds    map[i3xFld]i3xRef
	bufs    map[i3xKey][]i3Atom
	arrs    map[i3xKey][]i3Atom
	vals    map[i3xKey]i3xVal
	came    map[i3xBlk]*ssa.BasicBlock
	seen    map[i3xBlk]bool
	decided map[i3xKey]bool
	failed  bool
	unknown string
}

func (st *i3xState) clone() *i3xState {
	n := &i3xState{out: append([]i3Atom(nil), st.out...), failed: st.failed, unknown: st.unknown,
		bufs: map[i3xKey][]i3Atom{}, arrs: map[i3xKey][]i3Atom{}, vals: map[i3xKey]i3xVal{},
		came: map[i3xBlk]*ssa.BasicBlock{}, seen: map[i3xBlk]bool{}, decided: map[i3xKey]bool{}, flds: map[i3xFld]i3xRef{}}
	for k, v := range st.flds {
		n.flds[k] = v
	}
	for k, v := range st.bufs {
		n.bufs[k] = append([]i3Atom(nil), v...)
	}
	for k, v := range st.arrs {
		n.arrs[k] = append([]i3Atom(nil), v...)
	}
	for k, v := range st.vals {
		n.vals[k] = v
	}
	for k, v := range st.came {
		n.came[k] = v
	}
	for k, v := range st.seen {
		n.seen[k] = v
	}
	for k, v := range st.decided {
		n.decided[k] = v
	}
	return n
}

func (st *i3xState) giveUp(why string) {
	if st.unknown == "" {
		st.unknown = why
	}
}

type i3xOutcome struct {
	out     []i3Atom
	failed  bool
	unknown string
	at      token.Pos
}

type i3x struct {
	c        *Ctx
	pkg      string
	w        *ssa.Parameter
	tcp      bool
	nInst    int
	outcomes []i3xOutcome
	steps    int
	crcName  string
	note     string
}

const i3xMaxPaths = 256

// i3IsWriterType: an interface type with the method Write([]byte) (int, error).
func i3IsWriterType(t types.Type) bool {
	it, ok := t.Underlying().(*types.Interface)
	if !ok {
		return false
	}
	for i := 0; i < it.NumMethods(); i++ {
		m := it.Method(i)
		sig := m.Type().(*types.Signature)
		if m.Name() == "Write" && sig.Params().Len() == 1 && sig.Results().Len() == 2 && isByteSliceOrString(sig.Params().At(0).Type()) {
			return true
		}
	}
	return false
}

func i3IsBufType(t types.Type) bool {
	if p, ok := t.Underlying().(*types.Pointer); ok {
		t = p.Elem()
	}
	n, ok := t.(*types.Named)
	if !ok || n.Obj().Pkg() == nil {
		return false
	}
	q := n.Obj().Pkg().Path() + "." + n.Obj().Name()
	return q == "bytes.Buffer" || q == "strings.Builder"
}

// i3ByteArrayLen: t is *[n]byte with small n; returns n.
func i3ByteArrayLen(t types.Type) (int64, bool) {
	p, ok := t.Underlying().(*types.Pointer)
	if !ok {
		return 0, false
	}
	a, ok := p.Elem().Underlying().(*types.Array)
	if !ok || a.Len() > 16 {
		return 0, false
	}
	b, ok := a.Elem().Underlying().(*types.Basic)
	return a.Len(), ok && b.Kind() == types.Uint8
}

// resolve follows v through parameter/free-variable bindings of inlined frames, interface
// wrappers, phis (by the edge taken on this path), loads of once-assigned locals and results of
// inlined calls.
func (x *i3x) resolve(v ssa.Value, fr *i3xFrame, st *i3xState) (ssa.Value, *i3xFrame) {
	for i := 0; i < 40; i++ {
		switch t := v.(type) {
		case *ssa.Parameter:
			if r, ok := fr.binds[t]; ok {
				v, fr = r.v, r.fr
				continue
			}
			return v, fr
		case *ssa.FreeVar:
			if r, ok := fr.binds[t]; ok {
				v, fr = r.v, r.fr
				continue
			}
			return v, fr
		case *ssa.MakeInterface:
			v = t.X
		case *ssa.ChangeInterface:
			v = t.X
		case *ssa.ChangeType:
			v = t.X
		case *ssa.TypeAssert:
			if t.CommaOk {
				return v, fr
			}
			v = t.X // the same object behind another static type
		case *ssa.Phi:
			pred := st.came[i3xBlk{t.Block(), fr.inst}]
			found := false
			for j, p := range t.Block().Preds {
				if p == pred && j < len(t.Edges) {
					v, found = t.Edges[j], true
					break
				}
			}
			if !found {
				return v, fr
			}
		case *ssa.UnOp:
			if t.Op != token.MUL {
				return v, fr
			}
			addr, afr := x.resolve(t.X, fr, st)
			if fa, isFA := addr.(*ssa.FieldAddr); isFA {
				if k, ok := x.fieldOf(fa, afr, st); ok {
					if r, have := st.flds[k]; have {
						v, fr = r.v, r.fr
						continue
					}
				}
				return v, fr
			}
			al, ok := addr.(*ssa.Alloc)
			if !ok || i3IsBufType(al.Type()) {
				return v, fr
			}
			if _, isArr := i3ByteArrayLen(al.Type()); isArr {
				return v, fr
			}
			if afr == fr && al.Parent() == t.Parent() {
				if o := origin(t); o != ssa.Value(t) {
					v = o
					continue
				}
			}
			if g9StoreCount(al) != 1 {
				return v, fr
			}
			var only *ssa.Store
			for _, ref := range *al.Referrers() {
				if s, isSt := ref.(*ssa.Store); isSt && s.Addr == ssa.Value(al) {
					only = s
				}
			}
			if only == nil {
				return v, fr
			}
			v, fr = only.Val, afr
		case *ssa.Extract:
			if ta, ok := t.Tuple.(*ssa.TypeAssert); ok && t.Index == 0 {
				v = ta.X
				continue
			}
			if val, ok := st.vals[i3xKey{t.Tuple, fr.inst}]; ok && t.Index < len(val.tuple) && val.tuple[t.Index].ref != nil {
				r := val.tuple[t.Index].ref
				v, fr = r.v, r.fr
				continue
			}
			return v, fr
		case *ssa.Call:
			if val, ok := st.vals[i3xKey{t, fr.inst}]; ok && val.ref != nil {
				v, fr = val.ref.v, val.ref.fr
				continue
			}
			return v, fr
		default:
			return v, fr
		}
	}
	return v, fr
}

// fieldOf: fa addresses a field of a struct that is a local variable of one of the frames.
func (x *i3x) fieldOf(fa *ssa.FieldAddr, fr *i3xFrame, st *i3xState) (i3xFld, bool) {
	base, bfr := x.resolve(fa.X, fr, st)
	al, ok := base.(*ssa.Alloc)
	if !ok {
		return i3xFld{}, false
	}
	if _, isStruct := al.Type().Underlying().(*types.Pointer).Elem().Underlying().(*types.Struct); !isStruct || i3IsBufType(al.Type()) {
		return i3xFld{}, false
	}
	return i3xFld{al, bfr.inst, fa.Field}, true
}

// structCopy: `*dst = *src` between two local struct variables: the fields recorded for src are
// now those of dst (how go/ssa initialises a variable from a composite literal).
func (x *i3x) structCopy(in *ssa.Store, fr *i3xFrame, st *i3xState) bool {
	isStructVar := func(v ssa.Value) (*ssa.Alloc, *i3xFrame) {
		a, afr := x.resolve(v, fr, st)
		al, ok := a.(*ssa.Alloc)
		if !ok || i3IsBufType(al.Type()) {
			return nil, nil
		}
		if _, isStruct := al.Type().Underlying().(*types.Pointer).Elem().Underlying().(*types.Struct); !isStruct {
			return nil, nil
		}
		return al, afr
	}
	ld, ok := in.Val.(*ssa.UnOp)
	if !ok || ld.Op != token.MUL {
		return false
	}
	dst, dfr := isStructVar(in.Addr)
	src, sfr := isStructVar(ld.X)
	if dst == nil || src == nil {
		return false
	}
	for k := range st.flds {
		if k.al == ssa.Value(dst) && k.inst == dfr.inst {
			delete(st.flds, k)
		}
	}
	for k, r := range st.flds {
		if k.al == ssa.Value(src) && k.inst == sfr.inst {
			st.flds[i3xFld{dst, dfr.inst, k.f}] = r
		}
	}
	return true
}

// valOf: the eagerly computed value of a call result (or one component of it).
func (x *i3x) valOf(v ssa.Value, fr *i3xFrame, st *i3xState) (i3xVal, bool) {
	switch t := v.(type) {
	case *ssa.Call:
		val, ok := st.vals[i3xKey{t, fr.inst}]
		return val, ok
	case *ssa.Extract:
		if val, ok := st.vals[i3xKey{t.Tuple, fr.inst}]; ok && t.Index < len(val.tuple) {
			return val.tuple[t.Index], true
		}
	}
	return i3xVal{}, false
}

func i3ConstIdx(v ssa.Value, def int64) (int64, bool) {
	if v == nil {
		return def, true
	}
	return constInt(v)
}

// arrOf: v denotes tracked byte storage (a local byte array or a make([]byte, k) with constant k).
func (x *i3x) arrOf(v ssa.Value, fr *i3xFrame, st *i3xState) (i3xKey, bool) {
	v, fr = x.resolve(v, fr, st)
	switch t := v.(type) {
	case *ssa.Alloc:
		if n, ok := i3ByteArrayLen(t.Type()); ok {
			k := i3xKey{t, fr.inst}
			if _, have := st.arrs[k]; !have {
				st.arrs[k] = make([]i3Atom, n)
				for i := range st.arrs[k] {
					st.arrs[k][i] = i3Atom{kind: 's', s: "\x00"}
				}
			}
			return k, true
		}
	case *ssa.MakeSlice:
		n, ok := constInt(t.Len)
		if !ok || n > 16 || !isByteSliceOrString(t.Type()) {
			return i3xKey{}, false
		}
		k := i3xKey{t, fr.inst}
		if _, have := st.arrs[k]; !have {
			st.arrs[k] = make([]i3Atom, n)
			for i := range st.arrs[k] {
				st.arrs[k][i] = i3Atom{kind: 's', s: "\x00"}
			}
		}
		return k, true
	}
	return i3xKey{}, false
}

// window: v is tracked storage or a constant-bounds slice of it; returns the storage and the bounds.
func (x *i3x) window(v ssa.Value, fr *i3xFrame, st *i3xState) (k i3xKey, lo, hi int64, ok bool) {
	v, fr = x.resolve(v, fr, st)
	if k, ok = x.arrOf(v, fr, st); ok {
		return k, 0, int64(len(st.arrs[k])), true
	}
	sl, isSl := v.(*ssa.Slice)
	if !isSl {
		return k, 0, 0, false
	}
	k, blo, bhi, ok := x.window(sl.X, fr, st)
	if !ok {
		return k, 0, 0, false
	}
	l, ok1 := i3ConstIdx(sl.Low, 0)
	h, ok2 := i3ConstIdx(sl.High, bhi-blo)
	if !ok1 || !ok2 || l < 0 || h < l || blo+h > bhi {
		return k, 0, 0, false
	}
	return k, blo + l, blo + h, true
}

// bytesOf: the content of a string / []byte value at this point of the path.
func (x *i3x) bytesOf(v ssa.Value, fr *i3xFrame, st *i3xState, depth int) []i3Atom {
	if depth > 12 {
		return i3Unknown("expression too deep")
	}
	v, fr = x.resolve(v, fr, st)
	if val, ok := x.valOf(v, fr, st); ok && val.isBytes {
		return val.bytes
	}
	if k, lo, hi, ok := x.window(v, fr, st); ok {
		return append([]i3Atom(nil), st.arrs[k][lo:hi]...)
	}
	switch t := v.(type) {
	case *ssa.Const:
		if t.Value == nil {
			return nil
		}
		if t.Value.Kind() == constant.String {
			return []i3Atom{{kind: 's', s: constant.StringVal(t.Value)}}
		}
	case *ssa.BinOp:
		if t.Op == token.ADD && isByteSliceOrString(t.Type()) {
			return append(append([]i3Atom(nil), x.bytesOf(t.X, fr, st, depth+1)...), x.bytesOf(t.Y, fr, st, depth+1)...)
		}
	case *ssa.Convert:
		if isByteSliceOrString(t.X.Type()) && isByteSliceOrString(t.Type()) {
			return x.bytesOf(t.X, fr, st, depth+1)
		}
	case *ssa.Slice:
		if t.Low == nil && t.High == nil {
			return x.bytesOf(t.X, fr, st, depth+1)
		}
		if l, ok := i3ConstIdx(t.Low, 0); ok && l == 0 && t.High == nil {
			return x.bytesOf(t.X, fr, st, depth+1)
		}
		return i3Unknown("slice with bounds that are not followed")
	}
	if isByteSliceOrString(v.Type()) {
		return []i3Atom{{kind: 'v', v: v, inst: fr.inst}}
	}
	return i3Unknown("not a byte string")
}

func (x *i3x) intOf(v ssa.Value, fr *i3xFrame, st *i3xState) *i3Int {
	for i := 0; i < 8; i++ {
		v, fr = x.resolve(v, fr, st)
		if val, ok := x.valOf(v, fr, st); ok && val.num != nil {
			return val.num
		}
		cv, ok := v.(*ssa.Convert)
		if !ok || !valuePreserving(cv.X.Type(), cv.Type()) {
			break
		}
		v = cv.X
	}
	return &i3Int{v: v, inst: fr.inst}
}

// byteOf: one byte value: a constant, byte(n) or byte(n >> k).
func (x *i3x) byteOf(v ssa.Value, fr *i3xFrame, st *i3xState) i3Atom {
	v, fr = x.resolve(v, fr, st)
	if k, ok := constInt(v); ok {
		if _, isC := v.(*ssa.Const); isC || k >= 0 {
			return i3Atom{kind: 's', s: string([]byte{byte(k)})}
		}
	}
	cv, ok := v.(*ssa.Convert)
	if !ok || !isIntType(cv.X.Type()) || fixedSize(cv.Type()) != 1 {
		return i3Atom{kind: '?', s: "byte value that is not followed"}
	}
	inner, ifr := x.resolve(cv.X, fr, st)
	if m, ok := inner.(*ssa.BinOp); ok && m.Op == token.AND {
		if k, isC := constInt(m.Y); isC && k == 0xff { // byte(n & 0xff) is byte(n)
			inner, ifr = x.resolve(m.X, ifr, st)
		}
	}
	if sh, ok := inner.(*ssa.BinOp); ok && sh.Op == token.SHR {
		if k, isC := constInt(sh.Y); isC {
			return i3Atom{kind: 'b', n: x.intOf(sh.X, ifr, st), sh: k}
		}
	}
	return i3Atom{kind: 'b', n: x.intOf(inner, ifr, st), sh: 0}
}

type i3xSink struct {
	wire bool
	key  i3xKey
	ok   bool
}

func (x *i3x) sinkOf(v ssa.Value, fr *i3xFrame, st *i3xState) i3xSink {
	v, fr = x.resolve(v, fr, st)
	if v == ssa.Value(x.w) && fr.up == nil {
		return i3xSink{wire: true, ok: true}
	}
	if al, ok := v.(*ssa.Alloc); ok && i3IsBufType(al.Type()) {
		return i3xSink{key: i3xKey{al, fr.inst}, ok: true}
	}
	if val, ok := x.valOf(v, fr, st); ok && val.buf != nil {
		return i3xSink{key: *val.buf, ok: true}
	}
	return i3xSink{}
}

func (x *i3x) emit(s i3xSink, st *i3xState, as []i3Atom) {
	if s.wire {
		st.out = append(st.out, as...)
	} else {
		st.bufs[s.key] = append(st.bufs[s.key], as...)
	}
}

// touches: v is the wire or tracked storage (so handing it to unknown code loses track of it).
func (x *i3x) touches(v ssa.Value, fr *i3xFrame, st *i3xState) bool {
	if x.sinkOf(v, fr, st).ok {
		return true
	}
	_, _, _, ok := x.window(v, fr, st)
	return ok
}

// holds: addr is a local variable that holds the wire or tracked storage, or is tracked storage
// itself (what a closure captures).
func (x *i3x) holds(addr ssa.Value, fr *i3xFrame, st *i3xState) bool {
	if x.touches(addr, fr, st) {
		return true
	}
	a, afr := x.resolve(addr, fr, st)
	al, ok := a.(*ssa.Alloc)
	if !ok || al.Referrers() == nil {
		return false
	}
	for k, r := range st.flds {
		if k.al == ssa.Value(al) && k.inst == afr.inst && x.touches(r.v, r.fr, st) {
			return true
		}
	}
	for _, ref := range *al.Referrers() {
		if s, isSt := ref.(*ssa.Store); isSt && s.Addr == ssa.Value(al) && x.touches(s.Val, afr, st) {
			return true
		}
	}
	return false
}

// varargs: the operands of a variadic call (a slice of a fresh array filled by index).
func (x *i3x) varargs(v ssa.Value, fr *i3xFrame, st *i3xState) ([]ssa.Value, bool) {
	if c, ok := v.(*ssa.Const); ok && c.Value == nil {
		return nil, true
	}
	sl, ok := v.(*ssa.Slice)
	if !ok || sl.Low != nil || sl.High != nil {
		return nil, false
	}
	al, ok := sl.X.(*ssa.Alloc)
	if !ok {
		return nil, false
	}
	arr, ok := al.Type().Underlying().(*types.Pointer).Elem().Underlying().(*types.Array)
	if !ok {
		return nil, false
	}
	out := make([]ssa.Value, arr.Len())
	for _, ref := range *al.Referrers() {
		ia, ok := ref.(*ssa.IndexAddr)
		if !ok {
			if ref != ssa.Instruction(sl) {
				if _, isDbg := ref.(*ssa.DebugRef); !isDbg {
					return nil, false
				}
			}
			continue
		}
		i, isC := constInt(ia.Index)
		if !isC || i < 0 || i >= arr.Len() || out[i] != nil {
			return nil, false
		}
		for _, r2 := range *ia.Referrers() {
			if s, isSt := r2.(*ssa.Store); isSt && s.Addr == ssa.Value(ia) {
				if out[i] != nil {
					return nil, false
				}
				out[i] = s.Val
			}
		}
	}
	for _, e := range out {
		if e == nil {
			return nil, false
		}
	}
	return out, true
}

func i3IsPlainString(t types.Type) bool {
	b, ok := t.(*types.Basic)
	return ok && b.Kind() == types.String
}

// printed: what fmt.Fprint / Fprintf / Fprintln write for these operands (string operands only).
func (x *i3x) printed(name string, ops []ssa.Value, fr *i3xFrame, st *i3xState) []i3Atom {
	verbatim := func(op ssa.Value) []i3Atom {
		if mi, ok := op.(*ssa.MakeInterface); ok && i3IsPlainString(mi.X.Type()) {
			return x.bytesOf(mi.X, fr, st, 0)
		}
		return i3Unknown("operand of fmt." + name + " that is not a plain string")
	}
	var out []i3Atom
	switch name {
	case "Fprint":
		for _, op := range ops {
			out = append(out, verbatim(op)...)
		}
	case "Fprintln":
		for i, op := range ops {
			if i > 0 {
				out = append(out, i3Atom{kind: 's', s: " "})
			}
			out = append(out, verbatim(op)...)
		}
		out = append(out, i3Atom{kind: 's', s: "\n"})
	case "Fprintf":
		if len(ops) == 0 {
			return i3Unknown("format")
		}
		f := i3Norm(x.bytesOf(ops[0], fr, st, 0))
		if len(f) == 0 {
			return nil
		}
		if len(f) != 1 || f[0].kind != 's' {
			return i3Unknown("format string of fmt.Fprintf is not a constant")
		}
		format, rest := f[0].s, ops[1:]
		lit := ""
		for i := 0; i < len(format); i++ {
			if format[i] != '%' {
				lit += string(format[i])
				continue
			}
			i++
			switch {
			case i < len(format) && format[i] == '%':
				lit += "%"
			case i < len(format) && (format[i] == 's' || format[i] == 'v') && len(rest) > 0:
				out = append(out, i3Atom{kind: 's', s: lit})
				lit = ""
				out = append(out, verbatim(rest[0])...)
				rest = rest[1:]
			default:
				return i3Unknown("verb of fmt.Fprintf that is not followed")
			}
		}
		out = append(out, i3Atom{kind: 's', s: lit})
		if len(rest) > 0 {
			return i3Unknown("extra operands of fmt.Fprintf")
		}
	}
	return out
}

// byteOrder: "B" / "L" for binary.BigEndian / binary.LittleEndian, "" otherwise.
func (x *i3x) byteOrder(v ssa.Value, fr *i3xFrame, st *i3xState) string {
	v, _ = x.resolve(v, fr, st)
	if u, ok := v.(*ssa.UnOp); ok && u.Op == token.MUL {
		if g, ok := u.X.(*ssa.Global); ok && g.Pkg != nil && g.Pkg.Pkg.Path() == "encoding/binary" {
			switch g.Name() {
			case "BigEndian":
				return "B"
			case "LittleEndian":
				return "L"
			}
		}
	}
	return ""
}

// acyclic: the control flow graph of fn has no cycle.
func i3Acyclic(fn *ssa.Function) bool {
	state := map[*ssa.BasicBlock]int{}
	var visit func(b *ssa.BasicBlock) bool
	visit = func(b *ssa.BasicBlock) bool {
		switch state[b] {
		case 1:
			return false
		case 2:
			return true
		}
		state[b] = 1
		for _, s := range b.Succs {
			if !visit(s) {
				return false
			}
		}
		state[b] = 2
		return true
	}
	return len(fn.Blocks) > 0 && visit(fn.Blocks[0])
}

func (x *i3x) inlinable(callee *ssa.Function, fr *i3xFrame) bool {
	if callee == nil || callee.Blocks == nil || pkgRel(callee) != x.pkg || fr.depth >= i3MaxDepth || !i3Acyclic(callee) {
		return false
	}
	if short(callee.String()) == x.crcName {
		return false
	}
	for f := fr; f != nil; f = f.up {
		if f.fn == callee {
			return false
		}
	}
	n := 0
	for _, b := range callee.Blocks {
		n += len(b.Instrs)
		for _, in := range b.Instrs {
			switch in.(type) {
			case *ssa.Defer, *ssa.Go, *ssa.Select:
				return false
			}
		}
	}
	return n <= 400
}

// call executes one call instruction. When the callee is inlined it returns true and the rest of
// the path is run from the callee's continuation.
func (x *i3x) call(call *ssa.Call, fr *i3xFrame, st *i3xState, cont func(st *i3xState)) bool {
	com := &call.Call
	key := i3xKey{call, fr.inst}
	name := callName(com)
	args := com.Args
	escapes := func() bool {
		vs := append([]ssa.Value(nil), args...)
		vs = append(vs, com.Value)
		if mc, ok := com.Value.(*ssa.MakeClosure); ok {
			vs = append(vs, mc.Bindings...)
		}
		for _, a := range vs {
			if a == nil {
				continue
			}
			if x.holds(a, fr, st) {
				return true
			}
			// the operands of a variadic call
			if ops, ok := x.varargs(a, fr, st); ok {
				for _, op := range ops {
					if x.touches(op, fr, st) {
						return true
					}
				}
			}
		}
		return false
	}
	if com.IsInvoke() {
		s := x.sinkOf(com.Value, fr, st)
		if !s.ok {
			if escapes() {
				st.giveUp("the writer or a frame buffer is handed to " + com.Method.Name() + " at " + x.c.pos(call.Pos()))
			}
			return false
		}
		switch {
		case com.Method.Name() == "Write" && len(args) == 1:
			x.emit(s, st, x.bytesOf(args[0], fr, st, 0))
		case com.Method.Name() == "WriteString" && len(args) == 1:
			x.emit(s, st, x.bytesOf(args[0], fr, st, 0))
		case com.Method.Name() == "WriteByte" && len(args) == 1:
			x.emit(s, st, []i3Atom{x.byteOf(args[0], fr, st)})
		default:
			st.giveUp("method " + com.Method.Name() + " is called on the writer at " + x.c.pos(call.Pos()))
		}
		return false
	}
	switch {
	case name == x.crcName && len(args) == 1:
		st.vals[key] = i3xVal{num: &i3Int{crc: true, arg: i3Norm(x.bytesOf(args[0], fr, st, 0))}}
		return false
	case (name == "fmt.Fprint" || name == "fmt.Fprintf" || name == "fmt.Fprintln") && len(args) >= 2:
		s := x.sinkOf(args[0], fr, st)
		if !s.ok {
			break
		}
		kind := strings.TrimPrefix(name, "fmt.")
		var ops []ssa.Value
		if kind == "Fprintf" {
			ops = append(ops, args[1])
			args = args[1:]
		}
		rest, ok := x.varargs(args[len(args)-1], fr, st)
		if !ok {
			x.emit(s, st, i3Unknown("operands of "+name+" are not followed"))
			return false
		}
		x.emit(s, st, x.printed(kind, append(ops, rest...), fr, st))
		return false
	case name == "io.WriteString" && len(args) == 2:
		if s := x.sinkOf(args[0], fr, st); s.ok {
			x.emit(s, st, x.bytesOf(args[1], fr, st, 0))
			return false
		}
	case name == "encoding/binary.Write" && len(args) == 3:
		s := x.sinkOf(args[0], fr, st)
		if !s.ok {
			break
		}
		order := x.byteOrder(args[1], fr, st)
		data, dfr := x.resolve(args[2], fr, st)
		if order == "" || fixedSize(data.Type()) != 2 || !isIntType(data.Type()) {
			x.emit(s, st, i3Unknown("binary.Write of something other than a 16-bit integer in a known byte order"))
			return false
		}
		x.emit(s, st, []i3Atom{{kind: order[0], n: x.intOf(data, dfr, st)}})
		return false
	case strings.HasPrefix(name, "encoding/binary.bigEndian.") || strings.HasPrefix(name, "encoding/binary.littleEndian."):
		hi, lo := int64(8), int64(0)
		if strings.Contains(name, ".littleEndian.") {
			hi, lo = 0, 8
		}
		switch {
		case strings.HasSuffix(name, ".PutUint16") && len(args) == 3:
			if k, l, h, ok := x.window(args[1], fr, st); ok && h-l >= 2 {
				n := x.intOf(args[2], fr, st)
				st.arrs[k][l] = i3Atom{kind: 'b', n: n, sh: hi}
				st.arrs[k][l+1] = i3Atom{kind: 'b', n: n, sh: lo}
				return false
			}
		case strings.HasSuffix(name, ".AppendUint16") && len(args) == 3:
			n := x.intOf(args[2], fr, st)
			st.vals[key] = i3xVal{isBytes: true, bytes: append(append([]i3Atom(nil), x.bytesOf(args[1], fr, st, 0)...), i3Atom{kind: 'b', n: n, sh: hi}, i3Atom{kind: 'b', n: n, sh: lo})}
			return false
		}
	case name == "builtin.append" && len(args) == 2 && isByteSliceOrString(call.Type()):
		st.vals[key] = i3xVal{isBytes: true, bytes: append(append([]i3Atom(nil), x.bytesOf(args[0], fr, st, 0)...), x.bytesOf(args[1], fr, st, 0)...)}
		return false
	case name == "builtin.copy" && len(args) == 2:
		if k, l, h, ok := x.window(args[0], fr, st); ok {
			src := x.bytesOf(args[1], fr, st, 0)
			exact := int64(len(src)) == h-l
			for _, a := range src {
				if !(a.kind == 'b' || (a.kind == 's' && len(a.s) == 1)) {
					exact = false
				}
			}
			for i := l; i < h; i++ {
				if exact {
					st.arrs[k][i] = src[i-l]
				} else {
					st.arrs[k][i] = i3Atom{kind: '?', s: "copy into a frame buffer"}
				}
			}
			return false
		}
	case strings.HasPrefix(name, "builtin."):
		return false
	case (name == "bytes.NewBuffer" || name == "bytes.NewBufferString") && len(args) == 1:
		k := key
		st.bufs[k] = append([]i3Atom(nil), x.bytesOf(args[0], fr, st, 0)...)
		st.vals[key] = i3xVal{buf: &k}
		return false
	case (strings.HasPrefix(name, "bytes.Buffer.") || strings.HasPrefix(name, "strings.Builder.")) && len(args) >= 1:
		s := x.sinkOf(args[0], fr, st)
		if !s.ok {
			break
		}
		switch m := name[strings.LastIndex(name, ".")+1:]; {
		case (m == "Write" || m == "WriteString") && len(args) == 2:
			x.emit(s, st, x.bytesOf(args[1], fr, st, 0))
		case m == "WriteByte" && len(args) == 2:
			x.emit(s, st, []i3Atom{x.byteOf(args[1], fr, st)})
		case m == "Bytes" || m == "String":
			st.vals[key] = i3xVal{isBytes: true, bytes: append([]i3Atom(nil), st.bufs[s.key]...)}
		case m == "Len" || m == "Cap" || m == "Grow":
		case m == "Reset":
			st.bufs[s.key] = nil
		case m == "WriteTo" && len(args) == 2:
			if d := x.sinkOf(args[1], fr, st); d.ok && !s.wire {
				x.emit(d, st, st.bufs[s.key])
				st.bufs[s.key] = nil
			} else {
				st.giveUp("buffer written to something that is not followed at " + x.c.pos(call.Pos()))
			}
		default:
			st.giveUp("buffer method " + m + " is not followed at " + x.c.pos(call.Pos()))
		}
		return false
	}
	// a helper of the package or a local closure: inline
	callee := g9LocalFunc(com)
	if x.inlinable(callee, fr) {
		x.nInst++
		nf := &i3xFrame{fn: callee, inst: x.nInst, up: fr, binds: map[ssa.Value]i3xRef{}, depth: fr.depth + 1}
		for i, p := range callee.Params {
			if i < len(args) {
				nf.binds[p] = i3xRef{args[i], fr}
			}
		}
		if len(callee.FreeVars) > 0 {
			var mc *ssa.MakeClosure
			switch t := com.Value.(type) {
			case *ssa.MakeClosure:
				mc = t
			case *ssa.UnOp:
				if al := g9SlotOf(t.X); al != nil {
					for _, ref := range *al.Referrers() {
						if s, ok := ref.(*ssa.Store); ok && s.Addr == ssa.Value(al) {
							mc, _ = s.Val.(*ssa.MakeClosure)
						}
					}
				}
			}
			if mc == nil || mc.Parent() != fr.fn {
				st.giveUp("closure called at " + x.c.pos(call.Pos()) + " is not created in the calling function")
				return false
			}
			for i, fv := range callee.FreeVars {
				if i < len(mc.Bindings) {
					nf.binds[fv] = i3xRef{mc.Bindings[i], fr}
				}
			}
		}
		x.run(nf, callee.Blocks[0], 0, st, func(st2 *i3xState, res []ssa.Value, rfr *i3xFrame) {
			var comps []i3xVal
			for _, r := range res {
				var v i3xVal
				rv, rf := x.resolve(r, rfr, st2)
				switch {
				case isByteSliceOrString(r.Type()):
					v = i3xVal{isBytes: true, bytes: x.bytesOf(r, rfr, st2, 0)}
				case isIntType(r.Type()):
					v = i3xVal{num: x.intOf(r, rfr, st2)}
				default:
					v = i3xVal{ref: &i3xRef{rv, rf}}
					if s := x.sinkOf(r, rfr, st2); s.ok && !s.wire {
						k := s.key
						v.buf = &k
					}
				}
				comps = append(comps, v)
			}
			if len(comps) == 1 {
				st2.vals[key] = comps[0]
			} else {
				st2.vals[key] = i3xVal{tuple: comps}
			}
			cont(st2)
		})
		return true
	}
	if callee != nil && callee.Parent() != nil && len(callee.FreeVars) > 0 {
		st.giveUp("the closure called at " + x.c.pos(call.Pos()) + " is not followed")
		return false
	}
	if escapes() {
		what := name
		if what == "" {
			what = "a function value"
		}
		st.giveUp("the writer or a frame buffer is handed to " + what + " at " + x.c.pos(call.Pos()) + ", which is not followed")
	}
	return false
}

// flag: the branch condition is the transport flag (possibly negated); returns the edge to take.
func (x *i3x) flag(cond ssa.Value, at ssa.Instruction, fr *i3xFrame, st *i3xState) (bool, bool) {
	neg := false
	for i := 0; i < 6; i++ {
		cond, fr = x.resolve(cond, fr, st)
		u, ok := cond.(*ssa.UnOp)
		if !ok || u.Op != token.NOT {
			break
		}
		neg, cond = !neg, u.X
	}
	if c, ok := cond.(*ssa.Const); ok && c.Value != nil && c.Value.Kind() == constant.Bool {
		return constant.BoolVal(c.Value) != neg, true
	}
	var in ssa.Instruction = at
	if fr.fn != at.Parent() {
		in = fr.fn.Blocks[0].Instrs[0]
	}
	if x.c.isTCPFlag(in, cond) {
		return x.tcp != neg, true
	}
	if p, ok := cond.(*ssa.Parameter); ok && fr.up == nil {
		x.note = fmt.Sprintf(" [the branch on parameter %s is not a branch on the connection's transport flag: some call site passes something other than a load of it]", p.Name())
	}
	return false, false
}

// run executes the path from instruction idx of block b; ret receives the results of a Return.
func (x *i3x) run(fr *i3xFrame, b *ssa.BasicBlock, idx int, st *i3xState, ret func(st *i3xState, res []ssa.Value, fr *i3xFrame)) {
	for {
		x.steps++
		if len(x.outcomes) >= i3xMaxPaths || x.steps > 200000 {
			st.giveUp("too many paths")
		}
		if st.unknown != "" {
			x.outcomes = append(x.outcomes, i3xOutcome{unknown: st.unknown, at: b.Instrs[0].Pos()})
			return
		}
		if idx == 0 {
			k := i3xBlk{b, fr.inst}
			if st.seen[k] {
				st.giveUp("loop in " + fr.fn.Name())
				continue
			}
			st.seen[k] = true
		}
		for i := idx; i < len(b.Instrs); i++ {
			switch in := b.Instrs[i].(type) {
			case *ssa.Call:
				bb, ii := b, i
				if x.call(in, fr, st, func(st2 *i3xState) { x.run(fr, bb, ii+1, st2, ret) }) {
					return
				}
			case *ssa.Store:
				if ia, ok := in.Addr.(*ssa.IndexAddr); ok {
					if k, l, h, ok := x.window(ia.X, fr, st); ok {
						if j, isC := constInt(ia.Index); isC && l+j < h && j >= 0 {
							st.arrs[k][l+j] = x.byteOf(in.Val, fr, st)
						} else {
							for q := l; q < h; q++ {
								st.arrs[k][q] = i3Atom{kind: '?', s: "store at a computed index"}
							}
						}
					}
				} else if x.structCopy(in, fr, st) {
					// a local struct assigned as a whole from another local struct (composite literal)
				} else if fa, isFA := in.Addr.(*ssa.FieldAddr); isFA {
					if k, ok := x.fieldOf(fa, fr, st); ok {
						st.flds[k] = i3xRef{in.Val, fr}
					} else if x.touches(in.Val, fr, st) {
						st.giveUp("the writer or a frame buffer is stored at " + x.c.pos(in.Pos()))
					}
				} else if x.touches(in.Val, fr, st) {
					if _, isAl := in.Addr.(*ssa.Alloc); !isAl {
						st.giveUp("the writer or a frame buffer is stored at " + x.c.pos(in.Pos()))
					}
				}
			case *ssa.MakeClosure:
				for _, bnd := range in.Bindings {
					if !x.holds(bnd, fr, st) {
						continue
					}
					// a closure that can write: every use must be a call that is followed
					if _, ok := i3LocalCallSites(in.Fn.(*ssa.Function)); !ok {
						st.giveUp("a closure that captures the writer or a frame buffer is used as a value at " + x.c.pos(in.Pos()))
					}
				}
			case *ssa.Defer:
				st.giveUp("deferred call in " + fr.fn.Name())
			case *ssa.Go:
				st.giveUp("go statement in " + fr.fn.Name())
			case *ssa.Send:
				if x.touches(in.X, fr, st) {
					st.giveUp("frame bytes sent on a channel")
				}
			case *ssa.MapUpdate:
				if x.touches(in.Value, fr, st) {
					st.giveUp("the writer or a frame buffer is stored in a map")
				}
			}
			if st.unknown != "" {
				break
			}
		}
		if st.unknown != "" {
			continue
		}
		switch t := b.Instrs[len(b.Instrs)-1].(type) {
		case *ssa.Return:
			if fr.up != nil {
				ret(st, t.Results, fr)
				return
			}
			failed := st.failed
			if n := len(t.Results); n > 0 && i3IsErrorType(t.Results[n-1].Type()) {
				r, _ := x.resolve(t.Results[n-1], fr, st)
				if isNilConst(r) {
					failed = false // reports success: whatever was skipped on the way is missing from the frame
				} else if i3ConstNonNil(r) {
					failed = true
				}
			}
			x.outcomes = append(x.outcomes, i3xOutcome{out: i3Norm(st.out), failed: failed, at: t.Pos()})
			return
		case *ssa.If:
			edge, known := x.flag(t.Cond, t, fr, st)
			ck := i3xKey{t.Cond, fr.inst}
			if !known {
				if d, ok := st.decided[ck]; ok {
					edge, known = d, true
				}
			}
			failEdge := -1
			if bo, ok := t.Cond.(*ssa.BinOp); ok && (bo.Op == token.EQL || bo.Op == token.NEQ) {
				var other ssa.Value
				switch {
				case isNilConst(bo.Y):
					other = bo.X
				case isNilConst(bo.X):
					other = bo.Y
				}
				if other != nil && i3IsErrorType(other.Type()) {
					failEdge = 1
					if bo.Op == token.NEQ {
						failEdge = 0
					}
				}
			}
			take := func(st *i3xState, i int) {
				st.decided[ck] = i == 0
				if i == failEdge {
					st.failed = true
				}
				st.came[i3xBlk{b.Succs[i], fr.inst}] = b
				x.run(fr, b.Succs[i], 0, st, ret)
			}
			if known {
				if edge {
					take(st, 0)
				} else {
					take(st, 1)
				}
				return
			}
			other := st.clone()
			take(st, 0)
			take(other, 1)
			return
		case *ssa.Jump:
			st.came[i3xBlk{b.Succs[0], fr.inst}] = b
			b, idx = b.Succs[0], 0
		default: // panic and the like: the path ends without a frame
			return
		}
	}
}

// i3CtrlFraming decides "serial command frames are C: + command + CRC, TCP command frames are the
// command alone" for the command frame writer fn.
func (c *Ctx) i3CtrlFraming(pkg string, fn *ssa.Function) (bool, string) {
	var w *ssa.Parameter
	for _, p := range fn.Params {
		if i3IsWriterType(p.Type()) {
			if w != nil {
				return false, "the frame writer has more than one writer parameter (unresolved)"
			}
			w = p
		}
	}
	if w == nil {
		return false, "the frame writer has no io.Writer parameter (unresolved)"
	}
	if !i3Acyclic(fn) {
		return false, "the frame writer contains a loop: the bytes written cannot be enumerated (undecided)"
	}
	note := ""
	runMode := func(tcp bool) ([]i3xOutcome, string) {
		x := &i3x{c: c, pkg: pkg, w: w, tcp: tcp, crcName: pkg + ".crc16Sum"}
		st := (&i3xState{}).clone()
		x.run(&i3xFrame{fn: fn, binds: map[ssa.Value]i3xRef{}}, fn.Blocks[0], 0, st, nil)
		note = x.note
		var good []i3xOutcome
		for _, o := range x.outcomes {
			if o.unknown != "" {
				return nil, o.unknown
			}
			if !o.failed {
				good = append(good, o)
			}
		}
		return good, ""
	}
	serial, why := runMode(false)
	if why != "" {
		return false, "serial command frames are not framed as C: + command + CRC (undecided: " + why + ")"
	}
	if len(serial) == 0 {
		return false, "serial command frames are not framed as C: + command + CRC (no path writes a frame without a write error)"
	}
	body := ""
	var bodyAtoms []i3Atom
	for _, o := range serial {
		out := o.out
		at := c.pos(o.at)
		prefix := len(out) > 0 && out[0].kind == 's' && strings.HasPrefix(out[0].s, "C:")
		crc := len(out) > 0 && out[len(out)-1].kind == 'B' && out[len(out)-1].n.crc
		var mid []i3Atom
		if prefix && crc {
			mid = append([]i3Atom{{kind: 's', s: strings.TrimPrefix(out[0].s, "C:")}}, out[1:len(out)-1]...)
			mid = i3Norm(mid)
		}
		switch {
		case !prefix || !crc || len(mid) == 0:
			return false, fmt.Sprintf("serial command frames are not framed as C: + command + CRC (prefix: %v, crc on the serial edge: %v; the path returning at %s writes %s)%s", prefix, crc, at, i3Show(out), note)
		case i3Key(mid) != i3Key(out[len(out)-1].n.arg):
			return false, fmt.Sprintf("the CRC of a serial command frame is not computed over exactly the bytes between the C: prefix and the CRC (the path returning at %s writes %s)", at, i3Show(out))
		case body != "" && body != i3Key(mid):
			return false, fmt.Sprintf("serial command frames differ between paths (the path returning at %s writes %s)", at, i3Show(out))
		}
		body, bodyAtoms = i3Key(mid), mid
	}
	tcp, why := runMode(true)
	if why != "" {
		return false, "TCP command frames are not the bare command (undecided: " + why + ")"
	}
	if len(tcp) == 0 {
		return false, "TCP command frames are not the bare command (no path writes a frame without a write error)"
	}
	for _, o := range tcp {
		if i3Key(o.out) != body {
			return false, fmt.Sprintf("on the TCP host interface the command frame is not the bare command %s (the path returning at %s writes %s)%s", i3Show(bodyAtoms), c.pos(o.at), i3Show(o.out), note)
		}
	}
	return true, fmt.Sprintf("every path without a write error puts \"C:\" + M + big-endian crc16Sum(M) on the wire when the transport flag is false and M alone when it is true (M = %s)", i3Show(bodyAtoms))
}

// i3Show renders atoms for messages.
func i3Show(as []i3Atom) string {
	if len(as) == 0 {
		return "nothing"
	}
	var parts []string
	for _, a := range i3Norm(as) {
		switch a.kind {
		case 'v':
			parts = append(parts, strings.TrimSpace(pathOf(a.v)))
		case 'B', 'L', 'b':
			s := a.key()
			if a.n != nil && a.n.crc {
				s = map[byte]string{'B': "be16", 'L': "le16", 'b': "byte"}[a.kind] + "(crc16Sum(" + i3Show(a.n.arg) + "))"
			} else if a.n != nil && a.n.v != nil {
				s = map[byte]string{'B': "be16", 'L': "le16", 'b': "byte"}[a.kind] + "(" + pathOf(a.n.v) + ")"
			}
			parts = append(parts, s)
		default:
			parts = append(parts, a.key())
		}
	}
	s := strings.Join(parts, " + ")
	if len(s) > 200 {
		s = s[:200] + "…"
	}
	return s
}
