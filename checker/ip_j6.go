package main

// J6 - C14 rules made independent of four more code shapes (see NOTES-ip_j6.md):
//
//   - the host data frame built as a []byte VALUE (make/append/ByteOrder.AppendUint16 ...) instead of
//     in a bytes.Buffer: the framing conditions are stated on the symbolic content of the value sent,
//     evaluated once per host interface (j6Eval);
//   - x[k:] of such a value: its minimum length (j6MinLen);
//   - "the goroutines runControlLoop starts" = the targets of its go statements, closures or named
//     functions/methods (j6GoRoots), instead of "the closures of runControlLoop";
//   - the steps of the frame reader living in helpers it calls (j6Reader): a fact about an error is
//     lifted to the anchor only when the helper hands the error back and every caller forwards it;
//   - the panic on a failed WRITE to the TNC connection recognised by what is thrown (j6WriteFailure).
//
// Nothing keys on the name of a helper. Whatever cannot be evaluated or enumerated is undecided,
// and undecided is reported.

import (
	"fmt"
	"go/constant"
	"go/token"
	"go/types"
	"strings"

	"golang.org/x/tools/go/ssa"
)

// ---- symbolic content of a byte-slice value ----------------------------------------------------

type j6Int struct {
	kind byte      // 'l' uint16(len(val)), 'c' crc16Sum(arg), 'o' opaque
	val  ssa.Value // 'l': the slice measured; 'o': the integer value
	arg  []j6Atom  // 'c'
}

func (n *j6Int) key() string {
	switch n.kind {
	case 'l':
		return fmt.Sprintf("uint16(len(%p))", n.val)
	case 'c':
		return "crc16Sum(" + j6Key(n.arg) + ")"
	}
	return fmt.Sprintf("int(%p)", n.val)
}

type j6Atom struct {
	kind byte            // 's' constant bytes, 'v' opaque byte string, 'B'/'L' 16-bit integer big/little endian, 'b' byte(n >> sh), '?' unknown
	s    string          // 's': the bytes; '?': why
	v    ssa.Value       // 'v'
	n    *j6Int          // 'B', 'L', 'b'
	sh   int64           // 'b'
	at   ssa.Instruction // 'v': where the value is appended, in the function the value belongs to
}

func (a j6Atom) key() string {
	switch a.kind {
	case 's':
		return fmt.Sprintf("%q", a.s)
	case 'v':
		return fmt.Sprintf("val(%p)", a.v)
	case 'B':
		return "be16(" + a.n.key() + ")"
	case 'L':
		return "le16(" + a.n.key() + ")"
	case 'b':
		return fmt.Sprintf("byte(%s>>%d)", a.n.key(), a.sh)
	}
	return "?(" + a.s + ")"
}

func j6Norm(in []j6Atom) []j6Atom {
	var out []j6Atom
	for _, a := range in {
		if a.kind == 's' && a.s == "" {
			continue
		}
		if n := len(out); n > 0 && a.kind == 's' && out[n-1].kind == 's' {
			out[n-1].s += a.s
			continue
		}
		if n := len(out); n > 0 && a.kind == 'b' && out[n-1].kind == 'b' && a.n.key() == out[n-1].n.key() {
			// the two low bytes of one integer, high byte first (big endian) or low byte first
			if out[n-1].sh == 8 && a.sh == 0 {
				out[n-1] = j6Atom{kind: 'B', n: a.n}
				continue
			}
			if out[n-1].sh == 0 && a.sh == 8 {
				out[n-1] = j6Atom{kind: 'L', n: a.n}
				continue
			}
		}
		out = append(out, a)
	}
	return out
}

func j6Key(as []j6Atom) string {
	var parts []string
	for _, a := range j6Norm(as) {
		parts = append(parts, a.key())
	}
	return strings.Join(parts, " + ")
}

func j6Show(c *Ctx, as []j6Atom) string {
	var show func(as []j6Atom) string
	show = func(as []j6Atom) string {
		var parts []string
		for _, a := range j6Norm(as) {
			switch a.kind {
			case 's':
				parts = append(parts, fmt.Sprintf("%q", a.s))
			case 'v':
				parts = append(parts, "<"+nameOrPath(a.v)+">")
			case 'B', 'L':
				o := "be16"
				if a.kind == 'L' {
					o = "le16"
				}
				switch a.n.kind {
				case 'l':
					parts = append(parts, o+"(len <"+nameOrPath(a.n.val)+">)")
				case 'c':
					parts = append(parts, o+"(crc16Sum("+show(a.n.arg)+"))")
				default:
					parts = append(parts, o+"(<"+nameOrPath(a.n.val)+">)")
				}
			case 'b':
				parts = append(parts, fmt.Sprintf("byte(%s>>%d)", a.n.key(), a.sh))
			default:
				parts = append(parts, "?("+a.s+")")
			}
		}
		if len(parts) == 0 {
			return "(nothing)"
		}
		return strings.Join(parts, " + ")
	}
	return show(as)
}

func nameOrPath(v ssa.Value) string {
	if p := pathOf(v); p != "" {
		if len(p) > 40 {
			return p[:40] + "…"
		}
		return p
	}
	return v.Name()
}

func j6Unknown(why string) []j6Atom { return []j6Atom{{kind: '?', s: why}} }

// j6Frame: one activation of a function on the value chain; parameters are bound to the values of
// the calling activation.
type j6Frame struct {
	fn    *ssa.Function
	site  *ssa.Call
	up    *j6Frame
	depth int
}

// j6Eval evaluates byte-slice VALUES (not memory): make, append, ByteOrder.AppendUintN,
// conversions, re-slicing by a constant, merges (phi) decided by the transport flag, results of
// same-package helpers (every return, parameters bound to the actual arguments).
type j6Eval struct {
	c     *Ctx
	pkg   string
	tcp   bool
	busy  map[ssa.Value]bool
	chain map[ssa.Value]bool // every slice value the evaluation went through
	steps int
}

func (e *j6Eval) bind(v ssa.Value, fr *j6Frame, at ssa.Instruction) (ssa.Value, *j6Frame, ssa.Instruction) {
	for i := 0; i < 8; i++ {
		v = origin(v)
		if fr.up == nil || fr.site == nil {
			return v, fr, at
		}
		idx := paramOfValue(fr.fn, v)
		if idx < 0 || idx >= len(fr.site.Call.Args) {
			return v, fr, at
		}
		v, at, fr = fr.site.Call.Args[idx], fr.site, fr.up
	}
	return v, fr, at
}

// flagValue: the condition is the transport flag (through negations); returns the truth of the flag
// that makes the condition true.
func (e *j6Eval) flagValue(cd Cond) (isFlag bool, flagWhenTaken bool) {
	v, want := cd.V, cd.Truth
	for {
		if n, ok := v.(*ssa.UnOp); ok && n.Op == token.NOT {
			v, want = n.X, !want
			continue
		}
		break
	}
	if !e.c.isTCPFlag(cd.If, v) {
		return false, false
	}
	return true, want
}

func (e *j6Eval) edgeFeasible(pred, to *ssa.BasicBlock) bool {
	for _, cd := range append(condsAt(pred), edgeCond(pred, to)...) {
		if is, want := e.flagValue(cd); is && want != e.tcp {
			return false
		}
	}
	return true
}

// j6Leaf: the content is one opaque value.
func j6Leaf(as []j6Atom) bool { return len(as) == 1 && as[0].kind == 'v' }

func (e *j6Eval) bytes(v ssa.Value, fr *j6Frame, at ssa.Instruction) []j6Atom {
	v, fr, at = e.bind(v, fr, at)
	res := e.bytes1(v, fr, at)
	if isSliceType(v.Type()) && !(j6Leaf(res) && res[0].v == v) {
		e.chain[v] = true // a value the frame is built from (not an opaque operand)
	}
	return res
}

func (e *j6Eval) bytes1(v ssa.Value, fr *j6Frame, at ssa.Instruction) []j6Atom {
	e.steps++
	if e.steps > 400 {
		return j6Unknown("expression too large")
	}
	if e.busy[v] {
		return j6Unknown("the value depends on itself (built in a loop)")
	}
	e.busy[v] = true
	defer delete(e.busy, v)
	switch t := v.(type) {
	case *ssa.Const:
		if t.Value == nil {
			return nil
		}
		if t.Value.Kind() == constant.String {
			return []j6Atom{{kind: 's', s: constant.StringVal(t.Value)}}
		}
	case *ssa.MakeSlice:
		if n, ok := constInt(t.Len); ok && n >= 0 && n <= 16 {
			return []j6Atom{{kind: 's', s: strings.Repeat("\x00", int(n))}}
		}
		return j6Unknown("make with a length that is not a small constant")
	case *ssa.Convert:
		if isByteSliceOrString(t.X.Type()) && isByteSliceOrString(t.Type()) {
			return e.bytes(t.X, fr, at)
		}
	case *ssa.ChangeType:
		return e.bytes(t.X, fr, at)
	case *ssa.Slice:
		if _, isPtr := t.X.Type().Underlying().(*types.Pointer); isPtr {
			return e.arrayLit(t, fr)
		}
		inner := e.bytes(t.X, fr, at)
		if j6Leaf(inner) && fr.up == nil {
			return []j6Atom{{kind: 'v', v: v, at: at}} // part of an opaque operand: an opaque operand itself
		}
		lo, okLo := i3ConstIdx(t.Low, 0)
		if !okLo || lo < 0 || t.High != nil || t.Max != nil {
			return j6Unknown("re-slicing with bounds that are not followed")
		}
		return j6Drop(inner, lo)
	case *ssa.Phi:
		var res []j6Atom
		n, differ, leaves := 0, false, true
		for i, edge := range t.Edges {
			if i >= len(t.Block().Preds) || !e.edgeFeasible(t.Block().Preds[i], t.Block()) {
				continue
			}
			got := e.bytes(edge, fr, at)
			if n > 0 && j6Key(got) != j6Key(res) {
				differ = true
			}
			if !j6Leaf(got) {
				leaves = false
			}
			res = got
			n++
		}
		switch {
		case n == 0:
			return j6Unknown("no feasible definition")
		case differ && leaves && fr.up == nil:
			// one of several opaque operands (e.g. the data or its truncation): an opaque operand itself
			return []j6Atom{{kind: 'v', v: v, at: at}}
		case differ:
			return j6Unknown(fmt.Sprintf("merge of different contents at %s that the transport flag does not decide", e.c.pos(t.Pos())))
		}
		return res
	case *ssa.Call:
		name := callName(&t.Call)
		args := t.Call.Args
		switch {
		case name == "builtin.append" && len(args) == 2:
			return append(append([]j6Atom(nil), e.bytes(args[0], fr, t)...), e.bytes(args[1], fr, t)...)
		case name == "builtin.append" && len(args) == 1:
			return e.bytes(args[0], fr, t)
		case strings.HasPrefix(name, "encoding/binary.bigEndian.Append") || strings.HasPrefix(name, "encoding/binary.littleEndian.Append"):
			if len(args) != 3 || !strings.HasSuffix(name, ".AppendUint16") {
				return append(append([]j6Atom(nil), e.bytes(args[1], fr, t)...), j6Unknown("an integer field that is not 16 bits wide")...)
			}
			kind := byte('B')
			if strings.Contains(name, "littleEndian") {
				kind = 'L'
			}
			return append(append([]j6Atom(nil), e.bytes(args[1], fr, t)...), j6Atom{kind: kind, n: e.intOf(args[2], fr)})
		case name == "bytes.Clone" || name == "slices.Clone":
			return e.bytes(args[0], fr, at)
		}
		if callee := t.Call.StaticCallee(); callee != nil && callee.Blocks != nil && pkgRel(callee) == e.pkg && fr.depth < 3 && t.Call.Signature().Results().Len() == 1 {
			for f := fr; f != nil; f = f.up {
				if f.fn == callee {
					return j6Unknown("recursive helper")
				}
			}
			sub := &j6Frame{fn: callee, site: t, up: fr, depth: fr.depth + 1}
			var res []j6Atom
			n := 0
			for _, ret := range returnsOf(callee) {
				feasible := true
				for _, cd := range condsAt(ret.Block()) {
					if is, want := e.flagValue(cd); is && want != e.tcp {
						feasible = false // this return is not taken on the host interface under evaluation
					}
				}
				if !feasible {
					continue
				}
				got := e.bytes(ret.Results[0], sub, ret)
				if n > 0 && j6Key(got) != j6Key(res) {
					return j6Unknown("helper " + callee.Name() + " returns different contents on different paths")
				}
				res = got
				n++
			}
			if n == 0 {
				return j6Unknown("helper never returns")
			}
			return res
		}
	}
	if isByteSliceOrString(v.Type()) {
		if fr.up != nil {
			// a value of a helper that is not bound to the caller: one per activation, not comparable
			return j6Unknown("a value local to helper " + fr.fn.Name())
		}
		switch v.(type) {
		case *ssa.Parameter, *ssa.UnOp, *ssa.FreeVar, *ssa.Extract, *ssa.Call, *ssa.Field:
			return []j6Atom{{kind: 'v', v: v, at: at}}
		}
	}
	return j6Unknown("not a byte string that is followed")
}

// arrayLit: []byte{a, b, ...} (go/ssa: slice of a fresh array whose slots are stored once each).
func (e *j6Eval) arrayLit(sl *ssa.Slice, fr *j6Frame) []j6Atom {
	al, ok := sl.X.(*ssa.Alloc)
	if !ok || sl.Low != nil || sl.High != nil {
		return j6Unknown("slice of an array that is not followed")
	}
	n, ok := i3ByteArrayLen(al.Type())
	if !ok {
		return j6Unknown("slice of an array that is not followed")
	}
	out := make([]j6Atom, n)
	set := make([]int, n)
	for _, ref := range *al.Referrers() {
		switch x := ref.(type) {
		case *ssa.IndexAddr:
			k, isC := constInt(x.Index)
			if !isC || k < 0 || k >= n {
				return j6Unknown("array slot with a variable index")
			}
			for _, r2 := range *x.Referrers() {
				st, isSt := r2.(*ssa.Store)
				if !isSt || st.Addr != ssa.Value(x) {
					return j6Unknown("array slot used other than by a store")
				}
				if !instrDominates(st, sl) {
					return j6Unknown("array slot set after the literal was taken")
				}
				if b, isB := constInt(st.Val); isB {
					out[k] = j6Atom{kind: 's', s: string([]byte{byte(b)})}
				} else if a, isA := e.byteOf(st.Val, fr); isA {
					out[k] = a
				} else {
					return j6Unknown("array slot that is neither a constant byte nor byte(n) / byte(n >> 8)")
				}
				set[k]++
			}
		case *ssa.Slice, *ssa.DebugRef:
		default:
			return j6Unknown("array used other than as a literal")
		}
	}
	for k := range set {
		if set[k] != 1 {
			return j6Unknown("array literal with a slot not set exactly once")
		}
	}
	return out
}

// j6Drop removes the first k bytes of a content whose leading atoms have a known width.
func j6Drop(as []j6Atom, k int64) []j6Atom {
	as = j6Norm(as)
	for k > 0 {
		if len(as) == 0 {
			return j6Unknown("slice beyond the content")
		}
		a := as[0]
		switch a.kind {
		case 's':
			if int64(len(a.s)) > k {
				rest := append([]j6Atom{{kind: 's', s: a.s[k:]}}, as[1:]...)
				return rest
			}
			k -= int64(len(a.s))
			as = as[1:]
		case 'B', 'L':
			if k < 2 {
				return j6Unknown("slice that splits an integer field")
			}
			k -= 2
			as = as[1:]
		default:
			return j6Unknown("slice offset behind bytes of unknown length")
		}
	}
	return as
}

// byteOf: byte(n) or byte(n >> 8) of an integer n: one of the two low bytes of n, i.e. of uint16(n).
func (e *j6Eval) byteOf(v ssa.Value, fr *j6Frame) (j6Atom, bool) {
	v, fr, _ = e.bind(v, fr, nil)
	cv, ok := v.(*ssa.Convert)
	if !ok || !isIntType(cv.X.Type()) || fixedSize(cv.Type()) != 1 {
		return j6Atom{}, false
	}
	inner, ifr, _ := e.bind(cv.X, fr, nil)
	if m, isM := inner.(*ssa.BinOp); isM && m.Op == token.AND {
		if k, isC := constInt(m.Y); isC && k == 0xff {
			inner, ifr, _ = e.bind(m.X, ifr, nil)
		}
	}
	sh := int64(0)
	if m, isM := inner.(*ssa.BinOp); isM && m.Op == token.SHR {
		k, isC := constInt(m.Y)
		if !isC || k != 8 {
			return j6Atom{}, false
		}
		sh = 8
		inner, ifr, _ = e.bind(m.X, ifr, nil)
	}
	return j6Atom{kind: 'b', n: e.int16Of(inner, ifr), sh: sh}, true
}

// int16Of: the integer n as it is seen through its two low bytes, i.e. uint16(n).
func (e *j6Eval) int16Of(v ssa.Value, fr *j6Frame) *j6Int {
	x, xfr := v, fr
	for i := 0; i < 4; i++ {
		c2, isCv := x.(*ssa.Convert)
		if !isCv || !(valuePreserving(c2.X.Type(), c2.Type()) || fixedSize(c2.Type()) >= 2) || !isIntType(c2.X.Type()) {
			break
		}
		x, xfr, _ = e.bind(c2.X, xfr, nil) // a conversion that keeps the two low bytes
	}
	if call, isCall := x.(*ssa.Call); isCall && callName(&call.Call) == "builtin.len" {
		m, _, _ := e.bind(call.Call.Args[0], xfr, nil)
		return &j6Int{kind: 'l', val: m}
	}
	return e.intOf(v, fr)
}

func (e *j6Eval) intOf(v ssa.Value, fr *j6Frame) *j6Int {
	v, fr, _ = e.bind(v, fr, nil)
	if call, ok := v.(*ssa.Call); ok && strings.HasSuffix(callName(&call.Call), ".crc16Sum") && len(call.Call.Args) == 1 && call.Call.StaticCallee() != nil && pkgRel(call.Call.StaticCallee()) == e.pkg {
		return &j6Int{kind: 'c', arg: e.bytes(call.Call.Args[0], fr, call)}
	}
	if cv, ok := v.(*ssa.Convert); ok {
		if bt, isB := cv.Type().Underlying().(*types.Basic); isB && bt.Kind() == types.Uint16 {
			x, xfr, _ := e.bind(cv.X, fr, nil)
			for i := 0; i < 4; i++ {
				c2, isCv := x.(*ssa.Convert)
				if !isCv || !valuePreserving(c2.X.Type(), c2.Type()) {
					break
				}
				x, xfr, _ = e.bind(c2.X, xfr, nil)
			}
			if call, isCall := x.(*ssa.Call); isCall && callName(&call.Call) == "builtin.len" {
				m, _, _ := e.bind(call.Call.Args[0], xfr, nil)
				return &j6Int{kind: 'l', val: m}
			}
		}
	}
	return &j6Int{kind: 'o', val: v}
}

// ---- the data frame Write sends (C14-framing) ---------------------------------------------------

// j6DataFrame is the verdict on a frame value: what it contains on the serial and on the TCP host
// interface, and - when it has the shape of a host data frame - the payload and where it is put in.
type j6DataFrame struct {
	serial, tcp []j6Atom
	payload     ssa.Value       // the slice framed (a value of the function that sends)
	payloadAt   ssa.Instruction // where it is appended
	lenOK       bool            // the length field is uint16(len(payload)), big endian, directly before the payload
	prefixOK    bool            // serial: starts with "D:"; TCP: no prefix
	crcOK       bool            // serial: ends with be16(crc16Sum(length + payload)), nothing behind; TCP: nothing behind the payload
	chain       map[ssa.Value]bool
	why         string // set when the content could not be evaluated
}

// j6ResolveFrame evaluates the value v (sent by function fn) for both host interfaces.
func (c *Ctx) j6ResolveFrame(pkg string, fn *ssa.Function, v ssa.Value, at ssa.Instruction) j6DataFrame {
	var d j6DataFrame
	d.chain = map[ssa.Value]bool{}
	run := func(tcp bool) []j6Atom {
		e := &j6Eval{c: c, pkg: pkg, tcp: tcp, busy: map[ssa.Value]bool{}, chain: d.chain}
		return j6Norm(e.bytes(v, &j6Frame{fn: fn}, at))
	}
	d.serial, d.tcp = run(false), run(true)
	for _, as := range [][]j6Atom{d.serial, d.tcp} {
		for _, a := range as {
			if a.kind == '?' {
				d.why = a.s
				return d
			}
			if (a.kind == 'B' || a.kind == 'L') && a.n.kind == 'c' {
				for _, b := range a.n.arg {
					if b.kind == '?' {
						d.why = "bytes summed by the CRC: " + b.s
						return d
					}
				}
			}
		}
	}
	// TCP: be16(len P) + P
	if len(d.tcp) == 2 && d.tcp[0].kind == 'B' && d.tcp[0].n.kind == 'l' && d.tcp[1].kind == 'v' && d.tcp[0].n.val == d.tcp[1].v {
		d.payload, d.payloadAt = d.tcp[1].v, d.tcp[1].at
	}
	if d.payload == nil {
		return d
	}
	body := j6Key(d.tcp)
	// serial: "D:" + body + be16(crc16Sum(body))
	off := 0
	if len(d.serial) > 0 && d.serial[0].kind == 's' {
		off = 1
	}
	if len(d.serial) >= off+2 && j6Key(d.serial[off:off+2]) == body {
		d.lenOK = true
		d.prefixOK = off == 1 && d.serial[0].s == "D:"
		if len(d.serial) == off+3 {
			last := d.serial[off+2]
			d.crcOK = last.kind == 'B' && last.n.kind == 'c' && j6Key(last.n.arg) == body
		}
	}
	return d
}

// j6ChainMisuse: a value the frame is built from is used by something that can change the bytes
// already put into it, or (inLoop given) by anything but the send inside the retransmission loop.
func (c *Ctx) j6ChainMisuse(d *j6DataFrame, send *ssa.Send, loops []loop) string {
	for v := range d.chain {
		refs := v.Referrers()
		if refs == nil {
			continue
		}
		for _, ref := range *refs {
			inLoop := false
			for _, lp := range loops {
				if send != nil && lp.body[send.Block()] && ref.Block() != nil && lp.body[ref.Block()] {
					inLoop = true
				}
			}
			switch x := ref.(type) {
			case *ssa.DebugRef:
				continue
			case *ssa.Send:
				if x == send {
					continue
				}
			case *ssa.Return:
				if !inLoop {
					continue
				}
			case *ssa.Phi, *ssa.Slice, *ssa.Convert, *ssa.ChangeType:
				// another name for (part of) the same bytes: fine when the evaluation went through it, so
				// that its own uses are judged here as well
				if xv, isV := x.(ssa.Value); isV && d.chain[xv] && !inLoop {
					continue
				}
			case *ssa.Call:
				n := callName(&x.Call)
				pure := n == "builtin.len" || n == "builtin.cap" || n == "builtin.append" || strings.HasSuffix(n, ".crc16Sum") ||
					strings.HasPrefix(n, "encoding/binary.bigEndian.Append") || strings.HasPrefix(n, "encoding/binary.littleEndian.Append") ||
					n == "bytes.Clone" || n == "slices.Clone"
				if callee := x.Call.StaticCallee(); callee != nil && d.chain[ssa.Value(x)] {
					pure = true // a helper whose result is part of the chain: evaluated
				}
				if pure && !inLoop {
					continue
				}
				if pure && inLoop && (n == "builtin.len" || n == "builtin.cap") {
					continue
				}
			}
			where := "used at " + c.pos(ref.Pos())
			if inLoop {
				return where + " inside the loop that retransmits it"
			}
			return where + " by code that may modify it"
		}
	}
	return ""
}

// j6MinLen: a lower bound of len(v) that holds whichever path produced the slice value v (a slice
// header is a value: its length never changes after it was computed).
func j6MinLen(v ssa.Value, busy map[ssa.Value]bool, depth int) int64 {
	if depth > 24 || busy[v] {
		return 0
	}
	busy[v] = true
	defer delete(busy, v)
	switch t := v.(type) {
	case *ssa.Const:
		if t.Value != nil && t.Value.Kind() == constant.String {
			return int64(len(constant.StringVal(t.Value)))
		}
	case *ssa.MakeSlice:
		if n, ok := constInt(t.Len); ok && n > 0 {
			return n
		}
	case *ssa.Convert:
		if isByteSliceOrString(t.X.Type()) && isByteSliceOrString(t.Type()) {
			return j6MinLen(t.X, busy, depth+1)
		}
	case *ssa.Phi:
		min := int64(-1)
		for _, edge := range t.Edges {
			if n := j6MinLen(edge, busy, depth+1); min < 0 || n < min {
				min = n
			}
		}
		if min > 0 {
			return min
		}
	case *ssa.Call:
		name := callName(&t.Call)
		args := t.Call.Args
		switch {
		case name == "builtin.append" && len(args) == 2:
			return j6MinLen(args[0], busy, depth+1) + j6MinLen(args[1], busy, depth+1)
		case name == "builtin.append" && len(args) == 1:
			return j6MinLen(args[0], busy, depth+1)
		case strings.HasPrefix(name, "encoding/binary.bigEndian.Append") || strings.HasPrefix(name, "encoding/binary.littleEndian.Append"):
			w := map[string]int64{"AppendUint16": 2, "AppendUint32": 4, "AppendUint64": 8}[name[strings.LastIndex(name, ".")+1:]]
			if len(args) == 3 {
				return j6MinLen(args[1], busy, depth+1) + w
			}
		}
	}
	return 0
}

// j6AppendSliceOK discharges x[k:] (constant k, no upper bound) where x is a slice value built by
// make/append/AppendUintN whose length is at least k on every path.
func j6AppendSliceOK(sl *ssa.Slice) (bool, string) {
	if sl.High != nil || sl.Max != nil || sl.Low == nil || !isSliceType(sl.X.Type()) {
		return false, ""
	}
	k, isC := constInt(sl.Low)
	if !isC || k < 0 {
		return false, ""
	}
	if n := j6MinLen(sl.X, map[ssa.Value]bool{}, 0); n >= k && n > 0 {
		return true, fmt.Sprintf("the slice is a value built by append: whichever path produced it, at least %d byte(s) were appended before this point", n)
	}
	return false, ""
}

// ---- the goroutines a function starts (C14-flush/-ptt/-stream/-gate) ----------------------------

// j6GoRoots: the functions fn starts as goroutines, one instance each: the target of a go statement
// of fn that is not inside a loop and is either a function literal used by nothing but that go
// statement, or a function/method of the package whose ONLY call site in the module is that go
// statement (call sites enumerable: unexported, never used as a value, not reachable through an
// interface). A function that is also called elsewhere, or started more than once, is not the
// root of "the" goroutine: what it runs is not ordered with itself.
func (c *Ctx) j6GoRoots(fn *ssa.Function) []*ssa.Function {
	var out []*ssa.Function
	loops := naturalLoops(fn)
	usedElsewhere := func(f *ssa.Function, g *ssa.Go) bool {
		used := false
		for _, h := range withClosures(rootFn(fn)) {
			eachInstr(h, func(_ *ssa.BasicBlock, _ int, in ssa.Instruction) {
				for _, op := range in.Operands(nil) {
					if op == nil || *op == nil {
						continue
					}
					if _, makes := in.(*ssa.MakeClosure); makes && *op == ssa.Value(f) {
						continue // the literal itself; what uses the closure value is judged below
					}
					if *op == ssa.Value(f) && in != ssa.Instruction(g) {
						used = true
					}
					if mc, ok := (*op).(*ssa.MakeClosure); ok && mc.Fn == ssa.Value(f) && in != ssa.Instruction(g) {
						if _, isDbg := in.(*ssa.DebugRef); !isDbg {
							used = true
						}
					}
				}
			})
		}
		return used
	}
	eachInstr(fn, func(b *ssa.BasicBlock, _ int, in ssa.Instruction) {
		g, ok := in.(*ssa.Go)
		if !ok || g.Call.IsInvoke() {
			return
		}
		for _, lp := range loops {
			if lp.body[b] {
				return
			}
		}
		var target *ssa.Function
		switch v := g.Call.Value.(type) {
		case *ssa.MakeClosure:
			target, _ = v.Fn.(*ssa.Function)
		case *ssa.Function:
			target = v
		}
		if target == nil || target.Blocks == nil {
			return
		}
		if target.Parent() != nil {
			if usedElsewhere(target, g) {
				return
			}
		} else {
			sites := c.callSites(target)
			if pkgRel(target) != pkgRel(fn) || len(sites) != 1 || sites[0] != ssa.CallInstruction(g) {
				return
			}
		}
		for _, x := range out {
			if x == target {
				return
			}
		}
		out = append(out, target)
	})
	return out
}

// j6Within: fn is one of roots or a function literal nested in one.
func j6Within(fn *ssa.Function, roots []*ssa.Function) bool {
	for f := fn; f != nil; f = f.Parent() {
		for _, r := range roots {
			if f == r {
				return true
			}
		}
	}
	return false
}

// j6CondsUp: the branch conditions in force at block b, and - when b's function is a helper whose
// call sites can be enumerated - those in force at any of its call sites (up to three levels).
func (c *Ctx) j6CondsUp(b *ssa.BasicBlock, depth int) []Cond {
	out := condsAt(b)
	if depth >= 3 {
		return out
	}
	for _, site := range c.callSites(b.Parent()) {
		if site.Block() != nil {
			out = append(out, c.j6CondsUp(site.Block(), depth+1)...)
		}
	}
	return out
}

// ---- panic on a failed write to the TNC connection (C14-crash) ----------------------------------

// j6WriteFailure: the instruction is panic(err) where err can only be the error result of a Write
// on a connection held in a struct field (directly, merged over branches, or handed back by a
// same-package helper on every return), and the panic is on the non-nil edge of a test of it. What
// triggers it is a failing local write, not input from the TNC.
func (c *Ctx) j6WriteFailure(in ssa.Instruction) (bool, string) {
	p, ok := in.(*ssa.Panic)
	if !ok {
		return false, ""
	}
	x := p.X
	for {
		switch t := x.(type) {
		case *ssa.MakeInterface:
			x = t.X
			continue
		case *ssa.ChangeInterface:
			x = t.X
			continue
		}
		break
	}
	if !i3IsErrorType(x.Type()) {
		return false, ""
	}
	nWrites := 0
	if !c.j6OnlyWriteErrors(x, 0, map[ssa.Value]bool{}, &nWrites) || nWrites == 0 {
		return false, ""
	}
	tested := false
	for _, cd := range condsAt(p.Block()) {
		if is, isNil := nilTest(cd, origin(x)); is && !isNil {
			tested = true
		}
	}
	if !tested {
		return false, ""
	}
	return true, "raised when a WRITE to the TNC connection fails: the value thrown is, on every path, the error result of Write on a connection field, tested non-nil - the trigger is a local I/O failure, not input from the TNC (outside the statement)"
}

func (c *Ctx) j6OnlyWriteErrors(v ssa.Value, depth int, busy map[ssa.Value]bool, n *int) bool {
	v = origin(v)
	if isNilConst(v) {
		return true
	}
	if busy[v] || depth > 3 {
		return false
	}
	busy[v] = true
	defer delete(busy, v)
	var call *ssa.Call
	idx := 0
	switch t := v.(type) {
	case *ssa.Phi:
		for _, e := range t.Edges {
			if !c.j6OnlyWriteErrors(e, depth, busy, n) {
				return false
			}
		}
		return len(t.Edges) > 0
	case *ssa.Extract:
		call, _ = t.Tuple.(*ssa.Call)
		idx = t.Index
	case *ssa.Call:
		call = t
	}
	if call == nil {
		return false
	}
	res := call.Call.Signature().Results()
	if idx != res.Len()-1 || !i3IsErrorType(res.At(idx).Type()) {
		return false
	}
	isWrite := false
	var recv ssa.Value
	if call.Call.IsInvoke() && call.Call.Method.Name() == "Write" {
		isWrite, recv = true, call.Call.Value
	} else if callee := call.Call.StaticCallee(); callee != nil && callee.Name() == "Write" && callee.Signature.Recv() != nil && len(call.Call.Args) == 2 && !c.inModule(callee) {
		isWrite, recv = true, call.Call.Args[0]
	}
	if isWrite {
		sig := call.Call.Signature()
		if sig.Params().Len() != 1 || !isByteSliceOrString(sig.Params().At(0).Type()) || res.Len() != 2 {
			return false
		}
		// the writer is held in (or embedded in what is held in) a struct field: "x.conn", "&x.conn.inner"
		if !strings.Contains(strings.TrimPrefix(pathOf(recv), "&"), ".") {
			return false
		}
		*n++
		return true
	}
	callee := call.Call.StaticCallee()
	if callee == nil || callee.Blocks == nil || !c.inModule(callee) {
		return false
	}
	rets := returnsOf(callee)
	for _, ret := range rets {
		if idx >= len(ret.Results) || !c.j6OnlyWriteErrors(ret.Results[idx], depth+1, busy, n) {
			return false
		}
	}
	return len(rets) > 0
}

// ---- the frame reader and the helpers it calls (C14-fullread, C14-framing) -----------------------

// j6MayBe: v is ev, or a merge one of whose edges is.
func j6MayBe(v, ev ssa.Value, depth int) bool {
	v = origin(v)
	if v == ev || v == origin(ev) {
		return true
	}
	if ph, ok := v.(*ssa.Phi); ok && depth < 4 {
		for _, e := range ph.Edges {
			if j6MayBe(e, ev, depth+1) {
				return true
			}
		}
	}
	return false
}

// j6Returns: fn hands the error value ev back as its last result on some return.
func j6Returns(fn *ssa.Function, ev ssa.Value) bool {
	if ev == nil {
		return false
	}
	for _, ret := range returnsOf(fn) {
		if n := len(ret.Results); n > 0 && i3IsErrorType(ret.Results[n-1].Type()) && j6MayBe(ret.Results[n-1], ev, 0) {
			return true
		}
	}
	return false
}

// j6ErrForwarded: an error that g returns reaches the caller of anchor: g is anchor, or every call
// site of g (enumerable, at least one, plain calls) lies in a function that returns the call's
// error result as its own and forwards it in turn.
func (c *Ctx) j6ErrForwarded(g, anchor *ssa.Function, depth int) bool {
	if g == anchor {
		return true
	}
	if depth > 3 {
		return false
	}
	sites := c.callSites(g)
	if len(sites) == 0 {
		return false
	}
	for _, s := range sites {
		call, plain := s.(*ssa.Call)
		if !plain || !j6Returns(call.Parent(), errResult(call)) || !c.j6ErrForwarded(call.Parent(), anchor, depth+1) {
			return false
		}
	}
	return true
}

// j6FailsWith: when the call `read` in its function G fails, G does not return a nil error: every
// return the call reaches hands the call's error back, lies on its nil edge, or is an error exit.
func j6FailsWith(read *ssa.Call) bool {
	g := read.Parent()
	ev := errResult(read)
	if ev == nil {
		return false
	}
	for _, ret := range returnsOf(g) {
		if !instrReaches(read, ret) {
			continue
		}
		n := len(ret.Results)
		if n == 0 || !i3IsErrorType(ret.Results[n-1].Type()) {
			return false
		}
		if j6MayBe(ret.Results[n-1], ev, 0) || okEdgeDominates(read, ret.Block()) || isErrorExit(ret) {
			continue
		}
		return false
	}
	return true
}

// j6Protected: instruction `use` only runs when the call `read` returned a nil error: it lies on
// the nil edge of the test of read's error in the same function, or read's function fails with
// read and `use` is protected in the same way by a call of that function.
func (c *Ctx) j6Protected(read *ssa.Call, use ssa.Instruction, depth int) bool {
	if read.Parent() == use.Parent() {
		return okEdgeDominates(read, use.Block())
	}
	if depth > 3 || !j6FailsWith(read) {
		return false
	}
	for _, s := range c.callSites(read.Parent()) {
		if call, plain := s.(*ssa.Call); plain && c.j6Protected(call, use, depth+1) {
			return true
		}
	}
	return false
}

// j6ReaderFacts: the facts C14-fullread and C14-framing state about the frame reader, looked for in
// the anchor and in the same-package functions it calls synchronously.
type j6ReaderFacts struct {
	crcRead, dataRead *ssa.Call
	crcTested         bool // the error of the CRC read is handed back up to the caller of the anchor
	crcCmpOK          bool // the computed CRC is compared on the nil edge of the CRC read
	dataReadOK        bool // the body read's error is handed back as well (helper shape)
	refused           bool // ErrChecksumMismatch on the "computed != received" edge, forwarded to the caller of the anchor
	peek2             bool
	where             string
}

func (c *Ctx) j6Reader(pkg string, anchor *ssa.Function) j6ReaderFacts {
	var f j6ReaderFacts
	tree := c.syncTree([]*ssa.Function{anchor}, pkg)
	is2 := func(buf ssa.Value) bool {
		if mk, ok := origin(buf).(*ssa.MakeSlice); ok {
			if k, isC := constInt(mk.Len); isC && k == 2 {
				return true
			}
		}
		if sl, ok := buf.(*ssa.Slice); ok {
			if al, ok := sl.X.(*ssa.Alloc); ok {
				if arr, ok := al.Type().Underlying().(*types.Pointer).Elem().Underlying().(*types.Array); ok && arr.Len() == 2 {
					return true
				}
			}
		}
		return false
	}
	var sums []*ssa.Call
	for _, g := range tree {
		for _, ci := range callsTo(g, false, pkg+".crc16Sum") {
			if call, ok := ci.(*ssa.Call); ok {
				sums = append(sums, call)
			}
		}
	}
	for _, g := range tree {
		for _, ci := range callsTo(g, false, "io.ReadFull") {
			call, ok := ci.(*ssa.Call)
			if !ok {
				continue
			}
			if is2(call.Call.Args[1]) {
				if f.crcRead == nil || !f.crcTested || !f.crcCmpOK {
					f.crcRead = call
					f.crcTested = j6Returns(g, errResult(call)) && c.j6ErrForwarded(g, anchor, 0)
					f.crcCmpOK = false
					for _, s := range sums {
						if c.j6Protected(call, s, 0) {
							f.crcCmpOK = true
						}
					}
				}
				continue
			}
			ok2 := g == anchor || (j6Returns(g, errResult(call)) && c.j6ErrForwarded(g, anchor, 0))
			if f.dataRead == nil || ok2 {
				f.dataRead, f.dataReadOK = call, ok2
			}
		}
		for _, ci := range callsTo(g, false, "bufio.Reader.Peek") {
			if k, isC := constInt(ci.Common().Args[1]); isC && k == 2 {
				f.peek2 = true
			}
		}
		for _, ret := range returnsOf(g) {
			n := len(ret.Results)
			if n == 0 {
				continue
			}
			ld, ok := resOf(ret, n-1).(*ssa.UnOp)
			if !ok || !strings.HasSuffix(pathOf(ld), "ErrChecksumMismatch") {
				continue
			}
			for _, cd := range condsAt(ret.Block()) {
				bo, ok := cd.V.(*ssa.BinOp)
				if !ok || !dependsOn(cd.V, func(v ssa.Value) bool {
					call, ok := v.(*ssa.Call)
					return ok && strings.HasSuffix(callName(&call.Call), ".crc16Sum")
				}) {
					continue
				}
				differs := (bo.Op == token.NEQ && cd.Truth && cd.If.Block().Succs[0] == ret.Block()) ||
					(bo.Op == token.EQL && !cd.Truth && cd.If.Block().Succs[1] == ret.Block())
				if differs && c.j6ErrForwarded(g, anchor, 0) {
					f.refused = true
					f.where = g.Name()
				}
			}
		}
	}
	return f
}
