package main

// C14 — ARDOP connection is a reliable ordered byte stream with correct host framing.

import (
	"fmt"
	"go/ast"
	"go/token"
	"go/types"
	"sort"
	"strings"

	"golang.org/x/tools/go/ssa"
)

func init() {
	register("C14", true,
		"Structural necessary conditions decided from source for package transport/ardop: (C14-crash) crash-site inventory from the TNC reader goroutines, the control loop, the broadcaster, the listener goroutine and all tncConn/TNC methods: index/slice expressions proven by the compiler or the fact engine, no reachable panic or process exit other than two excepted with reasons; (C14-types) every type assertion on a control message's value (direct, through Bool/State/String/Int, or through the get* wrappers) is guarded by a test of the command against a constant K, and the parser's arm for K assigns a value of exactly the asserted dynamic type on every path - so no command line from the TNC can turn into an assertion panic; (C14-width) no arithmetic is done on a 16-bit length decoded from the wire before it is widened; (C14-fullread) no single raw Read for a fixed-length field, the CRC bytes are read with io.ReadFull and its error is tested; (C14-framing) every byte-order object is BigEndian, the length field is 16 bits wide on both sides, the serial prefixes written are C:/D: and the reader dispatches c/d, the CRC covers the bytes after the prefix, a write is truncated to 65535 bytes and reports the count it accepted, CRCFAULT leads back to the send; (C14-flush) the flush lock is released only by updateBuffer on the BUFFER 0 edge, taken by Write on the BUFFER arm, and Flush returns nil only from the wait on it; (C14-ptt) SetPTT is a plain call from the dispatch goroutine on the PTT arm with the message's boolean; (C14-close) every exit of Close on a live connection follows the DISCONNECT command; (C14-stream) Read returns the copy count, keeps and first serves the remainder of a frame. NOT decided: stream equality, CRCFAULT retransmission behaviour over time, event interleavings, the unsynchronised TNC state fields.",
		checkC14)
}

// parserArmTypes: command constant name -> dynamic type assigned to ctrlMsg.value in its arm of
// parseCtrlMsg ("" = no value assigned), from the syntax tree.
func parserArmTypes(c *Ctx) (map[string]string, map[string]string, bool) {
	p := c.Pkg("transport/ardop")
	fd := funcDecl(p, "parseCtrlMsg")
	if fd == nil {
		return nil, nil, false
	}
	arm := map[string]string{}
	byValue := map[string]string{} // command string value -> type
	qual := func(pk *types.Package) string { return pk.Name() }
	ast.Inspect(fd, func(n ast.Node) bool {
		sw, ok := n.(*ast.SwitchStmt)
		if !ok || sw.Tag == nil {
			return true
		}
		if sel, ok := sw.Tag.(*ast.SelectorExpr); !ok || sel.Sel.Name != "cmd" {
			return true
		}
		for _, st := range sw.Body.List {
			cc := st.(*ast.CaseClause)
			typ := ""
			conditional := false
			leavesEarly := false // a statement seen so far can leave the arm (break, return, goto ...)
			for _, bs := range cc.Body {
				as, ok := bs.(*ast.AssignStmt)
				if !ok {
					if armCanLeave(bs) {
						leavesEarly = true
					}
					// an assignment nested in control flow does not count as "on every path"
					ast.Inspect(bs, func(m ast.Node) bool {
						if a2, ok := m.(*ast.AssignStmt); ok {
							for _, lhs := range a2.Lhs {
								if s, ok := lhs.(*ast.SelectorExpr); ok && s.Sel.Name == "value" {
									conditional = true
								}
							}
						}
						return true
					})
					continue
				}
				for i, lhs := range as.Lhs {
					if s, ok := lhs.(*ast.SelectorExpr); ok && s.Sel.Name == "value" && i < len(as.Rhs) {
						if leavesEarly {
							// an earlier statement of the arm can leave it before this assignment: the
							// value stays nil on that path
							conditional = true
							continue
						}
						if tv, ok := p.TypesInfo.Types[as.Rhs[i]]; ok {
							typ = types.TypeString(types.Default(tv.Type), qual)
						}
					}
				}
			}
			if conditional && typ == "" {
				typ = "?conditional"
			}
			for _, e := range cc.List {
				if id, ok := e.(*ast.Ident); ok {
					arm[id.Name] = typ
					if v := exprConst(p.TypesInfo, e); v != nil {
						byValue[strings.Trim(v.ExactString(), `"`)] = typ
					}
				}
			}
		}
		return false
	})
	return arm, byValue, len(arm) > 0
}

// armCanLeave: the statement contains a break (of the enclosing switch), return, goto, continue
// or fallthrough that ends the arm before its following statements run.
func armCanLeave(st ast.Stmt) bool {
	leaves := false
	var walk func(n ast.Node, inBreakable, inLoop bool)
	walk = func(n ast.Node, inBreakable, inLoop bool) {
		ast.Inspect(n, func(m ast.Node) bool {
			switch x := m.(type) {
			case *ast.FuncLit:
				return false
			case *ast.ReturnStmt:
				leaves = true
			case *ast.BranchStmt:
				switch {
				case x.Label != nil, x.Tok == token.GOTO, x.Tok == token.FALLTHROUGH && !inBreakable:
					leaves = true
				case x.Tok == token.BREAK && !inBreakable:
					leaves = true
				case x.Tok == token.CONTINUE && !inLoop:
					leaves = true
				}
			case *ast.ForStmt, *ast.RangeStmt:
				if m != n {
					walk(m, true, true)
					return false
				}
			case *ast.SwitchStmt, *ast.TypeSwitchStmt, *ast.SelectStmt:
				if m != n {
					walk(m, true, inLoop)
					return false
				}
			}
			return true
		})
	}
	walk(st, false, false)
	return leaves
}

func checkC14(c *Ctx, r *Report) {
	const pkg = "transport/ardop"
	p := c.Pkg(pkg)
	if p == nil {
		r.Fail("anchor", "package %s not found", pkg)
		return
	}
	qual := func(pk *types.Package) string { return pk.Name() }

	borrowRule(c, r, "C14-borrow", pkg)
	// ---- C14-types
	r.Rule("C14-types", 12, "type assertions on control message values match the parser")
	_, armByValue, ok := parserArmTypes(c)
	if !ok {
		r.Fail("C14-types", "could not read the arms of parseCtrlMsg (anchor unresolved)")
	}
	assertVerdict := map[*ssa.TypeAssert]string{} // "" = ok
	// constants K such that "<base>.cmd == K" holds at block b
	cmdsAt := func(b *ssa.BasicBlock, base string) []string {
		var out []string
		for _, cd := range condsAt(b) {
			bo, ok := cd.V.(*ssa.BinOp)
			if !ok || bo.Op != token.EQL || !cd.Truth {
				continue
			}
			if s, isS := constString(bo.Y); isS && pathOf(bo.X) == base+".cmd" {
				out = append(out, s)
			}
			if s, isS := constString(bo.X); isS && pathOf(bo.Y) == base+".cmd" {
				out = append(out, s)
			}
		}
		return out
	}
	// guardsFor: the constants K (with the place of the test) such that "<base>.cmd == K" is in force at
	// instruction at; when there is none there and base is rooted at a parameter of a helper whose call
	// sites can be enumerated, the union over the call sites for the actual argument - every call site
	// must contribute at least one, otherwise nothing is returned.
	type kAt struct{ k, where string }
	var guardsFor func(at ssa.Instruction, base string, depth int) []kAt
	guardsFor = func(at ssa.Instruction, base string, depth int) []kAt {
		var out []kAt
		for _, k := range cmdsAt(at.Block(), base) {
			out = append(out, kAt{k, c.pos(at.Pos())})
		}
		if len(out) > 0 || depth >= 3 {
			return out
		}
		root, rest := splitRoot(base)
		idx := paramIndexByName(at.Parent(), root)
		if idx < 0 {
			return nil
		}
		for _, site := range c.callSites(at.Parent()) {
			args := site.Common().Args
			if idx >= len(args) {
				return nil
			}
			ks := guardsFor(site, derefPath(pathOf(args[idx]))+rest, depth+1)
			if len(ks) == 0 {
				return nil
			}
			out = append(out, ks...)
		}
		return out
	}
	var judge func(ta *ssa.TypeAssert, want string, fn *ssa.Function, at ssa.Instruction, x ssa.Value, depth int) []string
	judge = func(ta *ssa.TypeAssert, want string, fn *ssa.Function, at ssa.Instruction, x ssa.Value, depth int) []string {
		var problems []string
		checkK := func(k string, where string) {
			got, known := armByValue[k]
			switch {
			case !known:
				problems = append(problems, fmt.Sprintf("%s: command %q has no arm in parseCtrlMsg", where, k))
			case got != want:
				problems = append(problems, fmt.Sprintf("%s: the parser gives command %q a value of type %q, asserted as %s", where, k, got, want))
			}
		}
		if depth > 3 {
			return []string{"assertion chain too deep"}
		}
		x = origin(x)
		// (1) value loaded from <base>.value
		if px := pathOf(x); strings.HasSuffix(px, ".value") {
			base := strings.TrimSuffix(px, ".value")
			if ks := guardsFor(at, base, 0); len(ks) > 0 {
				for _, k := range ks {
					checkK(k.k, k.where)
				}
				return problems
			}
			// inside a method of ctrlMsg: lift to the call sites of the method
			if fn.Signature.Recv() != nil && len(fn.Params) > 0 && base == fn.Params[0].Name() {
				sites := c.siteIdx().sites[fn]
				if len(sites) == 0 {
					return nil // never called
				}
				for _, site := range sites {
					recv := site.Common().Args[0]
					ks := guardsFor(site, derefPath(pathOf(recv)), 0)
					if len(ks) == 0 {
						problems = append(problems, fmt.Sprintf("%s: %s is called without a dominating test of the command", c.pos(site.Pos()), fn.Name()))
					}
					for _, k := range ks {
						checkK(k.k, k.where)
					}
				}
				return problems
			}
			return []string{fmt.Sprintf("%s: no dominating test of %s.cmd against a constant", c.pos(at.Pos()), base)}
		}
		// (2) result 0 of (*TNC).get(cmd)
		if ex, ok := x.(*ssa.Extract); ok && ex.Index == 0 {
			if call, ok := ex.Tuple.(*ssa.Call); ok && strings.HasSuffix(callName(&call.Call), ".TNC.get") {
				arg := call.Call.Args[1]
				if k, isS := constString(arg); isS {
					checkK(k, c.pos(call.Pos()))
					return problems
				}
				if par, isP := arg.(*ssa.Parameter); isP && par.Parent() == fn {
					idx := -1
					for i, q := range fn.Params {
						if q == par {
							idx = i
						}
					}
					for _, site := range c.siteIdx().sites[fn] {
						if k, isS := constString(site.Common().Args[idx]); isS {
							checkK(k, c.pos(site.Pos()))
						} else {
							problems = append(problems, fmt.Sprintf("%s: %s is called with a non-constant command", c.pos(site.Pos()), fn.Name()))
						}
					}
					return problems
				}
			}
		}
		return []string{fmt.Sprintf("%s: the dynamic type of %s is not established", c.pos(at.Pos()), pathOf(x))}
	}
	nAsserts := 0
	for _, fn := range c.SrcFuncs(pkg) {
		eachInstr(fn, func(_ *ssa.BasicBlock, _ int, in ssa.Instruction) {
			ta, ok := in.(*ssa.TypeAssert)
			if !ok || ta.CommaOk {
				return
			}
			// only assertions on values that come from control messages
			x := origin(ta.X)
			fromMsg := strings.HasSuffix(pathOf(x), ".value")
			if ex, ok := x.(*ssa.Extract); ok {
				if call, ok := ex.Tuple.(*ssa.Call); ok && strings.HasSuffix(callName(&call.Call), ".TNC.get") {
					fromMsg = true
				}
			}
			if !fromMsg {
				return
			}
			nAsserts++
			want := types.TypeString(ta.AssertedType, qual)
			o := r.Add("C14-types", fnName(fn), "assertion "+c.exprAt(fn, ta.Pos()), c.pos(ta.Pos()))
			problems := judge(ta, want, fn, ta, ta.X, 0)
			if len(problems) == 0 {
				o.OK("every command under which this assertion runs is given a %s by the parser", want)
				assertVerdict[ta] = ""
			} else {
				sort.Strings(problems)
				o.Bad("assertion to %s can panic on TNC input: %s", want, strings.Join(problems, "; "))
				assertVerdict[ta] = problems[0]
			}
		})
	}
	if nAsserts < 8 {
		r.Fail("C14-types", "found %d assertions on control message values, expected at least 8", nAsserts)
	}
	// get() returns the value of the message whose command equals its parameter
	if fn := c.Func(pkg, "(*TNC).get"); fn != nil {
		o := r.Add("C14-types", fnName(fn), "get returns the value of the matching command", c.pos(fn.Pos()))
		good := false
		for _, ret := range returnsOf(fn) {
			v := resOf(ret, 0)
			if strings.HasSuffix(pathOf(v), ".value") {
				base := strings.TrimSuffix(pathOf(v), ".value")
				for _, cd := range condsAt(ret.Block()) {
					if bo, ok := cd.V.(*ssa.BinOp); ok && bo.Op == token.EQL && cd.Truth {
						x, y := pathOf(bo.X), pathOf(bo.Y)
						if (x == base+".cmd" && y == "cmd") || (y == base+".cmd" && x == "cmd") {
							good = true
						}
					}
				}
			}
		}
		if good {
			o.OK("msg.value is returned on the msg.cmd == cmd edge")
		} else {
			o.Bad("get no longer returns the value of the message whose command equals the one asked for: the wrappers' assertions are unprotected")
		}
	}

	// ---- C14-crash
	r.Rule("C14-crash", 10, "crash-site inventory of the ARDOP driver")
	var entries []*ssa.Function
	for _, fn := range c.SrcFuncs(pkg) {
		if fn.Parent() != nil {
			continue
		}
		if fn.Signature.Recv() != nil || fn.Name() == "decodeTNCStream" || fn.Name() == "newBroadcaster" || fn.Name() == "Open" || fn.Name() == "open" {
			entries = append(entries, fn)
		}
	}
	st := crashInventory(c, r, crashCfg{
		rule:    "C14-crash",
		entries: entries,
		scope:   func(fn *ssa.Function) bool { return pkgRel(fn) == pkg },
		bcePkgs: []string{pkg},
		assertOK: func(ta *ssa.TypeAssert) (bool, string) {
			if v, ok := assertVerdict[ta]; ok {
				if v == "" {
					return true, "dynamic type established by the parser's arm for the guarding command (rule C14-types)"
				}
				return false, v
			}
			return false, ""
		},
		// buf.Bytes()[2:] in whichever function assembles the data frame: decided, not excepted
		// ... or x[2:] of a slice value built by append (ip_j6.go)
		sliceOK: func(sl *ssa.Slice) (bool, string) {
			if ok, why := bufferSliceOK(sl); ok {
				return ok, why
			}
			return j6AppendSliceOK(sl)
		},
		exceptions: map[string]string{
			"transport/ardop.newBroadcaster$1|index receivers[i]":                                   "loop index discipline: i < len(receivers) is tested at the top of every iteration and i-- only follows the removal of element i",
			"transport/ardop.newBroadcaster$1|slice receivers[:i]":                                  "same loop: 0 <= i < len(receivers) holds where a receiver is removed",
			"transport/ardop.newBroadcaster$1|slice receivers[i + 1:]":                              "same loop: i+1 <= len(receivers)",
			"transport/ardop.readFrameOfType|slice data[:len(data) - 1]":                            "reached only for frame type 'c', where data is the result of ReadBytes whose error was tested nil by the check after the first switch (len >= 1); the correlation between the two switches on fType is not visible to dominance",
			"(transport/ardop.State).String|slice _State_name[_State_index[i]:_State_index[i + 1]]": "generated by stringer: guarded by the range test on i in the line above, table contents constant",
			"(transport/ardop.State).String|index _State_index[i]":                                  "generated by stringer: guarded by the range test on i",
			"(transport/ardop.State).String|index _State_index[i + 1]":                              "generated by stringer: guarded by the range test on i",
			"(*transport/ardop.TNC).Listen$1|index msg.value.([]string)[0]":                         "the CONNECTED arm of the parser stores parseList's result, a strings.Split result (len >= 1); the assertion itself is checked by C14-types",
		},
		fatalIsOK: map[string]string{
			"(*transport/ardop.TNC).runControlLoop$2|panic panic(err)":      "raised when a WRITE to the TNC socket fails: the trigger is a local I/O failure, not input from the TNC (outside the statement); marked FIXME upstream",
			"transport/ardop.readFrameOfType|panic panic(\"not possible\")": "default arm of the second switch on fType: the first switch returns for every type other than 'c' and 'd'",
		},
		skipFns: map[string]string{
			"transport/ardop.OpenTCP": "entry point taking a locally configured address, not TNC input",
		},
		// the same exception as runControlLoop$2|panic(err), recognised by what is thrown (ip_j6.go)
		fatalOK: c.j6WriteFailure,
	})
	r.Infos["crash_inventory"] = st

	// ---- C14-width
	r.Rule("C14-width", 1, "wire lengths are widened before arithmetic")
	nDec := 0
	for _, fn := range c.SrcFuncs(pkg) {
		for _, ci := range allCalls(fn) {
			n := callName(ci.Common())
			if !strings.HasPrefix(n, "encoding/binary.") || !(strings.HasSuffix(n, ".Uint16") || strings.HasSuffix(n, ".Uint32")) {
				continue
			}
			v := ci.Value()
			if v == nil {
				continue
			}
			nDec++
			o := r.Add("C14-width", fnName(fn), "value decoded by "+c.exprAt(fn, ci.Pos()), c.pos(ci.Pos()))
			bad := ""
			for _, ref := range *v.Referrers() {
				if b, ok := ref.(*ssa.BinOp); ok {
					switch b.Op {
					case token.ADD, token.SUB, token.MUL, token.SHL:
						if bt, ok := b.Type().Underlying().(*types.Basic); ok && (bt.Kind() == types.Uint16 || bt.Kind() == types.Uint8) {
							bad = fmt.Sprintf("%s at %s is computed in %s: it wraps around for lengths near the maximum (65534/65535)", c.exprAt(fn, b.Pos()), c.pos(b.Pos()), bt.Name())
						}
					}
				}
			}
			if bad == "" {
				o.OK("only compared or converted to a wider type before any arithmetic")
			} else {
				o.Bad("%s", bad)
			}
		}
	}
	if nDec == 0 {
		r.Fail("C14-width", "no binary.*.Uint16/Uint32 decode found in package ardop (anchor unresolved)")
	}

	// ---- C14-fullread
	r.Rule("C14-fullread", 2, "fixed-length fields are read completely")
	nRaw := 0
	for _, fn := range c.SrcFuncs(pkg) {
		for _, ci := range allCalls(fn) {
			n := callName(ci.Common())
			isRaw := n == "bufio.Reader.Read" || (ci.Common().IsInvoke() && ci.Common().Method.Name() == "Read")
			if !isRaw {
				continue
			}
			nRaw++
			used, inLoop := true, accumulatingRead(ci)
			r.Check("C14-fullread", fnName(fn), "raw "+c.exprAt(fn, ci.Pos()), c.pos(ci.Pos()), used && inLoop,
				"the count is accumulated in a loop", "a single Read whose count is ignored may deliver fewer bytes than the field is long: use io.ReadFull")
		}
	}
	r.Add("C14-fullread", "ardop", "raw Read calls in the package", pkg).OK("%d raw Read call(s) examined", nRaw)
	if fn := c.Func(pkg, "readFrameOfType"); fn == nil {
		r.Fail("C14-fullread", "anchor ardop.readFrameOfType not found")
	} else {
		where := fnName(fn)
		// the steps of the reader are looked for in readFrameOfType and in the functions it calls
		// synchronously; a fact about an error counts only when the error is handed back up to the
		// caller of readFrameOfType at every call site of the helper (ip_j6.go)
		rf := c.j6Reader(pkg, fn)
		o := r.Add("C14-fullread", where, "CRC bytes read completely and the error tested", c.pos(fn.Pos()))
		switch {
		case rf.crcRead == nil:
			o.Bad("the two CRC bytes are not read with io.ReadFull")
		case rf.crcTested && rf.crcCmpOK:
			o.OK("io.ReadFull into the 2-byte buffer; its error returns; the CRC comparison runs on the nil edge")
		default:
			o.Bad("the error of reading the CRC bytes is not tested before the CRC is compared")
		}
		r.Check("C14-fullread", where, "data frame body read completely", c.pos(fn.Pos()), rf.dataRead != nil && rf.dataReadOK,
			"io.ReadFull into the frame buffer", "the body of a data frame is not read with io.ReadFull")
		// checksum mismatch refuses the frame
		o = r.Add("C14-fullread", where, "CRC mismatch refuses the frame", c.pos(fn.Pos()))
		if rf.refused {
			o.OK("ErrChecksumMismatch is returned on the 'computed != received' edge")
		} else {
			o.Bad("a frame whose CRC does not match is no longer refused")
		}
	}

	// ---- C14-framing
	r.Rule("C14-framing", 8, "host framing agrees between writer and reader")
	for _, fn := range c.SrcFuncs(pkg) {
		for _, ci := range allCalls(fn) {
			n := callName(ci.Common())
			if n == "encoding/binary.Read" || n == "encoding/binary.Write" {
				u, ok := unwrap(ci.Common().Args[1]).(*ssa.UnOp)
				be := false
				if ok {
					if g, ok := u.X.(*ssa.Global); ok && g.Name() == "BigEndian" {
						be = true
					}
				}
				r.Check("C14-framing", fnName(fn), c.exprAt(fn, ci.Pos()), c.pos(ci.Pos()), be, "big-endian", "ARDOP host integers are big-endian")
			}
			if strings.HasPrefix(n, "encoding/binary.littleEndian.") {
				r.Add("C14-framing", fnName(fn), c.exprAt(fn, ci.Pos()), c.pos(ci.Pos())).Bad("ARDOP host integers are big-endian")
			}
			if strings.HasPrefix(n, "encoding/binary.bigEndian.") {
				r.Add("C14-framing", fnName(fn), c.exprAt(fn, ci.Pos()), c.pos(ci.Pos())).OK("big-endian")
			}
		}
	}
	if fn := c.Func(pkg, "(*tncConn).Write"); fn == nil {
		r.Fail("C14-framing", "anchor (*ardop.tncConn).Write not found")
	} else {
		where := fnName(fn)
		// The frame that Write sends on the data channel is assembled in a local buffer - by Write
		// itself or by a helper whose result Write sends. The conditions on prefix, length, payload and
		// CRC are stated on that function; its parameters are bound to Write's arguments.
		fa := c.resolveFrameAsm(fn)
		asmName := "Write"
		if fa.call != nil {
			asmName = fa.fn.Name() + " (whose result Write sends)"
		}
		// ... or it is a []byte VALUE built with make/append/AppendUint16: then the conditions are stated
		// on the symbolic content of the value sent, per host interface (ip_j6.go)
		var df *j6DataFrame
		if fa.fn == nil && fa.send != nil {
			d := c.j6ResolveFrame(pkg, fn, fa.send.X, fa.send)
			df = &d
			asmName = "the slice value Write sends"
		}
		// 16-bit length of the (truncated) data
		o := r.Add("C14-framing", where, "16-bit length field = len(data written)", c.pos(fn.Pos()))
		lenOK, truncOK := false, false
		var written ssa.Value
		var payloadWrites []ssa.CallInstruction
		if fa.fn != nil {
			for _, ci := range callsTo(fa.fn, false, "bytes.Buffer.Write") {
				if fa.onBuf(ci) {
					written = ci.Common().Args[1]
					payloadWrites = append(payloadWrites, ci)
				}
			}
			for _, ci := range callsTo(fa.fn, false, "encoding/binary.Write") {
				if !fa.onBuf(ci) {
					continue
				}
				v := unwrap2(ci.Common().Args[2])
				if cv, ok := v.(*ssa.Convert); ok {
					if bt, ok := cv.Type().Underlying().(*types.Basic); ok && bt.Kind() == types.Uint16 {
						if call, ok := cv.X.(*ssa.Call); ok && callName(&call.Call) == "builtin.len" && call.Call.Args[0] == written {
							lenOK = true
						}
					}
				}
			}
		}
		pr := newProver(c)
		if df != nil && df.payload != nil {
			written, lenOK = df.payload, df.lenOK
			truncOK = df.payloadAt != nil && pr.LE(written, true, 0, nil, false, 65535, df.payloadAt)
		} else if written != nil {
			// inside a helper the bound follows from the caller facts of the prover: the relation is
			// proven for the actual argument at every call site
			for _, ci := range payloadWrites {
				truncOK = pr.LE(written, true, 0, nil, false, 65535, ci)
			}
		}
		switch {
		case !lenOK:
			o.Bad("the length field is not uint16(len(p)) of the very slice that is written after it")
		case !truncOK:
			o.Bad("the data written is not proven to be at most 65535 bytes: the 16-bit length field would wrap")
		default:
			o.OK("in %s uint16(len(p)) precedes p, and len(p) <= 65535 is established by the truncation", asmName)
		}
		o = r.Add("C14-framing", where, "serial prefix D: and CRC over the bytes after it", c.pos(fn.Pos()))
		prefix, crc := false, false
		if fa.fn != nil {
			for _, ci := range callsTo(fa.fn, false, "fmt.Fprint") {
				if fa.onBuf(ci) && dependsOn(ci.Common().Args[1], func(v ssa.Value) bool { s, ok := constString(v); return ok && s == "D:" }) && c.serialEdge(ci) {
					prefix = true
				}
			}
			for _, ci := range callsTo(fa.fn, false, pkg+".crc16Sum") {
				if sl, ok := ci.Common().Args[0].(*ssa.Slice); ok {
					if k, isC := constInt(sl.Low); isC && k == 2 && c.serialEdge(ci) {
						crc = true
					}
				}
			}
		}
		if df != nil {
			prefix, crc = df.prefixOK, df.crcOK
		}
		if prefix && crc {
			o.OK("on the serial (non-TCP) edge the frame starts with \"D:\" and ends with crc16Sum of everything after the two prefix bytes (assembled in %s)", asmName)
		} else {
			detail := ""
			if df != nil {
				detail = fmt.Sprintf("; serial: %s; TCP: %s", j6Show(c, df.serial), j6Show(c, df.tcp))
			}
			o.Bad("serial data frames are not framed as D: + length + data + CRC over length and data (prefix: %v, crc: %v%s)", prefix, crc, detail)
		}
		// returns the count accepted
		o = r.Add("C14-framing", where, "Write reports the number of bytes accepted", c.pos(fn.Pos()))
		good := true
		var payload ssa.Value // the slice that is framed, as a value of Write
		if written != nil {
			payload = fa.inWrite(written)
		}
		for _, ret := range returnsOf(fn) {
			v := resOf(ret, 0)
			if isErrorExit(ret) {
				continue
			}
			isCount := false
			if ex, ok := v.(*ssa.Extract); ok && ex.Index == 0 {
				if call, ok := ex.Tuple.(*ssa.Call); ok && callName(&call.Call) == "bytes.Buffer.Write" && fa.fn == fn && fa.onBuf(call) {
					isCount = true
				}
			}
			if call, ok := v.(*ssa.Call); ok && callName(&call.Call) == "builtin.len" && payload != nil && call.Call.Args[0] == payload {
				isCount = true
			}
			if !isCount {
				good = false
			}
		}
		if good {
			o.OK("successful returns report the count of the (possibly truncated) slice that was framed")
		} else {
			o.Bad("a successful Write reports something other than the number of bytes it framed")
		}
		// CRCFAULT -> resend
		o = r.Add("C14-framing", where, "CRCFAULT leads back to the send", c.pos(fn.Pos()))
		resend := false
		var sendBlk *ssa.BasicBlock
		if fa.send != nil {
			sendBlk = fa.send.Block()
		}
		eachInstr(fn, func(b *ssa.BasicBlock, _ int, in ssa.Instruction) {
			ifi, ok := in.(*ssa.If)
			if !ok || sendBlk == nil {
				return
			}
			if bo, ok := ifi.Cond.(*ssa.BinOp); ok && bo.Op == token.EQL {
				if s, _ := constString(bo.Y); s == "CRCFAULT" {
					t := b.Succs[0]
					if t == sendBlk || reachable(t, sendBlk, nil) {
						resend = true
					}
				}
			}
		})
		if resend {
			o.OK("the CRCFAULT edge reaches the send of the frame again (bounded by the retry counter)")
		} else {
			o.Bad("a CRCFAULT from the TNC no longer leads to a retransmission of the frame")
		}
		// the frame must be complete before the transmit loop: anything appended inside the loop is
		// appended again on every retransmission
		o = r.Add("C14-framing", where, "frame buffer is not modified inside the retransmission loop", c.pos(fn.Pos()))
		bad := ""
		for _, lp := range naturalLoops(fn) {
			if sendBlk == nil || !lp.body[sendBlk] || fa.fn == nil {
				continue
			}
			if fa.call != nil {
				// the frame is the helper's result: it must be computed before the loop and only be
				// sent inside it
				if lp.body[fa.call.Block()] {
					continue // rebuilt from scratch on every round: nothing accumulates
				}
				for _, ref := range *fa.call.Referrers() {
					if _, isDbg := ref.(*ssa.DebugRef); isDbg || ref == ssa.Instruction(fa.send) || !lp.body[ref.Block()] {
						continue
					}
					bad = "used at " + c.pos(ref.Pos())
				}
				continue
			}
			bufAddr := pathOf(fa.buf)
			for b := range lp.body {
				for _, in := range b.Instrs {
					ci, ok := in.(ssa.CallInstruction)
					if !ok {
						continue
					}
					n := callName(ci.Common())
					for _, a := range ci.Common().Args {
						if pathOf(unwrap(a)) == bufAddr && !readOnlyMethods[n] {
							bad = n + " at " + c.pos(in.Pos())
						}
					}
				}
			}
		}
		if df != nil && df.why == "" {
			bad = c.j6ChainMisuse(df, fa.send, naturalLoops(fn))
		}
		switch {
		case df != nil && df.why == "" && bad == "":
			o.OK("the frame is a slice value completed before the loop that sends (and re-sends) it, and nothing else uses the values it is built from")
		case df != nil && df.why == "":
			o.Bad("the frame buffer is modified inside the loop that retransmits it, or its bytes can change after they were put in (%s): after a CRCFAULT the frame goes out with other bytes and the host stream loses framing", bad)
		case df != nil:
			o.Bad("the frame sent is not the content of a buffer assembled in this function or in a helper it calls (unresolved: %s)", df.why)
		case fa.fn == nil:
			o.Bad("the frame sent is not the content of a buffer assembled in this function or in a helper it calls (unresolved: %s)", fa.why)
		case bad != "":
			o.Bad("the frame buffer is modified inside the loop that retransmits it (%s): after a CRCFAULT the frame goes out with extra bytes and the host stream loses framing", bad)
		default:
			o.OK("prefix, length, data and CRC are all written before the loop that sends (and re-sends) the frame")
		}
	}
	if fn := c.Func(pkg, "writeCtrlFrame"); fn != nil {
		o := r.Add("C14-framing", fnName(fn), "serial prefix C: and CRC over the command", c.pos(fn.Pos()))
		// decided on the bytes that reach the writer, whichever calls put them there (ip_i3.go)
		if ok, text := c.i3CtrlFraming(pkg, fn); ok {
			o.OK("%s", text)
		} else {
			o.Bad("%s", text)
		}
	}
	if fn := c.Func(pkg, "readFrameOfType"); fn != nil {
		// reader dispatches 'c' and 'd', peeks two length bytes
		arms := map[int64]bool{}
		eachInstr(fn, func(_ *ssa.BasicBlock, _ int, in ssa.Instruction) {
			if bo, ok := in.(*ssa.BinOp); ok && bo.Op == token.EQL {
				if k, isC := constInt(bo.Y); isC && pathOf(bo.X) != "" {
					arms[k] = true
				}
			}
		})
		r.Check("C14-framing", fnName(fn), "reader dispatches c and d frames", c.pos(fn.Pos()), arms['c'] && arms['d'] && arms['*'],
			"arms for '*' (serial wrapper), 'c' and 'd'", "the frame reader no longer has arms for '*', 'c' and 'd'")
		peek2 := c.j6Reader(pkg, fn).peek2 // in the reader or a function it calls synchronously
		r.Check("C14-framing", fnName(fn), "16-bit length on the reading side", c.pos(fn.Pos()), peek2, "the length is decoded from two peeked bytes", "the data frame length is no longer decoded from two bytes")
	}

	// ---- C14-flush
	r.Rule("C14-flush", 3, "flush lock discipline")
	nUnlock := 0
	for _, fn := range c.SrcFuncs(pkg) {
		for _, ci := range allCalls(fn) {
			n := callName(ci.Common())
			if !strings.HasSuffix(n, ".lock.Unlock") || !strings.HasSuffix(pathOf(ci.Common().Args[0]), ".flushLock") {
				continue
			}
			nUnlock++
			inUpdate := strings.HasSuffix(fnName(fn), ".updateBuffer")
			zero := false
			for _, cd := range condsAt(ci.Block()) {
				if bo, ok := cd.V.(*ssa.BinOp); ok && bo.Op == token.EQL && cd.Truth {
					if k, isC := constInt(bo.Y); isC && k == 0 && pathOf(bo.X) == "b" {
						zero = true
					}
				}
			}
			r.Check("C14-flush", fnName(fn), "flushLock.Unlock", c.pos(ci.Pos()), inUpdate && zero,
				"released only by updateBuffer on the b == 0 edge (TNC reports an empty buffer)", "the flush lock is released somewhere other than updateBuffer's 'BUFFER 0' edge: Flush can return while data is still queued in the TNC")
		}
	}
	if nUnlock == 0 {
		r.Add("C14-flush", "ardop", "flushLock.Unlock", pkg).Bad("the flush lock is never released: Flush blocks forever")
	}
	if fn := c.Func(pkg, "(*tncConn).Flush"); fn != nil {
		o := r.Add("C14-flush", fnName(fn), "Flush returns nil only from the wait on the flush lock", c.pos(fn.Pos()))
		good := true
		n := 0
		for _, ret := range returnsOf(fn) {
			if !isNilConst(resOf(ret, 0)) {
				continue
			}
			n++
			onWait := false
			for _, cd := range condsAt(ret.Block()) {
				bo, ok := cd.V.(*ssa.BinOp)
				if !ok || bo.Op != token.EQL || !cd.Truth {
					continue
				}
				if ex, ok := bo.X.(*ssa.Extract); ok {
					if sel, ok := ex.Tuple.(*ssa.Select); ok {
						k, _ := constInt(bo.Y)
						if int(k) < len(sel.States) {
							if call, ok := sel.States[k].Chan.(*ssa.Call); ok && strings.HasSuffix(callName(&call.Call), ".lock.WaitChan") && strings.HasSuffix(pathOf(call.Call.Args[0]), ".flushLock") {
								onWait = true
							}
						}
					}
				}
			}
			if !onWait {
				good = false
			}
		}
		if good && n > 0 {
			o.OK("the nil return is on the select arm that waits for flushLock")
		} else {
			o.Bad("Flush can return nil without having waited for the flush lock")
		}
	}
	if fn := c.Func(pkg, "(*tncConn).Write"); fn != nil {
		locked := false
		for _, ci := range allCalls(fn) {
			if strings.HasSuffix(callName(ci.Common()), ".lock.Lock") && strings.HasSuffix(pathOf(ci.Common().Args[0]), ".flushLock") {
				// on the BUFFER arm, and under no further condition on the message (the value a BUFFER
				// report carries may be a stale 0 that crossed the data frame on the link)
				onArm, extra := false, false
				for _, cd := range condsAt(ci.Block()) {
					if bo, ok := cd.V.(*ssa.BinOp); ok && bo.Op == token.EQL && cd.Truth {
						if s, _ := constString(bo.Y); s == "BUFFER" {
							onArm = true
							continue
						}
					}
					if dependsOn(cd.V, func(x ssa.Value) bool {
						call, ok := x.(*ssa.Call)
						return ok && (strings.HasSuffix(callName(&call.Call), ".ctrlMsg.Int") || strings.HasSuffix(callName(&call.Call), ".ctrlMsg.Bool"))
					}) || strings.Contains(pathOf(cd.V), ".value") {
						extra = true
					}
				}
				if onArm && !extra {
					locked = true
				}
			}
		}
		r.Check("C14-flush", fnName(fn), "Write takes the flush lock when the TNC acknowledges the data", c.pos(fn.Pos()), locked,
			"flushLock.Lock on the BUFFER arm, whatever the report says", "Write does not take the flush lock on every BUFFER acknowledgement (it is missing, or depends on the value reported): a stale BUFFER 0 that crossed the data frame leaves the lock open and Flush returns while the TNC still holds unsent bytes")
	}
	// ---- C14-decoder: one frame that fails to decode does not end the stream
	r.Rule("C14-decoder", 1, "the frame decoder only stops at the end of the link")
	if fn := c.Func(pkg, "decodeTNCStream"); fn == nil {
		r.Fail("C14-decoder", "anchor decodeTNCStream not found")
	} else {
		isEOFCond := func(cd Cond) bool {
			b, ok := cd.V.(*ssa.BinOp)
			if !ok || b.Op != token.EQL && b.Op != token.NEQ {
				return false
			}
			for _, side := range []ssa.Value{b.X, b.Y} {
				if strings.HasSuffix(pathOf(side), "io.EOF") || strings.HasSuffix(pathOf(side), "io.ErrUnexpectedEOF") || strings.HasSuffix(pathOf(side), "net.ErrClosed") {
					return (b.Op == token.EQL) == cd.Truth
				}
			}
			if call, ok := cd.V.(*ssa.Call); ok && callName(&call.Call) == "errors.Is" {
				return cd.Truth
			}
			return false
		}
		n := 0
		for _, l := range naturalLoops(fn) {
			reads := false
			for b := range l.body {
				for _, in := range b.Instrs {
					if call, ok := in.(*ssa.Call); ok && strings.HasSuffix(callName(&call.Call), "readFrameOfType") {
						reads = true
					}
				}
			}
			if !reads {
				continue
			}
			n++
			bad := ""
			for b := range l.body {
				for _, s := range b.Succs {
					if l.body[s] {
						continue
					}
					// an edge that leaves the decode loop: only where the error is the end of the link
					conds := append(condsAt(b), edgeCond(b, s)...)
					ok := false
					for _, cd := range conds {
						if isEOFCond(cd) {
							ok = true
						}
						if call, isCall := cd.V.(*ssa.Call); isCall && callName(&call.Call) == "errors.Is" && cd.Truth {
							ok = true
						}
					}
					if !ok {
						bad = c.pos(b.Instrs[len(b.Instrs)-1].Pos())
						if bad == "-" || bad == "" {
							bad = c.pos(b.Instrs[0].Pos())
						}
					}
				}
			}
			r.Check("C14-decoder", fnName(fn), "decode loop exits", c.pos(l.header.Instrs[0].Pos()), bad == "",
				"the loop is left only when the read error is io.EOF (the link is gone)", "the decode loop can be left (near "+bad+") on an error other than the end of the link: a single frame with a CRC mismatch, an unknown prefix or a runt length silently ends PTT, data, BUFFER and DISCONNECTED delivery while the link stays up")
		}
		if n == 0 {
			r.Add("C14-decoder", fnName(fn), "decode loop exits", c.pos(fn.Pos())).Bad("no loop around readFrameOfType found (unresolved)")
		}
	}
	// The dispatch goroutine: the closures of runControlLoop and every function of the package they
	// run synchronously (plain static calls) - the arms of the loop may live in helper methods.
	// "The goroutines runControlLoop starts" are the targets of its go statements - function literals
	// or functions/methods of the package that are started there and called nowhere else (ip_j6.go).
	var dispatchTree, goRoots []*ssa.Function
	inDispatch := func(fn *ssa.Function) bool { return j6Within(fn, goRoots) }
	if fn := c.Func(pkg, "(*TNC).runControlLoop"); fn != nil {
		goRoots = c.j6GoRoots(fn)
		dispatchTree = c.syncTree(append([]*ssa.Function{fn}, goRoots...), pkg)
	}
	if fn := c.Func(pkg, "(*TNC).runControlLoop"); fn != nil {
		// BUFFER messages reach updateBuffer with the parsed count: the call lies in the dispatch
		// goroutine's call tree, its argument is the value of a message m, and m.cmd == BUFFER holds at
		// the call (in its function, or at every call site of the helper it lives in)
		found := false
		for _, g := range dispatchTree {
			for _, ci := range allCalls(g) {
				if !strings.HasSuffix(callName(ci.Common()), ".tncConn.updateBuffer") || len(ci.Common().Args) < 2 {
					continue
				}
				if c.valueLifted(ci, ci.Common().Args[1], func(at ssa.Instruction, v ssa.Value) bool {
					m, ok := msgValueOf(v)
					return ok && c.guardLifted(at, m, cmdIs("BUFFER"), 0)
				}, 0) {
					found = true
				}
			}
		}
		r.Check("C14-flush", fnName(fn), "BUFFER events update the connection's buffer count", c.pos(fn.Pos()), found,
			"updateBuffer(msg.value.(int)) on the BUFFER arm of the dispatch goroutine", "BUFFER events from the TNC no longer reach updateBuffer")
	}

	// ---- C14-ptt
	r.Rule("C14-ptt", 1, "PTT requests are delivered synchronously and in order")
	nPTT := 0
	for _, fn := range c.SrcFuncs(pkg) {
		for _, ci := range allCalls(fn) {
			if !invokes(ci, "SetPTT") {
				continue
			}
			nPTT++
			_, plain := ci.(*ssa.Call)
			// run by the dispatch goroutine only: in one of its closures, or in a helper whose every
			// call site is a plain call from there
			inLoop := c.calledOnlyFrom(fn, inDispatch, map[*ssa.Function]bool{})
			// the argument is m.Bool() of a message m (possibly handed down through a parameter) ...
			isBool := func(_ ssa.Instruction, v ssa.Value) bool {
				call, ok := origin(v).(*ssa.Call)
				return ok && strings.HasSuffix(callName(&call.Call), ".ctrlMsg.Bool")
			}
			argOK := c.valueLifted(ci.(ssa.Instruction), ci.Common().Args[0], isBool, 0)
			// ... and m.cmd == PTT holds where it is taken
			arm := c.valueLifted(ci.(ssa.Instruction), ci.Common().Args[0], func(at ssa.Instruction, v ssa.Value) bool {
				if !isBool(at, v) {
					return false
				}
				m, ok := msgValueOf(v)
				return ok && c.guardLifted(at, m, cmdIs("PTT"), 0)
			}, 0)
			if !argOK {
				// not the message's boolean at all: the arm is judged on the call itself
				for _, cd := range condsAt(ci.Block()) {
					if bo, ok := cd.V.(*ssa.BinOp); ok && bo.Op == token.EQL && cd.Truth {
						if s, _ := constString(bo.Y); s == "PTT" {
							arm = true
						}
					}
				}
			}
			o := r.Add("C14-ptt", fnName(fn), "SetPTT", c.pos(ci.Pos()))
			switch {
			case !plain:
				o.Bad("SetPTT is started with go/defer: PTT on/off requests can overtake each other")
			case !inLoop || !arm:
				o.Bad("SetPTT is not called from the dispatch goroutine's PTT arm")
			case !argOK:
				o.Bad("SetPTT is not given the boolean of the PTT message")
			default:
				o.OK("plain call from the dispatch goroutine on the PTT arm with msg.Bool()")
			}
		}
	}
	if nPTT == 0 {
		r.Add("C14-ptt", "ardop", "SetPTT", pkg).Bad("PTT requests from the TNC never reach the PTT controller")
	}

	// ---- C14-close
	r.Rule("C14-close", 2, "Close disconnects")
	if fn := c.Func(pkg, "(*tncConn).Close"); fn == nil {
		r.Fail("C14-close", "anchor (*ardop.tncConn).Close not found")
	} else {
		var disc *ssa.Send
		eachInstr(fn, func(_ *ssa.BasicBlock, _ int, in ssa.Instruction) {
			if s, ok := in.(*ssa.Send); ok && strings.HasSuffix(pathOf(s.Chan), ".ctrlOut") {
				if k, _ := constString(unwrap2(s.X)); k == "DISCONNECT" && disc == nil {
					disc = s
				}
			}
		})
		for _, ret := range returnsOf(fn) {
			o := r.Add("C14-close", fnName(fn), "return", c.pos(ret.Pos()))
			nilRecv := false
			for _, cd := range condsAt(ret.Block()) {
				if bo, ok := cd.V.(*ssa.BinOp); ok && bo.Op == token.EQL && cd.Truth && isNilConst(bo.Y) && pathOf(bo.X) == "conn" {
					nilRecv = true
				}
			}
			switch {
			case nilRecv:
				o.OK("nil receiver: nothing to disconnect")
			case disc != nil && instrDominates(disc, ret):
				o.OK("dominated by the send of DISCONNECT on the control channel")
			default:
				o.Bad("Close can return without having sent DISCONNECT to the TNC: the link stays up")
			}
		}
	}

	// ---- C14-stream
	r.Rule("C14-stream", 2, "Read byte accounting")
	if fn := c.Func(pkg, "(*tncConn).Read"); fn == nil {
		r.Fail("C14-stream", "anchor (*ardop.tncConn).Read not found")
	} else {
		streamReadRule(c, r, fn, "C14-stream", ".unread")
	}
	// ARQ payloads reach the data channel
	if fn := c.Func(pkg, "(*TNC).runControlLoop"); fn != nil {
		// in the dispatch goroutine's call tree: a blocking select sends d.data on the data channel where
		// d.ARQFrame() holds (in the function of the select, or at every call site of the helper)
		found := false
		for _, g := range dispatchTree {
			eachInstr(g, func(_ *ssa.BasicBlock, _ int, i2 ssa.Instruction) {
				sel, ok := i2.(*ssa.Select)
				if !ok || !sel.Blocking {
					return
				}
				for _, stt := range sel.States {
					if stt.Dir != types.SendOnly || !strings.HasSuffix(pathOf(stt.Chan), ".dataIn") {
						continue
					}
					if c.valueLifted(sel, stt.Send, func(at ssa.Instruction, v ssa.Value) bool {
						p := derefPath(pathOf(origin(v)))
						return strings.HasSuffix(p, ".data") && c.guardLifted(at, strings.TrimSuffix(p, ".data"), methodHolds(".dFrame.ARQFrame"), 0)
					}, 0) {
						found = true
					}
				}
			})
		}
		r.Check("C14-stream", fnName(fn), "ARQ payloads are queued for Read with a blocking send", c.pos(fn.Pos()), found,
			"d.data is sent on dataIn under d.ARQFrame() with a blocking select", "ARQ payloads are no longer handed to the connection with a blocking send")
	}
	c14GateRule(c, r, pkg)
	r.NotCov = append(r.NotCov, "stream equality for all payload sequences", "timing of CRCFAULT retransmissions", "BUFFER/NEWSTATE/PTT interleavings", "unsynchronised TNC state fields (busy, state, connected, closed)")
}

func unwrap2(v ssa.Value) ssa.Value {
	for {
		switch x := v.(type) {
		case *ssa.MakeInterface:
			v = x.X
		case *ssa.ChangeInterface:
			v = x.X
		case *ssa.ChangeType:
			v = x.X
		case *ssa.Convert:
			if _, isC := x.X.(*ssa.Const); isC {
				v = x.X
				continue
			}
			return v
		default:
			return v
		}
	}
}
