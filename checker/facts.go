package main

// Length/range fact engine (DESIGN.md E1 step 2, A.3), implemented as a difference-bound prover.
//
// A query asks whether  A + ca <= B + cb  holds whenever a given instruction executes, where A and
// B are integer SSA values, lengths of string/slice SSA values, or the constant 0. Facts are
// difference constraints  x - y <= c  between nodes; they come from
//   - branch conditions whose edge dominates the instruction (condsAt), including conditions that
//     were materialised into a boolean phi (a && b stored in a variable),
//   - definitions (x = y + k, x = y & mask, slicing, make, append, conversions from narrow types),
//   - library post-conditions (table below), some conditional on a nil error known at the point,
//   - induction for loop counters phi(c0, phi+k),
//   - callers (parameters of unexported functions: the fact must hold at every call site),
//   - field invariants (slice fields only ever assigned non-empty values).
// Loads from memory are identified by access path and only trusted when no store to that path
// (or call that may modify it) lies between the load the fact was established on and the point of
// the query.

import (
	"fmt"
	"go/constant"
	"go/token"
	"go/types"
	"os"
	"strings"
	"unicode/utf8"

	"golang.org/x/tools/go/ssa"
)

const inf = int64(1) << 60

type term struct {
	node string // "" = the constant zero
	off  int64
}

type point struct {
	instr ssa.Instruction // facts are those holding just before instr executes
}

type factSet struct {
	idx map[string]int
	d   [][]int64
	neq [][3]int64 // i, j, c :  node_i - node_j != c
	sum [][3]term  // t, a, b :  t == a + b (interval reasoning only, see close)
}

func newFactSet() *factSet {
	f := &factSet{idx: map[string]int{}}
	f.node("")
	return f
}

func (f *factSet) node(name string) int {
	if i, ok := f.idx[name]; ok {
		return i
	}
	i := len(f.d)
	f.idx[name] = i
	for k := range f.d {
		f.d[k] = append(f.d[k], inf)
	}
	row := make([]int64, i+1)
	for k := range row {
		row[k] = inf
	}
	row[i] = 0
	f.d = append(f.d, row)
	return i
}

// addLE records  a - b <= c  over terms.
func (f *factSet) addLE(a, b term, c int64) {
	i, j := f.node(a.node), f.node(b.node)
	c = c + b.off - a.off

	if i == j {
		return
	}
	if c < f.d[i][j] {
		f.d[i][j] = c
	}
}

func (f *factSet) addEQ(a, b term, c int64) { // a - b == c
	f.addLE(a, b, c)
	f.addLE(b, a, -c)
}

func (f *factSet) addNE(a, b term, c int64) {
	i, j := f.node(a.node), f.node(b.node)
	f.neq = append(f.neq, [3]int64{int64(i), int64(j), c + b.off - a.off})
}

// addSum records t == a + b. A difference-bound matrix cannot hold a relation between three
// variables: close() derives constant bounds on t from the constant bounds of a and b.
func (f *factSet) addSum(t, a, b term) {
	f.node(t.node)
	f.node(a.node)
	f.node(b.node)
	f.sum = append(f.sum, [3]term{t, a, b})
}

// bounds: constant bounds of a term, when both are known.
func (f *factSet) bounds(t term) (lo, hi int64, ok bool) {
	if t.node == "" {
		return t.off, t.off, true
	}
	i, z := f.idx[t.node], f.idx[""]
	if f.d[i][z] >= inf || f.d[z][i] >= inf {
		return 0, 0, false
	}
	return -f.d[z][i] + t.off, f.d[i][z] + t.off, true
}

func (f *factSet) close() {
	f.close1()
	for round := 0; round < 3 && len(f.sum) > 0; round++ {
		changed := false
		for _, s := range f.sum {
			alo, ahi, okA := f.bounds(s[1])
			blo, bhi, okB := f.bounds(s[2])
			const lim = 1 << 30 // no wrap-around in any integer type of 32 bits or more
			if !okA || !okB || alo < -lim || blo < -lim || ahi > lim || bhi > lim {
				continue
			}
			i, z := f.idx[s[0].node], f.idx[""]
			if i == z {
				continue
			}
			if hi := ahi + bhi - s[0].off; hi < f.d[i][z] {
				f.d[i][z] = hi
				changed = true
			}
			if lo := alo + blo - s[0].off; -lo < f.d[z][i] {
				f.d[z][i] = -lo
				changed = true
			}
		}
		if !changed {
			break
		}
		f.close1()
	}
}

func (f *factSet) close1() {
	n := len(f.d)
	for round := 0; round < 4; round++ {
		for k := 0; k < n; k++ {
			for i := 0; i < n; i++ {
				if f.d[i][k] >= inf {
					continue
				}
				for j := 0; j < n; j++ {
					if f.d[k][j] >= inf {
						continue
					}
					if s := f.d[i][k] + f.d[k][j]; s < f.d[i][j] {
						f.d[i][j] = s
					}
				}
			}
		}
		changed := false
		for _, ne := range f.neq {
			i, j, c := int(ne[0]), int(ne[1]), ne[2]
			if i == j {
				continue
			}
			// i - j <= c and i - j != c  =>  i - j <= c-1
			if f.d[i][j] == c {
				f.d[i][j] = c - 1
				changed = true
			}
			// i - j >= c (j - i <= -c) and != c => j - i <= -c-1
			if f.d[j][i] == -c {
				f.d[j][i] = -c - 1
				changed = true
			}
		}
		if !changed {
			break
		}
	}
}

// inconsistent reports whether the constraints are unsatisfiable (the program point is unreachable).
func (f *factSet) inconsistent() bool {
	for i := range f.d {
		if f.d[i][i] < 0 {
			return true
		}
	}
	return false
}

// le: a - b <= c provable?
func (f *factSet) le(a, b term, c int64) bool {
	i, okA := f.idx[a.node]
	j, okB := f.idx[b.node]
	if !okA || !okB {
		return false
	}
	c = c + b.off - a.off
	if i == j {
		return 0 <= c
	}
	return f.d[i][j] <= c
}

// ---------------------------------------------------------------------------------------------

type prover struct {
	c      *Ctx
	depth  int
	assume []string // assumptions used (reported in evidence)
	trace  []string
}

func newProver(c *Ctx) *prover { return &prover{c: c} }

func (p *prover) note(format string, a ...interface{}) {
	if len(p.trace) < 40 {
		p.trace = append(p.trace, fmt.Sprintf(format, a...))
	}
}

// ---- value naming ---------------------------------------------------------------------------

func isIntType(t types.Type) bool {
	b, ok := t.Underlying().(*types.Basic)
	return ok && b.Info()&types.IsInteger != 0
}

func intRange(t types.Type) (lo, hi int64, ok bool) {
	b, isB := t.Underlying().(*types.Basic)
	if !isB {
		return 0, 0, false
	}
	switch b.Kind() {
	case types.Uint8:
		return 0, 255, true
	case types.Uint16:
		return 0, 65535, true
	case types.Uint32:
		return 0, 1<<32 - 1, true
	case types.Uint, types.Uint64, types.Uintptr:
		return 0, inf, true
	case types.Int8:
		return -128, 127, true
	case types.Int16:
		return -32768, 32767, true
	case types.Int32:
		return -(1 << 31), 1<<31 - 1, true
	}
	return -inf, inf, true
}

// wideInt: an integer type of at least 32 bits.
func wideInt(t types.Type) bool {
	b, isB := t.Underlying().(*types.Basic)
	if !isB {
		return false
	}
	switch b.Kind() {
	case types.Int, types.Int32, types.Int64, types.Uint, types.Uint32, types.Uint64, types.Uintptr, types.UntypedInt:
		return true
	}
	return false
}

// valuePreserving: converting from s to d never changes the mathematical value.
func valuePreserving(s, d types.Type) bool {
	if !isIntType(s) || !isIntType(d) {
		return false
	}
	sl, sh, _ := intRange(s)
	dl, dh, _ := intRange(d)
	// int/int64 are treated as the same 64-bit range; 32-bit int is covered by running linux/386
	return dl <= sl && sh <= dh
}

func isStringLike(t types.Type) bool {
	switch u := t.Underlying().(type) {
	case *types.Basic:
		return u.Info()&types.IsString != 0
	case *types.Slice:
		return true
	}
	return false
}

func isByteSliceOrString(t types.Type) bool {
	switch u := t.Underlying().(type) {
	case *types.Basic:
		return u.Info()&types.IsString != 0
	case *types.Slice:
		b, ok := u.Elem().Underlying().(*types.Basic)
		return ok && b.Kind() == types.Uint8
	}
	return false
}

// strip removes conversions that preserve the value (ints) or the length (string<->[]byte).
func strip(v ssa.Value) ssa.Value {
	for {
		switch x := v.(type) {
		case *ssa.Convert:
			if valuePreserving(x.X.Type(), x.Type()) || (isByteSliceOrString(x.X.Type()) && isByteSliceOrString(x.Type())) {
				v = x.X
				continue
			}
		case *ssa.ChangeType:
			v = x.X
			continue
		}
		return v
	}
}

// killsBetween reports whether memory at path may be modified on some path between instruction a
// (where a fact about a load was established) and instruction q (the query point).
func (p *prover) killsBetween(path string, a, q ssa.Instruction) bool {
	fn := q.Parent()
	if a.Parent() != fn {
		return true
	}
	killed := false
	eachInstr(fn, func(_ *ssa.BasicBlock, _ int, m ssa.Instruction) {
		if killed || !p.mayKill(m, path) {
			return
		}
		if m == a || m == q {
			return
		}
		if instrReaches(a, m) && reachesWithoutRedoing(m, q, a) {
			killed = true
		}
	})
	return killed
}

func pathOverlaps(store, path string) bool {
	store, path = derefPath(store), derefPath(path)
	if store == path {
		return true
	}
	return strings.HasPrefix(path, store+".") || strings.HasPrefix(path, store+"[") ||
		strings.HasPrefix(store, path+".") || strings.HasPrefix(store, path+"[") ||
		(strings.Contains(store, "[") && strings.Contains(path, "[") && store[:strings.Index(store, "[")] == path[:strings.Index(path, "[")])
}

// mayKill: instruction m may modify the memory denoted by path.
func (p *prover) mayKill(m ssa.Instruction, path string) bool {
	switch x := m.(type) {
	case *ssa.Store:
		return pathOverlaps(pathOf(x.Addr), path)
	case *ssa.MapUpdate:
		return pathOverlaps(pathOf(x.Map), path)
	case ssa.CallInstruction:
		call := x.Common()
		if _, isB := call.Value.(*ssa.Builtin); isB {
			name := call.Value.(*ssa.Builtin).Name()
			if name == "copy" || name == "clear" {
				return pathOverlaps(pathOf(call.Args[0]), path)
			}
			return false // len, cap, append (returns a new header), delete handled as map: conservative below
		}
		if p.h2ClosureKills(call, path) {
			return true // ip_h2.go: a local closure modifies what it captured without being handed it
		}
		// arguments that hand out the container or its address
		for _, a := range callArgs(call) {
			ap := pathOf(a)
			if _, isPtrOrSlice := a.Type().Underlying().(*types.Pointer); isPtrOrSlice || isSliceType(a.Type()) {
				d := derefPath(ap)
				pp := derefPath(path)
				if d == pp || strings.HasPrefix(pp, d+".") || strings.HasPrefix(pp, d+"[") {
					// a receiver/pointer to an enclosing object: consult mod-ref for module callees
					if callee := call.StaticCallee(); callee != nil && p.c.inModule(callee) {
						if p.c.modifiesField(callee, lastField(path)) {
							return true
						}
						continue
					}
					if isSliceType(a.Type()) && (d == pp || strings.HasPrefix(pp, d+"[")) {
						return !pureSliceArg[callName(call)]
					}
					if d == pp {
						return true
					}
					// pointer to an enclosing struct handed to code outside the module or to a
					// dynamic callee: methods of the standard library on their own receiver only
					// touch their own fields; fields of module structs are not reachable from them
					// unless exported — accepted (listed as assumption).
				}
			}
		}
	}
	return false
}

// calls that only read the slice they are given
var pureSliceArg = map[string]bool{
	"bytes.HasPrefix": true, "bytes.IndexByte": true, "bytes.NewBuffer": true, "bytes.NewReader": true, "bytes.Equal": true,
	"encoding/binary.bigEndian.Uint16": true, "encoding/binary.littleEndian.Uint32": true, "encoding/binary.littleEndian.Uint16": true,
	"transport/ardop.crc16Sum": true, "strings.Join": true, "bufio.Writer.Write": true, "bytes.Buffer.Write": true,
}

func isSliceType(t types.Type) bool { _, ok := t.Underlying().(*types.Slice); return ok }

func lastField(path string) string {
	path = derefPath(path)
	if i := strings.LastIndex(path, "."); i >= 0 {
		f := path[i+1:]
		if j := strings.IndexAny(f, "[("); j >= 0 {
			f = f[:j]
		}
		return f
	}
	return ""
}

// keyAt names value v for a query at instruction q: loads (and pure expressions over loads) are
// named by access path when still valid at q, everything else by its SSA register.
func (p *prover) keyAt(v ssa.Value, q ssa.Instruction) string {
	v = strip(v)
	switch x := v.(type) {
	case *ssa.Parameter:
		return x.Name()
	case *ssa.Const:
		return "const:" + pathOf(x)
	case *ssa.UnOp:
		if x.Op == token.MUL {
			path := pathOf(x)
			if q != nil && x.Parent() == q.Parent() && !p.killsBetween(path, x, q) {
				return "mem:" + path
			}
			return x.Parent().Name() + "." + x.Name()
		}
	case *ssa.Field:
		return p.keyAt(x.X, q) + "." + fieldName(x.X.Type(), x.Field)
	case *ssa.BinOp:
		return "(" + p.keyAt(x.X, q) + x.Op.String() + p.keyAt(x.Y, q) + ")"
	case *ssa.Call:
		if b, ok := x.Call.Value.(*ssa.Builtin); ok && (b.Name() == "len" || b.Name() == "cap") {
			return "len:" + p.keyAt(x.Call.Args[0], q)
		}
		// read-only method of an object (bytes.Buffer.Len ...): the same value as another call on
		// the same receiver as long as no mutating method of that receiver runs in between
		if name := callName(&x.Call); readOnlyMethods[name] && len(x.Call.Args) == 1 && q != nil && x.Parent() == q.Parent() {
			recv := pathOf(x.Call.Args[0])
			mutated := false
			eachInstr(x.Parent(), func(_ *ssa.BasicBlock, _ int, m ssa.Instruction) {
				ci, ok := m.(ssa.CallInstruction)
				if ok && !mutated && h2ClosureTouches(ci, recv) && instrReaches(x, m) && reachesWithoutRedoing(m, q, x) {
					mutated = true // ip_h2.go: a local closure that calls a mutating method of the receiver
				}
				if !ok || mutated || m == ssa.Instruction(x) || len(ci.Common().Args) == 0 || ci.Common().IsInvoke() {
					return
				}
				if pathOf(ci.Common().Args[0]) != recv || readOnlyMethods[callName(ci.Common())] {
					return
				}
				if instrReaches(x, m) && reachesWithoutRedoing(m, q, x) {
					mutated = true
				}
			})
			if !mutated {
				return "pure:" + name + "(" + recv + ")"
			}
		}
	case *ssa.Global:
		return "global:" + pathOf(x)
	}
	if in, ok := v.(ssa.Instruction); ok && in.Parent() != nil {
		return in.Parent().Name() + "." + v.Name()
	}
	return v.Name()
}

// intTerm renders an integer value as node+offset.
func (p *prover) intTerm(v ssa.Value, q ssa.Instruction) term {
	v = strip(v)
	if n, ok := constInt(v); ok {
		return term{"", n}
	}
	if b, ok := v.(*ssa.BinOp); ok {
		if k, isC := constInt(b.Y); isC && (b.Op == token.ADD || b.Op == token.SUB) {
			t := p.intTerm(b.X, q)
			if b.Op == token.ADD {
				t.off += k
			} else {
				t.off -= k
			}
			return t
		}
		if k, isC := constInt(b.X); isC && b.Op == token.ADD {
			t := p.intTerm(b.Y, q)
			t.off += k
			return t
		}
	}
	if c, ok := v.(*ssa.Call); ok {
		if b, isB := c.Call.Value.(*ssa.Builtin); isB && (b.Name() == "len" || b.Name() == "cap") {
			return p.lenTerm(c.Call.Args[0], q)
		}
	}
	return term{"int:" + p.keyAt(v, q), 0}
}

// lenTerm renders len(v) as node+offset.
func (p *prover) lenTerm(v ssa.Value, q ssa.Instruction) term {
	v = strip(v)
	if s, ok := constString(v); ok {
		return term{"", int64(len(s))}
	}
	// pointer to array / array
	t := v.Type()
	if pt, ok := t.Underlying().(*types.Pointer); ok {
		t = pt.Elem()
	}
	if a, ok := t.Underlying().(*types.Array); ok {
		return term{"", a.Len()}
	}
	return term{"len:" + p.keyAt(v, q), 0}
}

// ---- fact collection -------------------------------------------------------------------------

type collector struct {
	p       *prover
	f       *factSet
	q       ssa.Instruction
	seen    map[ssa.Value]bool
	seenLen map[ssa.Value]bool
	nilErr  map[ssa.Value]bool // tuple-returning calls whose error result is known nil at q
	budget  int
}

// origin follows a load of a local variable that lives in memory (captured or address-taken
// named result) back to the value stored, when that store is the unique reaching definition
// found by walking backwards through single-predecessor blocks.
func origin(v ssa.Value) ssa.Value {
	for i := 0; i < 4; i++ {
		u, ok := v.(*ssa.UnOp)
		if !ok || u.Op != token.MUL {
			return v
		}
		al, ok := u.X.(*ssa.Alloc)
		if !ok {
			return v
		}
		def := reachingStore(u, al)
		if def == nil {
			return v
		}
		v = def.Val
	}
	return v
}

func reachingStore(load *ssa.UnOp, al *ssa.Alloc) *ssa.Store {
	b := load.Block()
	idx := instrIndex(load)
	for hops := 0; hops < 8; hops++ {
		for i := idx - 1; i >= 0; i-- {
			switch x := b.Instrs[i].(type) {
			case *ssa.Store:
				if x.Addr == al {
					return x
				}
			}
		}
		if len(b.Preds) != 1 {
			return nil
		}
		b = b.Preds[0]
		idx = len(b.Instrs)
	}
	return nil
}

func (cl *collector) addCond(v ssa.Value, truth bool, depth int) {
	if depth > 6 {
		return
	}
	p, f, q := cl.p, cl.f, cl.q
	v = origin(v)
	switch x := v.(type) {
	case *ssa.UnOp:
		if x.Op == token.NOT {
			cl.addCond(x.X, !truth, depth+1)
		}
	case *ssa.Phi:
		// boolean materialised from && / ||: phi [const from short-circuit edges, X from the last]
		if b, ok := x.Type().Underlying().(*types.Basic); !ok || b.Kind() != types.Bool {
			return
		}
		var live []int
		for i, e := range x.Edges {
			if c, isC := e.(*ssa.Const); isC && c.Value != nil && c.Value.Kind() == constant.Bool {
				if constant.BoolVal(c.Value) == truth {
					live = append(live, i)
				}
				continue
			}
			live = append(live, i)
		}
		if len(live) == 1 {
			i := live[0]
			pred := x.Block().Preds[i]
			for _, c := range condsAt(pred) {
				cl.addCond(c.V, c.Truth, depth+1)
			}
			// conditions holding on the edge pred->phi block itself
			if ifi, ok := pred.Instrs[len(pred.Instrs)-1].(*ssa.If); ok && pred.Succs[0] != pred.Succs[1] {
				cl.addCond(ifi.Cond, pred.Succs[0] == x.Block(), depth+1)
			}
			if _, isC := x.Edges[i].(*ssa.Const); !isC {
				cl.addCond(x.Edges[i], truth, depth+1)
			}
		}
	case *ssa.BinOp:
		op := x.Op
		if !truth {
			switch op {
			case token.LSS:
				op = token.GEQ
			case token.LEQ:
				op = token.GTR
			case token.GTR:
				op = token.LEQ
			case token.GEQ:
				op = token.LSS
			case token.EQL:
				op = token.NEQ
			case token.NEQ:
				op = token.EQL
			default:
				return
			}
		}
		xt, yt := x.X.Type(), x.Y.Type()
		switch {
		case isIntType(xt) && isIntType(yt):
			a, b := p.intTerm(x.X, q), p.intTerm(x.Y, q)
			cl.define(x.X, depth+1)
			cl.define(x.Y, depth+1)
			switch op {
			case token.LSS:
				f.addLE(a, b, -1)
			case token.LEQ:
				f.addLE(a, b, 0)
			case token.GTR:
				f.addLE(b, a, -1)
			case token.GEQ:
				f.addLE(b, a, 0)
			case token.EQL:
				f.addEQ(a, b, 0)
			case token.NEQ:
				f.addNE(a, b, 0)
			}
		case isStringLike(xt) && (op == token.EQL || op == token.NEQ):
			// comparison with a constant string
			var other ssa.Value
			var s string
			if cs, ok := constString(x.Y); ok {
				other, s = x.X, cs
			} else if cs, ok := constString(x.X); ok {
				other, s = x.Y, cs
			} else {
				return
			}
			lt := p.lenTerm(other, q)
			cl.defineLen(other, depth+1)
			if op == token.EQL {
				f.addEQ(lt, term{}, int64(len(s)))
			} else if s == "" {
				f.addLE(term{}, lt, -1) // len >= 1
			}
		default:
			// err == nil / err != nil
			if isNilConst(x.Y) || isNilConst(x.X) {
				other := x.X
				if isNilConst(x.X) {
					other = x.Y
				}
				other = origin(other)
				if ex, ok := other.(*ssa.Extract); ok && op == token.EQL {
					if call, isCall := ex.Tuple.(*ssa.Call); isCall {
						cl.nilErr[call] = true
					}
				}
				if call, ok := other.(*ssa.Call); ok && op == token.EQL {
					cl.nilErr[call] = true
				}
			}
		}
	case *ssa.Call:
		if !truth {
			return
		}
		name := callName(&x.Call)
		switch name {
		case "strings.HasPrefix", "strings.HasSuffix", "strings.Contains", "bytes.HasPrefix", "bytes.HasSuffix", "bytes.Contains":
			s, ok := constString(x.Call.Args[1])
			if !ok {
				if sl, isConv := strip(x.Call.Args[1]).(*ssa.Convert); isConv {
					s, ok = constString(sl.X)
				}
			}
			if !ok {
				return
			}
			subj := strip(x.Call.Args[0])
			n := int64(len(s))
			// HasPrefix(ToLower(x), s): case mapping is rune to rune, so x has at least as many
			// runes, hence bytes, as s has runes.
			if inner, isCall := subj.(*ssa.Call); isCall {
				switch callName(&inner.Call) {
				case "strings.ToLower", "strings.ToUpper":
					subj = strip(inner.Call.Args[0])
					n = int64(utf8.RuneCountInString(s))
				}
			}
			cl.defineLen(subj, depth+1)
			f.addLE(term{"", n}, p.lenTerm(subj, q), 0)
		}
	}
}

// define adds definitional facts for integer value v.
func (cl *collector) define(v ssa.Value, depth int) {
	v = strip(v)
	if cl.seen[v] || depth > 10 || cl.budget <= 0 {
		return
	}
	cl.seen[v] = true
	cl.budget--
	p, f, q := cl.p, cl.f, cl.q
	t := p.intTerm(v, q)
	if lo, hi, ok := intRange(v.Type()); ok && t.node != "" {
		if lo > -inf {
			f.addLE(term{"", lo}, t, 0)
		}
		if hi < inf {
			f.addLE(t, term{"", hi}, 0)
		}
	}
	switch x := v.(type) {
	case *ssa.Convert:
		// a conversion that is not value-preserving by type still preserves a value that
		// provably fits the destination type
		cl.define(x.X, depth+1)
		if isIntType(x.X.Type()) && depth < 6 {
			sub := &collector{p: p, f: newFactSet(), q: q, seen: map[ssa.Value]bool{}, seenLen: map[ssa.Value]bool{}, nilErr: cl.nilErr, budget: 60}
			sub.define(x.X, depth+1)
			sub.f.close()
			xt := p.intTerm(x.X, q)
			dlo, dhi, _ := intRange(x.Type())
			if sub.f.le(term{"", dlo}, xt, 0) && (dhi >= inf || sub.f.le(xt, term{"", dhi}, 0)) {
				f.addEQ(t, xt, 0)
			}
		}
	case *ssa.BinOp:
		cl.define(x.X, depth+1)
		cl.define(x.Y, depth+1)
		switch x.Op {
		case token.AND:
			for _, side := range []ssa.Value{x.X, x.Y} {
				if k, ok := constInt(side); ok && k >= 0 {
					f.addLE(t, term{"", k}, 0)
					f.addLE(term{}, t, 0)
				}
			}
		case token.REM:
			if k, ok := constInt(x.Y); ok && k > 0 {
				f.addLE(t, term{"", k - 1}, 0)
				f.addLE(term{"", -(k - 1)}, t, 0)
			}
		case token.SHR:
			// x >> k of a non-negative value stays non-negative and does not grow
			f.addLE(t, p.intTerm(x.X, q), 0)
		case token.ADD:
			// sum of two values: x + y with y >= 0 known later through closure: add both one-sided
			// relations when the other operand has a constant lower bound of zero by type.
			if lo, _, ok := intRange(x.Y.Type()); ok && lo >= 0 {
				f.addLE(p.intTerm(x.X, q), t, 0)
			}
			if lo, _, ok := intRange(x.X.Type()); ok && lo >= 0 {
				f.addLE(p.intTerm(x.Y, q), t, 0)
			}
			if _, isC := constInt(x.X); !isC {
				if _, isC := constInt(x.Y); !isC && t.node != "" {
					if wideInt(x.Type()) {
						f.addSum(t, p.intTerm(x.X, q), p.intTerm(x.Y, q))
					}
				}
			}
		case token.SUB:
			// handled by intTerm when the subtrahend is constant; x - y with y>=0 by type
			if lo, _, ok := intRange(x.Y.Type()); ok && lo >= 0 {
				f.addLE(t, p.intTerm(x.X, q), 0)
			}
			if x.Y.Type() != nil {
				if c, ok := strip(x.Y).(*ssa.Call); ok {
					if b, isB := c.Call.Value.(*ssa.Builtin); isB && b.Name() == "len" {
						f.addLE(t, p.intTerm(x.X, q), 0)
					}
				}
			}
			// x - y of two variables: 0 <= y gives t <= x, y <= x gives 0 <= t (facts that follow
			// from the definitions of x and y alone)
			if _, isC := constInt(x.Y); !isC && depth < 6 && wideInt(x.Type()) {
				sub := &collector{p: p, f: newFactSet(), q: q, seen: map[ssa.Value]bool{}, seenLen: map[ssa.Value]bool{}, nilErr: cl.nilErr, budget: 60}
				sub.define(x.X, depth+1)
				sub.define(x.Y, depth+1)
				sub.f.close()
				xt, yt := p.intTerm(x.X, q), p.intTerm(x.Y, q)
				if !sub.f.inconsistent() {
					if sub.f.le(term{}, yt, 0) {
						f.addLE(t, xt, 0)
					}
					if sub.f.le(yt, xt, 0) {
						f.addLE(term{}, t, 0)
					}
				}
			}
		}
	case *ssa.Call:
		name := callName(&x.Call)
		args := x.Call.Args
		switch {
		case name == "builtin.len" || name == "builtin.cap":
			cl.defineLen(args[0], depth+1)
		case name == "builtin.copy":
			f.addLE(term{}, t, 0)
			f.addLE(t, p.lenTerm(args[0], q), 0)
			f.addLE(t, p.lenTerm(args[1], q), 0)
			cl.defineLen(args[0], depth+1)
			cl.defineLen(args[1], depth+1)
		case name == "builtin.min":
			for _, a := range args {
				f.addLE(t, p.intTerm(a, q), 0)
				cl.define(a, depth+1)
			}
			cl.minLower(x, t) // ip_g1.go: constant lower bound proved where the min is computed
		case name == "builtin.max":
			for _, a := range args {
				f.addLE(p.intTerm(a, q), t, 0)
				cl.define(a, depth+1)
			}
		case indexFuncs[name]:
			f.addLE(term{"", -1}, t, 0)
			lt := p.lenTerm(args[0], q)
			f.addLE(t, lt, -1)
			cl.defineLen(args[0], depth+1)
		case (name == "lzhuf.bitReader.ReadBits" || name == "lzhuf.bitReader.ReadBits64") && p.c.readBitsMasked():
			// result is 0 or x & ((1<<bits)-1): structural check in readBitsMasked (rule C08-sticky)
			if k, ok := constInt(args[1]); ok && k >= 0 && k < 62 {
				f.addLE(term{}, t, 0)
				f.addLE(t, term{"", int64(1)<<uint(k) - 1}, 0)
			}
		case name == "bytes.Buffer.Len" || name == "bufio.Reader.Buffered" || name == "strings.Count" || name == "unicode/utf8.RuneCountInString":
			f.addLE(term{}, t, 0)
		default:
			if callee := x.Call.StaticCallee(); callee != nil && p.c.inModule(callee) {
				cl.calleeResult(x, callee, -1, depth)
				cl.g7CallFacts(x, x, 0, t, depth) // ip_g7.go: result >= argument for helpers that only add to a parameter
			}
		}
	case *ssa.Parameter:
		cl.g7ParamLower(x, t)     // ip_g7.go: 0 <= parameter when that holds at every call site
		cl.h1SortIndexParam(x, t) // ip_h1r3.go: index parameters of the less function of sort.Slice/SliceStable
	case *ssa.Extract:
		if call, ok := x.Tuple.(*ssa.Call); ok {
			cl.g7CallFacts(x, call, x.Index, t, depth)
			name := callName(&call.Call)
			// io.Reader contract: 0 <= n <= len(p)
			if x.Index == 0 && (strings.HasSuffix(name, ".Read") || name == "io.ReadFull" || name == "io.ReadAtLeast") && isIntType(x.Type()) {
				buf := call.Call.Args[len(call.Call.Args)-1]
				if name == "io.ReadFull" {
					buf = call.Call.Args[1]
				}
				if name == "io.ReadAtLeast" {
					buf = call.Call.Args[1]
				}
				if isSliceType(buf.Type()) {
					f.addLE(term{}, t, 0)
					f.addLE(t, p.lenTerm(buf, q), 0)
				}
			}
			// unicode/utf8 decoders: 0 <= size <= min(4, len(s))
			switch name {
			case "unicode/utf8.DecodeRune", "unicode/utf8.DecodeRuneInString", "unicode/utf8.DecodeLastRune", "unicode/utf8.DecodeLastRuneInString":
				if x.Index == 1 {
					f.addLE(term{}, t, 0)
					f.addLE(t, term{"", 4}, 0)
					f.addLE(t, p.lenTerm(call.Call.Args[0], q), 0)
					cl.defineLen(call.Call.Args[0], depth+1)
				}
			}
		}
	case *ssa.Phi:
		cl.inductive(x, depth)
	case *ssa.UnOp:
		if x.Op == token.MUL {
			// local variable in memory: follow the unique reaching store
			if o := origin(x); o != x {
				cl.define(o, depth+1)
				f.addEQ(t, p.intTerm(o, q), 0)
			}
			cl.h2VarLower(x, t) // ip_h2.go: 0 <= a private variable whose every store keeps it non-negative
		}
	}
}

var indexFuncs = map[string]bool{
	"strings.Index": true, "strings.IndexByte": true, "strings.IndexAny": true, "strings.IndexRune": true, "strings.IndexFunc": true,
	"strings.LastIndex": true, "strings.LastIndexByte": true, "strings.LastIndexAny": true, "strings.LastIndexFunc": true,
	"bytes.Index": true, "bytes.IndexByte": true, "bytes.IndexAny": true, "bytes.IndexRune": true, "bytes.IndexFunc": true,
	"bytes.LastIndex": true, "bytes.LastIndexByte": true, "bytes.LastIndexAny": true,
}

// phiLowerBounds computes, for every integer phi of fn, a constant lower bound by an optimistic
// fixpoint over the web of phis: lo(phi) = min over incoming edges, where an edge is a constant,
// another phi plus a constant, a value that is non-negative by construction (length, read count,
// unsigned type), or unknown (-inf).
func phiLowerBounds(fn *ssa.Function) map[*ssa.Phi]int64 {
	if m, ok := phiLoCache[fn]; ok {
		return m
	}
	lo := map[*ssa.Phi]int64{}
	var phis []*ssa.Phi
	eachInstr(fn, func(_ *ssa.BasicBlock, _ int, in ssa.Instruction) {
		if ph, ok := in.(*ssa.Phi); ok && isIntType(ph.Type()) {
			lo[ph] = inf
			phis = append(phis, ph)
		}
	})
	var edgeLo func(v ssa.Value, depth int) int64
	edgeLo = func(v ssa.Value, depth int) int64 {
		v = strip(v)
		if depth > 8 {
			return -inf
		}
		if n, ok := constInt(v); ok {
			return n
		}
		if l, _, ok := intRange(v.Type()); ok && l >= 0 {
			return 0
		}
		switch x := v.(type) {
		case *ssa.Phi:
			if l, ok := lo[x]; ok {
				return l
			}
		case *ssa.BinOp:
			if k, isC := constInt(x.Y); isC && (x.Op == token.ADD || x.Op == token.SUB) {
				b := edgeLo(x.X, depth+1)
				if b <= -inf || b >= inf {
					return b
				}
				if x.Op == token.ADD {
					return b + k
				}
				return b - k
			}
			if x.Op == token.AND {
				if k, isC := constInt(x.Y); isC && k >= 0 {
					return 0
				}
			}
			if k, isC := constInt(x.Y); isC && k > 0 && x.Op == token.REM {
				// x % k takes the sign of x (H2: a cursor that wraps with % N instead of & (N-1))
				switch b := edgeLo(x.X, depth+1); {
				case b >= inf:
					return inf
				case b >= 0:
					return 0
				}
				return -(k - 1)
			}
			if x.Op == token.ADD {
				// sum of two values that are both bounded below by a non-negative constant: a
				// running total `n += m` of counts (read count, copy count, length). inf = "not
				// known yet" keeps the fixpoint optimistic, exactly as for phi + k above.
				a, b := edgeLo(x.X, depth+1), edgeLo(x.Y, depth+1)
				switch {
				case a <= -inf || b <= -inf || a < 0 || b < 0:
					return -inf
				case a >= inf || b >= inf:
					return inf
				case a+b < inf:
					return a + b
				}
				return a
			}
		case *ssa.Call:
			switch callName(&x.Call) {
			case "builtin.len", "builtin.cap", "builtin.copy", "bytes.Buffer.Len":
				return 0
			}
		case *ssa.Extract:
			if call, ok := x.Tuple.(*ssa.Call); ok && x.Index == 0 && strings.HasSuffix(callName(&call.Call), ".Read") {
				return 0
			}
		}
		if a := g7GrowsFrom(v); a != nil {
			return edgeLo(a, depth+1) // ip_g7.go: result of a helper that only adds to the argument a
		}
		return -inf
	}
	for round := 0; round < 60; round++ {
		changed := false
		for _, ph := range phis {
			m := inf
			for _, e := range ph.Edges {
				if l := edgeLo(e, 0); l < m {
					m = l
				}
			}
			if round > 30 && m < lo[ph] {
				m = -inf // still descending: no constant bound
			}
			if m != lo[ph] {
				lo[ph] = m
				changed = true
			}
		}
		if !changed {
			break
		}
	}
	phiLoCache[fn] = lo
	return lo
}

var phiLoCache = map[*ssa.Function]map[*ssa.Phi]int64{}

// inductive handles phi(c0..., phi + k): a counter that only grows keeps its initial lower bound
// (and dually); other edges contribute relations proven at their predecessor.
func (cl *collector) inductive(x *ssa.Phi, depth int) {
	p, f, q := cl.p, cl.f, cl.q
	t := p.intTerm(x, q)
	if l, ok := phiLowerBounds(x.Parent())[x]; ok && l > -inf && l < inf {
		f.addLE(term{"", l}, t, 0)
	}
	cl.g7PhiRoot(x, t, depth) // ip_g7.go: a web of phis and non-negative steps over one start value
	cl.h1PhiBounds(x, t)      // ip_h1.go: interval fixpoint over the phis of the function (toggles, reflections)
	// counter started from one value e0 and only stepped in one direction: bounded by e0
	{
		var start ssa.Value
		single, up, down := true, false, false
		for _, e := range x.Edges {
			e = strip(e)
			if b, ok := e.(*ssa.BinOp); ok && (b.Op == token.ADD || b.Op == token.SUB) {
				if k, isC := constInt(b.Y); isC && strip(b.X) == ssa.Value(x) {
					if b.Op == token.SUB {
						k = -k
					}
					if k > 0 {
						up = true
					}
					if k < 0 {
						down = true
					}
					continue
				}
			}
			if start == nil {
				start = e
			} else if start != e {
				single = false
			}
		}
		if single && start != nil && !(up && down) && depth < 6 {
			if _, isC := constInt(start); !isC {
				st := p.intTerm(start, q)
				cl.define(start, depth+1)
				if !up {
					f.addLE(t, st, 0)
				}
				if !down {
					f.addLE(st, t, 0)
				}
			}
		}
	}
	lo, hi := inf, -inf
	loOK, hiOK := true, true
	for _, e := range x.Edges {
		e = strip(e)
		if n, ok := constInt(e); ok {
			if n < lo {
				lo = n
			}
			if n > hi {
				hi = n
			}
			continue
		}
		if b, ok := e.(*ssa.BinOp); ok && (b.Op == token.ADD || b.Op == token.SUB) {
			if k, isC := constInt(b.Y); isC && strip(b.X) == ssa.Value(x) {
				if b.Op == token.SUB {
					k = -k
				}
				if k < 0 {
					loOK = false
				}
				if k > 0 {
					hiOK = false
				}
				continue
			}
		}
		// another value: try its type range / simple definitional bounds through a sub-collector
		sub := &collector{p: p, f: newFactSet(), q: q, seen: map[ssa.Value]bool{x: true}, seenLen: map[ssa.Value]bool{}, nilErr: cl.nilErr, budget: 40}
		sub.define(e, depth+1)
		sub.f.close()
		et := p.intTerm(e, q)
		found := false
		for _, cand := range []int64{0, 1, -1} {
			if sub.f.le(term{"", cand}, et, 0) {
				if cand < lo {
					lo = cand
				}
				found = true
				break
			}
		}
		if !found {
			loOK = false
		}
		hiOK = false
	}
	if loOK && lo < inf {
		f.addLE(term{"", lo}, t, 0)
	}
	if hiOK && hi > -inf {
		f.addLE(t, term{"", hi}, 0)
	}
}

// defineLen adds facts about len(v) for string/slice value v.
func (cl *collector) defineLen(v ssa.Value, depth int) {
	v = strip(v)
	if depth > 10 || cl.budget <= 0 || cl.seenLen[v] {
		return
	}
	cl.seenLen[v] = true
	cl.budget--
	p, f, q := cl.p, cl.f, cl.q
	lt := p.lenTerm(v, q)
	if lt.node == "" {
		return
	}
	f.addLE(term{}, lt, 0) // len >= 0
	switch x := v.(type) {
	case *ssa.Slice:
		base := p.lenTerm(x.X, q)
		cl.defineLen(x.X, depth+1)
		lowC, lowIsC := int64(0), true
		if x.Low != nil {
			lowC, lowIsC = constInt(x.Low)
			cl.define(x.Low, depth+1)
		}
		high := base
		if x.High != nil {
			high = p.intTerm(x.High, q)
			cl.define(x.High, depth+1)
		}
		if lowIsC {
			f.addEQ(lt, high, -lowC)
		} else if b, ok := strip(x.Low).(*ssa.BinOp); ok && b.Op == token.SUB && x.High == nil {
			// x[len(x)-k:] has exactly k elements
			if k, isC := constInt(b.Y); isC {
				if lc, isLen := strip(b.X).(*ssa.Call); isLen && callName(&lc.Call) == "builtin.len" && strip(lc.Call.Args[0]) == strip(x.X) {
					f.addEQ(lt, term{"", k}, 0)
				}
			}
			f.addLE(lt, high, 0)
		} else {
			f.addLE(lt, high, 0)
			// len = high - low: when high is the base length we also know low + len = base
			lowT := p.intTerm(x.Low, q)
			_ = lowT
		}
	case *ssa.MakeSlice:
		f.addEQ(lt, p.intTerm(x.Len, q), 0)
		cl.define(x.Len, depth+1)
	case *ssa.Call:
		name := callName(&x.Call)
		args := x.Call.Args
		switch name {
		case "strings.TrimSpace", "strings.TrimPrefix", "strings.TrimSuffix", "strings.Trim", "strings.TrimLeft", "strings.TrimRight",
			"strings.TrimFunc", "bytes.TrimSpace", "bytes.TrimPrefix", "bytes.TrimSuffix", "bytes.Trim":
			f.addLE(lt, p.lenTerm(args[0], q), 0)
			cl.defineLen(args[0], depth+1)
		case "strings.Split", "bytes.Split":
			f.addLE(term{"", 1}, lt, 0)
		case "strings.SplitN", "bytes.SplitN":
			if n, ok := constInt(args[2]); ok && n != 0 {
				f.addLE(term{"", 1}, lt, 0)
				if n > 0 {
					f.addLE(lt, term{"", n}, 0)
				}
			}
		case "bytes.Buffer.Next":
			cl.bufferNextLen(x, lt, depth) // ip_g1.go: 0 <= len <= n, == n when n <= Len() at the call
		case "hash.Hash.Sum":
			cl.hashSumLen(x, lt, depth) // ip_h4.go: len == len(arg) + Size() for a hash made by a known constructor
		case "strconv.Itoa":
			f.addLE(term{"", 1}, lt, 0)
			f.addLE(lt, term{"", 20}, 0) // sign and 19 digits
		case "strconv.FormatInt", "strconv.FormatUint":
			f.addLE(term{"", 1}, lt, 0)
			f.addLE(lt, term{"", 65}, 0) // base 2: sign and 64 digits
		case "fmt.Sprintf":
			if s, ok := constString(args[0]); ok {
				f.addLE(term{"", int64(minSprintfLen(s))}, lt, 0)
				if max := maxSprintfLen(s, sprintfArgTypes(x)); max >= 0 {
					f.addLE(lt, term{"", int64(max)}, 0)
				}
			}
		case "builtin.append":
			base := p.lenTerm(args[0], q)
			cl.defineLen(args[0], depth+1)
			f.addLE(base, lt, 0)
			if len(args) == 2 {
				// variadic slice built from k elements
				if sl, ok := args[1].(*ssa.Slice); ok {
					if al, ok := sl.X.(*ssa.Alloc); ok {
						if arr, ok := al.Type().Underlying().(*types.Pointer).Elem().Underlying().(*types.Array); ok && sl.Low == nil && sl.High == nil {
							f.addEQ(lt, base, arr.Len())
						}
					}
				} else {
					cl.defineLen(args[1], depth+1)
					// len = len(a) + len(b): only the lower bounds are expressible
					f.addLE(p.lenTerm(args[1], q), lt, 0)
				}
			}
		default:
			if callee := x.Call.StaticCallee(); callee != nil && p.c.inModule(callee) {
				cl.calleeResult(x, callee, -1, depth)
			}
		}
	case *ssa.Extract:
		call, ok := x.Tuple.(*ssa.Call)
		if !ok {
			return
		}
		name := callName(&call.Call)
		if x.Index == 0 && cl.nilErr[call] {
			switch name {
			case "bufio.Reader.ReadString", "bufio.Reader.ReadBytes", "bufio.Reader.ReadSlice":
				f.addLE(term{"", 1}, lt, 0) // the delimiter is included when err == nil
			case "bufio.Reader.Peek":
				f.addEQ(lt, p.intTerm(call.Call.Args[1], q), 0)
			}
		}
		if callee := call.Call.StaticCallee(); callee != nil && p.c.inModule(callee) {
			cl.calleeResult(call, callee, x.Index, depth)
		}
	case *ssa.UnOp:
		if x.Op == token.MUL {
			if o := origin(x); o != ssa.Value(x) {
				cl.defineLen(o, depth+1)
				f.addEQ(lt, p.lenTerm(o, q), 0)
				return
			}
			// field invariant
			if fa, ok := x.X.(*ssa.FieldAddr); ok {
				if n, ok := p.c.fieldMinLen(fa); ok {
					f.addLE(term{"", n}, lt, 0)
				}
			}
		}
	case *ssa.Phi:
		// lower bound = min over edges of a constant lower bound provable at the predecessor
		lo := inf
		for i, e := range x.Edges {
			pred := x.Block().Preds[i]
			last := pred.Instrs[len(pred.Instrs)-1]
			best := int64(-1)
			for _, cand := range []int64{8, 5, 4, 3, 2, 1, 0} {
				if p.depth < 3 {
					p.depth++
					ok := p.proveEdge(term{"", cand}, e, true, last, pred, x.Block())
					p.depth--
					if ok {
						best = cand
						break
					}
				}
			}
			if best < 0 {
				lo = -1
				break
			}
			if best < lo {
				lo = best
			}
		}
		if lo > 0 && lo < inf {
			f.addLE(term{"", lo}, lt, 0)
		}
	}
}

// proveEdge proves  lo <= len(e)  (isLen) for a phi edge value e at the end of pred, including the
// condition on the edge pred->to itself.
func (p *prover) proveEdge(lo term, e ssa.Value, isLen bool, last ssa.Instruction, pred, to *ssa.BasicBlock) bool {
	cl := p.collect(last)
	if ifi, ok := last.(*ssa.If); ok && pred.Succs[0] != pred.Succs[1] {
		cl.addCond(ifi.Cond, pred.Succs[0] == to, 0)
	}
	var t term
	if isLen {
		cl.defineLen(e, 0)
		t = p.lenTerm(e, last)
	} else {
		cl.define(e, 0)
		t = p.intTerm(e, last)
	}
	cl.f.close()
	return cl.f.le(lo, t, 0)
}

// calleeResult: facts about the result of a call to a module function, from a summary proven on
// every return of the callee:  result <= len(param k)  and  result >= 0 / len(result) >= 1 ...
func (cl *collector) calleeResult(call *ssa.Call, callee *ssa.Function, resultIdx int, depth int) {
	p, f, q := cl.p, cl.f, cl.q
	if p.depth >= 2 || callee.Blocks == nil {
		return
	}
	sum := p.c.summary(p, callee)
	var resV ssa.Value = call
	if resultIdx >= 0 {
		for _, r := range *call.Referrers() {
			if ex, ok := r.(*ssa.Extract); ok && ex.Index == resultIdx {
				resV = ex
			}
		}
	}
	idx := resultIdx
	if idx < 0 {
		idx = 0
	}
	for _, s := range sum {
		if s.result != idx {
			continue
		}
		var rt term
		if s.resultIsLen {
			rt = p.lenTerm(resV, q)
		} else {
			rt = p.intTerm(resV, q)
		}
		switch s.kind {
		case "ge-const":
			f.addLE(term{"", s.k}, rt, 0)
		case "le-const":
			f.addLE(rt, term{"", s.k}, 0)
		case "le-len-param":
			if s.param < len(call.Call.Args) {
				f.addLE(rt, p.lenTerm(call.Call.Args[s.param], q), 0)
				cl.defineLen(call.Call.Args[s.param], depth+1)
			}
		case "le-param":
			if s.param < len(call.Call.Args) {
				f.addLE(rt, p.intTerm(call.Call.Args[s.param], q), 0)
				cl.define(call.Call.Args[s.param], depth+1)
			}
		}
	}
}

// collect builds the closed fact set holding just before instruction q.
func (p *prover) collect(q ssa.Instruction) *collector { return p.collectEdge(q, nil) }

// collectEdge: facts holding on the edge from q's block to block `to` when q is the branch that
// ends its block (to == nil: just before q).
func (p *prover) collectEdge(q ssa.Instruction, to *ssa.BasicBlock) *collector {
	cl := &collector{p: p, f: newFactSet(), q: q, seen: map[ssa.Value]bool{}, seenLen: map[ssa.Value]bool{}, nilErr: map[ssa.Value]bool{}, budget: 400}
	conds := condsAt(q.Block())
	// first pass: nil-error knowledge (needed by conditional post-conditions)
	for _, c := range conds {
		cl.addCond(c.V, c.Truth, 0)
	}
	// exit guards: not(c1 && ... && ck) where all but one conjunct are known
	for _, g := range exitGuardsCached(q.Parent()) {
		if !g.Head.Dominates(q.Block()) || g.Exit.Dominates(q.Block()) || g.Head == q.Block() {
			continue // the negation only holds after the branch has been passed without exiting
		}
		if len(g.Conj) == 1 {
			// plain `if c { return }`: covered by edge dominance unless the join has other preds
			cl.addCond(g.Conj[0].V, !g.Conj[0].Truth, 0)
		}
	}
	// conds were added before definitional facts of later-discovered values; run a second pass so
	// that conditional post-conditions see nilErr.
	cl.seen, cl.seenLen = map[ssa.Value]bool{}, map[ssa.Value]bool{}
	if ifi, ok := q.(*ssa.If); ok && to != nil && q.Block().Succs[0] != q.Block().Succs[1] {
		conds = append(conds, Cond{ifi.Cond, q.Block().Succs[0] == to, ifi})
	}
	for _, c := range conds {
		cl.addCond(c.V, c.Truth, 0)
	}
	// exit guards with several conjuncts, not(c1 && ... && ck): when all but one conjunct follow
	// from the facts gathered so far, the remaining one is false
	for _, g := range exitGuardsCached(q.Parent()) {
		if len(g.Conj) < 2 || !g.Head.Dominates(q.Block()) || g.Exit.Dominates(q.Block()) || g.Head == q.Block() {
			continue
		}
		// the clause only holds once every conjunct has been tested: each test must lie on every
		// path to q, strictly before it (a query between two tests of a nested chain must not use it)
		if insideChain(g, q.Block()) {
			continue
		}
		unknown, n := -1, 0
		for i, cj := range g.Conj {
			if cl.entails(cj.V, cj.Truth) {
				continue
			}
			unknown = i
			n++
		}
		if n == 1 {
			cl.addCond(g.Conj[unknown].V, !g.Conj[unknown].Truth, 0)
		}
	}
	return cl
}

// insideChain: block b can be reached from inside the guard's chain of tests - after the head's
// test came out "towards the exit" - without one of the later tests having failed. There not all
// conjuncts have been evaluated yet, so the clause not(c1 && ... && ck) says nothing.
func insideChain(g NegConj, b *ssa.BasicBlock) bool {
	next := func(cj Cond) *ssa.BasicBlock {
		blk := cj.If.Block()
		if cj.Truth {
			return blk.Succs[0]
		}
		return blk.Succs[1]
	}
	chain := map[*ssa.BasicBlock]Cond{}
	var head *Cond
	for i := range g.Conj {
		if g.Conj[i].If == nil {
			return true
		}
		chain[g.Conj[i].If.Block()] = g.Conj[i]
		if g.Conj[i].If.Block() == g.Head {
			head = &g.Conj[i]
		}
	}
	if head == nil {
		return true
	}
	seen := map[*ssa.BasicBlock]bool{}
	stack := []*ssa.BasicBlock{next(*head)}
	for len(stack) > 0 {
		x := stack[len(stack)-1]
		stack = stack[:len(stack)-1]
		if seen[x] {
			continue
		}
		seen[x] = true
		if x == b {
			return true
		}
		if cj, isTest := chain[x]; isTest && x != g.Head {
			stack = append(stack, next(cj)) // only onwards in the chain; a failed test leaves it
			continue
		}
		if x == g.Head {
			continue
		}
		stack = append(stack, x.Succs...)
	}
	return false
}

// entails: the integer comparison v (or its negation) follows from the facts gathered so far.
func (cl *collector) entails(v ssa.Value, truth bool) bool {
	v = origin(v)
	if u, ok := v.(*ssa.UnOp); ok && u.Op == token.NOT {
		return cl.entails(u.X, !truth)
	}
	b, ok := v.(*ssa.BinOp)
	if !ok || !isIntType(b.X.Type()) || !isIntType(b.Y.Type()) {
		return false
	}
	op := b.Op
	if !truth {
		switch op {
		case token.LSS:
			op = token.GEQ
		case token.LEQ:
			op = token.GTR
		case token.GTR:
			op = token.LEQ
		case token.GEQ:
			op = token.LSS
		default:
			return false
		}
	}
	switch op {
	case token.LSS, token.LEQ, token.GTR, token.GEQ:
	default:
		return false
	}
	cl.define(b.X, 1)
	cl.define(b.Y, 1)
	cl.f.close()
	if cl.f.inconsistent() {
		return false
	}
	x, y := cl.p.intTerm(b.X, cl.q), cl.p.intTerm(b.Y, cl.q)
	switch op {
	case token.LSS:
		return cl.f.le(x, y, -1)
	case token.LEQ:
		return cl.f.le(x, y, 0)
	case token.GTR:
		return cl.f.le(y, x, -1)
	case token.GEQ:
		return cl.f.le(y, x, 0)
	}
	return false
}

var exitGuardCache = map[*ssa.Function][]NegConj{}

func exitGuardsCached(fn *ssa.Function) []NegConj {
	if g, ok := exitGuardCache[fn]; ok {
		return g
	}
	g := exitGuards(fn)
	exitGuardCache[fn] = g
	return g
}

// LE proves  a + ca <= b + cb  at q, where a/b are given as (value, isLen); a nil value is the
// constant zero.
func (p *prover) LE(a ssa.Value, aLen bool, ca int64, b ssa.Value, bLen bool, cb int64, q ssa.Instruction) bool {
	return p.leEdge(a, aLen, ca, b, bLen, cb, q, nil)
}

func (p *prover) leEdge(a ssa.Value, aLen bool, ca int64, b ssa.Value, bLen bool, cb int64, q ssa.Instruction, to *ssa.BasicBlock) bool {
	cl := p.collectEdge(q, to)
	ta, tb := term{}, term{}
	if a != nil {
		if aLen {
			cl.defineLen(a, 0)
			ta = p.lenTerm(a, q)
		} else {
			cl.define(a, 0)
			ta = p.intTerm(a, q)
		}
	}
	if b != nil {
		if bLen {
			cl.defineLen(b, 0)
			tb = p.lenTerm(b, q)
		} else {
			cl.define(b, 0)
			tb = p.intTerm(b, q)
		}
	}
	ta.off += ca
	tb.off += cb
	cl.f.close()
	if os.Getenv("WLDEBUG") == "le" {
		fmt.Fprintf(os.Stderr, "LE %v <= %v at %s: %v inconsistent=%v\n", ta, tb, q.Parent().Name(), cl.f.le(ta, tb, 0), cl.f.inconsistent())
		for n, i := range cl.f.idx {
			for m, j := range cl.f.idx {
				if i != j && cl.f.d[i][j] < inf {
					fmt.Fprintf(os.Stderr, "   %q - %q <= %d\n", n, m, cl.f.d[i][j])
				}
			}
		}
	}
	if cl.f.inconsistent() {
		// contradictory facts: the point is unreachable or a fact is wrong - never use that as a proof
		return false
	}
	if cl.f.le(ta, tb, 0) {
		return true
	}
	// phi on either side: prove per incoming edge at the predecessor
	if p.depth < 3 {
		if ph, ok := stripTermValue(a).(*ssa.Phi); ok && a != nil {
			return p.perEdge(ph, func(e ssa.Value, last ssa.Instruction) bool {
				return p.leEdge(e, aLen, ca+offsetOf(a), b, bLen, cb, last, ph.Block())
			}, q, loopInvariant(b, ph) || bLen && h2FixedLen(b)) // ip_h2.go: the length of an array is a constant of its type
		}
		if ph, ok := stripTermValue(b).(*ssa.Phi); ok && b != nil {
			return p.perEdge(ph, func(e ssa.Value, last ssa.Instruction) bool {
				return p.leEdge(a, aLen, ca, e, bLen, cb+offsetOf(b), last, ph.Block())
			}, q, loopInvariant(a, ph) || aLen && h2FixedLen(a))
		}
	}
	// parameter facts from callers
	if p.depth < 2 {
		if ok := p.fromCallers(a, aLen, ca, b, bLen, cb, q); ok {
			return true
		}
	}
	return false
}

// stripTermValue peels conversions and +/- constants to expose a phi.
func stripTermValue(v ssa.Value) ssa.Value {
	for v != nil {
		v = strip(v)
		if b, ok := v.(*ssa.BinOp); ok && (b.Op == token.ADD || b.Op == token.SUB) {
			if _, isC := constInt(b.Y); isC {
				v = b.X
				continue
			}
		}
		break
	}
	return v
}

func offsetOf(v ssa.Value) int64 {
	off := int64(0)
	for v != nil {
		v = strip(v)
		if b, ok := v.(*ssa.BinOp); ok && (b.Op == token.ADD || b.Op == token.SUB) {
			if k, isC := constInt(b.Y); isC {
				if b.Op == token.ADD {
					off += k
				} else {
					off -= k
				}
				v = b.X
				continue
			}
		}
		break
	}
	return off
}

// loopInvariant: the other side of a relation with phi ph is a constant or an SSA value defined
// before ph's block is first entered (so it has one value for all iterations) - not a load from
// memory, whose identity is an access path that the loop may overwrite.
func loopInvariant(other ssa.Value, ph *ssa.Phi) bool {
	if other == nil {
		return true
	}
	v := stripTermValue(other)
	switch x := v.(type) {
	case *ssa.Const, *ssa.Parameter:
		return true
	case *ssa.UnOp:
		return false
	case ssa.Instruction:
		if call, ok := v.(*ssa.Call); ok && callName(&call.Call) == "builtin.len" {
			return loopInvariant(call.Call.Args[0], ph)
		}
		b := x.Block()
		return b != nil && b != ph.Block() && b.Dominates(ph.Block())
	}
	return false
}

func (p *prover) perEdge(ph *ssa.Phi, prove func(e ssa.Value, last ssa.Instruction) bool, q ssa.Instruction, otherInvariant bool) bool {
	// only sound when the phi's block dominates q: the phi value is fixed for the iteration in
	// which q executes, so proving each incoming edge suffices. A back edge is a step of an
	// induction over the visits of the loop header: it may be proved like any other edge as long as
	// the other side of the relation does not change in the loop.
	if !ph.Block().Dominates(q.Block()) {
		return false
	}
	p.depth++
	defer func() { p.depth-- }()
	for i, e := range ph.Edges {
		pred := ph.Block().Preds[i]
		if ph.Block().Dominates(pred) && !otherInvariant {
			// back edge: the value comes from a previous iteration
			return false
		}
		last := pred.Instrs[len(pred.Instrs)-1]
		if !prove(e, last) {
			return false
		}
	}
	return true
}

// fromCallers: when the query is about a parameter of an unexported, non-address-taken function,
// prove the same relation about the actual argument at every call site in the module.
func (p *prover) fromCallers(a ssa.Value, aLen bool, ca int64, b ssa.Value, bLen bool, cb int64, q ssa.Instruction) bool {
	fn := q.Parent()
	pa, aIsParam := stripTermValue(a).(*ssa.Parameter)
	pb, bIsParam := stripTermValue(b).(*ssa.Parameter)
	if !aIsParam && !bIsParam {
		return false
	}
	if fn.Object() == nil || fn.Object().Exported() && fn.Signature.Recv() == nil {
		return false
	}
	sites := p.c.callSites(fn)
	if sites == nil {
		return false
	}
	idxOf := func(par *ssa.Parameter) int {
		for i, x := range fn.Params {
			if x == par {
				return i
			}
		}
		return -1
	}
	p.depth++
	defer func() { p.depth-- }()
	for _, site := range sites {
		args := site.Common().Args
		va, vb := a, b
		oa, ob := int64(0), int64(0)
		if aIsParam {
			i := idxOf(pa)
			if i < 0 || i >= len(args) {
				return false
			}
			va, oa = args[i], offsetOf(a)
		} else if a != nil {
			if _, isC := constInt(a); !isC {
				return false
			}
		}
		if bIsParam {
			i := idxOf(pb)
			if i < 0 || i >= len(args) {
				return false
			}
			vb, ob = args[i], offsetOf(b)
		} else if b != nil {
			if _, isC := constInt(b); !isC {
				return false
			}
		}
		if !p.LE(va, aLen, ca+oa, vb, bLen, cb+ob, site) {
			return false
		}
	}
	p.assume = append(p.assume, fmt.Sprintf("caller facts for %s from %d call site(s)", fnName(fn), len(sites)))
	return true
}

// minSprintfLen: a lower bound on the length of fmt.Sprintf(format, ...): literal bytes plus the
// explicit widths of the verbs.
func minSprintfLen(format string) int {
	n := 0
	for i := 0; i < len(format); i++ {
		if format[i] != '%' {
			n++
			continue
		}
		i++
		if i < len(format) && format[i] == '%' {
			n++
			continue
		}
		for i < len(format) && strings.ContainsRune("+-# 0", rune(format[i])) {
			i++
		}
		w := 0
		for i < len(format) && format[i] >= '0' && format[i] <= '9' {
			w = w*10 + int(format[i]-'0')
			i++
		}
		if i < len(format) && format[i] == '.' {
			i++
			for i < len(format) && format[i] >= '0' && format[i] <= '9' {
				i++
			}
		}
		n += w
	}
	return n
}

// sprintfArgTypes: the static types of the variadic arguments of a fmt.Sprintf call (nil when they
// cannot be identified).
func sprintfArgTypes(call *ssa.Call) []types.Type {
	if len(call.Call.Args) != 2 {
		return nil
	}
	if c, ok := call.Call.Args[1].(*ssa.Const); ok && c.IsNil() {
		return []types.Type{}
	}
	sl, ok := call.Call.Args[1].(*ssa.Slice)
	if !ok {
		return nil
	}
	al, ok := sl.X.(*ssa.Alloc)
	if !ok {
		return nil
	}
	arr, ok := al.Type().Underlying().(*types.Pointer).Elem().Underlying().(*types.Array)
	if !ok {
		return nil
	}
	out := make([]types.Type, arr.Len())
	for _, ref := range *al.Referrers() {
		ia, ok := ref.(*ssa.IndexAddr)
		if !ok {
			continue
		}
		k, isC := constInt(ia.Index)
		if !isC || k < 0 || k >= arr.Len() {
			return nil
		}
		for _, r2 := range *ia.Referrers() {
			if st, ok := r2.(*ssa.Store); ok {
				v := st.Val
				if mi, ok := v.(*ssa.MakeInterface); ok {
					out[k] = mi.X.Type()
				}
			}
		}
	}
	for _, t := range out {
		if t == nil {
			return nil
		}
	}
	return out
}

// maxSprintfLen: an upper bound on the length of fmt.Sprintf(format, args...) or -1 when none is
// known: literal bytes, %d of a sized integer (at most 20 bytes: sign and 19 digits, or 20 digits
// unsigned), %c (at most 4 bytes), each widened to its explicit width.
func maxSprintfLen(format string, args []types.Type) int {
	if args == nil {
		return -1
	}
	n, ai := 0, 0
	for i := 0; i < len(format); i++ {
		if format[i] != '%' {
			n++
			continue
		}
		i++
		if i < len(format) && format[i] == '%' {
			n++
			continue
		}
		for i < len(format) && strings.ContainsRune("+-# 0", rune(format[i])) {
			i++
		}
		w := 0
		for i < len(format) && format[i] >= '0' && format[i] <= '9' {
			w = w*10 + int(format[i]-'0')
			i++
		}
		if i >= len(format) || ai >= len(args) {
			return -1
		}
		verb := format[i]
		b, isBasic := args[ai].Underlying().(*types.Basic)
		ai++
		max := -1
		switch {
		case verb == 'd' && isBasic && b.Info()&types.IsInteger != 0:
			max = 20 + 1 // '+' flag
		case verb == 'c' && isBasic && b.Info()&types.IsInteger != 0:
			max = 4
		}
		if max < 0 {
			return -1
		}
		if w > max {
			max = w
		}
		n += max
	}
	if ai != len(args) {
		return -1 // %!(EXTRA ...) is appended
	}
	return n
}

// edgeFeasible: the edge from block p to block to is not ruled out by the integer conditions
// that dominate it.
func (p *prover) edgeFeasible(from, to *ssa.BasicBlock) bool {
	last := from.Instrs[len(from.Instrs)-1]
	cl := p.collectEdge(last, to)
	cl.f.close()
	if os.Getenv("WLDEBUG") != "" {
		fmt.Fprintf(os.Stderr, "edgeFeasible b%d->b%d inconsistent=%v nodes=%v\n", from.Index, to.Index, cl.f.inconsistent(), cl.f.idx)
		for n, i := range cl.f.idx {
			for m, j := range cl.f.idx {
				if i != j && cl.f.d[i][j] < inf {
					fmt.Fprintf(os.Stderr, "   %q - %q <= %d\n", n, m, cl.f.d[i][j])
				}
			}
		}
	}
	return !cl.f.inconsistent()
}

// reachesWithoutRedoing: instruction to can execute after instruction from on a path that does
// not execute instruction redo again in between (a re-execution refreshes the value redo computes).
func reachesWithoutRedoing(from, to, redo ssa.Instruction) bool {
	if from.Block() == to.Block() && instrIndex(from) < instrIndex(to) {
		// straight line; redo in between?
		if redo.Block() == from.Block() && instrIndex(redo) > instrIndex(from) && instrIndex(redo) < instrIndex(to) {
			return false
		}
		return true
	}
	rb := redo.Block()
	seen := map[*ssa.BasicBlock]bool{}
	var stack []*ssa.BasicBlock
	// leaving from's block: if redo sits after from in the same block it is executed on the way out
	if rb == from.Block() && instrIndex(redo) > instrIndex(from) {
		return false
	}
	stack = append(stack, from.Block().Succs...)
	for len(stack) > 0 {
		b := stack[len(stack)-1]
		stack = stack[:len(stack)-1]
		if seen[b] {
			continue
		}
		seen[b] = true
		if b == to.Block() {
			if b != rb || instrIndex(to) < instrIndex(redo) {
				return true
			}
			// redo runs before to in this block: value refreshed on this path
			continue
		}
		if b == rb {
			continue // passing through redo's block re-executes it
		}
		stack = append(stack, b.Succs...)
	}
	return false
}
