package main

// C16 — secure-login answers follow the Winlink algorithm, never exposing the password.

import (
	"go/token"
	"go/types"
	"strings"

	"golang.org/x/tools/go/ssa"
)

func init() {
	register("C16", false,
		"Structural necessary conditions decided from source: (C16-secret) taint analysis over package fbb: the password returned by the SecureLoginHandleFunc callback can reach no writer, logger or error (fmt.Fprint*, Write*, log.*, fmt.Errorf, errors.New); the only thing it may flow into is the MD5 hash, whose result is clean - so the password never appears on the wire whatever the inputs; (C16-guard) every call through the callback field is protected by a non-nil test of the field (clause reasoning: the early 'challenge != \"\" && callback == nil -> error' exit plus the 'challenge != \"\"' edge dominating each call), and that error exit precedes every write of the handshake; (C16-consts) the salt equals the 64 reference bytes embedded in the checker and the hashed payload depends on challenge, password and salt - in that order when the payload is the recognised concatenation; (C16-reply) the ;PR response and each 'address|response' pair are computed by secureLoginResponse from the challenge and the callback's password for that address, the pair is written only on the password-known edge and the bare address otherwise; where the recognised forms are present the response keeps the low 6 bits of digest byte 3 (or masks the little-endian Uint32 of digest bytes 0..3 with 0x3fffffff), prints %%08d and keeps the last eight characters (slice of the last eight, value modulo 100000000, or len <= 8 proved); the text of a write is followed through concatenation, Sprintf and local variables, one alternative per selecting edge; a digest is md5.Sum(x) or md5.New() fed in a fixed order and summed once, and a write into a crypto hash object is a declassifier like md5.Sum. NOT decided: the numeric response for all challenge/password pairs (arithmetic on run-time values).",
		checkC16)
}

var winlinkSaltRef = []int64{
	77, 197, 101, 206, 190, 249, 93, 200, 51, 243, 93, 237, 71, 94, 239, 138, 68, 108, 70, 185, 225, 137, 217, 16,
	51, 122, 193, 48, 194, 195, 198, 175, 172, 169, 70, 84, 61, 62, 104, 186, 114, 52, 61, 168, 66, 129, 192, 208,
	187, 249, 232, 193, 41, 113, 41, 45, 240, 16, 29, 228, 208, 228, 61, 20,
}

func isHandleFuncCall(ci ssa.CallInstruction) bool {
	call := ci.Common()
	if call.IsInvoke() || call.StaticCallee() != nil {
		return false
	}
	ld, ok := call.Value.(*ssa.UnOp)
	return ok && ld.Op == token.MUL && strings.HasSuffix(pathOf(ld), ".secureLoginHandleFunc")
}

var c16Sinks = map[string]bool{
	"fmt.Fprintf": true, "fmt.Fprint": true, "fmt.Fprintln": true, "fmt.Printf": true, "fmt.Print": true, "fmt.Println": true,
	"fmt.Errorf": true, "errors.New": true, "io.WriteString": true,
	"log.Printf": true, "log.Print": true, "log.Println": true, "log.Fatalf": true, "log.Fatal": true, "log.Fatalln": true,
	"log.Logger.Printf": true, "log.Logger.Print": true, "log.Logger.Println": true, "log.Logger.Fatalf": true,
	"bufio.Writer.Write": true, "bufio.Writer.WriteString": true, "bufio.Writer.WriteByte": true,
	"bytes.Buffer.Write": true, "bytes.Buffer.WriteString": true, "os.File.Write": true, "os.File.WriteString": true,
}

// c16Writes: the call produces output (a sink other than the construction of an error), itself
// or - for a static call to a function of package pkg - somewhere below it.
func c16Writes(ci ssa.CallInstruction, pkg string, seen map[*ssa.Function]bool) bool {
	return c16WritesTo(ci, pkg, seen, false)
}

// c16WritesTo: with toWriterOnly, only sinks that write into an io.Writer handed to them count -
// the process log and standard output are not what the remote station sees (a trace line at
// function entry is not "the handshake has written output").
func c16WritesTo(ci ssa.CallInstruction, pkg string, seen map[*ssa.Function]bool, toWriterOnly bool) bool {
	call := ci.Common()
	if n := callName(call); c16Sinks[n] {
		if toWriterOnly && (strings.HasPrefix(n, "log.") || n == "fmt.Printf" || n == "fmt.Print" || n == "fmt.Println") {
			return false
		}
		return n != "errors.New" && n != "fmt.Errorf"
	}
	callee := call.StaticCallee()
	if callee == nil || callee.Blocks == nil || pkgRel(callee) != pkg || seen[callee] {
		return false
	}
	seen[callee] = true
	for _, fn := range withClosures(callee) {
		for _, in := range allCalls(fn) {
			if c16WritesTo(in, pkg, seen, toWriterOnly) {
				return true
			}
		}
	}
	return false
}

func checkC16(c *Ctx, r *Report) {
	const pkg = "fbb"
	p := c.Pkg(pkg)
	if p == nil {
		r.Fail("anchor", "package fbb not found")
		return
	}

	// ---- C16-secret
	r.Rule("C16-secret", 3, "the password reaches nothing but the hash")
	tn := newTaint(taintCfg{
		c:         c,
		inScope:   func(fn *ssa.Function) bool { return pkgRel(fn) == pkg },
		cleanCall: func(name string) bool { return name == "crypto/md5.Sum" },
		cleanSite: h4WritesIntoHash, // a write into a crypto hash object declassifies like md5.Sum (ip_h4.go)
	})
	var sources []ssa.CallInstruction
	for _, fn := range c.SrcFuncs(pkg) {
		eachInstr(fn, func(_ *ssa.BasicBlock, _ int, instr ssa.Instruction) {
			ci, ok := instr.(ssa.CallInstruction)
			if !ok || !isHandleFuncCall(ci) {
				return
			}
			sources = append(sources, ci)
			if val := ci.Value(); val != nil {
				for _, ref := range *val.Referrers() {
					if ex, ok := ref.(*ssa.Extract); ok && ex.Index == 0 {
						tn.mark(ex, nil)
					}
				}
			}
		})
	}
	tn.run()
	for _, src := range sources {
		r.Add("C16-secret", fnName(src.Parent()), "source: password from "+c.exprAt(src.Parent(), src.Pos()), c.pos(src.Pos())).OK("tracked as secret (%d values derived from the passwords in package fbb)", len(tn.tainted))
	}
	if len(sources) == 0 {
		r.Fail("C16-secret", "no call through Session.secureLoginHandleFunc found (anchor unresolved)")
	}
	nSinks := 0
	for _, fn := range c.SrcFuncs(pkg) {
		eachInstr(fn, func(_ *ssa.BasicBlock, _ int, instr ssa.Instruction) {
			ci, ok := instr.(ssa.CallInstruction)
			if !ok {
				return
			}
			name := callName(ci.Common())
			isSink := c16Sinks[name]
			if ci.Common().IsInvoke() && (ci.Common().Method.Name() == "Write" || ci.Common().Method.Name() == "WriteString") {
				isSink = true
			}
			if !isSink {
				return
			}
			if h4WritesIntoHash(ci) {
				return // the destination is a crypto hash: only the digest comes out of it
			}
			nSinks++
			for _, a := range callArgs(ci.Common()) {
				if tn.tainted[a] {
					r.Add("C16-secret", fnName(fn), "sink "+name+" "+c.exprAt(fn, ci.Pos()), c.pos(ci.Pos())).
						Bad("the password can reach this output: %s", tn.chain(a))
					return
				}
				// variadic packing: the argument slice's backing array holds a tainted value
				if sl, ok := a.(*ssa.Slice); ok && tn.tainted[sl] {
					r.Add("C16-secret", fnName(fn), "sink "+name+" "+c.exprAt(fn, ci.Pos()), c.pos(ci.Pos())).
						Bad("the password can reach this output: %s", tn.chain(sl))
					return
				}
			}
		})
	}
	r.Add("C16-secret", "fbb", "all output sinks of package fbb", "fbb").OK("%d writer/logger/error call sites examined, none receives a value derived from the password", nSinks)
	if nSinks < 40 {
		r.Fail("C16-secret", "only %d sink call sites found in package fbb, expected at least 40", nSinks)
	}
	// the password does reach the hash
	if fn := c.Func(pkg, "secureLoginResponse"); fn == nil {
		r.Fail("C16-secret", "anchor fbb.secureLoginResponse not found")
	} else {
		hashed := false
		for _, d := range h4Digests(fn) {
			for _, part := range d.parts {
				if part.v != nil && tn.tainted[part.v] {
					hashed = true
				}
			}
		}
		r.Check("C16-secret", fnName(fn), "password flows into md5.Sum", c.pos(fn.Pos()), hashed,
			"the callback's password reaches the MD5 hash (and nothing else)", "the password does not reach the hash: the response cannot depend on it")
	}

	// ---- C16-guard
	r.Rule("C16-guard", 2, "calls through the callback field are protected by a non-nil test")
	// The condition is decided by g5Guard (ip_g5.go): a dominating non-nil test of the field - made
	// directly or through a predicate function - or an early exit whose clause excludes a nil field
	// under the conditions holding at the call; when the call lives in an unexported helper, at every
	// call site of the helper. An early exit only counts when nothing has been written before it.
	guard := &g5Guard{c: c, exitNote: "; nothing is written before that exit", acceptExit: func(exit *ssa.BasicBlock) (bool, string) {
		exitRet := exit.Instrs[len(exit.Instrs)-1]
		writes := false
		eachInstr(exit.Parent(), func(_ *ssa.BasicBlock, _ int, in ssa.Instruction) {
			if ci, isCall := in.(ssa.CallInstruction); isCall && c16WritesTo(ci, pkg, map[*ssa.Function]bool{}, true) {
				if instrReaches(in, exitRet) {
					writes = true
				}
			}
		})
		if writes {
			return false, "the handshake has already written output when the missing callback is detected"
		}
		return true, ""
	}}
	for _, src := range sources {
		fn := src.Parent()
		o := r.Add("C16-guard", fnName(fn), "call "+c.exprAt(fn, src.Pos()), c.pos(src.Pos()))
		ok, why := guard.nonNil(src, src.Common().Value, nil, nil, 0)
		if ok {
			o.OK("%s", why)
		} else {
			if why == "" {
				why = "no dominating non-nil test of the callback field, and no early exit that excludes a nil callback under the conditions holding here"
			}
			o.Bad("calling a nil SecureLoginHandleFunc panics the session: %s", why)
		}
	}

	// ---- C16-consts
	r.Rule("C16-consts", 2, "salt and hashed payload")
	{
		vals, _, pos, ok := intTable(p, "winlinkSecureSalt")
		o := r.Add("C16-consts", "fbb", "var winlinkSecureSalt", c.pos(pos))
		switch {
		case !ok:
			o.Bad("winlinkSecureSalt is not a literal of constant bytes (anchor unresolved)")
		case len(vals) != len(winlinkSaltRef):
			o.Bad("the salt has %d bytes, the Winlink salt has %d", len(vals), len(winlinkSaltRef))
		default:
			bad := -1
			for i := range vals {
				if vals[i] != winlinkSaltRef[i] {
					bad = i
					break
				}
			}
			if bad >= 0 {
				o.Bad("salt byte %d is %d, the Winlink salt has %d", bad, vals[bad], winlinkSaltRef[bad])
			} else {
				o.OK("all 64 bytes equal the Winlink secure-login salt")
			}
		}
	}
	if fn := c.Func(pkg, "secureLoginResponse"); fn != nil {
		where := fnName(fn)
		// one MD5 computation: md5.Sum(x), or md5.New() fed piece by piece and summed (h4Digests)
		digests := h4Digests(fn)
		o := r.Add("C16-consts", where, "hashed payload", c.pos(fn.Pos()))
		if len(digests) != 1 || len(fn.Params) != 2 {
			o.Bad("expected one md5.Sum over (challenge, password) in secureLoginResponse (unresolved)")
		} else if digests[0].why != "" {
			o.Bad("the MD5 computation in secureLoginResponse is not resolved: %s", digests[0].why)
		} else {
			parts := digests[0].parts
			isParam := func(k int) func(ssa.Value) bool {
				return func(v ssa.Value) bool { return v == ssa.Value(fn.Params[k]) }
			}
			isSalt := func(v ssa.Value) bool {
				g, ok := v.(*ssa.Global)
				return ok && g.Name() == "winlinkSecureSalt"
			}
			dep := func(pred func(ssa.Value) bool) bool {
				for _, part := range parts {
					if part.v != nil && dependsOn(part.v, pred) {
						return true
					}
				}
				return false
			}
			dc, dp, ds := dep(isParam(0)), dep(isParam(1)), dep(isSalt)
			switch {
			case !(dc && dp && ds):
				o.Bad("the hashed payload depends on challenge=%v password=%v salt=%v; the algorithm hashes all three", dc, dp, ds)
			default:
				// order, when the payload is a plain concatenation (of what is passed to md5.Sum, or of
				// the pieces written into the hash in execution order)
				leafName := func(v ssa.Value) string {
					switch {
					case v == ssa.Value(fn.Params[0]):
						return "challenge"
					case v == ssa.Value(fn.Params[1]):
						return "password"
					}
					if ld, ok := v.(*ssa.UnOp); ok && ld.Op == token.MUL && isSalt(ld.X) {
						return "salt"
					}
					return ""
				}
				var leaves []string
				flat := true
				for _, part := range parts {
					if part.v == nil {
						leaves = append(leaves, strconvQuote(part.lit))
						continue
					}
					l, ok := h4Flatten(part.v, leafName, 0)
					leaves = append(leaves, l...)
					flat = flat && ok
				}
				if flat {
					if strings.Join(leaves, "+") == "challenge+password+salt" {
						o.OK("md5 over the concatenation challenge + password + salt")
					} else {
						o.Bad("the payload is concatenated as %s; the Winlink algorithm hashes challenge + password + salt", strings.Join(leaves, " + "))
					}
				} else {
					o.OK("md5 argument depends on challenge, password and salt (payload not a plain concatenation: order not checked)")
				}
			}
		}
		// recognised-form checks of the response arithmetic (skipped when the form is absent)
		r.Rule("C16-reply", 3, "response computation and reply lines")
		{
			pr := newProver(c)
			o := r.Add("C16-reply", where, "response is at least eight characters long", c.pos(fn.Pos()))
			all := true
			for _, ret := range returnsOf(fn) {
				if !pr.LE(nil, false, 8, resOf(ret, 0), true, 0, ret) {
					all = false
				}
			}
			if all {
				o.OK("len(response) >= 8 is established on every return (zero padding cannot be lost for small digest values)")
			} else {
				o.Bad("the response is not proven to have at least eight characters: for digest values below 10,000,000 (about 1 %% of challenge/password pairs) the leading zeros are lost and the login fails")
			}
		}
		for _, ci := range callsTo(fn, false, "fmt.Sprintf") {
			if s, ok := constString(ci.Common().Args[0]); ok {
				verbs, tail := parseVerbs(s)
				good := len(verbs) == 1 && verbs[0].verb == 'd' && verbs[0].width == 8 && strings.Contains(verbs[0].flags, "0") && verbs[0].lit == "" && tail == ""
				r.Check("C16-reply", where, "response format", c.pos(ci.Pos()), good, "formatted "+s+": zero padded to eight digits", "the response is formatted with "+s+"; the algorithm needs the decimal value zero padded to eight digits (%08d)")
			}
		}
		eachInstr(fn, func(_ *ssa.BasicBlock, _ int, instr ssa.Instruction) {
			b, ok := instr.(*ssa.BinOp)
			if !ok || b.Op != token.AND {
				return
			}
			mask, isC := constInt(b.Y)
			if !isC {
				return
			}
			ld, ok := unwrap(b.X).(*ssa.UnOp)
			if !ok {
				return
			}
			ia, ok := ld.X.(*ssa.IndexAddr)
			if !ok {
				return
			}
			idx, isC := constInt(ia.Index)
			if !isC {
				return
			}
			r.Check("C16-reply", where, "30-bit mask", c.pos(b.Pos()), idx == 3 && mask == 0x3f,
				"digest byte 3 is masked with 0x3f (the value keeps 30 bits)", "the mask keeps other bits than the low 6 of digest byte 3: the response is not the 30-bit little-endian value")
		})
		nLast := 0
		eachInstr(fn, func(_ *ssa.BasicBlock, _ int, instr ssa.Instruction) {
			sl, ok := instr.(*ssa.Slice)
			if !ok || sl.Low == nil || sl.High != nil {
				return
			}
			if b, ok := sl.Low.(*ssa.BinOp); ok && b.Op == token.SUB {
				k, isC := constInt(b.Y)
				call, isLen := b.X.(*ssa.Call)
				if isC && isLen && callName(&call.Call) == "builtin.len" {
					nLast++
					r.Check("C16-reply", where, "last eight characters", c.pos(sl.Pos()), k == 8,
						"the response is the last eight characters of the formatted value", "the response keeps the last "+pathOf(b.Y)+" characters, the algorithm keeps eight")
				}
			}
		})
		// the same two clauses in their arithmetic spelling (ip_h4.go): the 30-bit value taken with
		// binary.<order>.Uint32(digest[:4]) & mask, the last eight digits with value % 100000000;
		// when neither spelling of "last eight" is present, len(response) <= 8 has to be proved
		c16ArithForms(c, r, fn, nLast)
	}

	// reply lines in sendHandshake
	if fn := c.Func(pkg, "(*Session).sendHandshake"); fn == nil {
		r.Fail("C16-reply", "anchor sendHandshake not found")
	} else {
		where := fnName(fn)
		chal := fn.Params[len(fn.Params)-1]
		isResp := func(v ssa.Value) (*ssa.Call, bool) {
			call, ok := v.(*ssa.Call)
			if ok && callName(&call.Call) == "fbb.secureLoginResponse" {
				return call, true
			}
			return nil, false
		}
		pwOf := func(call *ssa.Call) (ssa.CallInstruction, bool) {
			// second argument of secureLoginResponse must be result 0 of a callback call
			ex, ok := call.Call.Args[1].(*ssa.Extract)
			if !ok || ex.Index != 0 {
				return nil, false
			}
			src, ok := ex.Tuple.(*ssa.Call)
			if !ok || !isHandleFuncCall(src) {
				return nil, false
			}
			return src, true
		}
		// auxiliary pairs: every alternative of the text of every write that carries a response or a
		// '|' - spelled in the format, concatenated in a local, chosen by a phi (ip_h4.go)
		c16AuxPairs(c, r, fn, ssa.Value(chal))
		// ;PR line: the one write of a text starting with ";PR" in sendHandshake or in a helper below
		// it (h4rPRWrites; a helper that only formats the value it is given is looked through). For a
		// helper the conditions are lifted to its call site: it must be the only one, and the helper's
		// parameters are bound to the actual arguments (g5Env).
		o := r.Add("C16-reply", where, ";PR response", c.pos(fn.Pos()))
		prOcc := h4rPRWrites(fn, func(v ssa.Value) bool { _, ok := isResp(v); return ok }) // by the text written (ip_h4r3.go)
		env := g5Env{}
		liftWhy := ""
		if len(prOcc) == 1 {
			for _, site := range prOcc[0].chain {
				callee := site.Common().StaticCallee()
				sites, okS := c.g5Sites(callee)
				env2, okE := env.with(callee, site)
				switch {
				case !okS || !okE:
					liftWhy = "the ;PR line is written by " + callee.Name() + ", whose call sites cannot be enumerated"
				case len(sites) != 1 || sites[0] != site:
					liftWhy = "the ;PR line is written by " + callee.Name() + ", which is called from " + itoa(len(sites)) + " places: more than one ;PR response can be written"
				default:
					env = env2
				}
			}
		}
		if len(prOcc) != 1 {
			o.Bad("expected exactly one ;PR response to be written, found %d", len(prOcc))
		} else if liftWhy != "" {
			o.Bad("%s", liftWhy)
		} else {
			ci := prOcc[0].call
			// branch conditions around the write: in its own function and around each call of the chain
			conds := condsAt(ci.Block())
			for _, site := range prOcc[0].chain {
				conds = append(conds, condsAt(site.Block())...)
			}
			var resp *ssa.Call
			isR := false
			if prOcc[0].resp != nil {
				resp, isR = isResp(unwrap(prOcc[0].resp))
			}
			switch {
			case !isR:
				o.Bad("the ;PR line does not carry a secureLoginResponse")
			case g5Resolve(resp.Call.Args[0], env) != ssa.Value(chal):
				o.Bad("the ;PR response is not computed from the remote's challenge")
			default:
				src, okPw := pwOf(resp)
				errChecked := false
				if okPw {
					for _, cd := range condsAt(ci.Block()) {
						if b, ok := cd.V.(*ssa.BinOp); ok && isNilConst(b.Y) {
							if ex, ok := b.X.(*ssa.Extract); ok && ex.Tuple == src.Value() && ex.Index == 1 && (b.Op == token.NEQ) != cd.Truth {
								errChecked = true
							}
						}
					}
				}
				chalKnown := false
				for _, cd := range conds {
					// any spelling of "a challenge was received": chal != "", len(chal) != 0, len(chal) > 0, ...
					if x, empty, ok := emptyCond(cd); ok && !empty && g5Resolve(x, env) == ssa.Value(chal) {
						chalKnown = true
					}
				}
				forAddr := ""
				if okPw {
					forAddr, _ = g5Path(src.Common().Args[0], env, fn)
				}
				switch {
				case !okPw:
					o.Bad("the ;PR response is not computed from the callback's password")
				case forAddr != pathOf(fn.Params[0])+".localFW[0]":
					o.Bad("the ;PR password is requested for %s, not for the session's own address (first local forwarder)", pathOf(src.Common().Args[0]))
				case !errChecked:
					o.Bad("the ;PR line is written although the password callback reported an error")
				case !chalKnown:
					o.Bad("the ;PR line is not restricted to sessions in which a challenge was received")
				default:
					o.OK("written only when a challenge was received and the callback succeeded; response = secureLoginResponse(challenge, callback(localFW[0]))")
				}
			}
		}
		for _, occ := range prOcc {
			w := occ.write
			r.Check("C16-reply", fnName(w.Parent()), ";PR line format", c.pos(w.Pos()), occ.exact, "line is \";PR: <response>\\r\"", "the ;PR line is formatted "+occ.text)
		}
	}
	// challenge capture
	if fn := c.Func(pkg, "(*Session).readHandshake"); fn != nil {
		// the store may be made by a helper or method below readHandshake, the slice handed back by
		// another helper: parameters bound to the arguments, results per return (ip_h4r3.go)
		found := c16ChallengeCaptured(c, fn)
		r.Check("C16-reply", fnName(fn), "challenge captured from the ;PQ line", c.pos(fn.Pos()), found,
			"SecureChallenge is a slice of the line matched by the ;PQ prefix test", "the secure-login challenge is not taken from the ;PQ line")
	}
	c16Extra(c, r)
	c16Extra4(c, r)
	r.NotCov = append(r.NotCov, "the numeric value of the response for all challenge/password pairs (shift/or loop, sign, decimal formatting)")
}

// c16Extra: rules added after seeded changes.
func c16Extra(c *Ctx, r *Report) {
	const pkg = "fbb"
	// ---- the payload is hashed whole: no fixed-size scratch buffer on the way to md5.Sum
	r.Rule("C16-whole", 1, "the hashed payload is never truncated")
	if fn := c.Func(pkg, "secureLoginResponse"); fn == nil {
		r.Fail("C16-whole", "anchor secureLoginResponse not found")
	} else {
		bad := ""
		for _, ci := range callsTo(fn, false, "builtin.copy") {
			dst := ci.Common().Args[0]
			// backing store of the destination
			fixed := false
			var walk func(v ssa.Value, depth int)
			walk = func(v ssa.Value, depth int) {
				if depth > 6 {
					return
				}
				switch x := v.(type) {
				case *ssa.Slice:
					walk(x.X, depth+1)
				case *ssa.Alloc:
					if _, isArr := x.Type().Underlying().(*types.Pointer).Elem().Underlying().(*types.Array); isArr {
						fixed = true
					}
				case *ssa.MakeSlice:
					if _, isC := constInt(x.Len); isC {
						fixed = true
					}
				case *ssa.Phi:
					for _, e := range x.Edges {
						walk(e, depth+1)
					}
				}
			}
			walk(dst, 0)
			if fixed {
				bad = c.pos(ci.Pos())
			}
		}
		r.Check("C16-whole", fnName(fn), "payload assembled without a fixed-size buffer", c.pos(fn.Pos()), bad == "",
			"challenge, password and salt are joined without a length limit", "the payload is copied into a buffer of constant size at "+bad+": copy truncates silently, so for a long password (more than 56 bytes with an 8-digit challenge) the salt - or part of the password - is cut off before hashing and the response is wrong")
	}

	auxListRule(c, r, "C16-auxlist")

	// ---- a challenge line is recognised before the prompt test (a challenge may end in '>')
	r.Rule("C16-challenge", 1, "the ;PQ line is recognised whatever the challenge looks like")
	if fn := c.Func(pkg, "(*Session).readHandshake"); fn == nil {
		r.Fail("C16-challenge", "anchor readHandshake not found")
	} else {
		// every evaluation of the prompt test in the call tree below readHandshake (ip_h4r3.go)
		c16PromptTests(c, r, fn)
	}
}

// auxListRule: the loop that writes the ;FW line is left only when the list of local addresses is
// exhausted, and every iteration writes the address (or the address|response pair).
func auxListRule(c *Ctx, r *Report, rule string) {
	const pkg = "fbb"
	// ---- every auxiliary address is announced, whatever happens to the others
	r.Rule(rule, 1, "the ;FW line lists every local address")
	if fn := c.Func(pkg, "(*Session).sendHandshake"); fn == nil {
		r.Fail(rule, "anchor sendHandshake not found")
	} else {
		found := false
		anchor := fn
		// the loop may stand in sendHandshake or in a same-package function below it (h4rFrames,
		// ip_h4r3.go); then every call on the way must be made unconditionally
		for _, fr := range h4rFrames(anchor, h4rMaxDepth) {
			fn := fr.fn
			for _, l := range naturalLoops(fn) {
				// the loop that ranges over s.localFW
				ranges := false
				for b := range l.body {
					for _, in := range b.Instrs {
						if ia, ok := in.(*ssa.IndexAddr); ok && strings.HasSuffix(pathOf(ia.X), ".localFW") {
							if len(fr.chain) > 0 && !h4rFieldOf(ia.X, fr.env, anchor.Params[0]) {
								continue // the list of another session object than the one shaking hands
							}
							if _, isPhiIdx := ia.Index.(*ssa.BinOp); isPhiIdx {
								ranges = true
							}
							if _, isPhi := ia.Index.(*ssa.Phi); isPhi {
								ranges = true
							}
						}
					}
				}
				if !ranges {
					continue
				}
				found = true
				o := r.Add(rule, fnName(anchor), "loop over localFW", c.pos(l.header.Instrs[0].Pos()))
				conditional := ""
				for _, site := range fr.chain {
					if len(condsAt(site.Block())) > 0 || reachable(site.Block(), site.Block(), nil) {
						conditional = c.pos(site.Pos())
					}
				}
				// (1) the loop is only left from its header
				early := ""
				for b := range l.body {
					if b == l.header {
						continue
					}
					for _, s := range b.Succs {
						if !l.body[s] {
							if ret, isRet := s.Instrs[len(s.Instrs)-1].(*ssa.Return); isRet && isErrorExit(ret) {
								continue
							}
							early = c.pos(b.Instrs[len(b.Instrs)-1].Pos())
							if early == "-" || early == "" {
								early = c.pos(b.Instrs[0].Pos())
							}
						}
					}
				}
				// (2) every iteration writes something
				writes := map[*ssa.BasicBlock]bool{}
				for b := range l.body {
					for _, in := range b.Instrs {
						if ci, ok := in.(ssa.CallInstruction); ok && (h4PlainWrite[callName(ci.Common())] || h4rAlwaysWrites(ci)) {
							writes[b] = true
						}
					}
				}
				silent := false
				{
					seen := map[*ssa.BasicBlock]bool{}
					var stack []*ssa.BasicBlock
					for _, s := range l.header.Succs {
						if l.body[s] && s != l.header {
							stack = append(stack, s)
						}
					}
					for len(stack) > 0 {
						b := stack[len(stack)-1]
						stack = stack[:len(stack)-1]
						if seen[b] || writes[b] {
							continue
						}
						seen[b] = true
						for _, s := range b.Succs {
							if s == l.header {
								silent = true
							} else if l.body[s] {
								stack = append(stack, s)
							}
						}
					}
				}
				switch {
				case conditional != "":
					o.Bad("the function that writes the ;FW line is called under a condition or repeatedly (%s): the list of local addresses is not announced exactly once in every handshake", conditional)
				case early != "":
					o.Bad("the loop over the local addresses can be left from inside its body (near %s), not only when the list is exhausted: after an auxiliary address whose password is known, the remaining addresses are missing from the ;FW line", early)
				case silent:
					o.Bad("an iteration of the loop over the local addresses can complete without writing anything: that address is missing from the ;FW line")
				default:
					o.OK("the loop ends only when the list is exhausted and every iteration writes the address or the address|response pair")
				}
			}
		}
		if !found {
			r.Add(rule, fnName(fn), "loop over localFW", c.pos(fn.Pos())).Bad("no loop over s.localFW found in sendHandshake (unresolved)")
		}
	}

}
