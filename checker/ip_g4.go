package main

// Interprocedural helpers for the C14 rules (and the Read rule shared with C13): the rules state
// their conditions on roles computed from the code - "the functions the dispatch goroutine runs
// synchronously", "the function that assembles the frame that Write sends", "a receive whose
// value feeds the copy into the caller's buffer" - so that extracting a helper or merging two
// code paths does not change the verdict. Facts lifted to call sites must hold at EVERY call site
// of the helper, with the helper's parameters bound to the actual arguments; whatever cannot be
// enumerated (exported, address-taken, reachable through an interface, a closure) is not lifted
// and the rule stays undecided (= reported).

import (
	"fmt"
	"go/token"
	"go/types"
	"strings"

	"golang.org/x/tools/go/ssa"
)

// ---- call tree ------------------------------------------------------------------------------

// syncTree returns roots plus every function of package pkg that they reach through plain static
// calls (no go, no defer): the code the goroutines running roots execute synchronously.
func (c *Ctx) syncTree(roots []*ssa.Function, pkg string) []*ssa.Function {
	seen := map[*ssa.Function]bool{}
	var out []*ssa.Function
	var visit func(fn *ssa.Function)
	visit = func(fn *ssa.Function) {
		if fn == nil || seen[fn] || fn.Blocks == nil {
			return
		}
		seen[fn] = true
		out = append(out, fn)
		eachInstr(fn, func(_ *ssa.BasicBlock, _ int, in ssa.Instruction) {
			call, ok := in.(*ssa.Call)
			if !ok {
				return
			}
			if callee := call.Call.StaticCallee(); callee != nil && pkgRel(callee) == pkg {
				visit(callee)
			}
		})
	}
	for _, fn := range roots {
		visit(fn)
	}
	return out
}

// calledOnlyFrom: fn satisfies base, or fn is a helper whose call sites can all be enumerated
// (callSites: unexported, never used as a value, not reachable through an interface), there is at
// least one, each is a plain call (not go/defer) and each lies in a function that itself satisfies
// calledOnlyFrom. Recursion among helpers is not accepted.
func (c *Ctx) calledOnlyFrom(fn *ssa.Function, base func(*ssa.Function) bool, onStack map[*ssa.Function]bool) bool {
	if base(fn) {
		return true
	}
	if onStack[fn] || len(onStack) > 6 {
		return false
	}
	sites := c.callSites(fn)
	if len(sites) == 0 {
		return false
	}
	onStack[fn] = true
	defer delete(onStack, fn)
	for _, site := range sites {
		if _, plain := site.(*ssa.Call); !plain {
			return false
		}
		if !c.calledOnlyFrom(site.Parent(), base, onStack) {
			return false
		}
	}
	return true
}

// paramIndexByName resolves the root name of an access path ("msg" of "msg.value") to the parameter of
// fn it denotes: a parameter of that name, provided every local variable of the same name is
// nothing but the spill slot of that parameter (go/ssa moves a parameter into a local when its
// address is taken or a closure captures it). -1 when the name is a genuine local.
func paramIndexByName(fn *ssa.Function, root string) int {
	idx := -1
	for i, p := range fn.Params {
		if p.Name() == root {
			idx = i
		}
	}
	if idx < 0 {
		return -1
	}
	ok := true
	eachInstr(fn, func(_ *ssa.BasicBlock, _ int, in ssa.Instruction) {
		al, isAl := in.(*ssa.Alloc)
		if !isAl || al.Comment != root {
			return
		}
		n := 0
		for _, ref := range *al.Referrers() {
			if st, isSt := ref.(*ssa.Store); isSt && st.Addr == ssa.Value(al) {
				n++
				if st.Val != ssa.Value(fn.Params[idx]) {
					ok = false
				}
			}
		}
		if n != 1 {
			ok = false
		}
	})
	if !ok {
		return -1
	}
	return idx
}

// splitRoot splits an access path into its root name and the rest: "msg.value" -> "msg", ".value".
func splitRoot(path string) (string, string) {
	path = derefPath(path)
	if i := strings.IndexAny(path, ".[("); i >= 0 {
		return path[:i], path[i:]
	}
	return path, ""
}

// paramOfValue: v is parameter i of fn, directly or as a load of its spill slot.
func paramOfValue(fn *ssa.Function, v ssa.Value) int {
	v = origin(v)
	if p, ok := v.(*ssa.Parameter); ok && p.Parent() == fn {
		for i, q := range fn.Params {
			if q == p {
				return i
			}
		}
	}
	if ld, ok := v.(*ssa.UnOp); ok && ld.Op == token.MUL {
		if al, ok := ld.X.(*ssa.Alloc); ok && al.Comment != "" {
			if i := paramIndexByName(fn, al.Comment); i >= 0 && fn.Params[i].Name() == al.Comment {
				return i
			}
		}
	}
	return -1
}

// guardLifted: a branch condition accepted by match for the subject with access path base holds
// at instruction at - in at's own function, or, when base is rooted at a parameter of a helper
// whose call sites can be enumerated, at every call site for the actual argument's path.
func (c *Ctx) guardLifted(at ssa.Instruction, base string, match func(cd Cond, base string) bool, depth int) bool {
	for _, cd := range condsAt(at.Block()) {
		if match(cd, base) {
			return true
		}
	}
	if depth >= 3 {
		return false
	}
	fn := at.Parent()
	root, rest := splitRoot(base)
	idx := paramIndexByName(fn, root)
	if idx < 0 {
		return false
	}
	sites := c.callSites(fn)
	if len(sites) == 0 {
		return false
	}
	for _, site := range sites {
		args := site.Common().Args
		if idx >= len(args) {
			return false
		}
		actual := derefPath(pathOf(args[idx]))
		if actual == "" || !c.guardLifted(site, actual+rest, match, depth+1) {
			return false
		}
	}
	return true
}

// cmdIs matches the condition "<base>.cmd == K" (K a constant command).
func cmdIs(k string) func(cd Cond, base string) bool {
	return func(cd Cond, base string) bool {
		bo, ok := cd.V.(*ssa.BinOp)
		if !ok || bo.Op != token.EQL || !cd.Truth {
			return false
		}
		if s, isS := constString(bo.Y); isS && s == k && pathOf(bo.X) == base+".cmd" {
			return true
		}
		if s, isS := constString(bo.X); isS && s == k && pathOf(bo.Y) == base+".cmd" {
			return true
		}
		return false
	}
}

// methodHolds matches the condition "<base>.<method>()" being true (a boolean method of the
// subject, named by the suffix of the callee's name, e.g. ".dFrame.ARQFrame").
func methodHolds(suffix string) func(cd Cond, base string) bool {
	return func(cd Cond, base string) bool {
		call, ok := cd.V.(*ssa.Call)
		if !ok || !cd.Truth || !strings.HasSuffix(callName(&call.Call), suffix) || len(call.Call.Args) == 0 {
			return false
		}
		return derefPath(pathOf(call.Call.Args[0])) == base
	}
}

// valueLifted: judge accepts the value v used at instruction at, or v is a parameter of a helper
// (all call sites enumerable) and the actual argument is accepted at every call site.
func (c *Ctx) valueLifted(at ssa.Instruction, v ssa.Value, judge func(at ssa.Instruction, v ssa.Value) bool, depth int) bool {
	if judge(at, v) {
		return true
	}
	if depth >= 3 {
		return false
	}
	fn := at.Parent()
	idx := paramOfValue(fn, v)
	if idx < 0 {
		return false
	}
	sites := c.callSites(fn)
	if len(sites) == 0 {
		return false
	}
	for _, site := range sites {
		args := site.Common().Args
		if idx >= len(args) || !c.valueLifted(site, args[idx], judge, depth+1) {
			return false
		}
	}
	return true
}

// msgValueOf: v is the payload of a control message - "<m>.value", an assertion on it, or the
// result of one of the typed accessors of ctrlMsg - and returns the access path of <m>.
func msgValueOf(v ssa.Value) (string, bool) {
	v = origin(v)
	for {
		switch x := v.(type) {
		case *ssa.TypeAssert:
			v = origin(x.X)
			continue
		case *ssa.Convert:
			v = origin(x.X)
			continue
		case *ssa.ChangeType:
			v = origin(x.X)
			continue
		}
		break
	}
	if call, ok := v.(*ssa.Call); ok && len(call.Call.Args) == 1 {
		n := callName(&call.Call)
		for _, m := range []string{".ctrlMsg.Bool", ".ctrlMsg.Int", ".ctrlMsg.State", ".ctrlMsg.String"} {
			if strings.HasSuffix(n, m) {
				return derefPath(pathOf(call.Call.Args[0])), true
			}
		}
		return "", false
	}
	if p := derefPath(pathOf(v)); strings.HasSuffix(p, ".value") {
		return strings.TrimSuffix(p, ".value"), true
	}
	return "", false
}

// isTCPFlag: v is the connection's transport flag - a load of a field named isTCP, or a parameter
// of a helper that receives such a load at every call site.
func (c *Ctx) isTCPFlag(at ssa.Instruction, v ssa.Value) bool {
	return c.valueLifted(at, v, func(_ ssa.Instruction, v ssa.Value) bool {
		v = origin(v)
		switch x := v.(type) {
		case *ssa.UnOp:
			if x.Op != token.MUL {
				return false // e.g. the negation of the flag
			}
		case *ssa.Field:
		default:
			return false
		}
		return strings.HasSuffix(pathOf(v), ".isTCP")
	}, 0)
}

// serialEdge: the instruction runs only when the transport flag is false (serial host interface).
func (c *Ctx) serialEdge(at ssa.Instruction) bool {
	for _, cd := range condsAt(at.Block()) {
		if !cd.Truth && c.isTCPFlag(cd.If, cd.V) {
			return true
		}
	}
	return false
}

// ---- frame assembly (C14-framing) -----------------------------------------------------------

// frameAsm locates the code that assembles the host data frame sent by Write on the data channel.
type frameAsm struct {
	fn   *ssa.Function // assembles the frame in a local bytes.Buffer: Write itself or a helper it calls
	buf  *ssa.Alloc    // that buffer
	call *ssa.Call     // the call of the helper in Write (nil when fn is Write)
	send *ssa.Send     // the send on the data channel
	val  ssa.Value     // the value sent (buf.Bytes() or the helper's result)
	why  string        // set when unresolved
}

func localBuffer(v ssa.Value) *ssa.Alloc {
	al, ok := v.(*ssa.Alloc)
	if !ok {
		return nil
	}
	if pt, ok := al.Type().Underlying().(*types.Pointer); ok && types.TypeString(pt.Elem(), nil) == "bytes.Buffer" {
		return al
	}
	return nil
}

// bufferBytes: v is buf.Bytes() of a bytes.Buffer variable local to v's function.
func bufferBytes(v ssa.Value) *ssa.Alloc {
	call, ok := origin(v).(*ssa.Call)
	if !ok || callName(&call.Call) != "bytes.Buffer.Bytes" {
		return nil
	}
	return localBuffer(call.Call.Args[0])
}

func (c *Ctx) resolveFrameAsm(write *ssa.Function) frameAsm {
	var fa frameAsm
	eachInstr(write, func(_ *ssa.BasicBlock, _ int, in ssa.Instruction) {
		if s, ok := in.(*ssa.Send); ok && strings.HasSuffix(pathOf(s.Chan), ".dataOut") {
			fa.send = s
		}
	})
	if fa.send == nil {
		fa.why = "no send on the data channel found in Write"
		return fa
	}
	fa.val = origin(fa.send.X)
	if buf := bufferBytes(fa.val); buf != nil {
		fa.fn, fa.buf = write, buf
		return fa
	}
	call, ok := fa.val.(*ssa.Call)
	if !ok {
		fa.why = "the frame sent is neither the content of a local buffer nor the result of a helper"
		return fa
	}
	h := call.Call.StaticCallee()
	if h == nil || h.Blocks == nil || pkgRel(h) != pkgRel(write) || len(c.callSites(h)) == 0 {
		fa.why = "the frame sent comes from a call whose callee or call sites cannot be enumerated"
		return fa
	}
	var buf *ssa.Alloc
	for _, ret := range returnsOf(h) {
		if len(ret.Results) != 1 {
			fa.why = "the helper producing the frame returns more than the frame"
			return fa
		}
		b := bufferBytes(ret.Results[0])
		if b == nil || (buf != nil && b != buf) {
			fa.why = "the helper producing the frame does not return the content of one local buffer on every path"
			return fa
		}
		buf = b
	}
	if buf == nil {
		fa.why = "the helper producing the frame never returns"
		return fa
	}
	fa.fn, fa.buf, fa.call = h, buf, call
	return fa
}

// inWrite maps a value of the assembling function to the value it stands for in Write: itself when
// Write assembles the frame, the actual argument when it is a parameter of the helper.
func (fa *frameAsm) inWrite(v ssa.Value) ssa.Value {
	if fa.call == nil {
		return v
	}
	if i := paramOfValue(fa.fn, v); i >= 0 && i < len(fa.call.Call.Args) {
		return fa.call.Call.Args[i]
	}
	return nil
}

// onBuf: the call writes to the frame buffer (receiver of a Buffer method, or the io.Writer handed
// to fmt.Fprint / binary.Write).
func (fa *frameAsm) onBuf(ci ssa.CallInstruction) bool {
	args := ci.Common().Args
	return len(args) > 0 && unwrap(args[0]) == ssa.Value(fa.buf)
}

// ---- minimum content of a local bytes.Buffer (C14-crash) ------------------------------------

var bufferGrowOnly = map[string]bool{
	"bytes.Buffer.Write": true, "bytes.Buffer.WriteString": true, "bytes.Buffer.WriteByte": true, "bytes.Buffer.WriteRune": true,
	"bytes.Buffer.Bytes": true, "bytes.Buffer.Len": true, "bytes.Buffer.String": true, "bytes.Buffer.Cap": true,
	"bytes.Buffer.Grow": true, "bytes.Buffer.Available": true,
}

func fixedSize(t types.Type) int64 {
	b, ok := t.Underlying().(*types.Basic)
	if !ok {
		return 0
	}
	switch b.Kind() {
	case types.Bool, types.Int8, types.Uint8:
		return 1
	case types.Int16, types.Uint16:
		return 2
	case types.Int32, types.Uint32, types.Float32:
		return 4
	case types.Int64, types.Uint64, types.Float64:
		return 8
	}
	return 0
}

// singleConstString: the variadic argument list holds exactly one operand, a constant string.
func singleConstString(args ssa.Value) (string, bool) {
	sl, ok := args.(*ssa.Slice)
	if !ok {
		return "", false
	}
	al, ok := sl.X.(*ssa.Alloc)
	if !ok {
		return "", false
	}
	arr, ok := al.Type().Underlying().(*types.Pointer).Elem().Underlying().(*types.Array)
	if !ok || arr.Len() != 1 {
		return "", false
	}
	s, found, n := "", false, 0
	for _, ref := range *al.Referrers() {
		ia, ok := ref.(*ssa.IndexAddr)
		if !ok {
			continue
		}
		for _, r2 := range *ia.Referrers() {
			if st, ok := r2.(*ssa.Store); ok && st.Addr == ssa.Value(ia) {
				n++
				if k, isS := constString(unwrap(st.Val)); isS {
					s, found = k, true
				}
			}
		}
	}
	return s, found && n == 1
}

// bufferSliceOK discharges  buf.Bytes()[k:]  where buf is a bytes.Buffer variable local to the
// function that is only ever written to (no Reset/Truncate/Read/Next..., never handed to code
// other than its own methods, fmt.Fprint* and binary.Write) and the writes that are executed on
// every path before the Bytes() call put at least k bytes into it.
func bufferSliceOK(sl *ssa.Slice) (bool, string) {
	if sl.High != nil || sl.Max != nil || sl.Low == nil {
		return false, ""
	}
	k, isC := constInt(sl.Low)
	if !isC || k < 0 {
		return false, ""
	}
	bytesCall, ok := sl.X.(*ssa.Call)
	if !ok || callName(&bytesCall.Call) != "bytes.Buffer.Bytes" {
		return false, ""
	}
	buf := localBuffer(bytesCall.Call.Args[0])
	if buf == nil {
		return false, ""
	}
	var total int64
	var parts []string
	sound := true
	count := func(ci ssa.CallInstruction, n int64, what string) {
		in := ci.(ssa.Instruction)
		if _, plain := in.(*ssa.Call); !plain {
			return // go/defer: not executed before the Bytes() call
		}
		if n > 0 && instrDominates(in, bytesCall) {
			total += n
			parts = append(parts, fmt.Sprintf("%s (%d)", what, n))
		}
	}
	var uses func(v ssa.Value, wrapped bool)
	uses = func(v ssa.Value, wrapped bool) {
		for _, ref := range *v.Referrers() {
			switch x := ref.(type) {
			case *ssa.DebugRef:
			case *ssa.MakeInterface:
				if wrapped {
					sound = false
				} else {
					uses(x, true)
				}
			case ssa.CallInstruction:
				args := x.Common().Args
				n := callName(x.Common())
				if x.Common().IsInvoke() || len(args) == 0 || args[0] != v {
					sound = false
					continue
				}
				for _, a := range args[1:] {
					if a == v {
						sound = false
					}
				}
				switch {
				case !wrapped && bufferGrowOnly[n]:
					switch n {
					case "bytes.Buffer.WriteByte":
						count(x, 1, "WriteByte")
					case "bytes.Buffer.WriteString":
						if s, isS := constString(args[1]); isS {
							count(x, int64(len(s)), "WriteString")
						}
					}
				case wrapped && n == "encoding/binary.Write" && len(args) == 3:
					if mi, isMI := args[2].(*ssa.MakeInterface); isMI {
						count(x, fixedSize(mi.X.Type()), "binary.Write of a "+mi.X.Type().String())
					}
				case wrapped && n == "fmt.Fprint" && len(args) == 2:
					if s, isS := singleConstString(args[1]); isS {
						count(x, int64(len(s)), "Fprint of a constant")
					}
				case wrapped && (n == "fmt.Fprintf" || n == "fmt.Fprintln" || n == "fmt.Fprint" || n == "encoding/binary.Write"):
					// grows the buffer by an amount not counted
				default:
					sound = false
				}
			default:
				sound = false
			}
		}
	}
	uses(buf, false)
	if !sound || total < k {
		return false, ""
	}
	return true, fmt.Sprintf("the buffer is local and only ever appended to, and the writes executed on every path before this point put at least %d byte(s) into it: %s", total, strings.Join(parts, ", "))
}

// ---- Read: the kept remainder is served before the next frame is taken (C13/C14-stream) ------

// copySite: a copy into the caller's buffer, seen from the function under analysis.
type copySite struct {
	at  ssa.Instruction // where the source is evaluated: the copy call (or the call site of a helper that copies)
	src ssa.Value       // the source of the copy
}

// remainderServedFirst decides, for a Read that copies into p from the sources of copies and
// keeps the rest of a frame in the receiver's field:
//
//	(a) some copy whose source is the field can run without a frame having been received in this
//	    call (it is not dominated by a receive): a kept remainder is handed out;
//	(b) every receive whose value can reach the source of a copy into p - directly or through the
//	    field - executes only where len(field) == 0 is established (by the branch conditions and
//	    exit guards in force there, for a load of the field not overwritten since): a frame is
//	    taken from the channel only when nothing of the previous one is left.
//
// A copy is given as the instruction of fn at which the source is evaluated (the copy call itself)
// and the source value, so that a caller that finds the copy inside a helper can pass the call
// site and the actual argument instead.
//
// Both the two-path form (serve the remainder and return / receive and copy) and the merged form
// (refill the field when it is empty, then one copy from the field) satisfy this.
func remainderServedFirst(c *Ctx, fn *ssa.Function, copies []copySite, field string) (bool, string) {
	var recvs []ssa.Instruction
	eachInstr(fn, func(_ *ssa.BasicBlock, _ int, in ssa.Instruction) {
		switch x := in.(type) {
		case *ssa.UnOp:
			if x.Op == token.ARROW {
				recvs = append(recvs, x)
			}
		case *ssa.Select:
			for _, st := range x.States {
				if st.Dir == types.RecvOnly {
					recvs = append(recvs, x)
					break
				}
			}
		}
	})
	received := func(r ssa.Instruction, v ssa.Value) bool {
		switch x := r.(type) {
		case *ssa.UnOp:
			if v == ssa.Value(x) && !x.CommaOk {
				return true
			}
			ex, ok := v.(*ssa.Extract)
			return ok && ex.Tuple == ssa.Value(x) && ex.Index == 0
		case *ssa.Select:
			ex, ok := v.(*ssa.Extract)
			return ok && ex.Tuple == ssa.Value(x) && ex.Index >= 2
		}
		return false
	}
	var data []ssa.Instruction
	for _, r := range recvs {
		r := r
		for _, cp := range copies {
			if dependsOn(cp.src, func(v ssa.Value) bool { return received(r, v) }) {
				data = append(data, r)
				break
			}
		}
	}
	if len(data) == 0 {
		return false, "no receive from a channel feeds the copy into p (unresolved)"
	}
	served := false
	for _, cp := range copies {
		if !strings.HasSuffix(pathOf(cp.src), field) {
			continue
		}
		afterRecv := false
		for _, r := range recvs {
			if instrDominates(r, cp.at) {
				afterRecv = true
			}
		}
		if !afterRecv {
			served = true
		}
	}
	if !served {
		return false, "no copy from the kept remainder can run before a frame is taken from the channel: the remainder is never handed out"
	}
	pr := newProver(c)
	for _, r := range data {
		empty := false
		eachInstr(fn, func(_ *ssa.BasicBlock, _ int, in ssa.Instruction) {
			ld, ok := in.(*ssa.UnOp)
			if empty || !ok || ld.Op != token.MUL || !strings.HasSuffix(pathOf(ld), field) || !instrDominates(ld, r) {
				return
			}
			// the load must still denote the field's content at the receive (no store to the field, copy
			// into it or call that may modify it in between), and its length must be proven zero there
			if strings.HasPrefix(pr.keyAt(ld, r), "mem:") && pr.LE(ld, true, 0, nil, false, 0, r) {
				empty = true
			}
		})
		if !empty {
			return false, fmt.Sprintf("the receive at %s can run while a remainder is still kept (len(%s) == 0 is not established there)", c.pos(r.Pos()), strings.TrimPrefix(field, "."))
		}
	}
	return true, ""
}
