package main

// Shape-independent forms of C18-size = C09-sizes (Body header), C09-sizes (File header),
// C09-encoded and C09-charset (see NOTES-ip_i2.md). The necessary conditions are the old ones;
// what changed is where the instructions that establish them may live and in which idiom they
// may be written:
//
//   - the anchored function is examined together with the same-package code it runs through
//     plain calls: functions, methods, local closures (also held in a once-assigned variable)
//     and method values (i2Callee). A value of a callee is rewritten into the terms of its caller
//     as long as it is a parameter, bound to the argument of that very call, or a captured
//     variable, bound where the closure was made (i2Up over an i2Chain);
//   - a string that is put together is decomposed into its parts whatever the idiom: Sprintf with
//     a constant format, concatenation, Itoa/FormatInt/Sprint, a same-package function that returns
//     such a string (i2Parts);
//   - "the function stores the body" is a path condition: every path to a return that can hand
//     back a nil error passes a store, directly or inside a callee that stores on every such path
//     of its own (i2Sizes.summary, i2BackPaths);
//   - a header value "went through QEncoding.Encode" is followed into the results of callees and
//     up through parameters (i2Words.through); the header that plays the role is found by its
//     constant key below the anchored function (i2Words.sinks);
//   - floors count roles, not call sites: a de-duplicated helper has one Encode for two roles.
//
// Nothing is keyed on the name of a helper. Whatever cannot be resolved is not established, and
// the rule that asked reports.

import (
	"fmt"
	"go/token"
	"go/types"
	"sort"
	"strings"

	"golang.org/x/tools/go/ssa"
)

const i2MaxDepth = 4 // calls followed below the anchored function (a method value costs two)

// ---- call chains ------------------------------------------------------------------------------

// i2Link is one call on the way down from the anchored function, with the function it runs.
type i2Link struct {
	site   ssa.CallInstruction
	callee *ssa.Function
}

// i2Chain lists the calls from the anchored function down to the function a value lives in
// (empty: the anchored function itself).
type i2Chain []i2Link

func (ch i2Chain) push(site ssa.CallInstruction, callee *ssa.Function) i2Chain {
	out := make(i2Chain, len(ch)+1)
	copy(out, ch)
	out[len(ch)] = i2Link{site, callee}
	return out
}

// runs: fn is already being executed on this chain (recursion is not followed).
func (ch i2Chain) runs(fn *ssa.Function) bool {
	for _, l := range ch {
		if l.callee == fn || l.site.Parent() == fn {
			return true
		}
	}
	return false
}

func i2TypesPkg(fn *ssa.Function) *types.Package {
	r := rootFn(fn)
	if r == nil {
		return nil
	}
	if r.Pkg != nil {
		return r.Pkg.Pkg
	}
	if o := r.Object(); o != nil {
		return o.Pkg()
	}
	return nil
}

// i2Callee: the same-package code a plain call runs, when that is known statically: a function or
// method, a local closure (called directly or through a variable that is assigned exactly once),
// or the wrapper go/ssa builds for a method value `f := x.method` of a same-package method (its
// body is the call of the method with the bound receiver). nil for deferred and spawned calls,
// interface calls, function values that are passed around, other packages.
func i2Callee(site ssa.CallInstruction) *ssa.Function {
	if _, plain := site.(*ssa.Call); !plain {
		return nil
	}
	com := site.Common()
	if com.IsInvoke() {
		return nil
	}
	h := g9LocalFunc(com)
	if h == nil || h == site.Parent() || len(h.Blocks) == 0 || len(h.Params) != len(com.Args) {
		return nil
	}
	if h.Synthetic != "" && !strings.HasSuffix(h.Name(), "$bound") {
		return nil
	}
	p, q := i2TypesPkg(h), i2TypesPkg(site.Parent())
	if p == nil || p != q {
		return nil
	}
	return h
}

// i2ClosureAt: the closure value a call site calls (directly, or loaded from a once-assigned
// local variable).
func i2ClosureAt(site ssa.CallInstruction) *ssa.MakeClosure {
	v := site.Common().Value
	if mc, ok := v.(*ssa.MakeClosure); ok {
		return mc
	}
	ld, ok := v.(*ssa.UnOp)
	if !ok || ld.Op != token.MUL {
		return nil
	}
	al := g9SlotOf(ld.X)
	if al == nil || g9StoreCount(al) != 1 {
		return nil
	}
	for _, ref := range *al.Referrers() {
		if st, ok := ref.(*ssa.Store); ok && st.Addr == ssa.Value(al) {
			if mc, ok := st.Val.(*ssa.MakeClosure); ok {
				return mc
			}
		}
	}
	return nil
}

// i2Binding: what the free variable fv of the closure entered through the last link of chain is
// bound to, as a value of the calling function (which must be the function that made the closure).
func i2Binding(fv *ssa.FreeVar, chain i2Chain) (ssa.Value, i2Chain, bool) {
	if len(chain) == 0 {
		return nil, nil, false
	}
	top := chain[len(chain)-1]
	h := fv.Parent()
	if top.callee != h {
		return nil, nil, false
	}
	idx := -1
	for i, x := range h.FreeVars {
		if x == fv {
			idx = i
		}
	}
	mc := i2ClosureAt(top.site)
	if mc == nil || idx < 0 || mc.Fn != ssa.Value(h) || idx >= len(mc.Bindings) || mc.Parent() != top.site.Parent() {
		return nil, nil, false
	}
	return mc.Bindings[idx], chain[:len(chain)-1], true
}

// i2Up rewrites v, a value of the function entered through the last link of chain, into the terms
// of the callers for as long as it is a parameter (bound to the argument of that very call), a
// bound receiver of a method value, or a load of a captured variable that is assigned exactly once
// (bound where the closure was made). It returns the value and the chain it lives in.
func i2Up(v ssa.Value, chain i2Chain) (ssa.Value, i2Chain) {
	for i := 0; i < 16; i++ {
		v = origin(v)
		switch x := v.(type) {
		case *ssa.Parameter:
			if len(chain) == 0 {
				return v, chain
			}
			top := chain[len(chain)-1]
			if top.callee != x.Parent() {
				return v, chain
			}
			a := g9ParamArg(x, top.site)
			if a == nil {
				return v, chain
			}
			v, chain = a, chain[:len(chain)-1]
		case *ssa.FreeVar:
			b, ch, ok := i2Binding(x, chain)
			if !ok {
				return v, chain
			}
			v, chain = b, ch
		case *ssa.UnOp:
			if x.Op != token.MUL {
				return v, chain
			}
			fv, ok := x.X.(*ssa.FreeVar)
			if !ok {
				return v, chain
			}
			b, ch, ok := i2Binding(fv, chain)
			if !ok {
				return v, chain
			}
			al, ok := b.(*ssa.Alloc)
			if !ok || g9StoreCount(al) != 1 {
				return v, chain
			}
			var val ssa.Value
			for _, ref := range *al.Referrers() {
				if st, ok := ref.(*ssa.Store); ok && st.Addr == ssa.Value(al) {
					val = st.Val
				}
			}
			if val == nil {
				return v, chain
			}
			v, chain = val, ch
		default:
			return v, chain
		}
	}
	return v, chain
}

// i2ConstString folds v to a constant string: a constant, a concatenation of such, or a parameter
// bound to one through chain.
func i2ConstString(v ssa.Value, chain i2Chain) (string, bool) {
	return i2constString(v, chain, 0)
}

func i2constString(v ssa.Value, chain i2Chain, depth int) (string, bool) {
	if depth > 8 {
		return "", false
	}
	v, chain = i2Up(v, chain)
	switch x := v.(type) {
	case *ssa.Const:
		return constString(x)
	case *ssa.BinOp:
		if x.Op == token.ADD {
			a, ok := i2constString(x.X, chain, depth+1)
			if !ok {
				return "", false
			}
			b, ok := i2constString(x.Y, chain, depth+1)
			return a + b, ok
		}
	}
	return "", false
}

// i2SameVal: two values of one function denote the same value (identity, or a variable slot and
// the value it holds).
func i2SameVal(x, y ssa.Value) bool {
	if x == nil || y == nil {
		return false
	}
	return x == y || origin(x) == origin(y) || sameSlotValue(x, y)
}

// i2Walk visits every instruction of root and of the same-package code it runs through plain
// calls (i2Callee), top-down, with the chain of calls that leads there. Deterministic order.
func i2Walk(root *ssa.Function, visit func(in ssa.Instruction, chain i2Chain)) {
	var walk func(g *ssa.Function, chain i2Chain)
	walk = func(g *ssa.Function, chain i2Chain) {
		eachInstr(g, func(_ *ssa.BasicBlock, _ int, in ssa.Instruction) {
			visit(in, chain)
			if ci, ok := in.(ssa.CallInstruction); ok && len(chain) < i2MaxDepth {
				if h := i2Callee(ci); h != nil && h != root && !chain.runs(h) {
					walk(h, chain.push(ci, h))
				}
			}
		})
	}
	walk(root, nil)
}

// ---- fields -------------------------------------------------------------------------------------

// i2FieldAddr: addr is the address of field `field` of a struct type named typ.
func i2FieldAddr(addr ssa.Value, typ, field string) *ssa.FieldAddr {
	fa, ok := addr.(*ssa.FieldAddr)
	if !ok {
		return nil
	}
	t := fa.X.Type()
	if p, ok := t.Underlying().(*types.Pointer); ok {
		t = p.Elem()
	}
	n, _ := types.Unalias(t).(*types.Named)
	if n == nil || n.Obj().Name() != typ || fieldName(fa.X.Type(), fa.Field) != field {
		return nil
	}
	return fa
}

// i2FieldLoad: v is a load of field `field` of a struct named typ; returns the struct pointer.
func i2FieldLoad(v ssa.Value, typ, field string) ssa.Value {
	ld, ok := v.(*ssa.UnOp)
	if !ok || ld.Op != token.MUL {
		return nil
	}
	if fa := i2FieldAddr(ld.X, typ, field); fa != nil {
		return fa.X
	}
	return nil
}

// ---- strings put together -----------------------------------------------------------------------

const (
	i2Lit   = iota // constant text
	i2Dec          // an integer printed in decimal (%d, Itoa, FormatInt(x, 10), Sprint(x))
	i2Str          // a string inserted as it is (%s, %v of a string, operand of +)
	i2Other        // anything else (other verbs, operands that are not plain strings/integers)
)

// i2Part is one piece of a string value: constant text, or a value (living in chain) with the way
// it is rendered.
type i2Part struct {
	kind  int
	lit   string
	v     ssa.Value
	chain i2Chain
}

func i2IsInt(t types.Type) bool {
	b, ok := t.Underlying().(*types.Basic)
	return ok && b.Info()&types.IsInteger != 0
}

// i2PlainString: the predeclared string type (a named string type may have a String method that
// %s and %v would call).
func i2PlainString(t types.Type) bool {
	b, ok := types.Unalias(t).(*types.Basic)
	return ok && b.Info()&types.IsString != 0
}

// i2Parts decomposes the string v into the pieces it is put together from. A value that is not
// recognisably assembled is one i2Str piece (itself).
func i2Parts(v ssa.Value, chain i2Chain) []i2Part {
	raw := i2parts(v, chain, 0)
	var out []i2Part
	for _, p := range raw {
		if p.kind == i2Lit {
			if p.lit == "" {
				continue
			}
			if n := len(out); n > 0 && out[n-1].kind == i2Lit {
				out[n-1].lit += p.lit
				continue
			}
		}
		out = append(out, p)
	}
	return out
}

func i2parts(v ssa.Value, chain i2Chain, depth int) []i2Part {
	v, chain = i2Up(v, chain)
	if mi, ok := v.(*ssa.MakeInterface); ok {
		return i2parts(mi.X, chain, depth+1)
	}
	opaque := []i2Part{{kind: i2Str, v: v, chain: chain}}
	if !i2PlainString(v.Type()) {
		opaque[0].kind = i2Other
		return opaque
	}
	if depth > 8 {
		return opaque
	}
	dec := func(x ssa.Value) []i2Part { return []i2Part{{kind: i2Dec, v: x, chain: chain}} }
	switch x := v.(type) {
	case *ssa.Const:
		if s, ok := constString(x); ok {
			return []i2Part{{kind: i2Lit, lit: s}}
		}
	case *ssa.BinOp:
		if x.Op == token.ADD {
			return append(i2parts(x.X, chain, depth+1), i2parts(x.Y, chain, depth+1)...)
		}
	case *ssa.Call:
		args := x.Call.Args
		switch callName(&x.Call) {
		case "strconv.Itoa":
			return dec(args[0])
		case "strconv.FormatInt", "strconv.FormatUint":
			if base, ok := constInt(args[1]); ok && base == 10 {
				return dec(args[0])
			}
			return []i2Part{{kind: i2Other, v: args[0], chain: chain}}
		case "fmt.Sprint":
			if ops, ok := i2Variadic(args[0]); ok && len(ops) == 1 {
				op := ops[0]
				if mi, ok := op.(*ssa.MakeInterface); ok {
					op = mi.X
				}
				if _, basic := types.Unalias(op.Type()).(*types.Basic); basic && i2IsInt(op.Type()) {
					return dec(op)
				}
				if i2PlainString(op.Type()) {
					return i2parts(op, chain, depth+1)
				}
			}
			return opaque
		case "fmt.Sprintf":
			if ps, ok := i2Format(x, chain, depth); ok {
				return ps
			}
			return opaque
		}
		if h := i2Callee(x); h != nil && len(chain) < i2MaxDepth && !chain.runs(h) {
			if rets := returnsOf(h); len(rets) == 1 && len(rets[0].Results) == 1 {
				return i2parts(rets[0].Results[0], chain.push(x, h), depth+1)
			}
		}
	}
	return opaque
}

// i2Variadic: the operands of a variadic call (none when the slice is a nil constant).
func i2Variadic(v ssa.Value) ([]ssa.Value, bool) {
	if isNilConst(v) {
		return nil, true
	}
	return variadicArgs(v)
}

// i2Format decomposes fmt.Sprintf(constant format, operands...): %d of an integer is a decimal
// piece, %s/%v of a plain string a verbatim piece, %v of a plain integer a decimal piece; any other
// verb is an i2Other piece. Flags, widths and operand mismatches are not decomposed.
func i2Format(call *ssa.Call, chain i2Chain, depth int) ([]i2Part, bool) {
	format, ok := i2ConstString(call.Call.Args[0], chain)
	if !ok || len(call.Call.Args) < 2 {
		return nil, false
	}
	ops, ok := i2Variadic(call.Call.Args[1])
	if !ok {
		return nil, false
	}
	var out []i2Part
	lit := ""
	k := 0
	for i := 0; i < len(format); i++ {
		if format[i] != '%' {
			lit += string(format[i])
			continue
		}
		i++
		if i >= len(format) {
			return nil, false
		}
		verb := format[i]
		if verb == '%' {
			lit += "%"
			continue
		}
		if !(verb >= 'a' && verb <= 'z' || verb >= 'A' && verb <= 'Z') || k >= len(ops) {
			return nil, false
		}
		op := ops[k]
		k++
		if mi, ok := op.(*ssa.MakeInterface); ok {
			op = mi.X
		}
		out = append(out, i2Part{kind: i2Lit, lit: lit})
		lit = ""
		_, basic := types.Unalias(op.Type()).(*types.Basic)
		switch {
		case verb == 'd' && i2IsInt(op.Type()), verb == 'v' && basic && i2IsInt(op.Type()):
			out = append(out, i2Part{kind: i2Dec, v: op, chain: chain})
		case (verb == 's' || verb == 'v') && i2PlainString(op.Type()):
			out = append(out, i2parts(op, chain, depth+1)...)
		default:
			out = append(out, i2Part{kind: i2Other, v: op, chain: chain})
		}
	}
	if k != len(ops) {
		return nil, false
	}
	out = append(out, i2Part{kind: i2Lit, lit: lit})
	return out, true
}

// i2LenOperand: v is len(x), possibly converted to an integer type that holds every int; returns x.
func i2LenOperand(v ssa.Value) ssa.Value {
	for {
		switch x := v.(type) {
		case *ssa.Convert:
			b, ok := x.Type().Underlying().(*types.Basic)
			if !ok {
				return nil
			}
			switch b.Kind() {
			case types.Int, types.Int64, types.Uint, types.Uint64:
				v = x.X
				continue
			}
			return nil
		case *ssa.ChangeType:
			v = x.X
			continue
		case *ssa.Call:
			if callName(&x.Call) == "builtin.len" {
				return x.Call.Args[0]
			}
		}
		return nil
	}
}

// ---- paths --------------------------------------------------------------------------------------

// i2EveryPath: every path from the entry of fn to instruction to passes an instruction for which
// barrier holds.
func i2EveryPath(fn *ssa.Function, to ssa.Instruction, barrier func(ssa.Instruction) bool) bool {
	if len(fn.Blocks) == 0 {
		return false
	}
	seen := map[*ssa.BasicBlock]bool{}
	var scan func(b *ssa.BasicBlock) bool
	scan = func(b *ssa.BasicBlock) bool {
		if seen[b] {
			return true
		}
		seen[b] = true
		for _, in := range b.Instrs {
			if barrier(in) {
				return true
			}
			if in == to {
				return false
			}
		}
		for _, s := range b.Succs {
			if !scan(s) {
				return false
			}
		}
		return true
	}
	return scan(fn.Blocks[0])
}

// i2NilFact reads a branch condition as a nil test: the value tested and whether it is nil on
// the edge taken when the condition has the given truth.
func i2NilFact(cond ssa.Value, truth bool) (ssa.Value, bool, bool) {
	for {
		u, ok := cond.(*ssa.UnOp)
		if !ok || u.Op != token.NOT {
			break
		}
		cond, truth = u.X, !truth
	}
	b, ok := cond.(*ssa.BinOp)
	if !ok || (b.Op != token.EQL && b.Op != token.NEQ) {
		return nil, false, false
	}
	var other ssa.Value
	switch {
	case isNilConst(b.Y):
		other = b.X
	case isNilConst(b.X):
		other = b.Y
	default:
		return nil, false, false
	}
	return origin(other), (b.Op == token.EQL) == truth, true
}

// i2FreshError: v is an error that is never nil (made on the spot, or a package-level variable).
func i2FreshError(v ssa.Value) bool {
	switch x := v.(type) {
	case *ssa.Call:
		n := callName(&x.Call)
		return n == "errors.New" || n == "fmt.Errorf"
	case *ssa.UnOp:
		_, ok := x.X.(*ssa.Global)
		return ok && x.Op == token.MUL
	case *ssa.MakeInterface:
		return true
	}
	return false
}

// i2BackPaths walks backwards from the return ret over every path that can end there with the
// tracked result v (the error handed back; nil = not tracked, every path counts) being nil, and
// reports whether each of them passes an instruction for which covered holds. A path is dropped
// when it crosses the non-nil edge of a nil test of the value returned, or returns an error made
// on the spot. covered is also told which values are known to be nil at that point of the path
// (nil edges crossed later on the way to the return).
func i2BackPaths(ret *ssa.Return, v ssa.Value, covered func(in ssa.Instruction, v ssa.Value, nils []ssa.Value) bool) bool {
	type key struct {
		b    *ssa.BasicBlock
		v    ssa.Value
		nils string
	}
	nilKey := func(nils []ssa.Value) string {
		var s []string
		for _, x := range nils {
			s = append(s, x.Name())
		}
		sort.Strings(s)
		return strings.Join(s, ",")
	}
	seen := map[key]bool{}
	var up func(b *ssa.BasicBlock, idx int, v ssa.Value, nils []ssa.Value) bool
	up = func(b *ssa.BasicBlock, idx int, v ssa.Value, nils []ssa.Value) bool {
		for i := idx - 1; i >= 0; i-- {
			in := b.Instrs[i]
			if covered(in, v, nils) {
				return true
			}
			if _, isPhi := in.(*ssa.Phi); !isPhi && v != nil {
				if val, ok := in.(ssa.Value); ok && val == v {
					v = nil // above its definition the value says nothing
				}
			}
		}
		if len(b.Preds) == 0 {
			return false
		}
		k := key{b, v, nilKey(nils)}
		if seen[k] {
			return true
		}
		seen[k] = true
		for j, p := range b.Preds {
			v2, nils2 := v, nils
			if ph, ok := v.(*ssa.Phi); ok && ph.Block() == b {
				v2 = origin(ph.Edges[j])
			}
			if ifi, ok := p.Instrs[len(p.Instrs)-1].(*ssa.If); ok && p.Succs[0] != p.Succs[1] {
				if x, isNil, ok := i2NilFact(ifi.Cond, p.Succs[0] == b); ok {
					if isNil {
						if len(nils2) < 6 {
							nils2 = append(append([]ssa.Value(nil), nils2...), x)
						}
					} else {
						if v2 != nil && x == v2 {
							continue // this path returns a non-nil error
						}
						contradiction := false
						for _, n := range nils2 {
							if n == x {
								contradiction = true
							}
						}
						if contradiction {
							continue
						}
					}
				}
			}
			if v2 != nil && i2FreshError(v2) {
				continue
			}
			if !up(p, len(p.Instrs), v2, nils2) {
				return false
			}
		}
		return true
	}
	if v != nil {
		v = origin(v)
		if i2FreshError(v) {
			return true
		}
		if ld, ok := v.(*ssa.UnOp); ok && ld.Op == token.MUL {
			v = nil // a result that lives in memory: not tracked
		}
	}
	return up(ret.Block(), instrIndex(ret), v, nil)
}

func i2ErrorType(t types.Type) bool {
	return types.Identical(t, types.Universe.Lookup("error").Type())
}

// i2ErrResultOf: the value of ret's last result when that is of type error.
func i2ErrResultOf(ret *ssa.Return) ssa.Value {
	if n := len(ret.Results); n > 0 && i2ErrorType(ret.Results[n-1].Type()) {
		return ret.Results[n-1]
	}
	return nil
}

// ---- C18-size / C09-sizes: the Body header -------------------------------------------------------

// i2Sizes decides the Body-header rule for the anchored function (SetBodyWithCharset) and the
// same-package code it runs.
type i2Sizes struct {
	anchor    *ssa.Function
	recv      ssa.Value // the message whose body the anchored function sets
	hasStore  map[*ssa.Function]bool
	anyMarked bool // some store is matched by a decimal-length update of the Body header
}

// i2StoreSite is a store to Message.body with every chain of calls that leads to its function.
type i2StoreSite struct {
	st     *ssa.Store
	base   ssa.Value // the *Message stored into (a value of st.Parent())
	chains []i2Chain
}

func newI2Sizes(anchor *ssa.Function) *i2Sizes {
	a := &i2Sizes{anchor: anchor, hasStore: map[*ssa.Function]bool{}}
	if len(anchor.Params) > 0 {
		a.recv = anchor.Params[0]
	}
	return a
}

// i2BodyStore: in stores to the body field of a Message; returns the store and the message.
func i2BodyStore(in ssa.Instruction) (*ssa.Store, ssa.Value) {
	st, ok := in.(*ssa.Store)
	if !ok {
		return nil, nil
	}
	if fa := i2FieldAddr(st.Addr, "Message", "body"); fa != nil {
		return st, fa.X
	}
	return nil, nil
}

// stores lists the stores to Message.body in the anchored function and below it.
func (a *i2Sizes) stores() []*i2StoreSite {
	var out []*i2StoreSite
	i2Walk(a.anchor, func(in ssa.Instruction, chain i2Chain) {
		st, base := i2BodyStore(in)
		if st == nil {
			return
		}
		for _, s := range out {
			if s.st == st {
				s.chains = append(s.chains, chain)
				return
			}
		}
		out = append(out, &i2StoreSite{st: st, base: base, chains: []i2Chain{chain}})
	})
	return out
}

// writesBody: fn, or same-package code it runs, contains a store to Message.body.
func (a *i2Sizes) writesBody(fn *ssa.Function) bool {
	if v, ok := a.hasStore[fn]; ok {
		return v
	}
	a.hasStore[fn] = true // recursion: assume the worst
	found := false
	i2Walk(fn, func(in ssa.Instruction, _ i2Chain) {
		if st, _ := i2BodyStore(in); st != nil {
			found = true
		}
	})
	a.hasStore[fn] = found
	return found
}

// onlyWrite: apart from instruction at (a store, or the call that stands for one) nothing in g
// writes a message body.
func (a *i2Sizes) onlyWrite(g *ssa.Function, at ssa.Instruction) bool {
	ok := true
	eachInstr(g, func(_ *ssa.BasicBlock, _ int, in ssa.Instruction) {
		if in == at {
			return
		}
		if st, _ := i2BodyStore(in); st != nil {
			ok = false
		}
		if ci, isCall := in.(ssa.CallInstruction); isCall {
			if h := i2Callee(ci); h != nil && a.writesBody(h) {
				ok = false
			}
		}
	})
	return ok
}

// i2HeaderOwner: v is the Header field of a message; returns the message.
func i2HeaderOwner(v ssa.Value) ssa.Value {
	return i2FieldLoad(origin(v), "Message", "Header")
}

// i2SameAt: value x of the function entered through xch and value y of the function entered
// through ych denote the same value once both are rewritten into the terms of the callers as far
// as they are parameters or captured variables (both chains start at the anchored function).
func i2SameAt(x ssa.Value, xch i2Chain, y ssa.Value, ych i2Chain) bool {
	xv, xc := i2Up(x, xch)
	yv, yc := i2Up(y, ych)
	if len(xc) != len(yc) {
		return false
	}
	for i := range xc {
		if xc[i].site != yc[i].site {
			return false
		}
	}
	return i2SameVal(xv, yv)
}

// i2Write is a write of val into the body of message base (values of the function entered through
// ctx), seen as instruction at of function g, which is entered through gctx: the store itself, or
// - when the store lives in a helper - a call on the way to it (gctx is then a prefix of ctx).
type i2Write struct {
	g         *ssa.Function
	gctx      i2Chain
	at        ssa.Instruction
	base, val ssa.Value
	ctx       i2Chain
}

// updates: the call ci, made in the function entered through rel (relative to w.g), sets the Body
// header of the message written to the decimal length of the value written: a direct
// Header.Set(Body, <decimal of len(val)>) - message, key and value compared after binding
// parameters to the arguments of the calls that lead there -, also with the length read back from
// the body field when the write is the only one and precedes the read; or a call of same-package
// code that performs such an update on every path to each of its returns.
func (a *i2Sizes) updates(ci ssa.CallInstruction, rel i2Chain, w i2Write) bool {
	com := ci.Common()
	abs := append(append(i2Chain(nil), w.gctx...), rel...)
	// the instruction of w.g that executes ci
	inG := ssa.Instruction(ci)
	if len(rel) > 0 {
		inG = rel[0].site
	}
	if inG == w.at {
		return false
	}
	if callName(com) == "fbb.Header.Set" && len(com.Args) == 3 {
		if k, ok := i2ConstString(com.Args[1], abs); !ok || k != "Body" {
			return false
		}
		owner, och := i2Up(com.Args[0], abs)
		owner = i2HeaderOwner(owner)
		if owner == nil || !i2SameAt(owner, och, w.base, w.ctx) {
			return false
		}
		ps := i2Parts(com.Args[2], abs)
		if len(ps) != 1 || ps[0].kind != i2Dec {
			return false
		}
		n, nch := i2Up(ps[0].v, ps[0].chain)
		x := i2LenOperand(n)
		if x == nil {
			return false
		}
		if i2SameAt(x, nch, w.val, w.ctx) {
			return true
		}
		// len(m.body) read back: after the write, which is the only one around
		ld, isLoad := origin(x).(*ssa.UnOp)
		if m := i2FieldLoad(origin(x), "Message", "body"); isLoad && m != nil && i2SameAt(m, nch, w.base, w.ctx) {
			after := false
			switch {
			case ld.Parent() == w.g && len(nch) == len(w.gctx):
				after = instrDominates(w.at, ld)
			case len(nch) > len(w.gctx):
				after = instrDominates(w.at, inG)
			}
			return after && a.onlyWrite(w.g, w.at) && (len(rel) == 0 || !a.writesBody(rel[0].callee))
		}
		return false
	}
	h := i2Callee(ci)
	if h == nil || len(rel) >= 3 || abs.runs(h) || h == w.g {
		return false
	}
	sub := rel.push(ci, h)
	var marks []ssa.Instruction
	for _, k := range allCalls(h) {
		if a.updates(k, sub, w) {
			marks = append(marks, k)
		}
	}
	if len(marks) == 0 {
		return false
	}
	rets := returnsOf(h)
	for _, ret := range rets {
		if !i2EveryPath(h, ret, func(in ssa.Instruction) bool {
			for _, m := range marks {
				if m == in {
					return true
				}
			}
			return false
		}) {
			return false
		}
	}
	return len(rets) > 0
}

// followed: on every path of w.g through the write to a return, the Body header of the message
// written is set to the length of the value written.
func (a *i2Sizes) followed(w i2Write) bool {
	var marks []ssa.CallInstruction
	for _, ci := range allCalls(w.g) {
		if a.updates(ci, nil, w) {
			marks = append(marks, ci)
		}
	}
	if len(marks) > 0 {
		a.anyMarked = true
	}
	for _, ret := range returnsOf(w.g) {
		if !instrReaches(w.at, ret) {
			continue
		}
		if !g8FollowedOrPreceded(w.at, ret, marks) {
			return false
		}
	}
	return true
}

// storeOK: for every chain of calls that leads to the store, the store is followed by the update
// in its own function or - when it lives in a helper - the call that leads to it is, in one of the
// callers on that chain; message and value are bound to the arguments of those very calls.
func (a *i2Sizes) storeOK(s *i2StoreSite) bool {
	g := s.st.Parent()
	for _, ch := range s.chains {
		ok := a.followed(i2Write{g: g, gctx: ch, at: s.st, base: s.base, val: s.st.Val, ctx: ch})
		for k := len(ch) - 1; k >= 0 && !ok; k-- {
			ok = a.followed(i2Write{g: ch[k].site.Parent(), gctx: ch[:k], at: ch[k].site, base: s.base, val: s.st.Val, ctx: ch})
		}
		if !ok {
			return false
		}
	}
	return len(s.chains) > 0
}

// summary of the function g entered through chain: always = every path to every return passes a
// store to the body of the anchored function's message; whenNil = every path to a return on which
// the error handed back can be nil does.
func (a *i2Sizes) summary(g *ssa.Function, chain i2Chain) (always, whenNil bool) {
	type ev struct {
		always bool
		err    ssa.Value // whenNil only: the callee's error result at this call
	}
	events := map[ssa.Instruction]ev{}
	eachInstr(g, func(_ *ssa.BasicBlock, _ int, in ssa.Instruction) {
		if st, base := i2BodyStore(in); st != nil {
			if b, ch := i2Up(base, chain); len(ch) == 0 && (i2SameVal(b, a.recv) || paramIndex(a.anchor, b) == 0) {
				events[in] = ev{always: true}
			}
			return
		}
		ci, ok := in.(*ssa.Call)
		if !ok || len(chain) >= i2MaxDepth {
			return
		}
		h := i2Callee(ci)
		if h == nil || h == a.anchor || chain.runs(h) || !a.writesBody(h) {
			return
		}
		al, wn := a.summary(h, chain.push(ci, h))
		switch {
		case al:
			events[in] = ev{always: true}
		case wn:
			if e := errResult(ci); e != nil {
				events[in] = ev{err: e}
			}
		}
	})
	always, whenNil = true, true
	rets := returnsOf(g)
	if len(rets) == 0 {
		return false, false
	}
	for _, ret := range rets {
		if !i2BackPaths(ret, nil, func(in ssa.Instruction, _ ssa.Value, _ []ssa.Value) bool { return events[in].always }) {
			always = false
		}
		res := i2ErrResultOf(ret)
		if res == nil {
			continue
		}
		if !i2BackPaths(ret, res, func(in ssa.Instruction, v ssa.Value, nils []ssa.Value) bool {
			e, ok := events[in]
			if !ok {
				return false
			}
			if e.always {
				return true
			}
			if v != nil && e.err == v {
				return true
			}
			for _, n := range nils {
				if n == e.err {
					return true
				}
			}
			return false
		}) {
			whenNil = false
		}
	}
	if g.Signature.Results().Len() == 0 || !i2ErrorType(g.Signature.Results().At(g.Signature.Results().Len()-1).Type()) {
		whenNil = always
	}
	return always, whenNil
}

// i2CharsetUses (C18-label): the charsets handed to StringToBody and the values stored under the
// key "charset" of a map (the parameter of Content-Type) in fn and the same-package code it runs,
// each rewritten into the terms of the callers as far as it is a parameter.
func i2CharsetUses(fn *ssa.Function) (useds, labels []ssa.Value) {
	i2Walk(fn, func(in ssa.Instruction, chain i2Chain) {
		switch x := in.(type) {
		case ssa.CallInstruction:
			if callName(x.Common()) == "fbb.StringToBody" && len(x.Common().Args) == 2 {
				v, _ := i2Up(x.Common().Args[1], chain)
				useds = append(useds, v)
			}
		case *ssa.MapUpdate:
			if k, _ := i2ConstString(x.Key, chain); k == "charset" {
				v, _ := i2Up(x.Value, chain)
				labels = append(labels, v)
			}
		}
	})
	return useds, labels
}

// ---- C09: word-encoded header values -------------------------------------------------------------

// i2Words decides the rules about Q-encoded header values (C09-encoded, C09-charset, the File
// header of C09-sizes) for package pkg.
type i2Words struct {
	c   *Ctx
	pkg string
}

// i2Sink is a Header.Set / Header.Add call in the anchored function or below it.
type i2Sink struct {
	call  ssa.CallInstruction
	chain i2Chain
	keyed bool // its key is the constant that was asked for
}

// i2Val is a value with the chain of calls that leads to the function it lives in.
type i2Val struct {
	v     ssa.Value
	chain i2Chain
}

func i2IsEncode(com *ssa.CallCommon) bool { return callName(com) == "mime.WordEncoder.Encode" }

// i2EncodeArgs: charset label and text operand of a QEncoding.Encode call (a method value has no
// receiver among its arguments).
func i2EncodeArgs(com *ssa.CallCommon) (label, text ssa.Value, ok bool) {
	n := len(com.Args)
	if n < 2 {
		return nil, nil, false
	}
	return com.Args[n-2], com.Args[n-1], true
}

// sinks lists the Header.Set/Add calls in root and below it; keyed tells whether the key folds to
// the given constant.
func (w *i2Words) sinks(root *ssa.Function, key string) []i2Sink {
	var out []i2Sink
	i2Walk(root, func(in ssa.Instruction, chain i2Chain) {
		ci, ok := in.(ssa.CallInstruction)
		if !ok || len(ci.Common().Args) != 3 {
			return
		}
		if n := callName(ci.Common()); n != "fbb.Header.Set" && n != "fbb.Header.Add" {
			return
		}
		k, ok := i2ConstString(ci.Common().Args[1], chain)
		out = append(out, i2Sink{ci, chain, ok && k == key})
	})
	return out
}

// through: on every path the value v is the result of QEncoding.Encode - directly, as the result
// of same-package code every return of which hands back such a result, or as a parameter bound to
// such an argument at the call that leads here. The Encode calls passed are added to passed.
func (w *i2Words) through(v ssa.Value, chain i2Chain, passed map[*ssa.Call]bool) bool {
	type key struct {
		v    ssa.Value
		site ssa.CallInstruction
	}
	seen := map[key]bool{}
	var walk func(v ssa.Value, chain i2Chain, d int) bool
	call := func(k *ssa.Call, idx int, chain i2Chain, d int) bool {
		if i2IsEncode(&k.Call) {
			if passed != nil {
				passed[k] = true
			}
			return true
		}
		h := i2Callee(k)
		if h == nil || len(chain) >= i2MaxDepth || chain.runs(h) {
			return false
		}
		rets := returnsOf(h)
		ok := len(rets) > 0
		for _, ret := range rets {
			if idx >= len(ret.Results) || !walk(ret.Results[idx], chain.push(k, h), d+1) {
				ok = false
				if passed == nil {
					break // when the Encode calls are collected, the other sources are still visited
				}
			}
		}
		return ok
	}
	walk = func(v ssa.Value, chain i2Chain, d int) bool {
		if d > 16 {
			return false
		}
		v, chain = i2Up(v, chain)
		k := key{v: v}
		if len(chain) > 0 {
			k.site = chain[len(chain)-1].site
		}
		if seen[k] {
			return true // a cycle of phis adds no new source
		}
		seen[k] = true
		switch x := v.(type) {
		case *ssa.Call:
			return call(x, 0, chain, d)
		case *ssa.Extract:
			if k, ok := x.Tuple.(*ssa.Call); ok {
				return call(k, x.Index, chain, d)
			}
		case *ssa.Phi:
			ok := true
			for _, e := range x.Edges {
				if !walk(e, chain, d+1) {
					ok = false
					if passed == nil {
						break
					}
				}
			}
			return ok
		case *ssa.MakeInterface:
			return walk(x.X, chain, d+1)
		case *ssa.ChangeType:
			return walk(x.X, chain, d+1)
		}
		return false
	}
	return walk(v, chain, 0)
}

// i2FileValue is the value of a File header with its decomposition.
type i2FileValue struct {
	sink  i2Sink
	parts []i2Part
	shape bool // <decimal> " " <string>: what the reader splits at the first blank
}

func (w *i2Words) fileValues(root *ssa.Function) []i2FileValue {
	var out []i2FileValue
	for _, s := range w.sinks(root, "File") {
		if !s.keyed {
			continue
		}
		ps := i2Parts(s.call.Common().Args[2], s.chain)
		fv := i2FileValue{sink: s, parts: ps}
		fv.shape = len(ps) == 3 && ps[0].kind == i2Dec && ps[1].kind == i2Lit && ps[1].lit == " " && ps[2].kind == i2Str
		out = append(out, fv)
	}
	return out
}

// names: the pieces of the header value that are not constant text or a decimal number.
func (fv i2FileValue) names() []i2Part {
	var out []i2Part
	for _, p := range fv.parts {
		if p.kind == i2Other {
			// a number in some other format is not text that needs encoding
			if b, ok := p.v.Type().Underlying().(*types.Basic); ok && b.Info()&(types.IsNumeric|types.IsBoolean) != 0 {
				continue
			}
		}
		if p.kind == i2Str || p.kind == i2Other {
			out = append(out, p)
		}
	}
	return out
}

// pos: where the value is put together (the formatting call when there is one).
func (fv i2FileValue) pos() token.Pos {
	v, _ := i2Up(fv.sink.call.Common().Args[2], fv.sink.chain)
	if k, ok := v.(*ssa.Call); ok && k.Pos().IsValid() {
		return k.Pos()
	}
	return fv.sink.call.Pos()
}

// nameEncoded: every non-constant, non-numeric piece of the File header went through Encode.
func (w *i2Words) nameEncoded(fv i2FileValue, passed map[*ssa.Call]bool) bool {
	names := fv.names()
	ok := len(names) > 0
	for _, p := range names {
		if !w.through(p.v, p.chain, passed) {
			ok = false
		}
	}
	return ok
}

// dataLenOf: the number printed is the length of the data of attachment f (a value of the
// anchored function): f.Size(), or len(f.data).
func (w *i2Words) dataLenOf(p i2Part, f ssa.Value) bool {
	v, ch := i2Up(p.v, p.chain)
	for {
		cv, ok := v.(*ssa.Convert)
		if !ok {
			break
		}
		b, isB := cv.Type().Underlying().(*types.Basic)
		if !isB || (b.Kind() != types.Int && b.Kind() != types.Int64 && b.Kind() != types.Uint && b.Kind() != types.Uint64) {
			return false
		}
		v, ch = i2Up(cv.X, ch)
	}
	k, ok := v.(*ssa.Call)
	if !ok {
		return false
	}
	isF := func(x ssa.Value) bool {
		a, ach := i2Up(x, ch)
		return len(ach) == 0 && i2SameVal(a, f)
	}
	switch callName(&k.Call) {
	case "fbb.File.Size":
		return len(k.Call.Args) == 1 && isF(k.Call.Args[0])
	case "builtin.len":
		if owner := i2FieldLoad(origin(k.Call.Args[0]), "File", "data"); owner != nil {
			return isF(owner)
		}
	}
	return false
}

// appended: below root, f is appended to a slice.
func (w *i2Words) appended(root *ssa.Function, f ssa.Value) bool {
	found := false
	i2Walk(root, func(in ssa.Instruction, chain i2Chain) {
		ci, ok := in.(ssa.CallInstruction)
		if !ok || callName(ci.Common()) != "builtin.append" || len(ci.Common().Args) < 2 {
			return
		}
		if dependsOn(ci.Common().Args[1], func(v ssa.Value) bool {
			a, ach := i2Up(v, chain)
			return len(ach) == 0 && a == f
		}) {
			found = true
		}
	})
	return found
}

// ---- C09-charset ----------------------------------------------------------------------------------

// i2TranscoderCharset: the call creates a transcoder from UTF-8 to a charset; returns the charset.
func i2TranscoderCharset(com *ssa.CallCommon) ssa.Value {
	n := callName(com)
	if (strings.HasSuffix(n, "/charset.NewWriter") || strings.HasSuffix(n, "/charset.TranslatorTo")) && len(com.Args) > 0 {
		return com.Args[0]
	}
	return nil
}

// transcodings collects the charsets the text x (a value of the function entered through chain)
// may have been transcoded to: transcoders in its data dependence, in the results of same-package
// code it comes from (parameters bound to that call), behind parameters bound through chain, and
// transcoding writers that fill a buffer x is read from. open is set when the dependence reaches a
// text parameter that chain does not bind.
func (w *i2Words) transcodings(x ssa.Value, chain i2Chain, depth int, out *[]i2Val, open *bool) {
	if depth > i2MaxDepth+2 {
		return
	}
	record := func(com *ssa.CallCommon) bool {
		if cs := i2TranscoderCharset(com); cs != nil {
			*out = append(*out, i2Val{cs, chain})
			return true
		}
		return false
	}
	dependsOn(x, func(v ssa.Value) bool {
		switch y := v.(type) {
		case *ssa.Parameter:
			if !isByteSliceOrString(y.Type()) {
				return false
			}
			a, ch := i2Up(y, chain)
			if a == ssa.Value(y) {
				*open = true
				return false
			}
			w.transcodings(a, ch, depth+1, out, open)
		case *ssa.Alloc:
			// a buffer handed to a transcoding writer: charset.NewWriter(cs, &buf)
			for _, ref := range *y.Referrers() {
				if mi, ok := ref.(*ssa.MakeInterface); ok {
					for _, r2 := range *mi.Referrers() {
						if k, ok := r2.(ssa.CallInstruction); ok {
							record(k.Common())
						}
					}
				}
				if k, ok := ref.(ssa.CallInstruction); ok {
					record(k.Common())
				}
			}
		case *ssa.Call:
			if record(&y.Call) {
				return false
			}
			if h := i2Callee(y); h != nil && len(chain) < i2MaxDepth && !chain.runs(h) {
				sub := chain.push(y, h)
				for _, ret := range returnsOf(h) {
					for _, res := range ret.Results {
						if isByteSliceOrString(res.Type()) {
							w.transcodings(res, sub, depth+1, out, open)
						}
					}
				}
			}
		}
		return false
	})
}

// charsetVerdict decides one QEncoding.Encode(label, text) call: where text was transcoded to a
// charset the label names that charset, otherwise the label is utf-8. When label or text hang on
// parameters of the function, the question is put to every call site (parameters bound to the
// arguments), as far as the call sites can be enumerated.
func (w *i2Words) charsetVerdict(ci ssa.CallInstruction) (bool, string) {
	label, text, ok := i2EncodeArgs(ci.Common())
	if !ok {
		return false, "the arguments of Encode could not be identified (unresolved)"
	}
	return w.verdictIn(ci.Parent(), label, text, nil, 0)
}

func (w *i2Words) verdictIn(fn *ssa.Function, label, text ssa.Value, chain i2Chain, depth int) (bool, string) {
	lab, lok := i2ConstString(label, chain)
	var trs []i2Val
	open := false
	w.transcodings(text, chain, 0, &trs, &open)
	lv, lch := i2Up(label, chain)
	unbound := open
	if _, isPar := lv.(*ssa.Parameter); isPar && !lok {
		unbound = true
	}
	for _, t := range trs {
		if _, cok := i2ConstString(t.v, t.chain); !cok {
			if tv, _ := i2Up(t.v, t.chain); tv != nil {
				if _, isPar := tv.(*ssa.Parameter); isPar {
					unbound = true
				}
			}
		}
	}
	if unbound && depth < 3 {
		root := fn
		if len(chain) > 0 {
			root = chain[0].site.Parent()
		}
		if sites := w.c.callSites(root); len(sites) > 0 {
			recursive := false
			for _, cs := range sites {
				if cs.Parent() == root || chain.runs(cs.Parent()) {
					recursive = true
				}
			}
			if !recursive {
				first := ""
				for _, cs := range sites {
					sub := append(i2Chain{{cs, root}}, chain...)
					ok, why := w.verdictIn(fn, label, text, sub, depth+1)
					if !ok {
						return false, why + " (as called from " + fnName(cs.Parent()) + ")"
					}
					if first == "" {
						first = why
					}
				}
				return true, first
			}
		}
	}
	switch {
	case !lok:
		same := len(trs) > 0
		for _, t := range trs {
			if tv, tch := i2Up(t.v, t.chain); len(tch) != len(lch) || !(i2SameVal(tv, lv) || ipSame(tv, lv)) {
				same = false
			}
		}
		if same {
			return true, "the label is the very value the operand was transcoded to (" + pathOf(lv) + ")"
		}
		return false, "the charset label is not a constant (unresolved)"
	case len(trs) > 0:
		first := ""
		for _, t := range trs {
			cs, cok := i2ConstString(t.v, t.chain)
			if !cok || !strings.EqualFold(cs, lab) {
				tv, _ := i2Up(t.v, t.chain)
				return false, "the operand is transcoded to " + pathOf(tv) + " but labelled " + fmt.Sprintf("%q", lab) + ": decoders interpret the bytes in the wrong charset"
			}
			if first == "" {
				first = cs
			}
		}
		return true, "operand transcoded to " + first + ", labelled " + lab
	case strings.EqualFold(lab, "utf-8"):
		return true, "operand is not transcoded and labelled utf-8 (Go strings are UTF-8)"
	}
	return false, "the operand is a raw Go (UTF-8) string but labelled " + fmt.Sprintf("%q", lab)
}

// i2Role is one place where a Q-encoded word is required, with the Encode calls its value was
// found to pass through.
type i2Role struct {
	name    string
	encodes int
}

// charsetRoles: the roles that confirm the Q-encoding rule is not vacuous - the subject header
// value, the attachment name in the File header, the title of a proposal - each with the number of
// Encode calls found for it. Roles, not call sites: one helper may serve several roles.
func (w *i2Words) charsetRoles() []i2Role {
	var out []i2Role
	subj := map[*ssa.Call]bool{}
	if fn := w.c.Func(w.pkg, "(*Message).SetSubject"); fn != nil {
		for _, s := range w.sinks(fn, "Subject") {
			if s.keyed {
				w.through(s.call.Common().Args[2], s.chain, subj)
			}
		}
	}
	out = append(out, i2Role{"subject header value (below Message.SetSubject)", len(subj)})
	file := map[*ssa.Call]bool{}
	if fn := w.c.Func(w.pkg, "(*Message).AddFile"); fn != nil {
		for _, fv := range w.fileValues(fn) {
			w.nameEncoded(fv, file)
		}
	}
	out = append(out, i2Role{"attachment name in the File header (below Message.AddFile)", len(file)})
	title := 0
	ip := newIPG2(w.c, w.pkg)
	for _, fn := range w.c.SrcFuncs(w.pkg) {
		for _, ci := range callsTo(fn, false, "mime.WordEncoder.Encode") {
			_, text, ok := i2EncodeArgs(ci.Common())
			if ok && ip.dependsOn(text, func(v ssa.Value) bool { return i2FieldLoad(v, "Proposal", "title") != nil }) {
				title++
			}
		}
	}
	out = append(out, i2Role{"title of a proposal", title})
	return out
}
