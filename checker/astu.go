package main

// AST/type utilities: constants, composite literals of package-level tables, declarations.

import (
	"go/ast"
	"go/constant"
	"go/token"
	"go/types"

	"golang.org/x/tools/go/packages"
)

// constOf returns the value of a package-level constant.
func constOf(p *packages.Package, name string) (constant.Value, types.Type, bool) {
	if p == nil {
		return nil, nil, false
	}
	c, ok := p.Types.Scope().Lookup(name).(*types.Const)
	if !ok {
		return nil, nil, false
	}
	return c.Val(), c.Type(), true
}

func constIntOf(p *packages.Package, name string) (int64, bool) {
	v, _, ok := constOf(p, name)
	if !ok || v.Kind() != constant.Int {
		return 0, false
	}
	return constant.Int64Val(v)
}

// varSpec finds the declaration of a package-level variable.
func varSpec(p *packages.Package, name string) (*ast.ValueSpec, int) {
	for _, f := range p.Syntax {
		for _, d := range f.Decls {
			gd, ok := d.(*ast.GenDecl)
			if !ok || gd.Tok != token.VAR {
				continue
			}
			for _, s := range gd.Specs {
				vs := s.(*ast.ValueSpec)
				for i, n := range vs.Names {
					if n.Name == name {
						return vs, i
					}
				}
			}
		}
	}
	return nil, 0
}

// intTable evaluates the composite literal initialising the package-level array/slice variable
// name into its element values (keyed elements honoured). ok=false if any element is not a
// constant integer or the variable has no literal initialiser.
func intTable(p *packages.Package, name string) (vals []int64, declLen int64, pos token.Pos, ok bool) {
	vs, i := varSpec(p, name)
	if vs == nil || i >= len(vs.Values) {
		return nil, 0, token.NoPos, false
	}
	lit, isLit := ast.Unparen(vs.Values[i]).(*ast.CompositeLit)
	if !isLit {
		return nil, 0, vs.Pos(), false
	}
	declLen = -1
	if tv, has := p.TypesInfo.Types[lit]; has {
		if a, isArr := tv.Type.Underlying().(*types.Array); isArr {
			declLen = a.Len()
		}
	}
	idx := int64(0)
	m := map[int64]int64{}
	max := int64(-1)
	for _, e := range lit.Elts {
		val := e
		if kv, isKV := e.(*ast.KeyValueExpr); isKV {
			ktv, has := p.TypesInfo.Types[kv.Key]
			if !has || ktv.Value == nil {
				return nil, declLen, lit.Pos(), false
			}
			k, exact := constant.Int64Val(constant.ToInt(ktv.Value))
			if !exact {
				return nil, declLen, lit.Pos(), false
			}
			idx = k
			val = kv.Value
		}
		tv, has := p.TypesInfo.Types[val]
		if !has || tv.Value == nil {
			return nil, declLen, lit.Pos(), false
		}
		n, exact := constant.Int64Val(constant.ToInt(tv.Value))
		if !exact {
			return nil, declLen, lit.Pos(), false
		}
		m[idx] = n
		if idx > max {
			max = idx
		}
		idx++
	}
	n := max + 1
	if declLen > n {
		n = declLen
	}
	vals = make([]int64, n)
	for k, v := range m {
		vals[k] = v
	}
	return vals, declLen, lit.Pos(), true
}

// funcDecl finds a function or method declaration by name ("F" or "T.M") in a package.
func funcDecl(p *packages.Package, name string) *ast.FuncDecl {
	for _, f := range p.Syntax {
		for _, d := range f.Decls {
			fd, ok := d.(*ast.FuncDecl)
			if !ok {
				continue
			}
			if declName(fd) == name {
				return fd
			}
		}
	}
	return nil
}

func declName(fd *ast.FuncDecl) string {
	if fd.Recv == nil || len(fd.Recv.List) == 0 {
		return fd.Name.Name
	}
	t := fd.Recv.List[0].Type
	if s, ok := t.(*ast.StarExpr); ok {
		t = s.X
	}
	if ix, ok := t.(*ast.IndexExpr); ok {
		t = ix.X
	}
	if id, ok := t.(*ast.Ident); ok {
		return id.Name + "." + fd.Name.Name
	}
	return fd.Name.Name
}

// exprConst returns the constant value of an expression, if any.
func exprConst(info *types.Info, e ast.Expr) constant.Value {
	if tv, ok := info.Types[e]; ok {
		return tv.Value
	}
	return nil
}

// structFieldType returns the type of field path (a.b.c) of named struct type tname in p.
func structFieldType(p *packages.Package, tname string, path ...string) types.Type {
	tn, ok := p.Types.Scope().Lookup(tname).(*types.TypeName)
	if !ok {
		return nil
	}
	t := tn.Type()
	for _, f := range path {
		s, ok := t.Underlying().(*types.Struct)
		if !ok {
			return nil
		}
		var next types.Type
		for i := 0; i < s.NumFields(); i++ {
			if s.Field(i).Name() == f {
				next = s.Field(i).Type()
			}
		}
		if next == nil {
			return nil
		}
		t = next
	}
	return t
}
