package main

// C01 — a completed exchange delivers every accepted message exactly once, intact.

import (
	"strings"

	"golang.org/x/tools/go/ssa"
)

func init() {
	register("C01", false,
		"Structural necessary conditions decided from source: (C01-close) every return of Exchange that is reachable after the first use of the connection is dominated by the registration of a deferred call that closes that connection (the only exempt return is the no-op one before any use); (C01-dispatch) the sender's dispatch over a proposal's answer has an arm for each of the three answer constants; every payload write and every payload read is dominated by 'answer == Accept' of the very proposal transferred (rejected and deferred proposals are never transferred); SetDeferred is called only under Defer, the pending-set entry is 'rejected' only under Reject and 'transferred' only under Accept after the write succeeded; duplicate MIDs within one block are deferred; (C01-block) the block emitted is proven to hold at most five proposals and the answers are matched against that same slice; (C01-report) the reporting chains of C02 (sent only after the peer's confirmation, received only after the handler succeeded, exactly one report per MID). NOT decided: byte-identical delivery, exactly-once accounting across turn-overs, all segmentations of the stream - run-time quantities.",
		checkC01)
}

func checkC01(c *Ctx, r *Report) {
	const pkg = "fbb"
	if c.Pkg(pkg) == nil {
		r.Fail("anchor", "package fbb not found")
		return
	}
	borrowRule(c, r, "C01-borrow", "fbb")
	pr := newProver(c)
	closeRule(c, r, "C01-close")

	// ---- C01-dispatch
	r.Rule("C01-dispatch", 8, "transfers and reports follow the proposal's answer")
	accept, reject, deferK := c.answerConst("Accept"), c.answerConst("Reject"), c.answerConst("Defer")
	names := map[int64]string{accept: "Accept", reject: "Reject", deferK: "Defer"}
	if fn := c.Func(pkg, "(*Session).sendOutbound"); fn == nil {
		r.Fail("C01-dispatch", "anchor sendOutbound not found")
	} else {
		where := fnName(fn)
		seen := map[int64]bool{}
		eachInstr(fn, func(_ *ssa.BasicBlock, _ int, instr ssa.Instruction) {
			if ifi, ok := instr.(*ssa.If); ok {
				if _, k, _, ok := answerIs(Cond{ifi.Cond, true, ifi}); ok {
					seen[k] = true
				}
			}
		})
		for _, k := range []int64{accept, reject, deferK} {
			r.Check("C01-dispatch", where, "arm for "+names[k], c.pos(fn.Pos()), seen[k],
				"the dispatch compares the answer with "+names[k], "the sender's dispatch has no arm for answer "+names[k]+": such proposals are neither transferred nor reported")
		}
		holds := func(instr ssa.Instruction, obj string, k int64) bool {
			for _, cd := range condsAt(instr.Block()) {
				if o, kk, eq, ok := answerIs(cd); ok && eq && kk == k && (obj == "" || o == obj) {
					return true
				}
			}
			return false
		}
		eachInstr(fn, func(_ *ssa.BasicBlock, _ int, instr ssa.Instruction) {
			switch x := instr.(type) {
			case ssa.CallInstruction:
				if invokes(x, "SetDeferred") {
					obj := strings.TrimSuffix(pathOf(x.Common().Args[0]), ".mid")
					r.Check("C01-dispatch", where, "SetDeferred(prop.mid)", c.pos(instr.Pos()), holds(instr, obj, deferK),
						"called only on the answer == Defer edge of that proposal", "SetDeferred is called for a proposal whose answer is not known to be Defer")
				}
			case *ssa.MapUpdate:
				// sent[mid] = rejected?
				if _, isBool := constBool(x.Value); !isBool {
					return
				}
				val, _ := constBool(x.Value)
				obj := strings.TrimSuffix(pathOf(x.Key), ".mid")
				if val {
					r.Check("C01-dispatch", where, "pending[mid] = rejected", c.pos(instr.Pos()), holds(instr, obj, reject),
						"recorded as rejected only on the answer == Reject edge", "a proposal is recorded as 'already received' although its answer is not known to be Reject: it would be reported sent without transfer")
				} else {
					okW := false
					for _, w := range callsTo(fn, false, "fbb.Session.writeCompressed") {
						if wv := w.Value(); wv != nil && okEdgeDominates(wv, instr.Block()) {
							okW = true
						}
					}
					r.Check("C01-dispatch", where, "pending[mid] = transferred", c.pos(instr.Pos()), holds(instr, obj, accept) && okW,
						"recorded as transferred only on the answer == Accept edge and after the payload write returned nil", "a proposal is recorded as transferred without 'answer == Accept' and the success edge of the payload write dominating")
				}
			}
		})
	}
	for _, fn := range c.SrcFuncs(pkg) {
		for _, role := range []string{"fbb.Session.writeCompressed", "fbb.Session.readCompressed"} {
			for _, ci := range callsTo(fn, false, role) {
				args := ci.Common().Args
				// locally, or - when the proposal is a parameter of an unexported helper - at every
				// call of the helper for the proposal passed there (ip_g1.go)
				good := c.answerHoldsAt(fn, ci, args[len(args)-1], accept, 0)
				what := "payload write"
				if strings.HasSuffix(role, "readCompressed") {
					what = "payload read"
				}
				r.Check("C01-dispatch", fnName(fn), what+" "+c.exprAt(fn, ci.Pos()), c.pos(ci.Pos()), good,
					"dominated by 'answer == Accept' of the proposal transferred", "a "+what+" is not dominated by 'answer == Accept' of the proposal it transfers: a rejected or deferred proposal can be transferred (or the peer's data read for the wrong proposal)")
			}
		}
	}
	// duplicates within a block are deferred
	if fn := c.Func(pkg, "(*Session).writeProposalsAnswer"); fn != nil {
		where := fnName(fn)
		found := false
		eachInstr(fn, func(_ *ssa.BasicBlock, _ int, instr ssa.Instruction) {
			st, ok := instr.(*ssa.Store)
			if !ok || !strings.HasSuffix(pathOf(st.Addr), ".answer") {
				return
			}
			if k, isC := constInt(st.Val); !isC || k != deferK {
				return
			}
			for _, cd := range condsAt(st.Block()) {
				if lk, ok := cd.V.(*ssa.Lookup); ok && cd.Truth && cd.If.Block().Succs[0] == st.Block() {
					if call, ok := lk.Index.(*ssa.Call); ok && callName(&call.Call) == "fbb.Proposal.MID" {
						found = true
					}
				}
			}
		})
		r.Check("C01-dispatch", where, "duplicate MID within a block deferred", c.pos(fn.Pos()), found,
			"a proposal whose MID was already seen in the block is answered Defer", "duplicate MIDs within one block are no longer deferred: the same message can be accepted and delivered twice")
	}

	// ---- C01-chunk: the sender's frame headers
	frameLenRule(c, r, pr, "C01-chunk")
	// ---- C01-fullread: the receiver never relies on a single Read delivering a whole block
	r.Rule("C01-fullread", 1, "no raw Read on the session reader")
	nRaw := 0
	for _, fn := range c.SrcFuncs(pkg) {
		for _, ci := range callsTo(fn, false, "bufio.Reader.Read") {
			if !strings.HasSuffix(pathOf(ci.Common().Args[0]), ".rd") {
				continue
			}
			nRaw++
			accum := accumulatingRead(ci)
			r.Check("C01-fullread", fnName(fn), "raw "+c.exprAt(fn, ci.Pos()), c.pos(ci.Pos()), accum,
				"the count is accumulated and the remainder requested again", "a single Read on the session reader may return part of a block (any segmentation of the stream is legal): the rest is then parsed as frame markers")
		}
	}
	r.Add("C01-fullread", "fbb", "raw Read calls on Session.rd", "fbb").OK("%d raw Read call(s) on the session reader examined; blocks are read byte-wise or with ReadString", nRaw)

	// ---- C01-onereader: one buffered reader per session. A second one on the same connection reads
	// ahead and keeps what it buffered when it is dropped (the next frame, if the link coalesced the
	// sender's writes).
	r.Rule("C01-onereader", 1, "the session reads the connection through one buffered reader only")
	{
		nReaders := 0
		for _, fn := range c.SrcFuncs(pkg) {
			root := rootFn(fn)
			if root.Signature.Recv() == nil || !strings.HasSuffix(root.Signature.Recv().Type().String(), "fbb.Session") {
				continue
			}
			for _, ci := range callsTo(fn, false, "bufio.NewReader", "bufio.NewReaderSize", "bufio.NewScanner", "net/textproto.NewReader") {
				nReaders++
				stored := false
				if v := ci.Value(); v != nil {
					for _, ref := range *v.Referrers() {
						if st, ok := ref.(*ssa.Store); ok && strings.HasSuffix(pathOf(st.Addr), ".rd") {
							stored = true
						}
					}
				}
				r.Check("C01-onereader", fnName(fn), "buffered reader "+c.exprAt(fn, ci.Pos()), c.pos(ci.Pos()), stored,
					"becomes the session's reader (Session.rd)", "a second buffered reader is created on the session's connection: whatever it reads ahead beyond the current frame (the next message when the link delivers the sender's writes in one segment) is lost when it is dropped, and the exchange stalls")
			}
		}
		if nReaders == 0 {
			r.Add("C01-onereader", "fbb", "session reader", "fbb").Bad("no buffered reader found in the methods of Session (unresolved)")
		}
	}

	// ---- C01-block
	blockRule(c, r, pr, "C01-block")
	alignRule(c, r, "C01-align")
	fieldOrderRule(c, r, "C01-fieldorder")
	r.Rule("C01-section", 1, "sections of a message are delimited the same way for every size and buffering")
	sectionTermRule(c, r, "C01-section")
	c09Extra2(c, r, "C01")

	// ---- C01-report
	r.Rule("C01-report", 6, "reporting chains (shared with C02)")
	c02confirm(c, r, "C01-report")
	c02process(c, r, "C01-report")
	r.NotCov = append(r.NotCov, "byte-identical delivery", "exactly-once accounting across turn-overs and blocks", "all segmentations of the stream", "turn-taking (FF/FQ) logic")
}

func constBool(v ssa.Value) (bool, bool) {
	c, ok := v.(*ssa.Const)
	if !ok || c.Value == nil {
		return false, false
	}
	switch c.Value.String() {
	case "true":
		return true, true
	case "false":
		return false, true
	}
	return false, false
}

// closeRule: C01-close / C03-close.
func closeRule(c *Ctx, r *Report, rule string) {
	r.Rule(rule, 4, "the connection is closed on every exit of Exchange that used it")
	fn := c.Func("fbb", "(*Session).Exchange")
	if fn == nil {
		r.Fail(rule, "anchor (*fbb.Session).Exchange not found")
		return
	}
	where := fnName(fn)
	if len(fn.Params) < 2 {
		r.Fail(rule, "Exchange has no connection parameter")
		return
	}
	conn := fn.Params[1]
	// the parameter may live in memory when captured
	var connAlloc ssa.Value
	for _, ref := range *conn.Referrers() {
		if st, ok := ref.(*ssa.Store); ok && st.Val == ssa.Value(conn) {
			connAlloc = st.Addr
		}
	}
	isConn := func(v ssa.Value) bool {
		if v == ssa.Value(conn) {
			return true
		}
		if ld, ok := v.(*ssa.UnOp); ok && connAlloc != nil && ld.X == connAlloc {
			return true
		}
		return false
	}
	// uses of the connection in Exchange itself
	var uses []ssa.Instruction
	eachInstr(fn, func(_ *ssa.BasicBlock, _ int, instr ssa.Instruction) {
		if st, ok := instr.(*ssa.Store); ok && st.Val == ssa.Value(conn) {
			return
		}
		if _, isMC := instr.(*ssa.MakeClosure); isMC {
			return
		}
		if _, isDefer := instr.(*ssa.Defer); isDefer {
			return
		}
		for _, op := range instr.Operands(nil) {
			if *op != nil && isConn(*op) {
				if _, isLoad := instr.(*ssa.UnOp); isLoad {
					continue
				}
				uses = append(uses, instr)
			}
		}
	})
	// deferred closers
	var closers []*ssa.Defer
	type helperCloser struct {
		h   *ssa.Function
		k   ssa.CallInstruction
		res ssa.Value
	}
	var helpers []helperCloser
	eachInstr(fn, func(_ *ssa.BasicBlock, _ int, instr ssa.Instruction) {
		d, ok := instr.(*ssa.Defer)
		if !ok {
			return
		}
		closes := false
		if d.Call.IsInvoke() && d.Call.Method.Name() == "Close" && isConn(d.Call.Value) {
			closes = true
		}
		if mc, ok := d.Call.Value.(*ssa.MakeClosure); ok {
			// the closure (or a nested one) calls Close on the captured connection on every path
			cf := mc.Fn.(*ssa.Function)
			var fv *ssa.FreeVar
			for i, b := range mc.Bindings {
				if b == connAlloc {
					fv = cf.FreeVars[i]
				}
			}
			if fv != nil {
				eachInstrDeep(cf, func(in *ssa.Function, i2 ssa.Instruction) {
					ci, ok := i2.(ssa.CallInstruction)
					if !ok || !ci.Common().IsInvoke() || ci.Common().Method.Name() != "Close" {
						return
					}
					if ld, ok := ci.Common().Value.(*ssa.UnOp); ok && ld.X == ssa.Value(fv) {
						// must execute on every path of the closure: a defer in its entry block, or a call dominating all returns
						if _, isD := i2.(*ssa.Defer); isD && i2.Block() == in.Blocks[0] && in == cf {
							closes = true
						}
						if _, isC := i2.(*ssa.Call); isC && in == cf {
							all := true
							for _, ret := range returnsOf(cf) {
								if !instrDominates(i2, ret) {
									all = false
								}
							}
							if all {
								closes = true
							}
						}
					}
				})
			}
		}
		if !closes {
			// ip_h1r5.go: the clean-up lives in a same-package function that is deferred directly or called
			// by the deferred literal: it must close the connection it is handed, on every path
			if h, k, resHere := c.h1HelperCloser(fn, d, isConn, connAlloc); h != nil {
				closes = true
				helpers = append(helpers, helperCloser{h, k, resHere})
			}
		}
		if closes {
			closers = append(closers, d)
		}
	})
	for _, hc := range helpers {
		// the error the helper maps must reach the named result of Exchange
		o := r.Add(rule, where, "clean-up helper "+hc.h.Name()+" hands its error to the named result", c.pos(hc.k.Pos()))
		if why := h1CleanupResult(c, hc.k, hc.h, hc.res); why == "" {
			o.OK("%s closes the connection it is handed on every path; its error reaches the named result of Exchange", fnName(hc.h))
		} else {
			o.Bad("%s", why)
		}
	}
	if len(closers) == 0 {
		r.Add(rule, where, "deferred close of the connection", c.pos(fn.Pos())).Bad("Exchange registers no deferred call that closes the connection on every path")
	}
	for _, ret := range returnsOf(fn) {
		o := r.Add(rule, where, "return", c.pos(ret.Pos()))
		used := false
		for _, u := range uses {
			if instrReaches(u, ret) {
				used = true
			}
		}
		covered := false
		for _, d := range closers {
			if instrDominates(d, ret) {
				covered = true
			}
		}
		if !used && !covered {
			o.OK("no use of the connection can precede this return (no-op exit)")
			continue
		}
		if covered {
			o.OK("dominated by the registration of the deferred close at %s", c.pos(closers[0].Pos()))
		} else {
			o.Bad("this return can be reached after the connection was used, without the deferred close being registered: the connection stays open")
		}
	}
}

// linForm is a sum of lengths of string values plus a constant.
type linForm struct {
	lens map[ssa.Value]int
	k    int64
	ok   bool
}

func newLin() *linForm { return &linForm{lens: map[ssa.Value]int{}, ok: true} }

func (l *linForm) addValue(v ssa.Value) {
	switch x := v.(type) {
	case *ssa.Const:
		k, ok := constInt(x)
		if !ok {
			l.ok = false
		}
		l.k += k
	case *ssa.BinOp:
		if x.Op.String() != "+" {
			l.ok = false
			return
		}
		l.addValue(x.X)
		l.addValue(x.Y)
	case *ssa.Call:
		if callName(&x.Call) == "builtin.len" {
			l.lens[x.Call.Args[0]]++
			return
		}
		l.ok = false
	default:
		l.ok = false
	}
}

func (l *linForm) equal(m *linForm) bool {
	if !l.ok || !m.ok || l.k != m.k || len(l.lens) != len(m.lens) {
		return false
	}
	for v, n := range l.lens {
		if m.lens[v] != n {
			return false
		}
	}
	return true
}

// frameLenRule: the length bytes the sender puts in the SOH header and in each STX block are in
// range (no wrap of the one-byte field) and announce exactly the bytes that follow.
func frameLenRule(c *Ctx, r *Report, pr *prover, rule string) {
	r.Rule(rule, 4, "SOH header and STX data blocks: the one-byte length is in range and announces exactly the bytes that follow")
	fn := c.Func("fbb", "(*Session).writeCompressed")
	if fn == nil {
		r.Fail(rule, "anchor writeCompressed not found")
		return
	}
	where := fnName(fn)
	foundSTX, foundSOH := false, false
	for _, ci := range callsTo(fn, false, "bufio.Writer.Write") {
		sl, ok := ci.Common().Args[1].(*ssa.Slice)
		if !ok {
			continue
		}
		al, ok := sl.X.(*ssa.Alloc)
		if !ok {
			continue
		}
		var marker int64 = -1
		var lenByte ssa.Value
		for _, ref := range *al.Referrers() {
			ia, ok := ref.(*ssa.IndexAddr)
			if !ok {
				continue
			}
			k, _ := constInt(ia.Index)
			for _, r2 := range *ia.Referrers() {
				if st, ok := r2.(*ssa.Store); ok {
					if k == 0 {
						marker, _ = constInt(st.Val)
					} else if k == 1 {
						lenByte = st.Val
					}
				}
			}
		}
		if lenByte == nil {
			continue
		}
		n := lenByte
		if cv, ok := n.(*ssa.Convert); ok {
			n = cv.X
		}
		switch marker {
		case 2:
			foundSTX = true
			o := r.Add(rule, where, "STX length byte", c.pos(ci.Pos()))
			switch {
			case !pr.LE(nil, false, 1, n, false, 0, ci):
				o.Bad("the length of a data block is not proven >= 1: an empty block is sent with length byte 0, which every B2F receiver (this one included) reads as 256 bytes - e.g. when the compressed size is an exact multiple of the chunk size")
			case !pr.LE(n, false, 0, nil, false, 255, ci):
				o.Bad("the length of a data block is not proven <= 255: the length byte wraps")
			default:
				o.OK("1 <= length <= 255 holds where the STX header is written (loop condition and chunk size bound)")
			}
			// the bytes that follow: a loop bounded by the same length, or a write of a slice of that length
			o = r.Add(rule, where, "block body has the announced length", c.pos(ci.Pos()))
			if hdr, isCall := ci.(*ssa.Call); !isCall {
				o.Bad("the STX header is written by a deferred or spawned call: what follows it cannot be related to the length byte")
			} else if okBody, how := stxBodyCounted(pr, hdr, n); okBody {
				o.OK("the bytes written after the header are counted by the same value as the length byte (%s)", how)
			} else {
				o.Bad("the number of bytes written after the STX header is not tied to the length byte (%s)", how)
			}
		case 1:
			foundSOH = true
			o := r.Add(rule, where, "SOH length byte", c.pos(ci.Pos()))
			switch {
			case !pr.LE(nil, false, 0, n, false, 0, ci):
				o.Bad("the header length is not proven >= 0")
			case !pr.LE(n, false, 0, nil, false, 255, ci):
				o.Bad("the header length (title + offset + 2) is not proven <= 255 where it is narrowed to one byte: a long title (e.g. a subject of 36 non-ASCII characters, word-encoded) makes the length byte wrap and the receiver aborts with a header length mismatch")
			default:
				o.OK("0 <= length <= 255 holds where the SOH header is written (title bounded by its encoder, offset by its decimal width)")
			}
			// the bytes between this header and the flush are what the length announces
			o = r.Add(rule, where, "header body has the announced length", c.pos(ci.Pos()))
			want := newLin()
			want.addValue(n)
			got := newLin()
			blk := ci.Block()
			started, flushed := false, false
			for _, in := range blk.Instrs {
				if in == ssa.Instruction(ci.(*ssa.Call)) {
					started = true
					continue
				}
				if !started || flushed {
					continue
				}
				w, isCall := in.(*ssa.Call)
				if !isCall {
					continue
				}
				switch callName(&w.Call) {
				case "bufio.Writer.WriteString":
					got.lens[w.Call.Args[1]]++
				case "bufio.Writer.WriteByte":
					got.k++
				case "bufio.Writer.Flush":
					flushed = true
				case "bufio.Writer.Write", "bufio.Writer.WriteRune", "fmt.Fprintf", "fmt.Fprint", "fmt.Fprintln", "io.WriteString":
					got.ok = false
				}
			}
			switch {
			case !want.ok || !got.ok || !flushed:
				o.Bad("could not relate the announced header length to the bytes written before the flush (unresolved: length is not a sum of len() terms and constants, or the header is not written by WriteString/WriteByte in one block)")
			case !want.equal(got):
				o.Bad("the SOH header announces a length that differs from the bytes written after it (title, NUL, offset, NUL): the receiver reports a header length mismatch")
			default:
				o.OK("announced length = sum of the lengths of the %d strings written + %d separator byte(s)", len(got.lens), got.k)
			}
		}
	}
	if !foundSTX {
		r.Add(rule, where, "STX length byte", c.pos(fn.Pos())).Bad("no write of an STX block header found (unresolved)")
	}
	if !foundSOH {
		r.Add(rule, where, "SOH length byte", c.pos(fn.Pos())).Bad("no write of an SOH header found (unresolved)")
	}
}
