package main

// E1 — crash-site inventory with discharge (DESIGN.md section 3, E1).

import (
	"fmt"
	"go/ast"
	"go/token"
	"go/types"
	"os"
	"os/exec"
	"regexp"
	"sort"
	"strings"

	"golang.org/x/tools/go/ssa"
)

type crashCfg struct {
	rule       string
	entries    []*ssa.Function
	scope      func(*ssa.Function) bool
	bcePkgs    []string                             // relative package paths to ask the compiler about
	exceptions map[string]string                    // "<function>|<construct>" -> reason (reviewed, one construct each)
	assumedFns map[string]string                    // function name -> reason: sites listed as assumed, never discharged
	skipFns    map[string]string                    // function name -> reason: not reachable from untrusted input (local API)
	fatalIsOK  map[string]string                    // "<function>|<construct>" for panic/log.Fatal sites excepted with reason
	assertOK   func(*ssa.TypeAssert) (bool, string) // property-specific discharge of unchecked assertions
	sliceOK    func(*ssa.Slice) (bool, string)      // property-specific discharge of slice bounds the fact engine leaves open
	fatalOK    func(ssa.Instruction) (bool, string) // property-specific exception of a panic/fatal site, decided by role (listed as assumed)
	noCompiler bool                                 // engine fixture: every bounds site goes to the fact engine
}

func (cfg crashCfg) fatalOKAt(kind string, in ssa.Instruction) (bool, string) {
	if cfg.fatalOK == nil || (kind != "panic" && kind != "fatal") {
		return false, ""
	}
	return cfg.fatalOK(in)
}

// compilerUnproven runs the compiler's bounds-check report for the packages and returns the set
// of "file:line:col" positions (relative to the repo) whose bounds check was NOT eliminated as
// safe: the checks that remain ("Found ...") and the checks the prove pass removed because it
// showed that they always FAIL ("Disproved ..." - such a site is absent from the check_bce report
// too, but it panics whenever it is reached).
func compilerUnproven(c *Ctx, pkgs []string) (map[string]bool, error) {
	out := map[string]bool{}
	args := []string{"build", "-gcflags=-l -d=ssa/check_bce/debug=1,ssa/prove/debug=1"}
	for _, p := range pkgs {
		args = append(args, "./"+p)
	}
	cmd := exec.Command("go", args...)
	cmd.Dir = c.Repo
	cmd.Env = append(os.Environ(), "GOOS="+c.GOOS, "GOARCH="+c.GOARCH, "CGO_ENABLED=0")
	b, err := cmd.CombinedOutput()
	re := regexp.MustCompile(`^(?:\./)?([^:\s]+\.go):(\d+):(\d+): (?:Found|Disproved) (IsInBounds|IsSliceInBounds)`)
	n := 0
	for _, line := range strings.Split(string(b), "\n") {
		if m := re.FindStringSubmatch(strings.TrimSpace(line)); m != nil {
			out[m[1]+":"+m[2]+":"+m[3]] = true
			n++
		}
	}
	if err != nil && n == 0 {
		return nil, fmt.Errorf("go build for bounds-check report failed: %v\n%s", err, firstLines(string(b), 5))
	}
	if err != nil {
		// compile errors alongside diagnostics
		for _, line := range strings.Split(string(b), "\n") {
			if strings.Contains(line, ": ") && !strings.Contains(line, "Found Is") && !proveNoise.MatchString(line) && !strings.HasPrefix(line, "#") && strings.TrimSpace(line) != "" {
				return nil, fmt.Errorf("go build for bounds-check report failed: %s", line)
			}
		}
	}
	return out, nil
}

// proveNoise: the other lines the prove pass prints with debug=1.
var proveNoise = regexp.MustCompile(`: (Proved|Disproved|Induction variable)`)

func (c *Ctx) posKey(p token.Pos) string {
	q := c.Fset.Position(p)
	return fmt.Sprintf("%s:%d:%d", strings.TrimPrefix(q.Filename, c.Repo+"/"), q.Line, q.Column)
}

// exprAt finds the source text of the index/slice/assert/call expression whose bracket or paren
// is at pos, searching the declaration of fn's outermost function.
func (c *Ctx) exprAt(fn *ssa.Function, pos token.Pos) string {
	root := fn
	for root.Parent() != nil {
		root = root.Parent()
	}
	decl := c.Decl(root)
	if decl == nil || !pos.IsValid() {
		return ""
	}
	var found ast.Expr
	ast.Inspect(decl, func(n ast.Node) bool {
		if found != nil || n == nil {
			return false
		}
		switch e := n.(type) {
		case *ast.IndexExpr:
			if e.Lbrack == pos {
				found = e
			}
		case *ast.SliceExpr:
			if e.Lbrack == pos {
				found = e
			}
		case *ast.TypeAssertExpr:
			if e.Lparen == pos {
				found = e
			}
		case *ast.CallExpr:
			if e.Lparen == pos || e.Pos() == pos {
				found = e
			}
		case *ast.BinaryExpr:
			if e.OpPos == pos {
				found = e
			}
		}
		return true
	})
	if found == nil {
		return ""
	}
	s := types.ExprString(found)
	if len(s) > 90 {
		s = s[:90] + "…"
	}
	return s
}

var fatalCalls = map[string]bool{
	"log.Fatal": true, "log.Fatalf": true, "log.Fatalln": true, "log.Panic": true, "log.Panicf": true, "log.Panicln": true,
	"log.Logger.Fatal": true, "log.Logger.Fatalf": true, "log.Logger.Fatalln": true, "log.Logger.Panic": true, "log.Logger.Panicf": true, "log.Logger.Panicln": true,
	"os.Exit": true, "runtime.Goexit": true,
}

// allUnproven marks every index/slice position of the scope as not proven by the compiler.
type allUnproven struct{}

func (allUnproven) asMap(c *Ctx, cfg crashCfg) map[string]bool {
	out := map[string]bool{}
	for fn := range c.reach(cfg.entries, cfg.scope) {
		eachInstr(fn, func(_ *ssa.BasicBlock, _ int, in ssa.Instruction) {
			if in.Pos().IsValid() {
				out[c.posKey(in.Pos())] = true
			}
		})
	}
	return out
}

type crashStats struct {
	Functions     int            `json:"functions_in_scope"`
	Sites         map[string]int `json:"sites_by_kind"`
	CompilerProof int            `json:"bounds_checks_proven_by_compiler"`
	FactProof     int            `json:"bounds_checks_discharged_by_fact_engine"`
	Assumed       int            `json:"assumed"`
	FuncList      []string       `json:"function_list"`
}

func crashInventory(c *Ctx, r *Report, cfg crashCfg) crashStats {
	st := crashStats{Sites: map[string]int{}}
	var unproven map[string]bool
	if cfg.noCompiler {
		unproven = allUnproven{}.asMap(c, cfg)
	} else {
		var err error
		unproven, err = compilerUnproven(c, cfg.bcePkgs)
		if err != nil {
			r.Fail(cfg.rule, "%v", err)
			return st
		}
	}
	reach := c.reach(cfg.entries, cfg.scope)
	var fns []*ssa.Function
	for fn := range reach {
		fns = append(fns, fn)
	}
	sort.Slice(fns, func(i, j int) bool {
		if fns[i].Pos() != fns[j].Pos() {
			return fns[i].Pos() < fns[j].Pos()
		}
		return fns[i].String() < fns[j].String()
	})
	st.Functions = len(fns)
	pr := newProver(c)
	usedExc := map[string]bool{}
	inh := newG7Inherit(c, cfg) // ip_g7.go: the tables below also apply to helpers that only run as part of a listed function
	for _, fn := range fns {
		name := fnName(fn)
		st.FuncList = append(st.FuncList, name)
		if inh.skipped(fn) {
			continue
		}
		assumedWhy, assumedFn := inh.assumed(fn)
		root := fn
		for root.Parent() != nil {
			root = root.Parent()
			if why, ok := cfg.assumedFns[fnName(root)]; ok {
				assumedWhy, assumedFn = why, true
			}
		}
		eachInstr(fn, func(b *ssa.BasicBlock, _ int, instr ssa.Instruction) {
			if b == fn.Recover {
				return
			}
			var kind, construct string
			var check func() (bool, string)
			switch x := instr.(type) {
			case *ssa.Panic:
				if !x.Pos().IsValid() {
					return // synthesised by go/ssa (select without matching case, etc.), not in the source
				}
				kind = "panic"
				construct = c.exprAt(fn, x.Pos())
				if construct == "" {
					construct = "panic(" + pathOf(x.X) + ")"
				}
				check = func() (bool, string) { return false, "explicit panic reachable from untrusted input" }
			case ssa.CallInstruction:
				n := callName(x.Common())
				if argIdx, isGrow := growCalls[n]; isGrow && argIdx < len(x.Common().Args) {
					size := x.Common().Args[argIdx]
					if _, isC := constInt(size); isC {
						return
					}
					kind = "make"
					construct = c.exprAt(fn, x.Pos())
					if construct == "" {
						construct = n + "(" + pathOf(size) + ")"
					}
					check = func() (bool, string) { return c.sizeBounded(pr, size, instr) }
				} else if fatalCalls[n] {
					kind = "fatal"
					construct = c.exprAt(fn, x.Pos())
					if construct == "" {
						construct = n + "(…)"
					}
					check = func() (bool, string) { return false, n + " terminates the process" }
				} else {
					return
				}
			case *ssa.TypeAssert:
				if x.CommaOk {
					return
				}
				if types.Identical(x.X.Type(), x.AssertedType) {
					// the nil check go/ssa emits for an interface method value (src.Method): it fails only
					// on a nil interface, exactly like the call src.Method() - nil dereference, not covered
					return
				}
				kind = "assert"
				construct = c.exprAt(fn, x.Pos())
				if construct == "" {
					construct = pathOf(x)
				}
				check = func() (bool, string) {
					// an assertion to the value's own static concrete origin is safe
					if mi, ok := x.X.(*ssa.MakeInterface); ok && types.Identical(mi.X.Type(), x.AssertedType) {
						return true, "asserted type is the type the interface was just made from"
					}
					if cfg.assertOK != nil {
						if ok, why := cfg.assertOK(x); ok {
							return true, why
						} else if why != "" {
							return false, why
						}
					}
					return false, "type assertion without comma-ok on a value whose dynamic type is not established here"
				}
			case *ssa.IndexAddr:
				kind, construct, check = c.indexSite(pr, unproven, fn, x, x.X, x.Index, &st)
			case *ssa.Index:
				kind, construct, check = c.indexSite(pr, unproven, fn, x, x.X, x.Index, &st)
			case *ssa.Lookup:
				if _, isMap := x.X.Type().Underlying().(*types.Map); isMap {
					return
				}
				kind, construct, check = c.indexSite(pr, unproven, fn, x, x.X, x.Index, &st)
			case *ssa.Slice:
				if x.Low == nil && x.High == nil {
					return // x[:] cannot fail
				}
				kind = "slice"
				construct = c.exprAt(fn, x.Pos())
				if construct == "" {
					if !x.Pos().IsValid() {
						return // compiler-generated (variadic argument packing): always in range
					}
					construct = pathOf(x)
				}
				check = func() (bool, string) {
					if x.Pos().IsValid() && !unproven[c.posKey(x.Pos())] {
						st.CompilerProof++
						return true, "compiler proved the bounds (absent from check_bce report)"
					}
					okLow := x.Low == nil || pr.LE(nil, false, 0, x.Low, false, 0, x)
					var okOrder, okHigh bool
					switch {
					case x.High == nil && x.Low == nil:
						okOrder, okHigh = true, true
					case x.High == nil:
						okHigh = true
						okOrder = pr.LE(x.Low, false, 0, x.X, true, 0, x)
					case x.Low == nil:
						okOrder = pr.LE(nil, false, 0, x.High, false, 0, x)
						okHigh = pr.LE(x.High, false, 0, x.X, true, 0, x)
					default:
						okOrder = pr.LE(x.Low, false, 0, x.High, false, 0, x)
						okHigh = pr.LE(x.High, false, 0, x.X, true, 0, x)
					}
					if okLow && okOrder && okHigh {
						st.FactProof++
						return true, "fact engine: 0 <= low <= high <= len established by dominating guards / post-conditions"
					}
					if cfg.sliceOK != nil {
						if ok, why := cfg.sliceOK(x); ok {
							return true, why
						}
					}
					return false, fmt.Sprintf("slice bounds not established (low>=0:%v low<=high:%v high<=len:%v)", okLow, okOrder, okHigh)
				}
			case *ssa.MakeSlice:
				if _, isC := constInt(x.Len); isC {
					return
				}
				kind = "make"
				construct = c.exprAt(fn, x.Pos())
				if construct == "" {
					construct = "make(" + pathOf(x.Len) + ")"
				}
				check = func() (bool, string) { return c.allocBounded(pr, x) }
			case *ssa.BinOp:
				if (x.Op != token.QUO && x.Op != token.REM) || !isIntType(x.Type()) {
					return
				}
				if k, isC := constInt(x.Y); isC && k != 0 {
					return
				}
				kind = "div"
				construct = c.exprAt(fn, x.Pos())
				if construct == "" {
					construct = pathOf(x)
				}
				check = func() (bool, string) {
					if pr.LE(nil, false, 1, x.Y, false, 0, x) || pr.LE(x.Y, false, 1, nil, false, 0, x) {
						return true, "divisor proven non-zero"
					}
					return false, "integer division by a value not proven non-zero"
				}
			default:
				return
			}
			if check == nil {
				return
			}
			st.Sites[kind]++
			o := r.Add(cfg.rule, name, kind+" "+construct, c.pos(instr.Pos()))
			if assumedFn {
				if ok, why := check(); ok {
					o.OK("%s", why)
					if strings.HasPrefix(why, "compiler") {
						o.Trivial = true
					}
				} else {
					o.Assume("%s", assumedWhy)
					st.Assumed++
				}
				return
			}
			ok, why := check()
			if ok {
				o.OK("%s", why)
				if strings.HasPrefix(why, "compiler") {
					o.Trivial = true
				}
			} else if excKey, excWhy := inh.exception(cfg.exceptions, fn, kind, construct, instr.Pos()); excWhy != "" {
				usedExc[excKey] = true
				o.Assume("excepted: %s", excWhy)
				st.Assumed++
			} else if excKey, excWhy := inh.exception(cfg.fatalIsOK, fn, kind, construct, instr.Pos()); excWhy != "" {
				usedExc[excKey] = true
				o.Assume("excepted: %s", excWhy)
				st.Assumed++
			} else if excOK, excWhy := cfg.fatalOKAt(kind, instr); excOK {
				o.Assume("excepted: %s", excWhy)
				st.Assumed++
			} else {
				o.Bad("%s", why)
			}
		})
	}
	for k := range cfg.exceptions {
		if !usedExc[k] {
			r.Note("exception %q matched no site (stale entry; harmless)", k)
		}
	}
	for k := range cfg.fatalIsOK {
		if !usedExc[k] {
			r.Note("exception %q matched no site (stale entry; harmless)", k)
		}
	}
	return st
}

func (c *Ctx) indexSite(pr *prover, unproven map[string]bool, fn *ssa.Function, instr ssa.Instruction, x, idx ssa.Value, st *crashStats) (string, string, func() (bool, string)) {
	construct := c.exprAt(fn, instr.Pos())
	if construct == "" {
		if !instr.Pos().IsValid() {
			return "", "", nil
		}
		construct = pathOf(x) + "[" + pathOf(idx) + "]"
	}
	return "index", construct, func() (bool, string) {
		// constant index into an array is checked at compile time
		if !unproven[c.posKey(instr.Pos())] {
			st.CompilerProof++
			return true, "compiler proved the index in range (absent from check_bce report)"
		}
		lo := pr.LE(nil, false, 0, idx, false, 0, instr)
		hi := pr.LE(idx, false, 1, x, true, 0, instr)
		if lo && hi {
			st.FactProof++
			return true, "fact engine: 0 <= index < len established by dominating guards / post-conditions"
		}
		return false, fmt.Sprintf("index not proven in range (index>=0:%v index<len:%v)", lo, hi)
	}
}

// growCalls allocate as much memory as one of their arguments says.
var growCalls = map[string]int{
	"bytes.Buffer.Grow": 1, "strings.Builder.Grow": 1, "slices.Grow": 1, "bufio.NewReaderSize": 1, "bufio.NewWriterSize": 1,
	"bytes.Repeat": 1, "strings.Repeat": 1,
}

// allocBounded: make([]T, n) with non-constant n needs 0 <= n and an upper bound that is a
// constant, follows from a <=16-bit wire type, or is the length of data already held.
func (c *Ctx) allocBounded(pr *prover, x *ssa.MakeSlice) (bool, string) {
	return c.sizeBounded(pr, x.Len, x)
}

// sizeBounded: the size value is proven non-negative and bounded at instruction at.
func (c *Ctx) sizeBounded(pr *prover, size ssa.Value, at ssa.Instruction) (bool, string) {
	x := at
	if !pr.LE(nil, false, 0, size, false, 0, x) {
		return false, "allocation size not proven non-negative"
	}
	cl := pr.collect(x)
	cl.define(size, 0)
	cl.f.close()
	t := pr.intTerm(size, x)
	i, ok := cl.f.idx[t.node]
	if !ok {
		if t.node == "" {
			return true, "constant size"
		}
		return false, "allocation size has no known upper bound"
	}
	zero := cl.f.idx[""]
	if cl.f.d[i][zero] < inf && cl.f.d[i][zero]+t.off <= 1<<24 {
		return true, fmt.Sprintf("size bounded by constant %d", cl.f.d[i][zero]+t.off)
	}
	for name, j := range cl.f.idx {
		if strings.HasPrefix(name, "len:") && cl.f.d[i][j] < inf {
			return true, "size bounded by the length of data already held (" + strings.TrimPrefix(name, "len:") + ")"
		}
	}
	// length of a local collection (len(x) itself)
	if strings.HasPrefix(t.node, "len:") {
		return true, "size is the length of an existing value (" + strings.TrimPrefix(t.node, "len:") + ")"
	}
	return false, "allocation size has no upper bound that is constant, 16-bit or the length of received data"
}
