package main

// Obligation registry, known findings, evidence (DESIGN.md 2.1, 2.4, 2.5, 6).

import (
	"bufio"
	"encoding/json"
	"fmt"
	"os"
	"path/filepath"
	"sort"
	"strings"
	"time"
)

type State string

const (
	Discharged State = "discharged"
	Violated   State = "violated"
	Undecided  State = "undecided"
	Assumed    State = "assumed" // listed, not counted as discharged (E1 tree-shape invariant, exception table)
)

type Oblig struct {
	Key       string `json:"key"`
	Rule      string `json:"rule"`
	Where     string `json:"where"`
	Construct string `json:"construct"`
	Pos       string `json:"pos"`
	State     State  `json:"state"`
	Reason    string `json:"reason"`
	Trivial   bool   `json:"-"` // discharge needed nothing more than a constant comparison
}

type RuleStat struct {
	Rule      string `json:"rule"`
	Instances int    `json:"instances"`
	Floor     int    `json:"floor"`
	Doc       string `json:"doc"`
}

type Report struct {
	Prop    string
	Tier    string
	Config  string
	Obs     []*Oblig
	rules   map[string]*RuleStat
	order   []string
	Notes   []string
	Errors  []string // checker-level failures (unresolved anchors, floor misses): count as violations
	Infos   map[string]interface{}
	Assumes []string
	NotCov  []string
}

func NewReport(prop, tier string) *Report {
	return &Report{Prop: prop, Tier: tier, rules: map[string]*RuleStat{}, Infos: map[string]interface{}{}}
}

// Rule declares a rule with its floor (minimum number of instances confirmed by reading).
func (r *Report) Rule(rule string, floor int, doc string) {
	if _, ok := r.rules[rule]; !ok {
		r.rules[rule] = &RuleStat{Rule: rule, Floor: floor, Doc: doc}
		r.order = append(r.order, rule)
	}
}

// Add registers one instance of a rule. The key never contains a line number.
func (r *Report) Add(rule, where, construct, pos string) *Oblig {
	if _, ok := r.rules[rule]; !ok {
		r.Rule(rule, 1, "")
	}
	r.rules[rule].Instances++
	key := fmt.Sprintf("%s/%s/%s/%s", r.Prop, rule, where, construct)
	// Disambiguate repeated constructs within one function by ordinal (stable under line shifts).
	n := 0
	for _, o := range r.Obs {
		if o.Key == key || strings.HasPrefix(o.Key, key+"#") {
			n++
		}
	}
	if n > 0 {
		key = fmt.Sprintf("%s#%d", key, n+1)
	}
	o := &Oblig{Key: key, Rule: rule, Where: where, Construct: construct, Pos: pos, State: Undecided, Reason: "not decided"}
	r.Obs = append(r.Obs, o)
	return o
}

func (o *Oblig) OK(reason string, a ...interface{}) *Oblig {
	o.State, o.Reason = Discharged, fmt.Sprintf(reason, a...)
	return o
}
func (o *Oblig) Triv(reason string, a ...interface{}) *Oblig {
	o.OK(reason, a...)
	o.Trivial = true
	return o
}
func (o *Oblig) Bad(reason string, a ...interface{}) *Oblig {
	o.State, o.Reason = Violated, fmt.Sprintf(reason, a...)
	return o
}
func (o *Oblig) Assume(reason string, a ...interface{}) *Oblig {
	o.State, o.Reason = Assumed, fmt.Sprintf(reason, a...)
	return o
}

// Check is Add + OK/Bad in one call.
func (r *Report) Check(rule, where, construct, pos string, ok bool, okReason, badReason string) *Oblig {
	o := r.Add(rule, where, construct, pos)
	if ok {
		return o.OK("%s", okReason)
	}
	return o.Bad("%s", badReason)
}

// Fail records a checker-level failure (anchor that does not resolve, unexpected shape).
func (r *Report) Fail(rule, msg string, a ...interface{}) {
	r.Errors = append(r.Errors, rule+": "+fmt.Sprintf(msg, a...))
}

func (r *Report) Note(msg string, a ...interface{}) {
	r.Notes = append(r.Notes, fmt.Sprintf(msg, a...))
}

// ---------------------------------------------------------------------------------------------

type knownFinding struct {
	Prop, Key, Text string
}

func loadKnown(path string) ([]knownFinding, error) {
	f, err := os.Open(path)
	if err != nil {
		if os.IsNotExist(err) {
			return nil, nil
		}
		return nil, err
	}
	defer f.Close()
	var out []knownFinding
	sc := bufio.NewScanner(f)
	sc.Buffer(nil, 1<<20)
	for sc.Scan() {
		line := strings.TrimSpace(sc.Text())
		if !strings.HasPrefix(line, "known:") {
			continue
		}
		// known: property=<id> key=<obligation key, may contain spaces> :: <what fails>
		body := strings.TrimSpace(strings.TrimPrefix(line, "known:"))
		var k knownFinding
		head, text, _ := strings.Cut(body, " :: ")
		k.Text = strings.TrimSpace(text)
		if rest, ok := strings.CutPrefix(head, "property="); ok {
			if i := strings.Index(rest, " key="); i > 0 {
				k.Prop = strings.TrimSpace(rest[:i])
				k.Key = strings.TrimSpace(rest[i+5:])
			}
		}
		if k.Prop == "" || k.Key == "" {
			return nil, fmt.Errorf("malformed known-finding line: %q", line)
		}
		out = append(out, k)
	}
	return out, sc.Err()
}

// ---------------------------------------------------------------------------------------------

type violationFile struct {
	Property string   `json:"property"`
	Tier     string   `json:"tier"`
	Config   string   `json:"config"`
	Oblig    *Oblig   `json:"obligation,omitempty"`
	Error    string   `json:"error,omitempty"`
	Explain  string   `json:"explain"`
	Repo     string   `json:"repo"`
	Rerun    []string `json:"rerun"`
}

// Finish prints the verdict lines, writes evidence and violation files, returns the exit code.
func (r *Report) Finish(verifDir, repo string, stats interface{}, configs []string, wall time.Duration, seed int64, extra map[string]interface{}) int {
	known, err := loadKnown(filepath.Join(verifDir, "KNOWN_FINDINGS.txt"))
	if err != nil {
		fmt.Printf("ERROR known findings: %v\n", err)
		return 2
	}
	// floors
	for _, name := range r.order {
		rs := r.rules[name]
		if rs.Instances < rs.Floor {
			r.Fail(name, "matched %d instance(s), fewer than the %d confirmed by reading (anchor drift or vacuous rule)", rs.Instances, rs.Floor)
		}
	}
	sort.SliceStable(r.Obs, func(i, j int) bool { return r.Obs[i].Key < r.Obs[j].Key })

	vdir := filepath.Join(verifDir, "evidence", "violations")
	os.MkdirAll(vdir, 0o755)
	old, _ := filepath.Glob(filepath.Join(vdir, r.Prop+"-*.json"))
	for _, f := range old {
		os.Remove(f)
	}
	nViol, nDis, nAss, nNontriv := 0, 0, 0, 0
	distinct := map[string]bool{}
	var knownMatched []string
	usedKnown := map[int]bool{}
	writeViol := func(v violationFile) string {
		nViol++
		p := filepath.Join(vdir, fmt.Sprintf("%s-%d.json", r.Prop, nViol))
		v.Property, v.Tier, v.Repo, v.Config = r.Prop, r.Tier, repo, r.Config
		v.Rerun = []string{"./run.sh", "--explain", p}
		b, _ := json.MarshalIndent(v, "", " ")
		os.WriteFile(p, b, 0o644)
		return p
	}
	for _, o := range r.Obs {
		switch o.State {
		case Discharged:
			nDis++
			if !o.Trivial && !distinct[o.Key] {
				distinct[o.Key] = true
				nNontriv++
			}
		case Assumed:
			nAss++
		default:
			matched := false
			for i, k := range known {
				if k.Prop == r.Prop && k.Key == o.Key {
					matched, usedKnown[i] = true, true
					fmt.Printf("KNOWN-FINDING: property=%s %s [%s at %s: %s]\n", r.Prop, k.Text, o.Key, o.Pos, o.Reason)
					knownMatched = append(knownMatched, o.Key)
				}
			}
			if matched {
				continue
			}
			p := writeViol(violationFile{Oblig: o, Explain: fmt.Sprintf("%s: rule %s, in %s, construct %s: %s", o.Pos, o.Rule, o.Where, o.Construct, o.Reason)})
			fmt.Printf("  %s %s [%s] %s: %s — %s\n", strings.ToUpper(string(o.State)), o.Pos, o.Rule, o.Where, o.Construct, o.Reason)
			fmt.Printf("VIOLATION property=%s replay=%s\n", r.Prop, p)
		}
	}
	for _, e := range r.Errors {
		p := writeViol(violationFile{Error: e, Explain: e})
		fmt.Printf("  CHECK-FAILED %s\n", e)
		fmt.Printf("VIOLATION property=%s replay=%s\n", r.Prop, p)
	}
	for i, k := range known {
		if k.Prop == r.Prop && !usedKnown[i] {
			r.Note("known finding %q no longer reported (repaired, or the construct changed)", k.Key)
		}
	}

	// evidence
	var rules []*RuleStat
	for _, name := range r.order {
		rules = append(rules, r.rules[name])
	}
	samples := []interface{}{}
	perRule := map[string]int{}
	for _, o := range r.Obs {
		if perRule[o.Rule] < 3 {
			perRule[o.Rule]++
			samples = append(samples, o)
		}
	}
	var assumed []*Oblig
	for _, o := range r.Obs {
		if o.State == Assumed {
			assumed = append(assumed, o)
		}
	}
	expl := explanations[r.Prop]
	// the rule list of this run, with each rule's one-line statement (rules added after the first
	// write-up of the explanation are only named here)
	{
		var parts []string
		for _, name := range r.order {
			parts = append(parts, name+": "+r.rules[name].Doc)
		}
		expl += " RULES APPLIED IN THIS RUN: " + strings.Join(parts, "; ") + "."
	}
	cov := map[string]interface{}{
		"explanation":         expl,
		"obligations":         len(r.Obs),
		"discharged":          nDis,
		"assumed":             nAss,
		"evaluations":         len(r.Obs),
		"distinct_nontrivial": nNontriv,
		"rule":                "every instance of every rule in the loaded program is enumerated (call sites, returns, constants, table entries, crash sites ...); an obligation is keyed <property>/<rule>/<function>/<construct>; it is non-trivial when its discharge needed a dominance, data-flow, call-graph or table-derivation argument rather than one constant comparison",
		"exhaustive":          true,
		"rules":               rules,
		"samples":             samples,
		"all_obligations":     r.Obs,
		"assumed_obligations": assumed,
		"known_findings":      knownMatched,
		"not_covered":         r.NotCov,
		"configurations":      configs,
		"analysed":            stats,
		"notes":               r.Notes,
		"checker_cmd":         "./run.sh " + r.Prop + " " + r.Tier,
		"trusted_base":        []string{"go/types", "go/ssa", "go/packages (x/tools v0.50.0)", "Go compiler prove pass (check_bce)", "reference tables embedded in the checker", "library post-condition table"},
	}
	for k, v := range r.Infos {
		cov[k] = v
	}
	for k, v := range extra {
		cov[k] = v
	}
	ev := map[string]interface{}{
		"property_id": r.Prop,
		"tier":        r.Tier,
		"seed":        seed,
		"level":       "other",
		"coverage":    cov,
		"assumptions": append([]string{
			"go/types, go/ssa and go/packages model the program the Go compiler builds",
			"the analysed build configuration(s) are the ones listed; cgo-only files (libax25, libhamlib) are not analysed",
		}, r.Assumes...),
		"wall_s":     wall.Seconds(),
		"violations": nViol,
	}
	b, _ := json.MarshalIndent(ev, "", " ")
	os.MkdirAll(filepath.Join(verifDir, "evidence"), 0o755)
	if err := os.WriteFile(filepath.Join(verifDir, "evidence", r.Prop+".json"), b, 0o644); err != nil {
		fmt.Printf("ERROR writing evidence: %v\n", err)
		return 2
	}
	fmt.Printf("%s %s: %d obligations, %d discharged, %d assumed, %d known, %d violation(s) [%s] %.1fs\n",
		r.Prop, r.Tier, len(r.Obs), nDis, nAss, len(knownMatched), nViol, strings.Join(configs, ","), wall.Seconds())
	if nViol > 0 {
		return 1
	}
	return 0
}
