package main

// Whole-module indexes used by the fact engine: call sites, mod-ref (fields stored by a function
// and its module callees), field invariants, callee result summaries, reachability.

import (
	"go/types"
	"sort"
	"strings"

	"golang.org/x/tools/go/ssa"
)

func (c *Ctx) inModule(fn *ssa.Function) bool {
	for fn.Parent() != nil {
		fn = fn.Parent()
	}
	if fn.Pkg == nil {
		if o := fn.Origin(); o != nil && o.Pkg != nil {
			return strings.HasPrefix(o.Pkg.Pkg.Path(), modPath)
		}
		return false
	}
	return strings.HasPrefix(fn.Pkg.Pkg.Path(), modPath)
}

// moduleFuncs: every function with a body that belongs to the module (incl. closures), sorted.
func (c *Ctx) moduleFuncs() []*ssa.Function {
	if c.modFuncs != nil {
		return c.modFuncs
	}
	for fn := range c.allFuncs {
		if fn.Blocks != nil && c.inModule(fn) {
			c.modFuncs = append(c.modFuncs, fn)
		}
	}
	sort.Slice(c.modFuncs, func(i, j int) bool {
		a, b := c.modFuncs[i], c.modFuncs[j]
		if a.Pos() != b.Pos() {
			return a.Pos() < b.Pos()
		}
		return a.String() < b.String()
	})
	return c.modFuncs
}

type siteIndex struct {
	sites map[*ssa.Function][]ssa.CallInstruction
	taken map[*ssa.Function]bool
}

func (c *Ctx) siteIdx() *siteIndex {
	if c.sites != nil {
		return c.sites
	}
	si := &siteIndex{sites: map[*ssa.Function][]ssa.CallInstruction{}, taken: map[*ssa.Function]bool{}}
	for _, fn := range c.moduleFuncs() {
		eachInstr(fn, func(_ *ssa.BasicBlock, _ int, instr ssa.Instruction) {
			if ci, ok := instr.(ssa.CallInstruction); ok {
				if callee := ci.Common().StaticCallee(); callee != nil {
					si.sites[callee] = append(si.sites[callee], ci)
				}
			}
			for _, op := range instr.Operands(nil) {
				if f, ok := (*op).(*ssa.Function); ok {
					if ci, isCall := instr.(ssa.CallInstruction); isCall && ci.Common().Value == f {
						continue
					}
					if _, isMC := instr.(*ssa.MakeClosure); isMC {
						continue
					}
					si.taken[f] = true
				}
			}
		})
	}
	c.sites = si
	return si
}

// callSites returns every call site of fn in the module, or nil when the set cannot be enumerated
// (function value taken, exported method possibly called through an interface, no sites).
func (c *Ctx) callSites(fn *ssa.Function) []ssa.CallInstruction {
	si := c.siteIdx()
	if si.taken[fn] || fn.Parent() != nil || c.h1ValueUsed(fn) { // ip_h1.go: also a method value (s.m) is a use as a value
		return nil
	}
	if fn.Signature.Recv() != nil {
		// a method may be reached through an interface: only accept when no interface in the module
		// or its callers declares a method of that name
		for _, g := range c.moduleFuncs() {
			found := false
			eachInstr(g, func(_ *ssa.BasicBlock, _ int, instr ssa.Instruction) {
				if ci, ok := instr.(ssa.CallInstruction); ok && ci.Common().IsInvoke() && ci.Common().Method.Name() == fn.Name() {
					found = true
				}
			})
			if found {
				return nil
			}
		}
	}
	if fn.Object() != nil && fn.Object().Exported() {
		return nil // callable from outside the module
	}
	return si.sites[fn]
}

// storedFields: names of struct fields a function stores to directly.
func storedFields(fn *ssa.Function) map[string]bool {
	out := map[string]bool{}
	for _, g := range withClosures(fn) {
		eachInstr(g, func(_ *ssa.BasicBlock, _ int, instr ssa.Instruction) {
			var addr ssa.Value
			switch x := instr.(type) {
			case *ssa.Store:
				addr = x.Addr
			case *ssa.MapUpdate:
				addr = x.Map
			default:
				return
			}
			for addr != nil {
				switch a := addr.(type) {
				case *ssa.FieldAddr:
					out[fieldName(a.X.Type(), a.Field)] = true
					addr = nil
				case *ssa.IndexAddr:
					addr = a.X
				case *ssa.UnOp:
					addr = a.X
				default:
					addr = nil
				}
			}
		})
	}
	return out
}

// modifiesField: fn or a module function it (transitively, statically) calls stores to a field of
// that name. Dynamic and interface calls are not followed (listed as an assumption).
func (c *Ctx) modifiesField(fn *ssa.Function, field string) bool {
	if field == "" {
		return true
	}
	if c.modref == nil {
		c.modref = map[*ssa.Function]map[string]bool{}
	}
	return c.modrefOf(fn, map[*ssa.Function]bool{})[field]
}

func (c *Ctx) modrefOf(fn *ssa.Function, onStack map[*ssa.Function]bool) map[string]bool {
	if m, ok := c.modref[fn]; ok {
		return m
	}
	if onStack[fn] {
		return map[string]bool{}
	}
	onStack[fn] = true
	m := storedFields(fn)
	for _, g := range withClosures(fn) {
		eachInstr(g, func(_ *ssa.BasicBlock, _ int, instr ssa.Instruction) {
			if ci, ok := instr.(ssa.CallInstruction); ok {
				if callee := ci.Common().StaticCallee(); callee != nil && callee.Blocks != nil && c.inModule(callee) {
					for f := range c.modrefOf(callee, onStack) {
						m[f] = true
					}
				}
			}
		})
	}
	delete(onStack, fn)
	c.modref[fn] = m
	return m
}

// fieldMinLen: a lower bound on the length of a slice-typed struct field that holds at every
// load, derived from all stores to that field in the module: each stores a literal of n>=1
// elements or an append to the field's own value; every allocation of the struct in the module
// initialises the field.
func (c *Ctx) fieldMinLen(fa *ssa.FieldAddr) (int64, bool) {
	st := fa.X.Type().Underlying().(*types.Pointer).Elem()
	key := types.TypeString(st, nil) + "#" + fieldName(fa.X.Type(), fa.Field)
	if c.fieldLen == nil {
		c.fieldLen = map[string]int64{}
	}
	if n, ok := c.fieldLen[key]; ok {
		return n, n > 0
	}
	min := inf
	nStores := 0
	ok := true
	for _, fn := range c.moduleFuncs() {
		eachInstr(fn, func(_ *ssa.BasicBlock, _ int, instr ssa.Instruction) {
			switch x := instr.(type) {
			case *ssa.Store:
				a, isFA := x.Addr.(*ssa.FieldAddr)
				if !isFA || a.Field != fa.Field || !types.Identical(a.X.Type(), fa.X.Type()) {
					return
				}
				nStores++
				switch v := x.Val.(type) {
				case *ssa.Slice:
					if al, isAl := v.X.(*ssa.Alloc); isAl && v.Low == nil && v.High == nil {
						if arr, isArr := al.Type().Underlying().(*types.Pointer).Elem().Underlying().(*types.Array); isArr {
							if arr.Len() < min {
								min = arr.Len()
							}
							return
						}
					}
					ok = false
				case *ssa.Call:
					if callName(&v.Call) == "builtin.append" {
						if ld, isLd := v.Call.Args[0].(*ssa.UnOp); isLd {
							if a2, isFA2 := ld.X.(*ssa.FieldAddr); isFA2 && a2.Field == fa.Field && types.Identical(a2.X.Type(), fa.X.Type()) {
								return // grows its own value
							}
						}
					}
					ok = false
				default:
					ok = false
				}
			case *ssa.Alloc:
				// every allocation of the struct must initialise the field in the same block
				if pt, isP := x.Type().Underlying().(*types.Pointer); isP && types.Identical(pt.Elem(), st) {
					init := false
					for _, in := range x.Block().Instrs {
						if s, isS := in.(*ssa.Store); isS {
							if a, isFA := s.Addr.(*ssa.FieldAddr); isFA && a.X == ssa.Value(x) && a.Field == fa.Field {
								init = true
							}
						}
					}
					if !init {
						ok = false
					}
				}
			}
		})
	}
	if !ok || nStores == 0 || min >= inf {
		c.fieldLen[key] = 0
		return 0, false
	}
	c.fieldLen[key] = min
	return min, true
}

type resultSummary struct {
	result      int
	resultIsLen bool
	kind        string // "ge-const", "le-len-param"
	k           int64
	param       int
}

// summary proves simple relations on every return of a module function.
func (c *Ctx) summary(p *prover, fn *ssa.Function) []resultSummary {
	if c.summaries == nil {
		c.summaries = map[*ssa.Function][]resultSummary{}
	}
	if s, ok := c.summaries[fn]; ok {
		return s
	}
	c.summaries[fn] = nil // cut recursion
	var out []resultSummary
	rets := returnsOf(fn)
	if len(rets) == 0 {
		return nil
	}
	p.depth++
	defer func() { p.depth-- }()
	res := fn.Signature.Results()
	for i := 0; i < res.Len(); i++ {
		rt := res.At(i).Type()
		switch {
		case isIntType(rt):
			// result >= 0 ?
			all := true
			for _, r := range rets {
				if !p.LE(nil, false, 0, r.Results[i], false, 0, r) {
					all = false
					break
				}
			}
			if all {
				out = append(out, resultSummary{result: i, kind: "ge-const", k: 0})
			}
			for _, cand := range []int64{1, 255, 65535} {
				all := true
				for _, r := range rets {
					if !p.LE(r.Results[i], false, 0, nil, false, cand, r) {
						all = false
						break
					}
				}
				if all {
					out = append(out, resultSummary{result: i, kind: "le-const", k: cand})
					break
				}
			}
			for k, par := range fn.Params {
				if !isIntType(par.Type()) {
					continue
				}
				all := true
				for _, r := range rets {
					if !p.LE(r.Results[i], false, 0, par, false, 0, r) {
						all = false
						break
					}
				}
				if all {
					idx := k
					out = append(out, resultSummary{result: i, kind: "le-param", param: idx})
				}
			}
			for k, par := range fn.Params {
				if !isStringLike(par.Type()) {
					continue
				}
				all := true
				for _, r := range rets {
					if !p.LE(r.Results[i], false, 0, par, true, 0, r) {
						all = false
						break
					}
				}
				if all {
					idx := k
					out = append(out, resultSummary{result: i, kind: "le-len-param", param: idx})
				}
			}
		case isStringLike(rt):
			// len(result) <= k for a constant k the function itself compares against
			for _, cand := range cmpConsts(fn) {
				all := true
				for _, r := range rets {
					if !p.LE(r.Results[i], true, 0, nil, false, cand, r) {
						all = false
						break
					}
				}
				if all {
					out = append(out, resultSummary{result: i, resultIsLen: true, kind: "le-const", k: cand})
					break
				}
			}
			for _, cand := range []int64{2, 1} {
				all := true
				for _, r := range rets {
					if !p.LE(nil, false, cand, r.Results[i], true, 0, r) {
						all = false
						break
					}
				}
				if all {
					out = append(out, resultSummary{result: i, resultIsLen: true, kind: "ge-const", k: cand})
					break
				}
			}
		}
	}
	c.summaries[fn] = out
	return out
}

// cmpConsts: the non-negative integer constants fn compares a value with, ascending.
func cmpConsts(fn *ssa.Function) []int64 {
	seen := map[int64]bool{}
	var out []int64
	eachInstr(fn, func(_ *ssa.BasicBlock, _ int, in ssa.Instruction) {
		b, ok := in.(*ssa.BinOp)
		if !ok {
			return
		}
		switch b.Op.String() {
		case "<", "<=", ">", ">=":
		default:
			return
		}
		for _, v := range []ssa.Value{b.X, b.Y} {
			if k, ok := constInt(v); ok && k >= 0 && !seen[k] {
				seen[k] = true
				out = append(out, k)
			}
		}
	})
	sort.Slice(out, func(i, j int) bool { return out[i] < out[j] })
	return out
}

// reach computes the module functions reachable from the entries: static calls, closures,
// function values, methods of module types converted to interfaces (so that callbacks through
// the standard library such as io.Copy -> Read or sort.Sort -> Less are included), and
// interface calls resolved against those types.
func (c *Ctx) reach(entries []*ssa.Function, scope func(*ssa.Function) bool) map[*ssa.Function]bool {
	seen := map[*ssa.Function]bool{}
	var work []*ssa.Function
	add := func(fn *ssa.Function) {
		if fn == nil || seen[fn] || fn.Blocks == nil || !c.inModule(fn) {
			return
		}
		if scope != nil && !scope(fn) {
			return
		}
		seen[fn] = true
		work = append(work, fn)
	}
	ifaceTypes := map[types.Type]bool{}
	var pendingInvokes []*types.Func
	addMethods := func(t types.Type) {
		if ifaceTypes[t] {
			return
		}
		ifaceTypes[t] = true
		ms := c.Prog.MethodSets.MethodSet(t)
		for i := 0; i < ms.Len(); i++ {
			add(c.Prog.MethodValue(ms.At(i)))
		}
	}
	for _, e := range entries {
		add(e)
	}
	for len(work) > 0 {
		fn := work[len(work)-1]
		work = work[:len(work)-1]
		for _, a := range fn.AnonFuncs {
			add(a)
		}
		eachInstr(fn, func(_ *ssa.BasicBlock, _ int, instr ssa.Instruction) {
			switch x := instr.(type) {
			case ssa.CallInstruction:
				if callee := x.Common().StaticCallee(); callee != nil {
					add(callee)
				}
				if x.Common().IsInvoke() {
					pendingInvokes = append(pendingInvokes, x.Common().Method)
				}
			case *ssa.MakeInterface:
				if n := namedOf(x.X.Type()); n != nil && n.Obj().Pkg() != nil && strings.HasPrefix(n.Obj().Pkg().Path(), modPath) {
					addMethods(x.X.Type())
				}
			}
			for _, op := range instr.Operands(nil) {
				if f, ok := (*op).(*ssa.Function); ok {
					add(f)
					// a method value or method expression: the synthetic wrapper is not module code, the method it calls is (ip_h1.go)
					static, invoked := h1WrapperTargets(f)
					for _, t := range static {
						add(t)
					}
					pendingInvokes = append(pendingInvokes, invoked...)
				}
			}
		})
		// interface calls: every module type implementing the interface (CHA within the module),
		// restricted by the scope predicate
		if len(work) == 0 && len(pendingInvokes) > 0 {
			inv := pendingInvokes
			pendingInvokes = nil
			for _, m := range inv {
				for _, impl := range c.implementations(m) {
					add(impl)
				}
			}
		}
	}
	return seen
}

func namedOf(t types.Type) *types.Named {
	if p, ok := t.(*types.Pointer); ok {
		t = p.Elem()
	}
	n, _ := t.(*types.Named)
	return n
}

// implementations: module methods that can be the target of an interface call of method m.
func (c *Ctx) implementations(m *types.Func) []*ssa.Function {
	if c.impls == nil {
		c.impls = map[*types.Func][]*ssa.Function{}
	}
	if r, ok := c.impls[m]; ok {
		return r
	}
	var out []*ssa.Function
	recv := m.Type().(*types.Signature).Recv()
	if recv == nil {
		return nil
	}
	iface, ok := recv.Type().Underlying().(*types.Interface)
	if !ok {
		return nil
	}
	for _, p := range c.Pkgs {
		sc := p.Types.Scope()
		for _, name := range sc.Names() {
			tn, ok := sc.Lookup(name).(*types.TypeName)
			if !ok || tn.IsAlias() {
				continue
			}
			if _, isIface := tn.Type().Underlying().(*types.Interface); isIface {
				continue
			}
			for _, t := range []types.Type{tn.Type(), types.NewPointer(tn.Type())} {
				if types.Implements(t, iface) {
					ms := c.Prog.MethodSets.MethodSet(t)
					if sel := ms.Lookup(m.Pkg(), m.Name()); sel != nil {
						if fn := c.Prog.MethodValue(sel); fn != nil {
							out = append(out, fn)
						}
					}
					break
				}
			}
		}
	}
	c.impls[m] = out
	return out
}

// readBitsMasked: every return of (*lzhuf.bitReader).ReadBits64 is 0 or x & ((1 << bits) - 1),
// and ReadBits returns exactly ReadBits64's result converted to int.
func (c *Ctx) readBitsMasked() bool {
	if c.bitsMasked != 0 {
		return c.bitsMasked > 0
	}
	c.bitsMasked = -1
	fn := c.Func("lzhuf", "(*bitReader).ReadBits64")
	rb := c.Func("lzhuf", "(*bitReader).ReadBits")
	if fn == nil || rb == nil || len(fn.Params) < 2 {
		return false
	}
	for _, ret := range returnsOf(fn) {
		v := origin(ret.Results[0])
		if k, isC := constInt(v); isC && k == 0 {
			continue
		}
		b, ok := v.(*ssa.BinOp)
		if !ok || b.Op.String() != "&" {
			return false
		}
		m, ok := b.Y.(*ssa.BinOp)
		if !ok || m.Op.String() != "-" {
			return false
		}
		sh, ok := m.X.(*ssa.BinOp)
		one, isOne := constInt(m.Y)
		if !ok || sh.Op.String() != "<<" || !isOne || one != 1 {
			return false
		}
		if k, isC := constInt(sh.X); !isC || k != 1 || sh.Y != ssa.Value(fn.Params[1]) {
			return false
		}
	}
	for _, ret := range returnsOf(rb) {
		cv, ok := origin(ret.Results[0]).(*ssa.Convert)
		if !ok {
			return false
		}
		call, ok := cv.X.(*ssa.Call)
		if !ok || callName(&call.Call) != "lzhuf.bitReader.ReadBits64" || call.Call.Args[1] != ssa.Value(rb.Params[1]) {
			return false
		}
	}
	c.bitsMasked = 1
	return true
}
