package main

// Shape-independent forms of rules of C09 and C18 (see NOTES-ip_j4.md):
//
//   - C09-determinism: an iteration over a map written with the iterator functions of package maps
//     (maps.Keys/Values/All) is an instance of "range over a map"; it is harmless when the
//     sequence goes straight into slices.Sorted*, or is collected into a slice that is sorted
//     before any loop over it (j4MapSeqs);
//   - C09-delims, Mid excluded: a header line whose key is tested against "Mid" where the line is
//     written (the write itself lies on the unequal edge) needs no collecting append (j4KeyNotMid);
//   - C09-delims / C09-sections, writer side: the writes of Message.Write are followed into the
//     same-package code it runs, the writer and the bytes written bound to the arguments of the
//     very calls that lead there (j4Writes, j4SectionWrites);
//   - C09-delims, reader side: the comparison of the terminating line with "\r\n" and the read of
//     that line are followed from readSection into same-package predicates, the line bound to the
//     argument (j4TermCompared);
//   - C18-split / C18-wrap: strings.Lines / strings.SplitSeq / bytes.Lines as line splitters, the
//     loop body go/ssa makes of a range-over-func loop, chunks written as strings.
//
// Nothing is keyed on the name of a helper. Whatever cannot be decided is not established, so the
// rule that asked reports.

import (
	"go/token"
	"strings"

	"golang.org/x/tools/go/ssa"
)

// ---- C09-determinism: map iteration through package maps --------------------------------------------

var j4MapSeqFuncs = map[string]bool{"maps.Keys": true, "maps.Values": true, "maps.All": true}

var j4SortedSinks = map[string]bool{"slices.Sorted": true, "slices.SortedFunc": true, "slices.SortedStableFunc": true}

var j4CollectSinks = map[string]bool{"slices.Collect": true, "slices.AppendSeq": true}

// j4MapSeqs adds one C09-determinism obligation per call of maps.Keys/Values/All in the given
// functions: the sequence follows Go's randomised map iteration order, exactly like `range m`.
// It is discharged when every use of the sequence is
//   - the argument of slices.Sorted/SortedFunc/SortedStableFunc (the result is ordered by value), or
//   - the argument of slices.Collect/AppendSeq whose result is sorted (sort.*, slices.Sort*) before
//     every loop over it in that function - the condition the rule puts on a slice filled inside a
//     range over a map.
//
// Any other use (ranging over the sequence, handing it to other code, storing it) is reported.
// Returns the number of instances found.
func j4MapSeqs(c *Ctx, r *Report, fns []*ssa.Function) int {
	n := 0
	for _, fn := range fns {
		for _, ci := range allCalls(fn) {
			if !j4MapSeqFuncs[callName(ci.Common())] {
				continue
			}
			n++
			o := r.Add("C09-determinism", fnName(fn), "map iteration "+c.exprAt(fn, ci.Pos()), c.pos(ci.Pos()))
			seq := ci.Value()
			if seq == nil || seq.Referrers() == nil {
				o.Bad("the map iterator is deferred or spawned (unresolved)")
				continue
			}
			bad := ""
			sorted, collected := 0, 0
			for _, ref := range *seq.Referrers() {
				if _, dbg := ref.(*ssa.DebugRef); dbg {
					continue
				}
				use, ok := ref.(*ssa.Call)
				if ok && use.Call.Value == seq {
					bad = "the sequence is ranged over directly"
					break
				}
				if !ok || len(use.Call.Args) == 0 {
					bad = "the sequence is used at " + c.pos(ref.Pos()) + " other than by sorting or collecting it"
					break
				}
				name := callName(&use.Call)
				switch {
				case j4SortedSinks[name] && use.Call.Args[0] == seq:
					sorted++
				case name == "slices.Collect" && use.Call.Args[0] == seq, name == "slices.AppendSeq" && len(use.Call.Args) == 2 && use.Call.Args[1] == seq:
					collected++
					if why := j4UnsortedLoop(c, fn, use); why != "" {
						bad = why
					}
				default:
					bad = "the sequence is handed to " + name + " at " + c.pos(use.Pos())
				}
				if bad != "" {
					break
				}
			}
			switch {
			case bad != "":
				o.Bad("%s: the order of what is derived from it follows Go's randomised map iteration, re-serialising does not give the same bytes", bad)
			case sorted+collected == 0:
				o.OK("the sequence is not used")
			default:
				o.OK("the sequence only feeds sorted collections (%d slices.Sorted*, %d collected and sorted before any loop over them)", sorted, collected)
			}
		}
	}
	return n
}

// j4UnsortedLoop: a loop of fn iterates a slice that depends on the value filled (collected from a
// map in iteration order) without a dominating sort of it; "" when there is none.
func j4UnsortedLoop(c *Ctx, fn *ssa.Function, filled ssa.Value) string {
	isFilled := func(v ssa.Value) bool { return v == filled }
	var sorts []ssa.CallInstruction
	for _, ci := range allCalls(fn) {
		if _, plain := ci.(*ssa.Call); !plain {
			continue // a deferred sort runs after the loops
		}
		n := callName(ci.Common())
		if (strings.HasPrefix(n, "sort.") || strings.HasPrefix(n, "slices.Sort")) && len(ci.Common().Args) > 0 && dependsOn(ci.Common().Args[0], isFilled) {
			sorts = append(sorts, ci)
		}
	}
	for _, b := range fn.Blocks {
		if b.Comment != "rangeindex.loop" {
			continue
		}
		sl, _ := rangedSlice(b)
		if sl == nil || !dependsOn(sl, isFilled) {
			continue
		}
		sorted := false
		for _, s := range sorts {
			if s.Block().Dominates(b) {
				sorted = true
			}
		}
		if !sorted {
			return "the slice collected from the map at " + c.pos(filled.Pos()) + " is iterated without a dominating sort"
		}
	}
	// the slice must not leave the function unsorted either: whoever gets it would iterate it as is
	if len(sorts) == 0 {
		esc := false
		if refs := filled.Referrers(); refs != nil {
			for _, ref := range *refs {
				switch x := ref.(type) {
				case *ssa.Return, *ssa.Store, *ssa.MakeClosure:
					esc = true
				case ssa.CallInstruction:
					if n := callName(x.Common()); n != "builtin.len" && n != "builtin.cap" {
						esc = true
					}
				}
			}
		}
		if esc {
			return "the slice collected from the map at " + c.pos(filled.Pos()) + " leaves the function without having been sorted"
		}
	}
	return ""
}

// ---- C09-delims: Mid excluded where the line is written ----------------------------------------------

// j4KeyNotMid: the write ci of a header line with key `key` (a value of hw) is only reached past a
// failed strings.EqualFold(key, "Mid") - on every alternative under which its block executes, read
// through same-package predicates. Then the line cannot repeat the Mid header, wherever its key
// comes from.
func j4KeyNotMid(ip *ipG2, ci ssa.CallInstruction, key ssa.Value) bool {
	alts := ip.guardsOf(ci.Block())
	if len(alts) == 0 {
		return false
	}
	for _, w := range alts {
		guarded := false
		for _, cd := range w.conds {
			call, isCall := origin(cd.V).(*ssa.Call)
			if !isCall || cd.Truth || callName(&call.Call) != "strings.EqualFold" {
				continue
			}
			x, y := call.Call.Args[0], call.Call.Args[1]
			if s, isC := constString(x); isC && strings.EqualFold(s, "Mid") {
				x, y = y, x
			}
			if s, isC := constString(y); !isC || !strings.EqualFold(s, "Mid") {
				continue
			}
			if v, fr := ipResolve(x, cd.fr); fr == nil && ipSame(v, key) {
				guarded = true
			}
		}
		if !guarded {
			return false
		}
	}
	return true
}

// ---- C09-delims / C09-sections: what Message.Write writes, through the code it runs -------------------

// j4Out follows the writes to the bufio.Writer of the anchored function (Message.Write) into the
// same-package code it runs (i2Callee: functions, methods, local closures, method values). A write
// in a helper counts only when the writer it goes to was handed down from the anchored function:
// its receiver resolves, through the parameters bound at the very calls that lead there, to a
// value of the anchored function. A helper's private writer (a Stringer's buffer) is not output.
type j4Out struct {
	root *ssa.Function
}

// j4Event decides whether a call (with the chain of calls that leads to its function) is the
// event looked for.
type j4Event func(ci ssa.CallInstruction, chain i2Chain) bool

func j4FromRoot(v ssa.Value, chain i2Chain) bool {
	_, ch := i2Up(v, chain)
	return len(ch) == 0
}

// j4IsData: bufio.Writer.Write(w, bytes) to a writer of the anchored function.
func j4IsData(ci ssa.CallInstruction, chain i2Chain) bool {
	com := ci.Common()
	return callName(com) == "bufio.Writer.Write" && len(com.Args) == 2 && j4FromRoot(com.Args[0], chain)
}

// j4Literal: the constant string a bufio.Writer.WriteString to a writer of the anchored function
// writes (a parameter of the helper is folded to the constant passed at that very call).
func j4Literal(ci ssa.CallInstruction, chain i2Chain) (string, bool) {
	com := ci.Common()
	if callName(com) != "bufio.Writer.WriteString" || len(com.Args) != 2 || !j4FromRoot(com.Args[0], chain) {
		return "", false
	}
	return i2ConstString(com.Args[1], chain)
}

func j4IsCRLF(ci ssa.CallInstruction, chain i2Chain) bool {
	s, ok := j4Literal(ci, chain)
	return ok && s == "\r\n"
}

// literals: every constant string written with WriteString by the anchored function and below.
func (a *j4Out) literals() map[string]bool {
	out := map[string]bool{}
	i2Walk(a.root, func(in ssa.Instruction, chain i2Chain) {
		if ci, ok := in.(ssa.CallInstruction); ok {
			if s, isLit := j4Literal(ci, chain); isLit {
				out[s] = true
			}
		}
	})
	return out
}

// performs: executing instruction in makes the event happen: it is the event (a plain call: a
// deferred one runs later), or a plain call of same-package code every path of which, from entry
// to each return, makes it happen.
func (a *j4Out) performs(in ssa.Instruction, chain i2Chain, ev j4Event) bool {
	call, ok := in.(*ssa.Call)
	if !ok {
		return false
	}
	if ev(call, chain) {
		return true
	}
	h := i2Callee(call)
	if h == nil || h == a.root || chain.runs(h) || len(chain) >= i2MaxDepth {
		return false
	}
	sub := chain.push(call, h)
	rets := returnsOf(h)
	if len(rets) == 0 {
		return false
	}
	barrier := func(x ssa.Instruction) bool { return a.performs(x, sub, ev) }
	for _, ret := range rets {
		if !i2EveryPath(h, ret, barrier) {
			return false
		}
	}
	return true
}

// may: executing instruction in can make the event happen (somewhere in the code it runs).
func (a *j4Out) may(in ssa.Instruction, chain i2Chain, ev j4Event) bool {
	ci, ok := in.(ssa.CallInstruction)
	if !ok {
		return false
	}
	if ev(ci, chain) {
		return true
	}
	h := i2Callee(ci)
	if h == nil || h == a.root || chain.runs(h) || len(chain) >= i2MaxDepth {
		return false
	}
	sub := chain.push(ci, h)
	found := false
	eachInstr(h, func(_ *ssa.BasicBlock, _ int, x ssa.Instruction) {
		if !found && a.may(x, sub, ev) {
			found = true
		}
	})
	return found
}

// j4SectionLoop is a loop, in the anchored function or below it, some iteration of which can write
// attachment data; ok: every iteration writes data and the terminating CRLF.
type j4SectionLoop struct {
	fn *ssa.Function
	l  loop
	ok bool
}

// sectionLoops lists those loops, each once (a helper reached by several chains of calls has to
// satisfy the condition on each of them).
func (a *j4Out) sectionLoops() []*j4SectionLoop {
	var out []*j4SectionLoop
	byHeader := map[*ssa.BasicBlock]*j4SectionLoop{}
	var visit func(g *ssa.Function, chain i2Chain)
	visit = func(g *ssa.Function, chain i2Chain) {
		for _, l := range naturalLoops(g) {
			writes := false
			for _, b := range g.Blocks {
				if !l.body[b] {
					continue
				}
				for _, in := range b.Instrs {
					if a.may(in, chain, j4IsData) {
						writes = true
					}
				}
			}
			if !writes {
				continue
			}
			has := func(ev j4Event) func(*ssa.BasicBlock) bool {
				return func(b *ssa.BasicBlock) bool {
					for _, in := range b.Instrs {
						if a.performs(in, chain, ev) {
							return true
						}
					}
					return false
				}
			}
			ok := passesOnEveryIteration(l, has(j4IsCRLF)) && passesOnEveryIteration(l, has(j4IsData))
			if sl := byHeader[l.header]; sl != nil {
				sl.ok = sl.ok && ok
				continue
			}
			sl := &j4SectionLoop{g, l, ok}
			byHeader[l.header] = sl
			out = append(out, sl)
		}
		if len(chain) >= i2MaxDepth {
			return
		}
		for _, ci := range allCalls(g) {
			if h := i2Callee(ci); h != nil && h != a.root && !chain.runs(h) {
				visit(h, chain.push(ci, h))
			}
		}
	}
	visit(a.root, nil)
	return out
}

// ---- C09-delims: the terminator readSection accepts ----------------------------------------------------

// j4TermCompared: readSection (rs), or a same-package function it calls, compares with "\r\n" a
// value that - bound to the arguments of the very calls that lead to the comparison - derives from
// a read of rs's own reader parameter; the result of each call on the way is used by its caller.
func j4TermCompared(rs *ssa.Function) bool {
	if len(rs.Params) == 0 {
		return false
	}
	rd := ssa.Value(rs.Params[0])
	fromReader := func(v ssa.Value) bool {
		call, ok := v.(*ssa.Call)
		return ok && strings.HasPrefix(callName(&call.Call), "bufio.Reader.") && len(call.Call.Args) > 0 && call.Call.Args[0] == rd
	}
	found := false
	i2Walk(rs, func(in ssa.Instruction, chain i2Chain) {
		b, ok := in.(*ssa.BinOp)
		if !ok || (b.Op != token.NEQ && b.Op != token.EQL) {
			return
		}
		x, y := b.X, b.Y
		if s, _ := constString(x); s == "\r\n" {
			x, y = y, x
		}
		if s, _ := constString(y); s != "\r\n" {
			return
		}
		for _, l := range chain {
			v := l.site.Value()
			if v == nil || !j4Used(v) {
				return // the verdict of the helper is thrown away
			}
		}
		v, ch := i2Up(x, chain)
		if len(ch) == 0 && dependsOn(v, fromReader) {
			found = true
		}
	})
	return found
}

// j4Used: the value has a use other than debug information.
func j4Used(v ssa.Value) bool {
	if v.Referrers() == nil {
		return false
	}
	for _, ref := range *v.Referrers() {
		if _, dbg := ref.(*ssa.DebugRef); !dbg {
			return true
		}
	}
	return false
}

// j4LoopPos: a source position for a loop: that of the first instruction of its header, as the
// rule always reported it, or - a range loop's header starts with a position-less phi - the first
// position found in the loop.
func j4LoopPos(fn *ssa.Function, l loop) token.Pos {
	if p := l.header.Instrs[0].Pos(); p.IsValid() {
		return p
	}
	for _, b := range fn.Blocks {
		if !l.body[b] && b != l.header {
			continue
		}
		for _, in := range b.Instrs {
			if p := in.Pos(); p.IsValid() {
				return p
			}
		}
	}
	return token.NoPos
}

// ---- C18-split / C18-wrap: the body of a range-over-func loop, iterator splitters ---------------------

// j4YieldBodies: the functions go/ssa makes of the bodies of the range-over-func loops of fn
// (`for x := range seq { body }` becomes seq(func(x) bool { body })), nested ones included. Such a
// function is code of fn itself, run once per element the iterator yields; it is listed only when
// the closure's sole use is to be handed to the sequence it ranges over (which go/ssa guarantees
// for the synthetic function; checked all the same).
func j4YieldBodies(fn *ssa.Function) []*ssa.Function {
	var out []*ssa.Function
	var visit func(g *ssa.Function)
	visit = func(g *ssa.Function) {
		eachInstr(g, func(_ *ssa.BasicBlock, _ int, in ssa.Instruction) {
			mc, ok := in.(*ssa.MakeClosure)
			if !ok {
				return
			}
			body, ok := mc.Fn.(*ssa.Function)
			if !ok || body.Synthetic != "range-over-func yield" || j4RangedSeq(mc) == nil {
				return
			}
			out = append(out, body)
			visit(body)
		})
	}
	visit(fn)
	return out
}

// j4RangedSeq: the sequence value the yield closure mc is the loop body of: mc's only use is the
// plain call seq(mc).
func j4RangedSeq(mc *ssa.MakeClosure) ssa.Value {
	var seq ssa.Value
	if mc.Referrers() == nil {
		return nil
	}
	for _, ref := range *mc.Referrers() {
		if _, dbg := ref.(*ssa.DebugRef); dbg {
			continue
		}
		call, ok := ref.(*ssa.Call)
		if !ok || seq != nil || call.Call.IsInvoke() || len(call.Call.Args) != 1 || call.Call.Args[0] != ssa.Value(mc) {
			return nil
		}
		seq = call.Call.Value
	}
	return seq
}

// j4BufferWrites: the chunk writes of fn (g8BufferWrites) including those made by the bodies of
// its range-over-func loops and the helpers these hand the buffer to.
func (a *ipG2) j4BufferWrites(fn *ssa.Function) []g8Chunk {
	out := a.g8BufferWrites(fn)
	for _, body := range j4YieldBodies(fn) {
		out = append(out, a.g8BufferWrites(body)...)
	}
	return out
}

// Line iterators: every line of the text, split at every "\n" - with the terminating "\n" left on
// the line (strings.Lines, bytes.Lines, SplitAfterSeq) or removed (SplitSeq). sep: index of the
// separator argument, -1 when the function has none.
var j4LineSeqs = map[string]struct {
	sep      int
	keepsEOL bool
}{
	"strings.Lines":         {-1, true},
	"bytes.Lines":           {-1, true},
	"strings.SplitSeq":      {1, false},
	"bytes.SplitSeq":        {1, false},
	"strings.SplitAfterSeq": {1, true},
	"bytes.SplitAfterSeq":   {1, true},
}

// j4IsLF: the separator value is the constant "\n" (string, or []byte of it).
func j4IsLF(sep ssa.Value) bool {
	if s, ok := constString(sep); ok {
		return s == "\n"
	}
	if cv, ok := sep.(*ssa.Convert); ok {
		s, ok := constString(cv.X)
		return ok && s == "\n"
	}
	return false
}

// j4StripsLF: the call removes a trailing "\n" from its first argument (and nothing but line-break
// characters): TrimSuffix(x, "\n"), TrimRight(x, cutset of CR/LF containing LF).
func j4StripsLF(v ssa.Value) bool {
	call, ok := v.(*ssa.Call)
	if !ok || len(call.Call.Args) != 2 {
		return false
	}
	arg := call.Call.Args[1]
	if cv, isConv := arg.(*ssa.Convert); isConv {
		arg = cv.X
	}
	s, isC := constString(arg)
	if !isC {
		return false
	}
	switch callName(&call.Call) {
	case "strings.TrimSuffix", "bytes.TrimSuffix":
		return s == "\n"
	case "strings.TrimRight", "bytes.TrimRight":
		return strings.Contains(s, "\n") && strings.Trim(s, "\r\n") == ""
	}
	return false
}

// j4LineSeq judges one call of a line iterator in fn (C18-split). It returns counted=false when
// the call is not a line iterator. bad is "" when:
//   - its separator (if it takes one) is the constant LF;
//   - the sequence is ranged over by a range-over-func loop of fn, and by nothing else;
//   - for an iterator that leaves the "\n" on each line: nothing written to a bytes.Buffer by the
//     loop body - or by the same-package code it runs, parameters bound to the arguments of those
//     very calls - derives from the yielded line other than through a call that strips the trailing
//     "\n" (otherwise a stored line would contain a bare LF in front of its CRLF).
func j4LineSeq(c *Ctx, fn *ssa.Function, ci ssa.CallInstruction) (counted bool, bad string) {
	name := callName(ci.Common())
	spec, ok := j4LineSeqs[name]
	if !ok {
		return false, ""
	}
	at := c.pos(ci.Pos())
	if spec.sep >= 0 && (len(ci.Common().Args) <= spec.sep || !j4IsLF(ci.Common().Args[spec.sep])) {
		return true, "the separator of " + name + " at " + at + " is not the constant LF"
	}
	seq := ci.Value()
	if seq == nil || seq.Referrers() == nil {
		return true, "the result of " + name + " at " + at + " is not used as the sequence of a range loop (unresolved)"
	}
	var body *ssa.Function
	for _, ref := range *seq.Referrers() {
		if _, dbg := ref.(*ssa.DebugRef); dbg {
			continue
		}
		call, isCall := ref.(*ssa.Call)
		var mc *ssa.MakeClosure
		if isCall && call.Call.Value == seq && len(call.Call.Args) == 1 {
			mc, _ = call.Call.Args[0].(*ssa.MakeClosure)
		}
		var f *ssa.Function
		if mc != nil && j4RangedSeq(mc) == seq {
			f, _ = mc.Fn.(*ssa.Function)
		}
		if f == nil || f.Synthetic != "range-over-func yield" || len(f.Params) != 1 || body != nil {
			return true, "the lines of " + name + " at " + at + " are consumed other than by one range loop over them (unresolved)"
		}
		body = f
	}
	if body == nil {
		return true, "the lines of " + name + " at " + at + " are never iterated (unresolved)"
	}
	if !spec.keepsEOL {
		return true, ""
	}
	yielded := ssa.Value(body.Params[0])
	var raw func(v ssa.Value, chain i2Chain, depth int) bool
	raw = func(v ssa.Value, chain i2Chain, depth int) bool {
		if depth > 6 {
			return true // cannot exclude
		}
		return dependsOnBarrier(v, func(x ssa.Value) bool {
			if x == yielded {
				return true
			}
			switch p := x.(type) {
			case *ssa.Parameter:
				if len(chain) == 0 {
					return false
				}
				up, ch := i2Up(p, chain)
				if up == ssa.Value(p) {
					return true // a parameter that is not bound by the chain: cannot exclude
				}
				return raw(up, ch, depth+1)
			case *ssa.FreeVar:
				up, ch := i2Up(p, chain)
				if up == ssa.Value(p) {
					return false // a variable of the enclosing function (the buffer, counters)
				}
				return raw(up, ch, depth+1)
			}
			return false
		}, j4StripsLF)
	}
	i2Walk(body, func(in ssa.Instruction, chain i2Chain) {
		w, isCall := in.(ssa.CallInstruction)
		if !isCall || bad != "" {
			return
		}
		com := w.Common()
		if !strings.HasPrefix(callName(com), "bytes.Buffer.Write") || len(com.Args) < 2 {
			return
		}
		if raw(com.Args[1], chain, 0) {
			bad = "the lines yielded by " + name + " keep their terminating LF, and the text written at " + c.pos(w.Pos()) + " derives from such a line without the LF having been stripped (strings.TrimSuffix(line, \"\\n\")): a stored line would contain a bare LF"
		}
	})
	return true, bad
}

// j4SameLoad: x and y are two loads of one variable (the same address value: a captured variable
// of the enclosing function, a local in memory), the first made before instruction from, the
// second before instruction to of the same block, and nothing between from and to stores to that
// address or calls code that could (only calls of other packages' functions lie between): both
// hold the same value. The body of a range-over-func loop reads the buffer variable of its
// function anew for every use.
func j4SameLoad(x, y ssa.Value, from, to ssa.Instruction) bool {
	lx, ok1 := x.(*ssa.UnOp)
	ly, ok2 := y.(*ssa.UnOp)
	if !ok1 || !ok2 || lx.Op != token.MUL || ly.Op != token.MUL || lx.X != ly.X || from.Block() != to.Block() || lx.Block() != from.Block() || ly.Block() != from.Block() {
		return false
	}
	switch lx.X.(type) {
	case *ssa.FreeVar, *ssa.Alloc:
	default:
		return false
	}
	i, j := instrIndex(lx), instrIndex(to)
	if i < 0 || j < i {
		return false
	}
	for _, in := range from.Block().Instrs[i:j] {
		switch s := in.(type) {
		case *ssa.Store:
			if s.Addr == lx.X {
				return false
			}
		case ssa.CallInstruction:
			if in == from {
				continue
			}
			callee := s.Common().StaticCallee()
			if callee == nil || callee.Pkg == from.Parent().Pkg || rootFn(callee).Pkg == rootFn(from.Parent()).Pkg {
				return false
			}
		}
	}
	return true
}

// ---- round 5: the header lines Header.Write writes, through the code it runs ---------------------------

// j5Line is one `fmt.Fprintf(w, format, key?, value...)` to the writer of Header.Write (hw), made
// by hw itself or by same-package code it runs (i2Walk: functions, methods, local closures, method
// values), seen from ONE chain of calls: the parameters of the helper are bound to the arguments of
// those very calls. A helper `line(w, key, value)` called at two places yields two lines.
type j5Line struct {
	call    ssa.CallInstruction // the fmt.Fprintf
	chain   i2Chain             // the calls from hw down to the function of call (empty: hw itself)
	site    ssa.CallInstruction // the instruction of hw that makes the line happen (call, or the first call of chain)
	raw     string              // the constant format of the Fprintf ("" when it is not constant)
	format  string              // the format with a leading %s/%v of a constant key folded in: "Mid: %s\r\n"
	folded  bool                // the key was a constant (bound at this chain) and is part of format
	key     ssa.Value           // the first operand as a value of hw (nil: folded, none, or not expressible in hw's terms)
	noArgs  bool                // the Fprintf has no operands (a constant line)
	badArgs bool                // the operands cannot be enumerated, or the key is not a value of hw
}

// j5Lines lists the lines of hw (whose second parameter is the writer) in walk order.
func j5Lines(hw *ssa.Function) []*j5Line {
	var out []*j5Line
	i2Walk(hw, func(in ssa.Instruction, chain i2Chain) {
		ci, ok := in.(ssa.CallInstruction)
		if !ok || callName(ci.Common()) != "fmt.Fprintf" || len(ci.Common().Args) != 3 {
			return
		}
		// the writer must be hw's own, handed down through the chain: a parameter of hw or a value hw
		// derives from one (bufio.NewWriter(w)); a global (io.Discard) or a writer the helper makes is
		// not the header's output
		w, ch := i2Up(ci.Common().Args[0], chain)
		if len(ch) != 0 || !dependsOn(w, func(x ssa.Value) bool {
			p, isParam := x.(*ssa.Parameter)
			return isParam && p.Parent() == hw
		}) {
			return
		}
		l := &j5Line{call: ci, chain: chain, site: ci}
		if len(chain) > 0 {
			l.site = chain[0].site
		}
		l.raw, _ = i2ConstString(ci.Common().Args[1], chain)
		l.format = l.raw
		out = append(out, l)
		if isNilConst(ci.Common().Args[2]) {
			l.noArgs = true
			return
		}
		args, ok := variadicArgs(ci.Common().Args[2])
		if !ok || len(args) == 0 {
			l.badArgs = true
			return
		}
		k := unwrap(args[0])
		if s, isC := i2ConstString(k, chain); isC && (strings.HasPrefix(l.raw, "%s") || strings.HasPrefix(l.raw, "%v")) {
			l.format, l.folded = s+l.raw[2:], true
			return
		}
		v, ch := i2Up(k, chain)
		if len(ch) != 0 {
			l.badArgs = true
			return
		}
		l.key = v
	})
	return out
}

// j5First: the line that is written before every other one: its site in hw dominates the site of
// each of them (two lines behind one site are not ordered by this: nil).
func j5First(lines []*j5Line) *j5Line {
	for _, f := range lines {
		first := true
		for _, o := range lines {
			if o != f && (o.site == f.site || !instrDominates(f.site, o.site)) {
				first = false
			}
		}
		if first {
			return f
		}
	}
	return nil
}

// j5ValuesRanged: the innermost `for .. range x` loop around the line - in the function of the
// Fprintf, or around one of the calls that lead to it - ranges over hw's own header map indexed by
// a key: x, rewritten into hw's terms, is h[..] with h the receiver of hw (the lookup may be made in
// a helper that was handed h, or in hw and handed to the helper).
func j5ValuesRanged(hw *ssa.Function, l *j5Line) bool {
	blk := l.call.Block()
	for i := len(l.chain); i >= 0; i-- {
		if x, _ := rangedSlice(blk); x != nil {
			v, ch := i2Up(x, l.chain[:i])
			lk, ok := v.(*ssa.Lookup)
			if !ok {
				return false
			}
			m, ch2 := i2Up(lk.X, ch)
			return len(ch2) == 0 && sameSlotValue(m, hw.Params[0])
		}
		if i > 0 {
			blk = l.chain[i-1].site.Block()
		}
	}
	return false
}

// j5MayOutput: the call writes output, itself (a writer call, a Write* method of an interface) or
// somewhere in the same-package code it runs.
func j5MayOutput(ci ssa.CallInstruction, depth int, busy map[*ssa.Function]bool) bool {
	com := ci.Common()
	if writerCalls[callName(com)] || (com.IsInvoke() && strings.HasPrefix(com.Method.Name(), "Write")) {
		return true
	}
	h := i2Callee(ci)
	if h == nil || busy[h] || depth >= i2MaxDepth {
		return false
	}
	busy[h] = true
	defer delete(busy, h)
	for _, x := range allCalls(h) {
		if j5MayOutput(x, depth+1, busy) {
			return true
		}
	}
	return false
}
