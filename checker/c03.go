package main

// C03 — no byte sequence from the remote can crash, hang or exhaust a session.

import (
	"sort"
	"strings"

	"golang.org/x/tools/go/ssa"
)

func init() {
	register("C03", true,
		"Structural necessary conditions decided from source, for every remote transcript at once: (C03-crash) crash-site inventory over everything reachable from Exchange in packages fbb, lzhuf (decoder side) and mailbox (the directory handler behind the MBoxHandler interface): every index/slice expression is proven in range by the compiler's prove pass or by the fact engine (dominating length guards, HasPrefix/Split/Peek/ReadString/Index post-conditions, caller facts, field invariants), every make has a bounded size, calls through func-typed fields are nil-guarded (C16-guard), and no panic, log.Fatal, os.Exit or unchecked type assertion is reachable - apart from a reviewed exception table (handler contract, local outbox state, sort.Interface contract) listed as ASSUMED; the adaptive Huffman tree indices are ASSUMED (tree-shape invariant); (C03-readloop) every loop of a reachable fbb function that contains a read from the remote passes, on each iteration, through a read whose error is tested with the non-nil edge leaving the loop - so the end of the input ends every such loop; (C03-spin) the decompressor cannot return (0, nil) forever (same rule as C08-trichotomy and C08-bounded), because Proposal.data drains it with io.Copy; (C03-alloc) allocation sizes derived from remote integers are bounded (part of the inventory: kind make); (C03-close) the connection is closed on every exit (same rule as C01-close). NOT decided: nil dereference of locals, termination of loops that do not read from the remote (the turn loop of Exchange alternates by construction), memory used inside the standard library, decompression ratio.",
		checkC03)
}

func checkC03(c *Ctx, r *Report) {
	ex := c.Func("fbb", "(*Session).Exchange")
	if ex == nil {
		r.Fail("anchor", "(*fbb.Session).Exchange not found")
		return
	}
	scope := func(fn *ssa.Function) bool {
		switch pkgRel(fn) {
		case "fbb", "lzhuf", "mailbox":
			return true
		}
		return false
	}
	// ---- C03-crash
	r.Rule("C03-crash", 60, "crash-site inventory from Exchange")
	treeWhy := "adaptive Huffman tree code: indices in range by a tree-shape invariant that no local reasoning establishes — ASSUMED, not proven (see C08)"
	encWhy := "LZHUF encoder: only ever sees the bytes of local outbound messages, not remote input"
	cfg := crashCfg{
		rule:    "C03-crash",
		entries: []*ssa.Function{ex},
		scope:   scope,
		bcePkgs: []string{"fbb", "lzhuf", "mailbox"},
		assumedFns: map[string]string{
			"(*lzhuf.lzhuf).update":      treeWhy,
			"(*lzhuf.lzhuf).reconst":     treeWhy,
			"(*lzhuf.Reader).decodeChar": treeWhy,
		},
		skipFns: map[string]string{
			"lzhuf.newLZHUFF":                "input-independent initialisation of the tree (see C08)",
			"(*lzhuf.lzhuf).InsertNode":      encWhy,
			"(*lzhuf.lzhuf).DeleteNode":      encWhy,
			"(*lzhuf.lzhuf).InitTree":        encWhy,
			"(*lzhuf.Writer).Write":          encWhy,
			"(*lzhuf.Writer).Close":          encWhy,
			"(*lzhuf.Writer).advance":        encWhy,
			"(*lzhuf.Writer).encode":         encWhy,
			"(*lzhuf.Writer).encodeEnd":      encWhy,
			"(*lzhuf.Writer).encodeChar":     encWhy,
			"(*lzhuf.Writer).encodePosition": encWhy,
			"(*lzhuf.Writer).putCode":        encWhy,
			"lzhuf.NewWriter":                encWhy,
			"lzhuf.NewB2Writer":              encWhy,
			"lzhuf.crc":                      encWhy,
		},
		exceptions: map[string]string{
			"(*lzhuf.Reader).Read|index d.z.textBuf[d.state.r]":                  "window cursor masked with N-1 after every increment (rule C08-window)",
			"(*fbb.Session).writeProposalsAnswer|index proposals[idx]":           "idx comes from the slice 'unanswered', which only ever receives indices produced by ranging over this very 'proposals' slice a few lines above",
			"(*fbb.Session).writeProposalsAnswer|index proposals[unansweredIdx]": "same: elements of 'unanswered' are indices of 'proposals'",
			"(*fbb.Session).writeProposalsAnswer|index answers[answerIdx]":       "handler contract: BatchedInboundHandler.GetInboundAnswers returns one answer per proposal it was given (local code, not remote input)",
			"(*fbb.Message).ReadFrom|index m.files[i]":                           "m.files was made with len(m.Header[File]) two lines above and i ranges over that same header slice; nothing modifies the header in between",
			"(fbb.ByDate).Swap|index d[i]":                                       "sort.Interface contract: indices passed by package sort are in range",
			"(fbb.ByDate).Swap|index d[j]":                                       "sort.Interface contract",
			"(fbb.ByDate).Less|index d[i]":                                       "sort.Interface contract",
			"(fbb.ByDate).Less|index d[j]":                                       "sort.Interface contract",
			"(fbb.bySize).Swap|index s[i]":                                       "sort.Interface contract",
			"(fbb.bySize).Swap|index s[j]":                                       "sort.Interface contract",
			"(fbb.bySize).Less|index s[i]":                                       "sort.Interface contract",
			"(fbb.bySize).Less|index s[j]":                                       "sort.Interface contract",
			"(fbb.byPrecedence).Swap|index s[i]":                                 "sort.Interface contract",
			"(fbb.byPrecedence).Swap|index s[j]":                                 "sort.Interface contract",
			"(fbb.byPrecedence).Less|index s[i]":                                 "sort.Interface contract",
			"(fbb.byPrecedence).Less|index s[j]":                                 "sort.Interface contract",
		},
		fatalIsOK: map[string]string{
			"fbb.NewProposal|panic panic(err)": "raised only if compressing a LOCAL outbound message into an in-memory buffer fails; not reachable with remote bytes",
			"(*mailbox.DirHandler).SetSent|fatal log.Fatalf(\"Unable to move %s to %s: %s\", oldPath, newPath, err)": "the trigger is the state of a local outbox file (rename of out/<MID>.b2f fails), not bytes from the remote",
			"fbb.NewFile|panic panic(\"Empty filename is not allowed\")":                                             "guards local API misuse (NewFile(\"\")); ReadFrom builds File values directly and never calls NewFile",
		},
	}
	// "directory entries have non-empty names" is granted by role, not by function name: every
	// <entry>.Name()[0] whose entry comes out of a directory listing, also behind a helper's
	// parameter when every call site passes such an entry (ip_g8.go)
	for k, why := range g8DirEntryNameExceptions(c, c.reach([]*ssa.Function{ex}, scope), "operating system contract: directory entries have non-empty names") {
		cfg.exceptions[k] = why
	}
	// calls through func-typed fields
	st := crashInventory(c, r, cfg)
	r.Infos["crash_inventory"] = st
	funcFieldRule(c, r, "C03-crash", c.reach([]*ssa.Function{ex}, scope))

	// ---- C03-readloop
	r.Rule("C03-readloop", 5, "loops that read from the remote end when the input ends")
	reach := c.reach([]*ssa.Function{ex}, func(fn *ssa.Function) bool { return pkgRel(fn) == "fbb" })
	var fns []*ssa.Function
	for fn := range reach {
		fns = append(fns, fn)
	}
	sortFuncs(fns)
	for _, fn := range fns {
		for _, lp := range naturalLoops(fn) {
			var reads []ssa.CallInstruction
			for b := range lp.body {
				for _, in := range b.Instrs {
					if ci, ok := in.(ssa.CallInstruction); ok && c.j2IsRemoteRead(ci) { // ip_j2.go: also a reader handed down as a parameter
						reads = append(reads, ci)
					}
				}
			}
			if len(reads) == 0 {
				continue
			}
			// lp.body is a map: order the reads by position so that the obligation key is stable
			sort.Slice(reads, func(i, j int) bool {
				if bi, bj := reads[i].Block().Index, reads[j].Block().Index; bi != bj {
					return bi < bj
				}
				return instrIndex(reads[i]) < instrIndex(reads[j])
			})
			o := r.Add("C03-readloop", fnName(fn), "loop at "+lp.header.Comment+" reading "+callName(reads[0].Common()), c.pos(reads[0].Pos()))
			good := false
			for _, rd := range reads {
				// executed on every iteration
				every := true
				for _, latch := range lp.latches {
					if !rd.Block().Dominates(latch) {
						every = false
					}
				}
				if !every {
					continue
				}
				// its error's non-nil edge leaves the loop
				ev := errResult(rd.Value())
				if ev == nil {
					continue
				}
				leaves := false
				eachInstr(fn, func(b *ssa.BasicBlock, _ int, in ssa.Instruction) {
					ifi, ok := in.(*ssa.If)
					if !ok || !lp.body[b] {
						return
					}
					if is, isNil := nilTest(Cond{ifi.Cond, true, ifi}, ev); is {
						errSucc := b.Succs[0]
						if isNil {
							errSucc = b.Succs[1]
						}
						if !lp.body[errSucc] || regionExits(errSucc) {
							leaves = true
						}
					}
				})
				if leaves {
					good = true
				}
			}
			if good {
				o.OK("a read executed on every iteration has its error tested, and the non-nil edge leaves the loop")
			} else {
				o.Bad("no read that is executed on every iteration has its error tested with the error edge leaving the loop: when the remote stops sending (EOF) the loop spins or blocks")
			}
		}
	}

	// ---- C03-spin
	if read := c.Func("lzhuf", "(*Reader).Read"); read == nil {
		r.Fail("C03-spin", "anchor (*lzhuf.Reader).Read not found")
	} else {
		cmp, holds := lzOrdering()
		r.Rule("C03-spin", 3, "the decompressor cannot return (0, nil) forever")
		trichotomyRule(c, r, "C03-spin", read, cmp, holds)
	}

	// ---- C03-close
	closeRule(c, r, "C03-close")
	r.NotCov = append(r.NotCov, "nil dereference of locals and nil-map writes", "termination of loops that do not read from the remote", "memory used inside the standard library (textproto header parsing, regexp)", "decompression ratio (a small payload may declare a large size)")
	_ = strings.HasPrefix
}

func sortFuncs(fns []*ssa.Function) {
	for i := 1; i < len(fns); i++ {
		for j := i; j > 0 && (fns[j].Pos() < fns[j-1].Pos() || fns[j].Pos() == fns[j-1].Pos() && fns[j].String() < fns[j-1].String()); j-- {
			fns[j], fns[j-1] = fns[j-1], fns[j]
		}
	}
}

type loop struct {
	header  *ssa.BasicBlock
	latches []*ssa.BasicBlock
	body    map[*ssa.BasicBlock]bool
}

// naturalLoops finds the natural loops of fn (one per header, back edges merged).
func naturalLoops(fn *ssa.Function) []loop {
	byHeader := map[*ssa.BasicBlock]*loop{}
	var order []*ssa.BasicBlock
	for _, b := range fn.Blocks {
		for _, s := range b.Succs {
			if s.Dominates(b) {
				lp, ok := byHeader[s]
				if !ok {
					lp = &loop{header: s, body: map[*ssa.BasicBlock]bool{s: true}}
					byHeader[s] = lp
					order = append(order, s)
				}
				lp.latches = append(lp.latches, b)
				// body: blocks that reach the latch without passing the header
				stack := []*ssa.BasicBlock{b}
				for len(stack) > 0 {
					x := stack[len(stack)-1]
					stack = stack[:len(stack)-1]
					if lp.body[x] {
						continue
					}
					lp.body[x] = true
					stack = append(stack, x.Preds...)
				}
			}
		}
	}
	var out []loop
	for _, h := range order {
		out = append(out, *byHeader[h])
	}
	return out
}

// funcFieldRule: E1(g) — calls through func-typed struct fields need a non-nil guard. The
// secure-login callback is decided by the clause reasoning of C16-guard; any other such call in
// the reachable code is examined with plain dominance.
func funcFieldRule(c *Ctx, r *Report, rule string, reach map[*ssa.Function]bool) {
	var fns []*ssa.Function
	for fn := range reach {
		fns = append(fns, fn)
	}
	sortFuncs(fns)
	// decided by g5Guard (ip_g5.go): dominating non-nil test (direct or through a predicate
	// function) or early exit clause, in the function itself or at every call site of the
	// unexported helper that contains the call
	guard := &g5Guard{c: c}
	for _, fn := range fns {
		for _, ci := range allCalls(fn) {
			call := ci.Common()
			if call.IsInvoke() || call.StaticCallee() != nil {
				continue
			}
			ld, ok := call.Value.(*ssa.UnOp)
			if !ok {
				continue
			}
			what := "field"
			switch ld.X.(type) {
			case *ssa.FieldAddr:
			case *ssa.IndexAddr:
				what = "element" // a table of functions: an entry that was never filled is a nil function too
			default:
				continue
			}
			fieldPath := pathOf(ld)
			o := r.Add(rule, fnName(fn), "call through "+what+" "+c.exprAt(fn, ci.Pos()), c.pos(ci.Pos()))
			if srcs, ok := h1NonNilFunc(call.Value); ok {
				// ip_h1.go: a field of a local table every entry of which was filled with a function
				o.OK("the value called is one of %d function value(s) stored in a local aggregate that does not escape; every entry that may be read is written before the call", len(srcs))
				continue
			}
			guarded, _ := guard.nonNil(ci, ld, nil, nil, 0)
			if guarded {
				o.OK("a nil %s is excluded on every path to the call (dominating test or early exit clause)", fieldPath)
			} else {
				o.Bad("the func-typed %s %s is called without a dominating non-nil test: a remote that triggers this path crashes the session when the callback is not registered", what, fieldPath)
			}
		}
	}
}
