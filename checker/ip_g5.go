package main

// Interprocedural support for the rules that need "the func-typed field F is not nil here"
// (C16-guard, the func-field part of C03-crash) and for the ;PR line of C16-reply. The necessary
// condition is unchanged - a nil F is excluded on every path to the call through F - but it no
// longer depends on where the code puts the pieces:
//
//   - a test of F may be made through a predicate function (hasHandler() == "F != nil"): the
//     predicate is summarised as "result r implies <param>.<fields> != nil" (g5PredNonNil);
//   - the call through F may live in an unexported helper while the test is in its callers: the
//     proof is then attempted at EVERY call site of the helper, with the helper's parameters bound
//     to the actual arguments (g5Env) and the branch conditions that hold around the call inside
//     the helper carried along, translated into the caller's terms (g5Path);
//   - the early exit may be taken on the error handed back by a validating helper
//     (if err := s.check(x); err != nil { return err }): the helper's own error exits are the
//     clauses (g5ErrClauses).
//
// Whatever cannot be enumerated or translated makes the proof fail, i.e. the rule reports.

import (
	"go/constant"
	"go/token"
	"go/types"
	"strings"
	"sync"

	"golang.org/x/tools/go/ssa"
)

// g5Env binds parameters of helper frames to the values passed at the call site under
// consideration (one map for all frames: parameters of different functions are different objects).
type g5Env map[*ssa.Parameter]ssa.Value

func (e g5Env) with(callee *ssa.Function, site ssa.CallInstruction) (g5Env, bool) {
	args := site.Common().Args
	if len(args) != len(callee.Params) {
		return nil, false
	}
	out := g5Env{}
	for k, v := range e {
		out[k] = v
	}
	for i, p := range callee.Params {
		out[p] = args[i]
	}
	return out, true
}

// g5Resolve follows parameter bindings up to a value of an outer frame.
func g5Resolve(v ssa.Value, env g5Env) ssa.Value {
	for i := 0; i < 8; i++ {
		p, ok := v.(*ssa.Parameter)
		if !ok {
			return v
		}
		a, bound := env[p]
		if !bound {
			return v
		}
		v = a
	}
	return v
}

func g5Mentions(v ssa.Value, env g5Env, seen map[ssa.Value]bool, depth int) bool {
	if v == nil || depth > 14 || seen[v] {
		return false
	}
	seen[v] = true
	if p, ok := v.(*ssa.Parameter); ok {
		_, bound := env[p]
		return bound
	}
	if al, ok := v.(*ssa.Alloc); ok {
		// the slot a parameter was spilled to (ip_h4r3.go): stands for the parameter
		if p := h4rSpilledParam(al); p != nil {
			_, bound := env[p]
			return bound
		}
	}
	if in, ok := v.(ssa.Instruction); ok {
		for _, op := range in.Operands(nil) {
			if *op != nil && g5Mentions(*op, env, seen, depth+1) {
				return true
			}
		}
	}
	return false
}

// g5Path renders v, a value of some helper frame, as an access path in the terms of frame cur
// (same format as pathOf): bound parameters are replaced by the actual arguments. It fails when
// the value involves something local to another frame than cur, for which cur has no name.
func g5Path(v ssa.Value, env g5Env, cur *ssa.Function) (string, bool) { return g5PathN(v, env, cur, 0) }

func g5PathN(v ssa.Value, env g5Env, cur *ssa.Function, depth int) (string, bool) {
	if v == nil || depth > 16 {
		return "", false
	}
	if len(env) == 0 || !g5Mentions(v, env, map[ssa.Value]bool{}, 0) {
		if par := v.Parent(); par != nil && par != cur {
			if _, isFn := v.(*ssa.Function); !isFn {
				return "", false
			}
		}
		return pathOf(v), true
	}
	sub := func(x ssa.Value) (string, bool) { return g5PathN(x, env, cur, depth+1) }
	switch v := v.(type) {
	case *ssa.Parameter:
		return sub(env[v])
	case *ssa.Alloc:
		// never re-assigned copy of a by-value parameter: the address of (a copy of) the argument
		if p := h4rSpilledParam(v); p != nil {
			if x, ok := sub(env[p]); ok {
				return "&" + x, true
			}
		}
	case *ssa.FieldAddr:
		if x, ok := sub(v.X); ok {
			return "&" + derefPath(x) + "." + fieldName(v.X.Type(), v.Field), true
		}
	case *ssa.Field:
		if x, ok := sub(v.X); ok {
			return x + "." + fieldName(v.X.Type(), v.Field), true
		}
	case *ssa.IndexAddr:
		x, ok1 := sub(v.X)
		i, ok2 := sub(v.Index)
		if ok1 && ok2 {
			return "&" + derefPath(x) + "[" + i + "]", true
		}
	case *ssa.Index:
		x, ok1 := sub(v.X)
		i, ok2 := sub(v.Index)
		if ok1 && ok2 {
			return x + "[" + i + "]", true
		}
	case *ssa.Lookup:
		x, ok1 := sub(v.X)
		i, ok2 := sub(v.Index)
		if ok1 && ok2 {
			return x + "[" + i + "]", true
		}
	case *ssa.UnOp:
		if x, ok := sub(v.X); ok {
			if v.Op == token.MUL {
				return derefPath(x), true
			}
			return v.Op.String() + x, true
		}
	case *ssa.Convert:
		return sub(v.X)
	case *ssa.ChangeType:
		return sub(v.X)
	case *ssa.ChangeInterface:
		return sub(v.X)
	case *ssa.MakeInterface:
		return sub(v.X)
	case *ssa.BinOp:
		x, ok1 := sub(v.X)
		y, ok2 := sub(v.Y)
		if ok1 && ok2 {
			return "(" + x + " " + v.Op.String() + " " + y + ")", true
		}
	case *ssa.Extract:
		if x, ok := sub(v.Tuple); ok {
			return x + "#" + itoa(v.Index), true
		}
	case *ssa.Call:
		n := callName(&v.Call)
		if n == "" {
			return "", false
		}
		var args []string
		for _, a := range callArgs(&v.Call) {
			s, ok := sub(a)
			if !ok {
				return "", false
			}
			args = append(args, s)
		}
		return n + "(" + strings.Join(args, ", ") + ")", true
	}
	return "", false
}

// g5Norm renders the fact "v is truth" in a normal form: negations stripped, x == y written as
// the negation of x != y, so that facts that differ only in the spelling of the test compare equal.
func g5Norm(v ssa.Value, truth bool, env g5Env, cur *ssa.Function) (string, bool, bool) {
	for i := 0; i < 4; i++ {
		u, ok := v.(*ssa.UnOp)
		if !ok || u.Op != token.NOT {
			break
		}
		v, truth = u.X, !truth
	}
	if b, ok := v.(*ssa.BinOp); ok && b.Op == token.EQL {
		x, ok1 := g5Path(b.X, env, cur)
		y, ok2 := g5Path(b.Y, env, cur)
		return "(" + x + " != " + y + ")", !truth, ok1 && ok2
	}
	p, ok := g5Path(v, env, cur)
	return p, truth, ok
}

func itoa(i int) string {
	if i == 0 {
		return "0"
	}
	s := ""
	for n := i; n > 0; n /= 10 {
		s = string(rune('0'+n%10)) + s
	}
	return s
}

// ---- call sites -----------------------------------------------------------------------------

var (
	g5mu        sync.Mutex
	g5wrapped   = map[*Ctx]map[*ssa.Function]bool{}
	g5predCache = map[*ssa.Function]*[2][]g5Rel{}
)

// g5Sites enumerates every call site of fn, or fails: fn must be an unexported package-level
// function or method, never used as a value (no function value, no method value, no method
// expression, no interface that could dispatch to it), with at least one static call site.
func (c *Ctx) g5Sites(fn *ssa.Function) ([]ssa.CallInstruction, bool) {
	if fn == nil || fn.Parent() != nil || fn.Synthetic != "" || fn.Blocks == nil {
		return nil, false
	}
	obj, _ := fn.Object().(*types.Func)
	if obj == nil || obj.Exported() || obj.Pkg() == nil {
		return nil, false
	}
	si := c.siteIdx()
	if si.taken[fn] {
		return nil, false
	}
	g5mu.Lock()
	w, ok := g5wrapped[c]
	if !ok {
		// callees of synthetic wrappers (bound method closures, thunks, interface method wrappers)
		w = map[*ssa.Function]bool{}
		for f := range c.allFuncs {
			if f.Synthetic == "" || f.Blocks == nil || strings.HasPrefix(f.Synthetic, "package initializer") {
				continue
			}
			eachInstr(f, func(_ *ssa.BasicBlock, _ int, in ssa.Instruction) {
				if ci, isCall := in.(ssa.CallInstruction); isCall {
					if callee := ci.Common().StaticCallee(); callee != nil {
						w[callee] = true
					}
				}
			})
		}
		g5wrapped[c] = w
	}
	g5mu.Unlock()
	if w[fn] {
		return nil, false
	}
	if fn.Signature.Recv() != nil {
		dispatched := false
		for _, g := range c.moduleFuncs() {
			eachInstr(g, func(_ *ssa.BasicBlock, _ int, in ssa.Instruction) {
				if ci, isCall := in.(ssa.CallInstruction); isCall && ci.Common().IsInvoke() {
					m := ci.Common().Method
					if m.Name() == obj.Name() && m.Pkg() == obj.Pkg() {
						dispatched = true
					}
				}
			})
		}
		if dispatched {
			return nil, false
		}
	}
	sites := si.sites[fn]
	for _, s := range sites {
		if s.Parent() == fn {
			return nil, false // recursive
		}
	}
	return sites, len(sites) > 0
}

// ---- predicate summaries --------------------------------------------------------------------

// g5Rel names storage relative to a parameter: <param k><suffix>, e.g. (0, ".secureLoginHandleFunc").
type g5Rel struct {
	param  int
	suffix string
}

func g5RelOf(fn *ssa.Function, v ssa.Value) (g5Rel, bool) {
	ld, ok := v.(*ssa.UnOp)
	if !ok || ld.Op != token.MUL {
		return g5Rel{}, false
	}
	var root ssa.Value = ld.X
	for i := 0; i < 8; i++ {
		switch x := root.(type) {
		case *ssa.FieldAddr:
			root = x.X
			continue
		case *ssa.UnOp:
			if x.Op == token.MUL {
				root = x.X
				continue
			}
		}
		break
	}
	p, ok := root.(*ssa.Parameter)
	if !ok || p.Parent() != fn {
		return g5Rel{}, false
	}
	path := pathOf(ld)
	if !strings.HasPrefix(path, p.Name()+".") {
		return g5Rel{}, false
	}
	for i, q := range fn.Params {
		if q == p {
			return g5Rel{i, strings.TrimPrefix(path, p.Name())}, true
		}
	}
	return g5Rel{}, false
}

// nilCompare: v is "x == nil" / "x != nil" (either operand order); returns x and whether the
// operator is !=.
func g5NilCompare(v ssa.Value) (ssa.Value, bool, bool) {
	b, ok := v.(*ssa.BinOp)
	if !ok || (b.Op != token.EQL && b.Op != token.NEQ) {
		return nil, false, false
	}
	switch {
	case isNilConst(b.Y):
		return b.X, b.Op == token.NEQ, true
	case isNilConst(b.X):
		return b.Y, b.Op == token.NEQ, true
	}
	return nil, false, false
}

// g5PredNonNil summarises a side-effect free predicate: the parameter-relative storage that is
// known to be non-nil whenever the function returns r. Empty for anything that is not a pure
// function with a single bool result.
func g5PredNonNil(fn *ssa.Function, r bool) []g5Rel {
	g5mu.Lock()
	defer g5mu.Unlock()
	if s, ok := g5predCache[fn]; ok {
		return s[g5b2i(r)]
	}
	s := &[2][]g5Rel{}
	g5predCache[fn] = s
	res := fn.Signature.Results()
	if fn.Blocks == nil || res.Len() != 1 || !types.Identical(res.At(0).Type().Underlying(), types.Typ[types.Bool]) || fn.Recover != nil {
		return nil
	}
	pure := true
	eachInstr(fn, func(_ *ssa.BasicBlock, _ int, in ssa.Instruction) {
		switch x := in.(type) {
		case *ssa.Store, *ssa.MapUpdate, *ssa.Send, *ssa.Go, *ssa.Defer, *ssa.RunDefers, *ssa.Select, *ssa.MakeClosure, *ssa.Next, *ssa.Range:
			pure = false
		case *ssa.Call:
			if n := callName(&x.Call); n != "builtin.len" && n != "builtin.cap" {
				pure = false
			}
		case *ssa.UnOp:
			if x.Op == token.ARROW {
				pure = false
			}
		}
	})
	if !pure {
		return nil
	}
	conds := func(b *ssa.BasicBlock) []g5Rel {
		var out []g5Rel
		for _, cd := range condsAt(b) {
			if x, neq, ok := g5NilCompare(cd.V); ok && neq == cd.Truth {
				if rel, ok := g5RelOf(fn, x); ok {
					out = append(out, rel)
				}
			}
		}
		return out
	}
	// eval: storage known non-nil when v, evaluated on leaving block b, equals want; possible=false
	// when v cannot equal want there.
	var eval func(v ssa.Value, want bool, b *ssa.BasicBlock, depth int) ([]g5Rel, bool)
	eval = func(v ssa.Value, want bool, b *ssa.BasicBlock, depth int) ([]g5Rel, bool) {
		if depth > 6 {
			return nil, true
		}
		switch x := v.(type) {
		case *ssa.Const:
			if x.Value != nil && x.Value.Kind() == constant.Bool {
				if constant.BoolVal(x.Value) != want {
					return nil, false
				}
			}
			return conds(b), true
		case *ssa.UnOp:
			if x.Op == token.NOT {
				return eval(x.X, !want, b, depth+1)
			}
		case *ssa.BinOp:
			if y, neq, ok := g5NilCompare(x); ok {
				out := conds(b)
				if neq == want {
					if rel, ok := g5RelOf(fn, y); ok {
						out = append(out, rel)
					}
				}
				return out, true
			}
		case *ssa.Phi:
			var acc []g5Rel
			first := true
			for i, e := range x.Edges {
				rels, possible := eval(e, want, x.Block().Preds[i], depth+1)
				if !possible {
					continue
				}
				if first {
					acc, first = rels, false
				} else {
					acc = g5Intersect(acc, rels)
				}
			}
			if first {
				return nil, false
			}
			return acc, true
		}
		return conds(b), true
	}
	for _, want := range []bool{false, true} {
		var acc []g5Rel
		first := true
		for _, ret := range returnsOf(fn) {
			if len(ret.Results) != 1 {
				acc, first = nil, false
				break
			}
			rels, possible := eval(ret.Results[0], want, ret.Block(), 0)
			if !possible {
				continue
			}
			if first {
				acc, first = rels, false
			} else {
				acc = g5Intersect(acc, rels)
			}
		}
		if !first {
			s[g5b2i(want)] = acc
		}
	}
	return s[g5b2i(r)]
}

func g5b2i(b bool) int {
	if b {
		return 1
	}
	return 0
}

func g5Intersect(a, b []g5Rel) []g5Rel {
	var out []g5Rel
	for _, x := range a {
		for _, y := range b {
			if x == y {
				out = append(out, x)
				break
			}
		}
	}
	return out
}

// ---- the non-nil proof ----------------------------------------------------------------------

// g5Guard decides "the storage loaded by fld is not nil at instruction at".
type g5Guard struct {
	c *Ctx
	// acceptExit is an additional requirement on an early exit that is used as (part of) the
	// proof; it returns false and the reason when the exit does not qualify. nil = none.
	acceptExit func(exit *ssa.BasicBlock) (bool, string)
	exitNote   string // appended to the reason when an exit passed acceptExit
}

// implies: "v evaluates to truth" (v a value of a frame covered by env, or of cur) entails that
// the storage with path fieldPath (in cur's terms) is not nil.
func (q *g5Guard) implies(v ssa.Value, truth bool, fld ssa.Value, fieldPath string, env g5Env, cur *ssa.Function, depth int) bool {
	if depth > 4 {
		return false
	}
	switch x := v.(type) {
	case *ssa.UnOp:
		if x.Op == token.NOT {
			return q.implies(x.X, !truth, fld, fieldPath, env, cur, depth+1)
		}
	case *ssa.BinOp:
		if y, neq, ok := g5NilCompare(x); ok && neq == truth {
			if fld.Parent() == cur && (y == fld || origin(y) == fld) {
				return true // the very value that is called (possibly kept in a local)
			}
			p, ok := g5Path(y, env, cur)
			return ok && p == fieldPath
		}
	case *ssa.Call:
		callee := x.Call.StaticCallee()
		if callee == nil {
			return false
		}
		for _, rel := range g5PredNonNil(callee, truth) {
			if rel.param >= len(x.Call.Args) {
				continue
			}
			if p, ok := g5Path(x.Call.Args[rel.param], env, cur); ok && derefPath(p)+rel.suffix == fieldPath {
				return true
			}
		}
	}
	return false
}

// g5Clause is not(c1 && ... && ck), holding wherever the exit was not taken; env translates the
// conjuncts when they belong to a validating helper; exit is the exiting region in the function
// for which the clause was collected.
type g5Clause struct {
	conj []Cond
	env  g5Env
	exit *ssa.BasicBlock
}

// g5ErrClauses: callee returned a nil error => each of the clauses returned holds (on callee's
// parameters). A clause comes from a chain of tests of callee whose exit region returns only
// non-nil errors (regionExits + every return that may hand back nil lies outside of it), and whose
// head every possibly-nil return has to pass with the chain's tests decided.
func g5ErrClauses(callee *ssa.Function) [][]Cond {
	res := callee.Signature.Results()
	if callee.Blocks == nil || res.Len() == 0 || callee.Recover != nil {
		return nil
	}
	if !types.Identical(res.At(res.Len()-1).Type(), types.Universe.Lookup("error").Type()) {
		return nil
	}
	// nothing the conditions read may be written by the helper itself
	writes := false
	eachInstr(callee, func(_ *ssa.BasicBlock, _ int, in ssa.Instruction) {
		switch in.(type) {
		case *ssa.Store, *ssa.MapUpdate:
			writes = true
		}
	})
	if writes {
		return nil
	}
	var okRets []*ssa.Return
	for _, ret := range returnsOf(callee) {
		if !isErrorExit(ret) {
			okRets = append(okRets, ret)
		}
	}
	var out [][]Cond
	for _, g := range exitGuardsCached(callee) {
		good := true
		for _, ret := range okRets {
			if g.Exit.Dominates(ret.Block()) || !g.Head.Dominates(ret.Block()) || g.Head == ret.Block() || insideChain(g, ret.Block()) {
				good = false
			}
		}
		if good {
			out = append(out, g.Conj)
		}
	}
	return out
}

// clausesAt lists the clauses that hold at block b of fn by way of early exits of fn.
func (q *g5Guard) clausesAt(fn *ssa.Function, b *ssa.BasicBlock, env g5Env) []g5Clause {
	var out []g5Clause
	for _, g := range exitGuardsCached(fn) {
		if !g.Head.Dominates(b) || g.Head == b || g.Exit.Dominates(b) || insideChain(g, b) {
			continue
		}
		out = append(out, g5Clause{g.Conj, env, g.Exit})
		// a conjunct "helper(args) handed back a non-nil error" is implied by the conjunction of
		// each of the helper's own error exits: substitute it
		for i, cj := range g.Conj {
			x, neq, isNilCmp := g5NilCompare(cj.V)
			if !isNilCmp || neq != cj.Truth {
				continue
			}
			var call *ssa.Call
			switch y := x.(type) {
			case *ssa.Call:
				call = y
			case *ssa.Extract:
				call, _ = y.Tuple.(*ssa.Call)
			}
			if call == nil || call.Call.StaticCallee() == nil || errResult(call) != x {
				continue
			}
			callee := call.Call.StaticCallee()
			if callee == fn || pkgRel(callee) != pkgRel(fn) {
				continue
			}
			env2, ok := env.with(callee, call)
			if !ok {
				continue
			}
			for _, inner := range g5ErrClauses(callee) {
				var conj []Cond
				conj = append(conj, g.Conj[:i]...)
				conj = append(conj, g.Conj[i+1:]...)
				conj = append(conj, inner...)
				out = append(out, g5Clause{conj, env2, g.Exit})
			}
		}
	}
	return out
}

// nonNil: see g5Guard. fld is the load of the field in the frame where the call through it is;
// env binds the parameters of that frame (and of the frames between it and at's function) when
// the proof has been lifted to a call site; carried are the branch conditions that hold around
// the lifted instruction in those inner frames.
func (q *g5Guard) nonNil(at ssa.Instruction, fld ssa.Value, env g5Env, carried []Cond, depth int) (bool, string) {
	fn := at.Parent()
	blk := at.Block()
	fieldPath, ok := g5Path(fld, env, fn)
	if !ok {
		return false, ""
	}
	local := condsAt(blk)
	for _, cd := range local {
		if q.implies(cd.V, cd.Truth, fld, fieldPath, env, fn, 0) {
			return true, "dominated by the non-nil edge of " + fieldPath + g5In(fn, depth)
		}
	}
	here := append(append([]Cond(nil), carried...), local...)
	why := ""
	for _, cl := range q.clausesAt(fn, blk, env) {
		// not(c1 && ... && ck) with one conjunct whose negation means 'field != nil' and all the
		// others known to hold here
		nilIdx, allKnown := -1, true
		for i, cj := range cl.conj {
			if q.implies(cj.V, !cj.Truth, fld, fieldPath, cl.env, fn, 0) {
				nilIdx = i
				continue
			}
			cp, ct, okc := g5Norm(cj.V, cj.Truth, cl.env, fn)
			known := false
			for _, h := range here {
				if hp, ht, okh := g5Norm(h.V, h.Truth, env, fn); okc && okh && hp == cp && ht == ct {
					known = true
				}
			}
			if !known {
				allKnown = false
			}
		}
		if nilIdx >= 0 && allKnown {
			if q.acceptExit != nil {
				if ok, w := q.acceptExit(cl.exit); !ok {
					why = w
					continue
				}
			}
			exitEnd := cl.exit.Instrs[len(cl.exit.Instrs)-1]
			return true, "the early exit at " + q.c.pos(exitEnd.Pos()) + g5In(fn, depth) + " excludes a nil " + fieldPath + " under the conditions that hold at this point" + q.exitNote
		}
	}
	// lift to the call sites of an unexported helper
	if depth >= 3 {
		return false, why
	}
	sites, ok := q.c.g5Sites(fn)
	if !ok {
		return false, why
	}
	// the helper itself must not overwrite the field
	stored := false
	eachInstr(fn, func(_ *ssa.BasicBlock, _ int, in ssa.Instruction) {
		if st, isSt := in.(*ssa.Store); isSt && derefPath(pathOf(st.Addr)) == fieldPath {
			stored = true
		}
	})
	if stored {
		return false, why
	}
	var reasons []string
	for _, site := range sites {
		env2, ok := env.with(fn, site)
		if !ok {
			return false, why
		}
		ok, w := q.nonNil(site, fld, env2, here, depth+1)
		if !ok {
			if why != "" || depth > 0 {
				return false, why // the reason found in the function itself says more
			}
			if w == "" {
				w = "no dominating non-nil test and no early exit that excludes a nil " + fieldPath + " under the conditions holding there"
			}
			return false, "not protected in " + fn.Name() + " itself, nor at its call at " + q.c.pos(site.Pos()) + ": " + w
		}
		dup := false
		for _, r := range reasons {
			if r == w {
				dup = true
			}
		}
		if !dup {
			reasons = append(reasons, w)
		}
	}
	return true, "at every call site of " + fn.Name() + ": " + strings.Join(reasons, "; ")
}

func g5In(fn *ssa.Function, depth int) string {
	if depth == 0 {
		return ""
	}
	return " in " + fnName(fn)
}

// ---- occurrences of a call below an anchor ---------------------------------------------------

// g5Occurrence is one way a call to the target is reached from the anchor function: the chain of
// static calls to same-package helpers (outermost first) and the call itself.
type g5Occurrence struct {
	chain []ssa.CallInstruction
	call  ssa.CallInstruction
}

func g5Occurrences(anchor *ssa.Function, target string, maxDepth int) []g5Occurrence {
	var out []g5Occurrence
	var visit func(fn *ssa.Function, chain []ssa.CallInstruction, onStack map[*ssa.Function]bool)
	visit = func(fn *ssa.Function, chain []ssa.CallInstruction, onStack map[*ssa.Function]bool) {
		onStack[fn] = true
		defer delete(onStack, fn)
		for _, ci := range allCalls(fn) {
			if callName(ci.Common()) == target {
				out = append(out, g5Occurrence{append([]ssa.CallInstruction(nil), chain...), ci})
				continue
			}
			callee := ci.Common().StaticCallee()
			if callee == nil || callee.Blocks == nil || onStack[callee] || len(chain) >= maxDepth || pkgRel(callee) != pkgRel(anchor) {
				continue
			}
			visit(callee, append(chain, ci), onStack)
		}
	}
	visit(anchor, nil, map[*ssa.Function]bool{})
	return out
}
