package main

// Shape-independent formulations used by the C19 rules: the conditions are the same necessary
// conditions as before, but they are looked for through static calls into helpers of the same
// package (callee summaries with parameters bound to the actual arguments), over every path
// instead of one dominating instruction, and by evaluating a test instead of matching its syntax.
//
//   - c19Lookups / c19LookupSummary / c19DispatchFn: "the comma-ok lookup in the registry" may be
//     made by a helper that hands both results back unchanged; the function that dispatches is the
//     one that holds the lookup, found by following pure forwarding calls from the entry point.
//   - c19Registers: "every return follows the replacement of the scheme's entry" as a cut of the
//     control-flow graph (no path from the entry to a return avoids every replacement), where a
//     replacement is a map update, the installation of a fresh map that holds the entry (only when
//     the registry is nil), or a call of a function that itself always replaces (bound parameters).
//   - g6SchemeEval / g6SchemeSetOf: the set of schemes for which a boolean holds, by enumerating the
//     finite set of outcomes of the comparisons of the scheme with constants (DESIGN.md E8) through
//     materialised && / || and through predicate functions of the package.
//   - c19HostOverride: the value stored in URL.Host may be selected before the struct is built (a
//     phi, or the returns of a helper): each alternative is judged by the conditions that hold on it.
//   - g6CrashScopeObligation: what the crash inventory examined, as an obligation of its own.
//   - g6Lockset: the must-hold lockset with the state on entry of a helper lifted from its call
//     sites (every one of them), "every function leaves the lock as it found it", and call-outs
//     made by a callee on behalf of a function that holds the lock.
//
// Names are prefixed (c19 / g6) so that this file can be merged beside other ip_*.go files.

import (
	"fmt"
	"go/constant"
	"go/token"
	"sort"
	"strings"

	"golang.org/x/tools/go/ssa"
)

const c19Registry = "transport.dialers.m"

// c19IsRegistry: v denotes the registry map - by the path of the package-level storage found by
// type, also when it is reached through a receiver that every call site binds to it (h5Registry).
func c19IsRegistry(v ssa.Value) bool {
	if c19Reg0 != nil {
		return c19Reg0.isMap(v)
	}
	return strings.HasSuffix(pathOf(v), c19Registry)
}

func g6LastInstr(b *ssa.BasicBlock) ssa.Instruction { return b.Instrs[len(b.Instrs)-1] }

// g6ParamIndex returns the index of the parameter of fn that v is (also through the stack slot of a
// captured parameter), or -1.
func g6ParamIndex(fn *ssa.Function, v ssa.Value) int {
	for i, p := range fn.Params {
		if sameSlotValue(v, p) {
			return i
		}
	}
	return -1
}

// ---- registry lookup, possibly inside a helper ------------------------------------------------

// c19RegLookup is a comma-ok lookup in the registry as seen from one function: the lookup itself, or
// the call of a helper of the package that returns the looked-up value and the ok flag of its own
// lookup unchanged on every return. The key is keyRoot followed by field selections, in terms of
// the values of the function that holds tuple (a helper's parameter is replaced by the argument).
type c19RegLookup struct {
	tuple     ssa.Value
	dIdx      int
	okIdx     int
	keyRoot   ssa.Value
	keySuffix string
	via       string // "" for a lookup made here, else the helper(s) it is made in
	// errForm: the helper turns the ok flag into an error result (ip_h5.go): okIdx is the position
	// of that error, which is nil exactly when the scheme was found and ErrMissingDialer otherwise
	errForm bool
}

func (l c19RegLookup) keyPath() string { return derefPath(pathOf(l.keyRoot)) + l.keySuffix }

// g6KeySplit peels the field selections off a loaded value: url.Scheme -> (url, ".Scheme").
func g6KeySplit(v ssa.Value) (ssa.Value, string) {
	suffix := ""
	for i := 0; i < 6; i++ {
		v = origin(v)
		if ld, ok := v.(*ssa.UnOp); ok && ld.Op == token.MUL {
			if fa, ok := ld.X.(*ssa.FieldAddr); ok {
				suffix = "." + fieldName(fa.X.Type(), fa.Field) + suffix
				v = fa.X
				continue
			}
		}
		if f, ok := v.(*ssa.Field); ok {
			suffix = "." + fieldName(f.X.Type(), f.Field) + suffix
			v = f.X
			continue
		}
		break
	}
	return v, suffix
}

type c19LookupSum struct {
	dIdx, okIdx int // result positions of the looked-up value and of the ok flag
	keyParam    int // the lookup is keyed by this parameter ...
	keySuffix   string
	via         string
	errForm     bool
}

// c19Lookups lists the registry lookups of fn: its own, and those made for it by helpers.
func c19Lookups(fn *ssa.Function, pkg string, depth int) []c19RegLookup {
	var out []c19RegLookup
	eachInstr(fn, func(_ *ssa.BasicBlock, _ int, instr ssa.Instruction) {
		switch x := instr.(type) {
		case *ssa.Lookup:
			if x.CommaOk && c19IsRegistry(x.X) {
				root, suf := g6KeySplit(x.Index)
				out = append(out, c19RegLookup{tuple: x, dIdx: 0, okIdx: 1, keyRoot: root, keySuffix: suf})
			}
		case *ssa.Call:
			callee := x.Call.StaticCallee()
			if depth >= 3 || callee == nil || callee == fn || len(callee.Blocks) == 0 || pkgRel(callee) != pkg {
				return
			}
			s := c19LookupSummary(callee, pkg, depth+1)
			if s == nil {
				// (dialer, error) instead of (dialer, ok): nil error exactly on the found edge
				s = h5LookupErrSummary(callee, pkg, depth+1)
			}
			if s != nil && s.keyParam < len(x.Call.Args) {
				root, suf := g6KeySplit(x.Call.Args[s.keyParam])
				out = append(out, c19RegLookup{tuple: x, dIdx: s.dIdx, okIdx: s.okIdx, keyRoot: root, keySuffix: suf + s.keySuffix, via: s.via, errForm: s.errForm})
			}
		}
	})
	return out
}

// c19LookupSummary: fn makes a registry lookup keyed by (a field of) one of its parameters and
// every return hands back that lookup's value and ok flag, at the same result positions.
func c19LookupSummary(fn *ssa.Function, pkg string, depth int) *c19LookupSum {
	rets := returnsOf(fn)
	if len(rets) == 0 || fn.Signature.Results().Len() < 2 {
		return nil
	}
	for _, l := range c19Lookups(fn, pkg, depth) {
		kp := g6ParamIndex(fn, l.keyRoot)
		if kp < 0 {
			continue
		}
		di, oi, ok := -1, -1, true
		for _, ret := range rets {
			d, o := -1, -1
			for i := range ret.Results {
				if ex, isEx := resOf(ret, i).(*ssa.Extract); isEx && ex.Tuple == l.tuple {
					if ex.Index == l.dIdx {
						d = i
					} else if ex.Index == l.okIdx {
						o = i
					}
				}
			}
			if d < 0 || o < 0 || (di >= 0 && (d != di || o != oi)) {
				ok = false
				break
			}
			di, oi = d, o
		}
		if !ok {
			continue
		}
		via := fnName(fn)
		if l.via != "" {
			via += " -> " + l.via
		}
		return &c19LookupSum{dIdx: di, okIdx: oi, keyParam: kp, keySuffix: l.keySuffix, via: via, errForm: l.errForm}
	}
	return nil
}

// c19DispatchFn finds the function that decides between the dialer and ErrMissingDialer: fn itself
// when it holds a registry lookup (its own or a helper's), else the function of the package that
// fn forwards its parameters to and whose results it returns unchanged on every return.
func c19DispatchFn(fn *ssa.Function, pkg string) *ssa.Function {
	for depth := 0; depth < 3; depth++ {
		if len(c19Lookups(fn, pkg, 0)) > 0 {
			return fn
		}
		var call *ssa.Call
		for _, ret := range returnsOf(fn) {
			for i := range ret.Results {
				ex, ok := resOf(ret, i).(*ssa.Extract)
				if !ok || ex.Index != i {
					return fn
				}
				cl, ok := ex.Tuple.(*ssa.Call)
				if !ok || (call != nil && cl != call) {
					return fn
				}
				call = cl
			}
		}
		if call == nil {
			return fn
		}
		callee := call.Call.StaticCallee()
		if callee == nil || callee == fn || len(callee.Blocks) == 0 || pkgRel(callee) != pkg {
			return fn
		}
		for _, a := range call.Call.Args {
			if g6ParamIndex(fn, a) < 0 {
				return fn // not a pure forwarding call: the callee may see another URL
			}
		}
		fn = callee
	}
	return fn
}

// ---- "every path to a return replaces the entry" ----------------------------------------------

type c19RegKey struct {
	fn       *ssa.Function
	key, val int
}

type c19Reg struct {
	pkg  string
	memo map[c19RegKey]bool
}

// replaces: instruction in of fn puts (a value that depends on) parameter vi into the registry
// under the key parameter ki.
func (d *c19Reg) replaces(fn *ssa.Function, in ssa.Instruction, ki, vi, depth int) bool {
	keyIs := func(v ssa.Value) bool { return sameSlotValue(v, fn.Params[ki]) }
	valIs := func(v ssa.Value) bool {
		return dependsOn(v, func(x ssa.Value) bool { return sameSlotValue(x, fn.Params[vi]) })
	}
	switch x := in.(type) {
	case *ssa.MapUpdate:
		return c19IsRegistry(x.Map) && keyIs(x.Key) && valIs(x.Value)
	case *ssa.Store:
		// dialers.m = map[...]{scheme: dialer}: a fresh map that holds the entry is installed. That
		// drops every other entry, so it only counts where the registry is known to be nil.
		if !c19IsRegistry(x.Addr) {
			return false
		}
		mm, ok := origin(x.Val).(*ssa.MakeMap)
		if !ok || mm.Referrers() == nil {
			return false
		}
		entry := false
		for _, ref := range *mm.Referrers() {
			switch u := ref.(type) {
			case *ssa.MapUpdate:
				if u.Map != ssa.Value(mm) {
					return false
				}
				if keyIs(u.Key) {
					if !valIs(u.Value) || !instrDominates(u, x) {
						return false
					}
					entry = true
				}
			case *ssa.Store:
				if u != x {
					return false
				}
			case *ssa.DebugRef:
			default:
				return false // the fresh map escapes or is modified in a way not followed
			}
		}
		if !entry {
			return false
		}
		for _, cd := range condsAt(x.Block()) {
			b, ok := cd.V.(*ssa.BinOp)
			if !ok || (b.Op != token.EQL && b.Op != token.NEQ) {
				continue
			}
			m, n := b.X, b.Y
			if isNilConst(m) {
				m, n = n, m
			}
			if isNilConst(n) && c19IsRegistry(m) && (b.Op == token.EQL) == cd.Truth {
				return true
			}
		}
		return false
	case *ssa.Call:
		callee := x.Call.StaticCallee()
		if depth >= 3 || callee == nil || callee == fn || len(callee.Blocks) == 0 || pkgRel(callee) != d.pkg {
			return false
		}
		// delegation: the scheme is passed on unchanged, the dialer is passed on (possibly wrapped),
		// to parameters under which the callee itself always replaces the entry
		args := x.Call.Args
		for ck := range callee.Params {
			if ck >= len(args) || !isStringLike(callee.Params[ck].Type()) || !keyIs(args[ck]) {
				continue
			}
			for cv := range callee.Params {
				if cv >= len(args) || cv == ck || isStringLike(callee.Params[cv].Type()) || !valIs(args[cv]) {
					continue
				}
				if d.always(callee, ck, cv, depth+1) {
					return true
				}
			}
		}
	}
	return false
}

// always: no path from the entry of fn to a return avoids every replacing instruction.
func (d *c19Reg) always(fn *ssa.Function, ki, vi, depth int) bool {
	k := c19RegKey{fn, ki, vi}
	if v, ok := d.memo[k]; ok {
		return v
	}
	d.memo[k] = false // recursion does not establish anything
	has := map[*ssa.BasicBlock]bool{}
	n := 0
	eachInstr(fn, func(b *ssa.BasicBlock, _ int, in ssa.Instruction) {
		if b != fn.Recover && d.replaces(fn, in, ki, vi, depth) {
			has[b] = true
			n++
		}
	})
	if n == 0 || len(returnsOf(fn)) == 0 {
		return false
	}
	// blocks entered on some path on which nothing has been replaced yet
	seen := map[*ssa.BasicBlock]bool{}
	stack := []*ssa.BasicBlock{fn.Blocks[0]}
	ok := true
	for len(stack) > 0 {
		b := stack[len(stack)-1]
		stack = stack[:len(stack)-1]
		if seen[b] {
			continue
		}
		seen[b] = true
		if has[b] {
			continue // a return is the last instruction of its block: the replacement precedes it
		}
		if _, isRet := g6LastInstr(b).(*ssa.Return); isRet {
			ok = false
			break
		}
		stack = append(stack, b.Succs...)
	}
	d.memo[k] = ok
	return ok
}

// c19Registers: fn replaces the registry entry of one of its string parameters by (a wrapper of)
// one of its other parameters on every path to a return.
func c19Registers(fn *ssa.Function, pkg string) bool {
	d := &c19Reg{pkg: pkg, memo: map[c19RegKey]bool{}}
	for ki, kp := range fn.Params {
		if !isStringLike(kp.Type()) {
			continue
		}
		for vi, vp := range fn.Params {
			if vi != ki && !isStringLike(vp.Type()) && d.always(fn, ki, vi, 0) {
				return true
			}
		}
	}
	return false
}

// ---- the set of schemes a test holds for ------------------------------------------------------

type g6Tri int8

const (
	g6TriUnknown g6Tri = iota
	g6TriFalse
	g6TriTrue
)

func g6TriOf(b bool) g6Tri {
	if b {
		return g6TriTrue
	}
	return g6TriFalse
}

func (t g6Tri) not() g6Tri {
	switch t {
	case g6TriTrue:
		return g6TriFalse
	case g6TriFalse:
		return g6TriTrue
	}
	return g6TriUnknown
}

// g6TriAcc joins the values a boolean may take over several paths.
type g6TriAcc struct {
	n int
	t g6Tri
}

func (a *g6TriAcc) add(t g6Tri) {
	if a.n == 0 {
		a.t = t
	} else if a.t != t {
		a.t = g6TriUnknown
	}
	a.n++
}

func (a *g6TriAcc) value() g6Tri {
	if a.n == 0 {
		return g6TriUnknown
	}
	return a.t
}

// g6SchemePred tells whether the value "root followed by the field selections suffix" is the scheme.
type g6SchemePred func(root ssa.Value, suffix string) bool

// g6SchemeEval evaluates booleans under the assumption that the scheme is the string s, or (other)
// a string different from every constant it is compared with. The scheme is inspected through
// == / != with constants only; anything else makes a value unknown. The constants met are
// collected so that the caller can enumerate the cases.
type g6SchemeEval struct {
	pkg    string
	s      string
	other  bool
	consts map[string]bool
	// atom, when set, decides values that are not about the scheme (e.g. the number of
	// digipeaters in an enumerated case, ip_h5.go); g6TriUnknown leaves the value to eval
	atom func(v ssa.Value) g6Tri
}

// reach follows the control flow from block start (without leaving through stop): a branch whose
// condition is decided by the assumed scheme is followed on that side only.
func (e *g6SchemeEval) reach(start, stop *ssa.BasicBlock, isScheme g6SchemePred, depth int) map[*ssa.BasicBlock]bool {
	seen := map[*ssa.BasicBlock]bool{}
	stack := []*ssa.BasicBlock{start}
	for len(stack) > 0 {
		b := stack[len(stack)-1]
		stack = stack[:len(stack)-1]
		if seen[b] {
			continue
		}
		seen[b] = true
		if b == stop && b != start {
			continue
		}
		if ifi, ok := g6LastInstr(b).(*ssa.If); ok && len(b.Succs) == 2 {
			switch e.eval(ifi.Cond, isScheme, depth+1) {
			case g6TriTrue:
				stack = append(stack, b.Succs[0])
			case g6TriFalse:
				stack = append(stack, b.Succs[1])
			default:
				stack = append(stack, b.Succs...)
			}
			continue
		}
		stack = append(stack, b.Succs...)
	}
	return seen
}

func (e *g6SchemeEval) eval(v ssa.Value, isScheme g6SchemePred, depth int) g6Tri {
	if v == nil || depth > 16 {
		return g6TriUnknown
	}
	v = origin(v)
	if e.atom != nil {
		if t := e.atom(v); t != g6TriUnknown {
			return t
		}
	}
	switch x := v.(type) {
	case *ssa.Const:
		if x.Value != nil && x.Value.Kind() == constant.Bool {
			return g6TriOf(constant.BoolVal(x.Value))
		}
	case *ssa.UnOp:
		if x.Op == token.NOT {
			return e.eval(x.X, isScheme, depth+1).not()
		}
	case *ssa.BinOp:
		if x.Op != token.EQL && x.Op != token.NEQ {
			return g6TriUnknown
		}
		a, b := x.X, x.Y
		if _, isC := constString(a); isC {
			a, b = b, a
		}
		k, isC := constString(b)
		if !isC || !isScheme(g6KeySplit(a)) {
			return g6TriUnknown
		}
		e.consts[k] = true
		eq := !e.other && e.s == k
		return g6TriOf(eq == (x.Op == token.EQL))
	case *ssa.Phi:
		// a boolean materialised from && / || (or assigned in the arms of a switch): the edges that
		// can be taken from the immediate dominator under the assumed scheme
		blk := x.Block()
		d := blk.Idom()
		if d == nil {
			return g6TriUnknown
		}
		for _, p := range blk.Preds {
			if blk.Dominates(p) {
				return g6TriUnknown // loop header
			}
		}
		seen := e.reach(d, blk, isScheme, depth)
		var acc g6TriAcc
		for i, p := range blk.Preds {
			if !seen[p] {
				continue
			}
			if ifi, ok := g6LastInstr(p).(*ssa.If); ok && len(p.Succs) == 2 && p.Succs[0] != p.Succs[1] {
				c := e.eval(ifi.Cond, isScheme, depth+1)
				if (p.Succs[0] == blk && c == g6TriFalse) || (p.Succs[1] == blk && c == g6TriTrue) {
					continue
				}
			}
			acc.add(e.eval(x.Edges[i], isScheme, depth+1))
		}
		return acc.value()
	case *ssa.Call:
		// membership of the scheme in a read-only package-level table of constants
		// (slices.Contains(table, scheme)): the elements are the constants compared with (ip_h5.go)
		if elems, ok := h5SchemeTableTest(x, isScheme); ok {
			in := false
			for _, k := range elems {
				e.consts[k] = true
				if !e.other && e.s == k {
					in = true
				}
			}
			return g6TriOf(in)
		}
		// a predicate of the package applied to the scheme: its returns under the assumed scheme
		callee := x.Call.StaticCallee()
		if callee == nil || len(callee.Blocks) == 0 || pkgRel(callee) != e.pkg || callee.Signature.Results().Len() != 1 || depth > 8 {
			return g6TriUnknown
		}
		// a value of the callee is the scheme when, with the parameter it is selected from replaced
		// by the actual argument, it is the scheme in the caller
		args := x.Call.Args
		inner := func(root ssa.Value, suffix string) bool {
			i := g6ParamIndex(callee, root)
			if i < 0 || i >= len(args) {
				return false
			}
			r, s := g6KeySplit(args[i])
			return isScheme(r, s+suffix)
		}
		seen := e.reach(callee.Blocks[0], nil, inner, depth+4)
		var acc g6TriAcc
		for _, b := range callee.Blocks {
			if !seen[b] || b == callee.Recover {
				continue
			}
			switch t := g6LastInstr(b).(type) {
			case *ssa.Return:
				acc.add(e.eval(t.Results[0], inner, depth+4))
			case *ssa.Panic:
				return g6TriUnknown
			}
		}
		return acc.value()
	}
	return g6TriUnknown
}

// g6SchemeSetOf decides for which schemes the condition (v == truth) holds. mentions: v compares the
// scheme with constants at all. ok: the condition is decided by the scheme alone, is false for
// every scheme not compared with, and set lists the constants it is true for.
func g6SchemeSetOf(pkg string, v ssa.Value, truth bool, isScheme g6SchemePred) (set []string, ok, mentions bool) {
	e := &g6SchemeEval{pkg: pkg, other: true, consts: map[string]bool{}}
	t := e.eval(v, isScheme, 0)
	if len(e.consts) == 0 {
		return nil, false, false
	}
	if t == g6TriUnknown || (t == g6TriTrue) == truth {
		return nil, false, true
	}
	done := map[string]bool{}
	for changed := true; changed; {
		changed = false
		var ks []string
		for k := range e.consts {
			if !done[k] {
				ks = append(ks, k)
			}
		}
		sort.Strings(ks)
		for _, k := range ks {
			done[k], changed = true, true
			e.other, e.s = false, k
			t := e.eval(v, isScheme, 0)
			if t == g6TriUnknown {
				return nil, false, true
			}
			if (t == g6TriTrue) == truth {
				set = append(set, k)
			}
		}
	}
	sort.Strings(set)
	return set, true, true
}

// ---- the host parameter overrides the host ----------------------------------------------------

func c19IsHostParam(v ssa.Value) bool {
	if h5HostElem(v) != nil {
		return true // params["host"][0]: what Get("host") returns when the list is not empty
	}
	call, ok := v.(*ssa.Call)
	if !ok || callName(&call.Call) != "net/url.Values.Get" || len(call.Call.Args) < 2 {
		return false
	}
	k, _ := constString(call.Call.Args[1])
	return k == "host"
}

// g6EdgeConds returns the branch conditions that hold when control passes from pred (the i-th
// predecessor) into block b.
func g6EdgeConds(b *ssa.BasicBlock, i int) []Cond {
	p := b.Preds[i]
	out := condsAt(p)
	if ifi, ok := g6LastInstr(p).(*ssa.If); ok && len(p.Succs) == 2 && p.Succs[0] != p.Succs[1] {
		out = append(out, Cond{ifi.Cond, p.Succs[0] == b, ifi})
	}
	return out
}

// c19ReadsHostParam: fn reads the 'host' query parameter itself.
func c19ReadsHostParam(fn *ssa.Function) bool {
	found := false
	eachInstr(fn, func(_ *ssa.BasicBlock, _ int, instr ssa.Instruction) {
		if v, ok := instr.(ssa.Value); ok && c19IsHostParam(v) {
			found = true
		}
	})
	return found
}

// c19HostHelper: v is the call of a one-result function of the package that reads the parameter.
func c19HostHelper(v ssa.Value, pkg string) *ssa.Function {
	call, ok := v.(*ssa.Call)
	if !ok {
		return nil
	}
	callee := call.Call.StaticCallee()
	if callee == nil || len(callee.Blocks) == 0 || pkgRel(callee) != pkg || callee.Signature.Results().Len() != 1 || !c19ReadsHostParam(callee) {
		return nil
	}
	return callee
}

// c19HostAlt is one way the value stored in URL.Host comes about: an incoming edge of a phi or a
// return of a helper, with the branch conditions that hold there.
type c19HostAlt struct {
	v     ssa.Value
	conds []Cond
	at    string
}

type c19HostJudge struct {
	c   *Ctx
	pkg string
}

const c19WrongHost = ": a URL with both an authority host and ?host= keeps the wrong one"

func (j *c19HostJudge) carries(v ssa.Value) bool {
	return dependsOn(v, func(x ssa.Value) bool { return c19IsHostParam(x) || c19HostHelper(x, j.pkg) != nil })
}

func (j *c19HostJudge) onHost(cd Cond) bool {
	return dependsOn(cd.V, func(v ssa.Value) bool {
		ld, ok := v.(*ssa.UnOp)
		return ok && ld.Op == token.MUL && strings.HasSuffix(pathOf(ld), ".Host")
	})
}

// emptyTest: cd says that the value with path gp is (empty=true) or is not (empty=false) "".
func (j *c19HostJudge) emptyTest(cd Cond, gp string) (empty, ok bool) {
	// the parameter read as params["host"][0]: an empty list means an empty parameter (that is
	// what Get returns for it); a non-empty list says nothing about the value
	if x, lo, hi, neg, isLen := h5LenRange(cd.V); isLen && pathOf(x) != gp {
		if pathOf(x)+"[0]" != gp {
			return false, false
		}
		in := cd.Truth != neg // len(list) is known to lie in [lo, hi] (true) or outside (false)
		if (in && hi < 1) || (!in && lo <= 1 && hi == h5Inf) {
			return true, true
		}
		return false, false
	}
	// any spelling of "the parameter is (not) empty": p == "", len(p) == 0, len(p) > 0, ...
	if x, e, isE := emptyCond(cd); isE && pathOf(x) == gp {
		return e, true
	}
	return false, false
}

// judge: value v of function fn becomes the host under the conditions conds.
func (j *c19HostJudge) judge(fn *ssa.Function, v ssa.Value, conds []Cond, depth int) (bool, string) {
	var alts []c19HostAlt
	if ph, ok := v.(*ssa.Phi); ok && depth < 4 {
		blk := ph.Block()
		for _, p := range blk.Preds {
			if blk.Dominates(p) {
				return false, "the value stored in URL.Host is carried around a loop (not decided)"
			}
		}
		for i, e := range ph.Edges {
			ec := append(append([]Cond(nil), conds...), g6EdgeConds(blk, i)...)
			alts = append(alts, c19HostAlt{e, ec, fmt.Sprintf("edge from block %d into the selection at %s", blk.Preds[i].Index, j.c.pos(ph.Pos()))})
		}
	} else if callee := c19HostHelper(v, j.pkg); callee != nil && depth < 4 {
		// the selection is made by a helper: its returns are the alternatives (the conditions of the
		// caller are over other values and only matter if they consult the host)
		fn = callee
		for _, ret := range returnsOf(callee) {
			ec := append(append([]Cond(nil), conds...), condsAt(ret.Block())...)
			alts = append(alts, c19HostAlt{origin(ret.Results[0]), ec, "return at " + j.c.pos(ret.Pos())})
		}
	}
	if alts != nil {
		// every reading of the parameter in fn (the same value, whichever call reads it)
		var params []string
		eachInstr(fn, func(_ *ssa.BasicBlock, _ int, instr ssa.Instruction) {
			if x, ok := instr.(ssa.Value); ok && c19IsHostParam(x) {
				params = append(params, pathOf(x))
			}
		})
		for _, a := range alts {
			if j.carries(a.v) {
				if ok, why := j.judge(fn, a.v, a.conds, depth+1); !ok {
					return false, why
				}
				continue
			}
			// the host is left as it is here: the parameter must be known to be empty
			isEmpty := false
			for _, cd := range a.conds {
				for _, gp := range params {
					if empty, ok := j.emptyTest(cd, gp); ok && empty {
						isEmpty = true
					}
				}
			}
			if !isEmpty {
				for _, cd := range a.conds {
					if j.onHost(cd) {
						return false, "the override is made conditional on the current value of the host at " + j.c.pos(cd.V.Pos()) + c19WrongHost
					}
				}
				return false, "the host found in the authority part is kept on a path on which the parameter is not known to be empty (" + a.at + ")" + c19WrongHost
			}
		}
		return true, ""
	}
	// cmp.Or(parameter, authority host, ...): the first argument that is not "" - the parameter exactly
	// when it is non-empty, otherwise what follows. The parameter must come first (anything before it
	// would take precedence over it) and must be the parameter itself.
	if args, ok := h5CmpOrArgs(v); ok && depth < 4 {
		if len(args) == 0 || !c19IsHostParam(args[0]) {
			return false, "the value stored in URL.Host is the first non-empty of several values and the 'host' parameter is not the first of them" + c19WrongHost
		}
		for _, a := range args[1:] {
			// (not looking behind a load of the host field itself: in url.Host = cmp.Or(p, url.Host) the
			// flow-insensitive reading of that load would find the very store being judged)
			behindHost := func(v ssa.Value) bool {
				ld, ok := v.(*ssa.UnOp)
				return ok && ld.Op == token.MUL && strings.HasSuffix(pathOf(ld), ".Host")
			}
			if dependsOnBarrier(a, func(x ssa.Value) bool { return c19IsHostParam(x) || c19HostHelper(x, j.pkg) != nil }, behindHost) {
				return false, "the value stored in URL.Host is computed from the 'host' parameter in a way not decided (" + pathOf(a) + ")"
			}
		}
		for _, cd := range conds {
			if j.onHost(cd) {
				return false, "the override is made conditional on the current value of the host at " + j.c.pos(cd.V.Pos()) + c19WrongHost
			}
		}
		return true, ""
	}
	if !c19IsHostParam(v) {
		if j.carries(v) {
			return false, "the value stored in URL.Host is computed from the 'host' parameter in a way not decided (" + pathOf(v) + ")"
		}
		return true, ""
	}
	gp := pathOf(v)
	nonEmpty := false
	for _, cd := range conds {
		if empty, ok := j.emptyTest(cd, gp); ok && !empty {
			nonEmpty = true
			continue
		}
		if j.onHost(cd) {
			return false, "the override is made conditional on the current value of the host at " + j.c.pos(cd.V.Pos()) + c19WrongHost
		}
	}
	if !nonEmpty {
		return false, "the host is overwritten even when the parameter is empty"
	}
	return true, ""
}

// c19HostOverride judges the store of the 'host' query parameter into URL.Host: the parameter's
// value is what is stored exactly when it is non-empty, and the decision does not consult the
// host found in the authority part. Shapes: the struct is built with the authority host and
// patched by a conditional store of the parameter; or the value is selected first - by a phi of
// the parameter and the authority host, or by the returns of a helper of the package - and then
// stored unconditionally.
func c19HostOverride(c *Ctx, fn *ssa.Function, pkg string) (bool, string) {
	j := &c19HostJudge{c: c, pkg: pkg}
	var hostStore *ssa.Store
	eachInstr(fn, func(_ *ssa.BasicBlock, _ int, instr ssa.Instruction) {
		st, ok := instr.(*ssa.Store)
		if !ok {
			return
		}
		fa, ok := st.Addr.(*ssa.FieldAddr)
		if !ok || fieldName(fa.X.Type(), fa.Field) != "Host" {
			return
		}
		if j.carries(st.Val) {
			hostStore = st
		}
	})
	if hostStore == nil {
		return false, "the 'host' query parameter is never stored in URL.Host"
	}
	var conds []Cond
	for _, cd := range condsAt(hostStore.Block()) {
		if instrDominates(cd.If, hostStore) {
			conds = append(conds, cd)
		}
	}
	return j.judge(fn, hostStore.Val, conds, 0)
}

// ---- crash inventory: explicit statement of what was examined ----------------------------------

// g6CrashScopeObligation states, as an obligation of its own, which functions the inventory examined
// and how many sites it found - so an inventory without any site (every index expression refactored
// away) is a stated result rather than a rule that matched nothing, while an inventory that lost
// an entry point or scanned no code still fails.
func g6CrashScopeObligation(c *Ctx, r *Report, rule, where string, entries []*ssa.Function, st crashStats) {
	var names, missing []string
	inScope := map[string]bool{}
	for _, n := range st.FuncList {
		inScope[n] = true
	}
	nInstr := 0
	for _, fn := range entries {
		names = append(names, fn.Name())
		if !inScope[fnName(fn)] || len(fn.Blocks) == 0 {
			missing = append(missing, fnName(fn))
		}
		eachInstr(fn, func(*ssa.BasicBlock, int, ssa.Instruction) { nInstr++ })
	}
	o := r.Add(rule, where, "inventory scope: everything reachable from "+strings.Join(names, ", "), c.pos(entries[0].Pos()))
	total := 0
	var kinds []string
	for k, n := range st.Sites {
		total += n
		kinds = append(kinds, fmt.Sprintf("%d %s", n, k))
	}
	sort.Strings(kinds)
	switch {
	case len(missing) > 0:
		o.Bad("entry point(s) %s not examined by the inventory", strings.Join(missing, ", "))
	case nInstr == 0:
		o.Bad("the entry points have no code to examine")
	case total == 0:
		o.Triv("%d function(s) examined (%s): they contain no index or slice expression, explicit panic, fatal call, unchecked type assertion, non-constant allocation size or non-constant integer division - nothing to discharge", st.Functions, strings.Join(st.FuncList, ", "))
	default:
		o.Triv("%d function(s) examined (%s): %d crash site(s) enumerated (%s), each an obligation of its own", st.Functions, strings.Join(st.FuncList, ", "), total, strings.Join(kinds, ", "))
	}
}

// ---- the registry lock across helpers -----------------------------------------------------------

// g6Lockset is the must-hold analysis of one lock over the functions of a package, with the state on
// entry of a function lifted from its call sites: an unexported function whose address is not
// taken and whose every call site (all of them enumerated, plain calls only) is made with the lock
// held is analysed as entered with the lock held. Every other function is entered without it.
type g6Lockset struct {
	c        *Ctx
	isLock   func(ssa.CallInstruction) bool
	isUnlock func(ssa.CallInstruction) bool
	rec      map[*ssa.Function]map[ssa.Instruction]bool
	entry    map[*ssa.Function]bool
	busy     map[*ssa.Function]bool
	// the dual analysis: the lock is released on every path (not merely "not held on every path")
	freeRec   map[*ssa.Function]map[ssa.Instruction]bool
	freeEntry map[*ssa.Function]bool
	freeBusy  map[*ssa.Function]bool
}

func g6NewLockset(c *Ctx, isLock, isUnlock func(ssa.CallInstruction) bool) *g6Lockset {
	return &g6Lockset{c: c, isLock: isLock, isUnlock: isUnlock, rec: map[*ssa.Function]map[ssa.Instruction]bool{}, entry: map[*ssa.Function]bool{}, busy: map[*ssa.Function]bool{},
		freeRec: map[*ssa.Function]map[ssa.Instruction]bool{}, freeEntry: map[*ssa.Function]bool{}, freeBusy: map[*ssa.Function]bool{}}
}

// entryFree: the lock is certainly not held when fn is entered: at every static call site known in
// the module the lock is released on every path (a function nobody in the module calls is entered
// from outside, where the package's lock cannot be held). A deferred call runs at an exit whose
// state is not followed: not free. Recursion is resolved optimistically (greatest fixpoint).
func (l *g6Lockset) entryFree(fn *ssa.Function) bool {
	if v, ok := l.freeEntry[fn]; ok {
		return v
	}
	if l.freeBusy[fn] {
		return true
	}
	l.freeBusy[fn] = true
	defer delete(l.freeBusy, fn)
	all := true
	for _, site := range l.c.siteIdx().sites[fn] {
		switch site.(type) {
		case *ssa.Go:
			continue // runs in another goroutine, which holds nothing
		case *ssa.Defer:
			all = false
		default:
			if p := site.Parent(); p != nil && !l.free(p)[site] {
				all = false
			}
		}
	}
	l.freeEntry[fn] = all
	return all
}

// free: for every instruction of fn, whether the lock is released on every path reaching it - the
// must-analysis of heldAt with the roles of Lock and Unlock exchanged. "Not held on every path"
// (held) does not exclude a path on which it is held; a call-out or a return needs this one.
func (l *g6Lockset) free(fn *ssa.Function) map[ssa.Instruction]bool {
	if m, ok := l.freeRec[fn]; ok {
		return m
	}
	m := g6HeldAtEntry(fn, l.isUnlock, l.isLock, l.entryFree(fn))
	l.freeRec[fn] = m
	return m
}

// freeAtReturn: the lock is certainly released when fn has returned through ret (released on every
// path to it, or by a deferred unlock registered on every path).
func (l *g6Lockset) freeAtReturn(fn *ssa.Function, ret *ssa.Return) bool {
	if l.free(fn)[ret] {
		return true
	}
	released := false
	eachInstr(fn, func(_ *ssa.BasicBlock, _ int, in ssa.Instruction) {
		if d, ok := in.(*ssa.Defer); ok && l.isUnlock(d) && instrDominates(d, ret) {
			released = true
		}
	})
	return released
}

// entryHeld: the lock is held at every call site of fn (and all call sites are known).
func (l *g6Lockset) entryHeld(fn *ssa.Function) bool {
	if v, ok := l.entry[fn]; ok {
		return v
	}
	if l.busy[fn] {
		return false // recursion establishes nothing
	}
	l.busy[fn] = true
	defer delete(l.busy, fn)
	sites := l.c.callSites(fn)
	all := len(sites) > 0
	for _, site := range sites {
		call, isCall := site.(*ssa.Call) // not go / defer: those run at another time
		if !isCall || call.Parent() == nil || !l.held(call.Parent())[call] {
			all = false
			break
		}
	}
	l.entry[fn] = all
	return all
}

// held: for every instruction of fn, whether the lock is held on every path reaching it.
func (l *g6Lockset) held(fn *ssa.Function) map[ssa.Instruction]bool {
	if m, ok := l.rec[fn]; ok {
		return m
	}
	m := g6HeldAtEntry(fn, l.isLock, l.isUnlock, l.entryHeld(fn))
	l.rec[fn] = m
	return m
}

// touches: fn itself acquires or releases the lock (also by defer).
func (l *g6Lockset) touches(fn *ssa.Function) bool {
	for _, ci := range allCalls(fn) {
		if l.isLock(ci) || l.isUnlock(ci) {
			return true
		}
	}
	return false
}

// heldAtReturn: the lock is still held when fn has returned through ret (a deferred unlock that is
// registered on every path to the return releases it).
func (l *g6Lockset) heldAtReturn(fn *ssa.Function, ret *ssa.Return) bool {
	if !l.held(fn)[ret] {
		return false
	}
	released := false
	eachInstr(fn, func(_ *ssa.BasicBlock, _ int, in ssa.Instruction) {
		if d, ok := in.(*ssa.Defer); ok && l.isUnlock(d) && instrDominates(d, ret) {
			released = true
		}
	})
	return !released
}

// g6HeldAtEntry is heldAt (ssau.go) with a given state on entry of the function.
func g6HeldAtEntry(fn *ssa.Function, isLock, isUnlock func(ssa.CallInstruction) bool, entry bool) map[ssa.Instruction]bool {
	if !entry {
		return heldAt(fn, isLock, isUnlock)
	}
	if len(fn.Blocks) == 0 {
		return nil
	}
	in := map[*ssa.BasicBlock]bool{}
	out := map[*ssa.BasicBlock]bool{}
	for _, b := range fn.Blocks {
		in[b], out[b] = true, true
	}
	transfer := func(b *ssa.BasicBlock, st bool, rec map[ssa.Instruction]bool) bool {
		for _, instr := range b.Instrs {
			if rec != nil {
				rec[instr] = st
			}
			if ci, ok := instr.(ssa.CallInstruction); ok {
				if _, isCall := instr.(*ssa.Call); !isCall {
					continue
				}
				if isLock(ci) {
					st = true
				} else if isUnlock(ci) {
					st = false
				}
			}
		}
		return st
	}
	for changed := true; changed; {
		changed = false
		for _, b := range fn.Blocks {
			st := true
			if b != fn.Blocks[0] {
				for _, p := range b.Preds {
					st = st && out[p]
				}
				if len(b.Preds) == 0 {
					st = false
				}
			}
			o := transfer(b, st, nil)
			if st != in[b] || o != out[b] {
				in[b], out[b] = st, o
				changed = true
			}
		}
	}
	rec := map[ssa.Instruction]bool{}
	for _, b := range fn.Blocks {
		transfer(b, in[b], rec)
	}
	return rec
}

// g6CallsOutVia: fn, or a function of the package it statically calls (three levels), makes a call
// through an interface. Returns the chain of functions down to that call, "" if there is none.
func g6CallsOutVia(fn *ssa.Function, pkg string, depth int, seen map[*ssa.Function]bool) string {
	if seen[fn] || depth > 3 || len(fn.Blocks) == 0 {
		return ""
	}
	seen[fn] = true
	for _, ci := range allCalls(fn) {
		if ci.Common().IsInvoke() {
			return fnName(fn)
		}
	}
	for _, ci := range allCalls(fn) {
		if callee := ci.Common().StaticCallee(); callee != nil && pkgRel(callee) == pkg {
			if via := g6CallsOutVia(callee, pkg, depth+1, seen); via != "" {
				return fnName(fn) + " -> " + via
			}
		}
	}
	return ""
}
