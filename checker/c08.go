package main

// C08 — decompressor is safe on arbitrary input and its integrity verdict is sound.

import (
	"fmt"
	"go/token"
	"strings"

	"golang.org/x/tools/go/ssa"
)

func init() {
	register("C08", true,
		"Structural necessary conditions decided from source: (C08-trichotomy) Read only ever inspects the decoded position and the declared size through comparisons, so the three orderings pos<size, pos=size, pos>size are enumerated and the branch structure of Read is followed for each (with no pending error and an empty hold-back buffer): each ordering must either reach the decoder (progress) or return a non-nil error/EOF - otherwise Read returns (0, nil) forever and every consumer spins; (C08-bounded) on every path from one increment of the decoded position to the next, an edge establishing pos < size is taken, so the output never exceeds the declared size; (C08-verdict) Close returns nil only past guards on sticky errors, CRC and size (same rule as C04-close-verdict); (C08-sticky) a failed byte read stores the error in the bit reader before returning, the bit reader masks its result to the requested width, and Read's loop consults the bit reader's error before every decode step; (C08-window) the window cursor is constant-initialised or masked with N-1 by the last store of every block that writes it; (C08-crash) crash-site inventory over NewReader/NewB2Reader/Read/Close and everything they reach in package lzhuf: index/slice expressions proven in range by the compiler or the fact engine, no panic/fatal/unchecked assertion; the adaptive-tree indices in decodeChar/update/reconst rest on a tree-shape invariant no local reasoning establishes and are listed as ASSUMED, never as discharged. NOT decided: that the bytes read are the canonical decoding; tree-index safety; termination of the tree walk in decodeChar.",
		checkC08)
}

// absWalk follows the CFG of fn from its entry, evaluating each branch with eval; it stops at the
// first block for which stop returns true or at a return. Returns the terminal block, the
// instruction that stopped it and a reason when a branch could not be evaluated.
func absWalk(fn *ssa.Function, eval func(v ssa.Value) (bool, bool), stop func(b *ssa.BasicBlock) ssa.Instruction) (*ssa.BasicBlock, ssa.Instruction, string) {
	cur := fn.Blocks[0]
	for steps := 0; steps < 500; steps++ {
		if in := stop(cur); in != nil {
			return cur, in, ""
		}
		last := cur.Instrs[len(cur.Instrs)-1]
		switch t := last.(type) {
		case *ssa.Return:
			return cur, t, ""
		case *ssa.If:
			b, ok := eval(t.Cond)
			if !ok {
				return cur, nil, "cannot evaluate the branch on " + pathOf(t.Cond)
			}
			if b {
				cur = cur.Succs[0]
			} else {
				cur = cur.Succs[1]
			}
		case *ssa.Jump:
			cur = cur.Succs[0]
		default:
			return cur, last, ""
		}
	}
	return cur, nil, "walk did not terminate"
}

func checkC08(c *Ctx, r *Report) {
	const pkg = "lzhuf"
	if c.Pkg(pkg) == nil {
		r.Fail("anchor", "package lzhuf not found")
		return
	}
	read := c.Func(pkg, "(*Reader).Read")
	if read == nil {
		r.Fail("anchor", "(*lzhuf.Reader).Read not found")
		return
	}
	where := fnName(read)
	isPos := func(v ssa.Value) bool { return strings.HasSuffix(pathOf(strip(v)), ".state.pos") }
	isSize := func(v ssa.Value) bool { return strings.HasSuffix(pathOf(strip(v)), ".header.size") }
	// ordering implied for (pos ? size) by a comparison
	cmpPosSize := func(b *ssa.BinOp) (op token.Token, ok bool) {
		switch {
		case isPos(b.X) && isSize(b.Y):
			return b.Op, true
		case isSize(b.X) && isPos(b.Y):
			return flipOp(b.Op), true
		}
		return 0, false
	}
	holds := func(op token.Token, ord int) bool { // ord: -1 pos<size, 0 equal, +1 pos>size
		switch op {
		case token.LSS:
			return ord < 0
		case token.LEQ:
			return ord <= 0
		case token.GTR:
			return ord > 0
		case token.GEQ:
			return ord >= 0
		case token.EQL:
			return ord == 0
		case token.NEQ:
			return ord != 0
		}
		return false
	}

	// ---- C08-trichotomy
	trichotomyRule(c, r, "C08-trichotomy", read, cmpPosSize, holds)

	// ---- C08-bounded
	r.Rule("C08-bounded", 2, "a pos < size edge is taken between any two increments of the position")
	// The increments are found by what they do (a store to <reader>.state.pos), in Read or in the
	// same-package helpers it reaches; helpers are summarised (ip_g7.go, g7Bounded).
	bd := &g7Bounded{c: c, cmp: cmpPosSize, sums: map[*ssa.Function]*g7BSum{}, busy: map[*ssa.Function]bool{}}
	nEv := 0
	eachInstr(read, func(b *ssa.BasicBlock, i int, in ssa.Instruction) {
		kind, hs := bd.event(in, read)
		if kind == 0 {
			return
		}
		nEv++
		what := c.exprAt(read, in.Pos())
		if what == "" {
			what = "store to the decoded position"
		}
		o := r.Add("C08-bounded", where, "after "+what, c.pos(in.Pos()))
		switch {
		case kind == 3:
			o.Bad("a helper that advances the position is deferred or spawned here: the order of increments and size tests cannot be followed")
		case kind == 2 && hs.internal != "":
			o.Bad("%s: more bytes than declared can be produced", hs.internal)
		case kind == 2 && !hs.exitBad:
			o.OK("every path on which the helper advances the position takes an edge on which pos < size holds before it returns")
		default:
			if bad, _ := bd.walk(read, b, i+1); bad == "" {
				o.OK("every path to the next increment takes an edge on which pos < size holds")
			} else {
				o.Bad("the increment at %s can follow this one without a pos < size test in between: more bytes than declared can be produced", bad)
			}
		}
	})
	if nEv == 0 {
		r.Fail("C08-bounded", "Read no longer advances the decoded position, neither itself nor through a helper (anchor unresolved)")
	}
	// the first increment as well: from entry
	{
		o := r.Add("C08-bounded", where, "first increment", c.pos(read.Pos()))
		if bad, _ := bd.walk(read, read.Blocks[0], 0); bad == "" {
			o.OK("no increment is reachable from the entry of Read without a pos < size edge")
		} else {
			o.Bad("the increment at %s is reachable from the entry of Read without a pos < size test", bad)
		}
	}

	// ---- C08-verdict
	c04closeVerdict(c, r, "C08-verdict")
	eofDrainRule(c, r, "C08-drain")

	// ---- C08-sticky
	r.Rule("C08-sticky", 3, "bit reader errors are sticky and consulted")
	if fn := c.Func(pkg, "(*bitReader).ReadBits64"); fn == nil {
		r.Fail("C08-sticky", "anchor (*lzhuf.bitReader).ReadBits64 not found")
	} else {
		w := fnName(fn)
		// The byte read may live anywhere in the static call tree of the anchor (helper method, local
		// closure, method value); the condition is decided where the read is (ip_i3.go).
		o := r.Add("C08-sticky", w, "failed ReadByte stores the error before returning", c.pos(fn.Pos()))
		if ok, text := c.i3StickyRecorded(pkg, fn); ok {
			o.OK("%s", text)
		} else {
			o.Bad("%s", text)
		}
		// result masked to the requested width
		o = r.Add("C08-sticky", w, "result masked to the requested width", c.pos(fn.Pos()))
		masked := true
		for _, ret := range returnsOf(fn) {
			v := origin(resOf(ret, 0))
			if k, isC := constInt(v); isC && k == 0 {
				continue
			}
			b, ok := v.(*ssa.BinOp)
			if !ok || b.Op != token.AND {
				masked = false
				continue
			}
			// (1 << bits) - 1
			m, ok := b.Y.(*ssa.BinOp)
			if !ok || m.Op != token.SUB {
				masked = false
				continue
			}
			sh, ok := m.X.(*ssa.BinOp)
			one, isOne := constInt(m.Y)
			if !ok || sh.Op != token.SHL || !isOne || one != 1 {
				masked = false
				continue
			}
			if k, isC := constInt(sh.X); !isC || k != 1 || sh.Y != ssa.Value(fn.Params[1]) {
				masked = false
			}
		}
		if masked {
			o.OK("every return is 0 or x & ((1 << bits) - 1)")
		} else {
			o.Bad("ReadBits64 no longer masks its result to the requested number of bits: table indices derived from it are unbounded")
		}
		bitMaskOK = masked
	}
	{
		o := r.Add("C08-sticky", where, "Read consults the bit reader's error before each decode step", c.pos(read.Pos()))
		good := true
		n := 0
		for _, ci := range allCalls(read) {
			if !strings.HasPrefix(callName(ci.Common()), "lzhuf.Reader.decodeChar") {
				continue
			}
			n++
			found := false
			for _, cd := range condsAt(ci.Block()) {
				if dependsOn(cd.V, func(v ssa.Value) bool {
					call, ok := v.(*ssa.Call)
					return ok && callName(&call.Call) == "lzhuf.bitReader.Err"
				}) {
					found = true
				}
			}
			if !found {
				good = false
			}
		}
		if good && n > 0 {
			o.OK("every decodeChar call is dominated by a test of bitReader.Err()")
		} else {
			o.Bad("a decode step is not dominated by a test of the bit reader's error: on truncated input the decoder keeps producing bytes from zero bits")
		}
	}

	// ---- C08-window
	r.Rule("C08-window", 2, "window cursor stays within the window")
	nConst, _ := constIntOf(c.Pkg(pkg), "_N")
	for _, fn := range c.SrcFuncs(pkg) {
		byBlock := map[*ssa.BasicBlock]*ssa.Store{}
		eachInstr(fn, func(b *ssa.BasicBlock, _ int, in ssa.Instruction) {
			if st, ok := in.(*ssa.Store); ok && strings.HasSuffix(pathOf(st.Addr), ".state.r") {
				byBlock[b] = st // last store of the block wins
			}
		})
		for _, st := range byBlock {
			o := r.Add("C08-window", fnName(fn), "store to Reader.state.r", c.pos(st.Pos()))
			if k, isC := constInt(st.Val); isC {
				if k >= 0 && k < nConst {
					o.Triv("constant %d within [0,N)", k)
				} else {
					o.Bad("cursor set to %d, outside [0,N)", k)
				}
				continue
			}
			if b, ok := st.Val.(*ssa.BinOp); ok && b.Op == token.AND {
				if k, isC := constInt(b.Y); isC && k == nConst-1 {
					o.OK("masked with N-1")
					continue
				}
			}
			o.Bad("the last store to the window cursor in this block is neither a constant in [0,N) nor masked with N-1: the window index can run out of the buffer")
		}
	}

	// ---- C08-crash
	r.Rule("C08-crash", 8, "crash-site inventory of the decompressor")
	entries := []*ssa.Function{c.Func(pkg, "NewReader"), c.Func(pkg, "NewB2Reader"), read, c.Func(pkg, "(*Reader).Close")}
	for _, e := range entries {
		if e == nil {
			r.Fail("C08-crash", "an entry point of the decompressor was not found (NewReader/NewB2Reader/Read/Close)")
			return
		}
	}
	st := crashInventory(c, r, lzhufCrashCfg(c, "C08-crash", entries))
	r.Infos["crash_inventory"] = st
	r.NotCov = append(r.NotCov, "that the bytes produced are the canonical decoding", "tree-index safety in decodeChar/update/reconst (assumed)", "termination of the root-to-leaf walk in decodeChar")
	_ = fmt.Sprint
}

var bitMaskOK bool

func allCalls(fn *ssa.Function) []ssa.CallInstruction {
	var out []ssa.CallInstruction
	eachInstr(fn, func(_ *ssa.BasicBlock, _ int, in ssa.Instruction) {
		if ci, ok := in.(ssa.CallInstruction); ok {
			out = append(out, ci)
		}
	})
	return out
}

func lzhufCrashCfg(c *Ctx, rule string, entries []*ssa.Function) crashCfg {
	treeWhy := "adaptive Huffman tree code shared by encoder and decoder: its indices (son/freq/prnt) are in range by a tree-shape invariant that no local reasoning establishes — ASSUMED, not proven"
	return crashCfg{
		rule:    rule,
		entries: entries,
		scope:   func(fn *ssa.Function) bool { return pkgRel(fn) == "lzhuf" },
		bcePkgs: []string{"lzhuf"},
		assumedFns: map[string]string{
			"(*lzhuf.lzhuf).update":      treeWhy,
			"(*lzhuf.lzhuf).reconst":     treeWhy,
			"(*lzhuf.Reader).decodeChar": treeWhy,
		},
		skipFns: map[string]string{
			"lzhuf.newLZHUFF": "input-independent initialisation of the tree: executes identically on every construction (exercised by every test of the package); its indices do not depend on the stream",
		},
		exceptions: map[string]string{
			"(*lzhuf.Reader).Read|index d.z.textBuf[d.state.r]": "the window cursor is constant-initialised below N and masked with N-1 after every increment (rule C08-window); textBuf holds N+F-1 bytes",
		},
	}
}

// trichotomyRule: C08-trichotomy / C03-spin.
func trichotomyRule(c *Ctx, r *Report, rule string, read *ssa.Function, cmpPosSize func(*ssa.BinOp) (token.Token, bool), holds func(token.Token, int) bool) {
	where := fnName(read)
	r.Rule(rule, 3, "every ordering of position and size makes progress or ends the stream")
	for _, ord := range []int{-1, 0, 1} {
		name := map[int]string{-1: "pos < size", 0: "pos == size", 1: "pos > size"}[ord]
		o := r.Add(rule, where, name, c.pos(read.Pos()))
		var eval func(v ssa.Value) (bool, bool)
		eval = func(v ssa.Value) (bool, bool) {
			switch x := v.(type) {
			case *ssa.UnOp:
				if x.Op == token.NOT {
					b, ok := eval(x.X)
					return !b, ok
				}
			case *ssa.BinOp:
				if op, ok := cmpPosSize(x); ok {
					return holds(op, ord), true
				}
				px, py := pathOf(x.X), pathOf(x.Y)
				isErrCall := func(p string) bool { return strings.HasPrefix(p, "lzhuf.bitReader.Err(") }
				switch {
				case isErrCall(px) && (x.Op == token.EQL || x.Op == token.NEQ):
					// no pending error: Err() == nil, Err() != io.EOF
					if isNilConst(x.Y) {
						return x.Op == token.EQL, true
					}
					return x.Op == token.NEQ, true
				case strings.HasSuffix(px, ".err") && isNilConst(x.Y):
					return x.Op == token.EQL, true
				case strings.HasPrefix(px, "bytes.Buffer.Len("):
					if k, isC := constInt(x.Y); isC && k == 0 {
						return holds(x.Op, 0), true // the hold-back buffer is empty
					}
				case strings.HasPrefix(py, "builtin.len(") && isIntType(x.X.Type()):
					// n ? len(p): nothing was copied from the empty buffer and len(p) > 0
					return holds(x.Op, -1), true
				case strings.HasPrefix(px, "builtin.len("):
					if k, isC := constInt(x.Y); isC && k == 0 {
						return holds(x.Op, 1), true // len(p) > 0
					}
				}
			}
			return false, false
		}
		decodes := func(b *ssa.BasicBlock) ssa.Instruction {
			for _, in := range b.Instrs {
				if call, ok := in.(*ssa.Call); ok && strings.HasPrefix(callName(&call.Call), "lzhuf.Reader.decode") {
					return in
				}
			}
			return nil
		}
		// ip_j3.go: absWalk that also follows same-package helpers, merges and nil/non-nil errors
		aw := newJ3Abs(read, eval)
		aw.topStop = decodes
		blk, end, stuck := aw.walk(aw.top, decodes)
		switch {
		case stuck != "":
			o.Bad("cannot decide this ordering: %s (at %s)", stuck, c.pos(blk.Instrs[len(blk.Instrs)-1].Pos()))
		case end == nil:
			o.Bad("walk ended without a verdict")
		default:
			if ret, ok := end.(*ssa.Return); ok {
				ev := resOf(ret, len(ret.Results)-1)
				if isNilConst(origin(ev)) || aw.evalErr(ret.Results[len(ret.Results)-1], aw.top) == j3Nil {
					o.Bad("with %s, no pending error and an empty buffer, Read returns (0, nil) at %s without decoding: a consumer such as io.Copy spins forever", name, c.pos(ret.Pos()))
				} else {
					o.OK("Read returns a non-nil error/EOF (%s) at %s", pathOf(origin(ev)), c.pos(ret.Pos()))
				}
			} else {
				if ord >= 0 {
					o.Bad("with %s the decoder is entered at %s: output can exceed the declared size", name, c.pos(end.Pos()))
				} else {
					o.OK("the decoder is entered (%s): progress", c.pos(end.Pos()))
				}
			}
		}
	}

}

// lzOrdering returns the helpers that interpret comparisons between the decoded position and the
// declared size of a lzhuf.Reader.
func lzOrdering() (func(*ssa.BinOp) (token.Token, bool), func(token.Token, int) bool) {
	isPos := func(v ssa.Value) bool { return strings.HasSuffix(pathOf(strip(v)), ".state.pos") }
	isSize := func(v ssa.Value) bool { return strings.HasSuffix(pathOf(strip(v)), ".header.size") }
	cmp := func(b *ssa.BinOp) (token.Token, bool) {
		switch {
		case isPos(b.X) && isSize(b.Y):
			return b.Op, true
		case isSize(b.X) && isPos(b.Y):
			return flipOp(b.Op), true
		}
		return 0, false
	}
	holds := func(op token.Token, ord int) bool {
		switch op {
		case token.LSS:
			return ord < 0
		case token.LEQ:
			return ord <= 0
		case token.GTR:
			return ord > 0
		case token.GEQ:
			return ord >= 0
		case token.EQL:
			return ord == 0
		case token.NEQ:
			return ord != 0
		}
		return false
	}
	return cmp, holds
}
