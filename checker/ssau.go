package main

// SSA utilities shared by the rules: callee resolution, access paths, dominance of instructions,
// branch conditions that hold at an instruction (edge dominance, DESIGN.md A.1), data dependence.

import (
	"fmt"
	"go/constant"
	"go/token"
	"go/types"
	"sort"
	"strings"

	"golang.org/x/tools/go/ssa"
)

// ---- callees --------------------------------------------------------------------------------

// calleeObj returns the *types.Func a call resolves to: the static callee's object, or the
// interface method for an invoke-mode call. nil for calls of func values and builtins.
func calleeObj(call *ssa.CallCommon) *types.Func {
	if call.IsInvoke() {
		return call.Method
	}
	if fn := call.StaticCallee(); fn != nil {
		if o, ok := fn.Object().(*types.Func); ok {
			return o
		}
		// instantiation or wrapper
		if fn.Origin() != nil {
			if o, ok := fn.Origin().Object().(*types.Func); ok {
				return o
			}
		}
	}
	return nil
}

// objName is "pkgpath.Func" or "pkgpath.(Recv).Method" with pointer receivers unstarred:
// "strings.HasPrefix", "bufio.Reader.ReadString", "github.com/la5nta/wl2k-go/fbb.Session.nextLine".
func objName(o *types.Func) string {
	if o == nil {
		return ""
	}
	pkg := ""
	if o.Pkg() != nil {
		pkg = o.Pkg().Path()
	}
	sig, _ := o.Type().(*types.Signature)
	if sig != nil && sig.Recv() != nil {
		t := sig.Recv().Type()
		if p, ok := t.(*types.Pointer); ok {
			t = p.Elem()
		}
		if n, ok := t.(*types.Named); ok {
			tp := ""
			if n.Obj().Pkg() != nil {
				tp = n.Obj().Pkg().Path() + "."
			}
			return tp + n.Obj().Name() + "." + o.Name()
		}
		if _, ok := t.Underlying().(*types.Interface); ok {
			return pkg + ".?." + o.Name()
		}
	}
	return pkg + "." + o.Name()
}

// short strips the module path: "fbb.Session.nextLine".
func short(s string) string { return strings.ReplaceAll(s, modPath+"/", "") }

// callName is the short objName of a call's callee, "" if unresolved; builtins as "builtin.len".
func callName(call *ssa.CallCommon) string {
	if b, ok := call.Value.(*ssa.Builtin); ok {
		return "builtin." + b.Name()
	}
	return short(objName(calleeObj(call)))
}

func isCall(instr ssa.Instruction, names ...string) (*ssa.CallCommon, bool) {
	ci, ok := instr.(ssa.CallInstruction)
	if !ok {
		return nil, false
	}
	n := callName(ci.Common())
	for _, want := range names {
		if n == want {
			return ci.Common(), true
		}
	}
	return nil, false
}

// callArgs returns receiver (if any) followed by arguments.
func callArgs(call *ssa.CallCommon) []ssa.Value {
	if call.IsInvoke() {
		return append([]ssa.Value{call.Value}, call.Args...)
	}
	return call.Args
}

// eachInstr visits every instruction of fn (not of nested closures).
func eachInstr(fn *ssa.Function, f func(b *ssa.BasicBlock, i int, instr ssa.Instruction)) {
	for _, b := range fn.Blocks {
		for i, instr := range b.Instrs {
			f(b, i, instr)
		}
	}
}

// eachInstrDeep visits fn and its nested closures.
func eachInstrDeep(fn *ssa.Function, f func(in *ssa.Function, instr ssa.Instruction)) {
	for _, g := range withClosures(fn) {
		g := g
		eachInstr(g, func(_ *ssa.BasicBlock, _ int, instr ssa.Instruction) { f(g, instr) })
	}
}

// callsTo lists the call instructions (call/defer/go) in fn to any of the named callees.
func callsTo(fn *ssa.Function, deep bool, names ...string) []ssa.CallInstruction {
	var out []ssa.CallInstruction
	visit := func(_ *ssa.Function, instr ssa.Instruction) {
		if ci, ok := instr.(ssa.CallInstruction); ok {
			n := callName(ci.Common())
			for _, want := range names {
				if n == want {
					out = append(out, ci)
				}
			}
		}
	}
	if deep {
		eachInstrDeep(fn, visit)
	} else {
		eachInstr(fn, func(_ *ssa.BasicBlock, _ int, instr ssa.Instruction) { visit(fn, instr) })
	}
	return out
}

// ---- access paths ---------------------------------------------------------------------------

func fieldName(t types.Type, i int) string {
	if p, ok := t.Underlying().(*types.Pointer); ok {
		t = p.Elem()
	}
	if s, ok := t.Underlying().(*types.Struct); ok && i < s.NumFields() {
		return s.Field(i).Name()
	}
	return fmt.Sprintf("f%d", i)
}

func derefPath(p string) string {
	if strings.HasPrefix(p, "&") {
		return p[1:]
	}
	return p
}

// pathOf renders a value as a source-like access path ("s.rd", "p.answer", "d.state.pos",
// "len(line)"). Two values with the same path in one function denote the same storage or the
// same pure expression; the rendering is flow-insensitive (stores in between are not seen).
func pathOf(v ssa.Value) string { return pathOfN(v, 0) }

func pathOfN(v ssa.Value, depth int) string {
	if depth > 12 {
		return "…"
	}
	switch v := v.(type) {
	case nil:
		return "nil"
	case *ssa.Parameter:
		return v.Name()
	case *ssa.FreeVar:
		return "&" + v.Name()
	case *ssa.Global:
		return "&" + v.Pkg.Pkg.Name() + "." + v.Name()
	case *ssa.Alloc:
		if v.Comment != "" && v.Comment != "complit" && v.Comment != "new" && v.Comment != "varargs" && v.Comment != "slicelit" && v.Comment != "makeslice" {
			return "&" + v.Comment
		}
		return "&" + v.Name()
	case *ssa.FieldAddr:
		return "&" + derefPath(pathOfN(v.X, depth+1)) + "." + fieldName(v.X.Type(), v.Field)
	case *ssa.Field:
		return pathOfN(v.X, depth+1) + "." + fieldName(v.X.Type(), v.Field)
	case *ssa.IndexAddr:
		return "&" + derefPath(pathOfN(v.X, depth+1)) + "[" + pathOfN(v.Index, depth+1) + "]"
	case *ssa.Index:
		return pathOfN(v.X, depth+1) + "[" + pathOfN(v.Index, depth+1) + "]"
	case *ssa.Lookup:
		return pathOfN(v.X, depth+1) + "[" + pathOfN(v.Index, depth+1) + "]"
	case *ssa.UnOp:
		if v.Op == token.MUL {
			return derefPath(pathOfN(v.X, depth+1))
		}
		return v.Op.String() + pathOfN(v.X, depth+1)
	case *ssa.Const:
		if v.Value == nil {
			return "nil"
		}
		return v.Value.ExactString()
	case *ssa.Convert:
		return pathOfN(v.X, depth+1)
	case *ssa.ChangeType:
		return pathOfN(v.X, depth+1)
	case *ssa.ChangeInterface:
		return pathOfN(v.X, depth+1)
	case *ssa.MakeInterface:
		return pathOfN(v.X, depth+1)
	case *ssa.BinOp:
		return "(" + pathOfN(v.X, depth+1) + " " + v.Op.String() + " " + pathOfN(v.Y, depth+1) + ")"
	case *ssa.Extract:
		return pathOfN(v.Tuple, depth+1) + "#" + fmt.Sprint(v.Index)
	case *ssa.Call:
		n := callName(&v.Call)
		if n == "" {
			n = pathOfN(v.Call.Value, depth+1)
		}
		var args []string
		for _, a := range callArgs(&v.Call) {
			args = append(args, pathOfN(a, depth+1))
		}
		return n + "(" + strings.Join(args, ", ") + ")"
	case *ssa.Slice:
		s := pathOfN(v.X, depth+1) + "["
		if v.Low != nil {
			s += pathOfN(v.Low, depth+1)
		}
		s += ":"
		if v.High != nil {
			s += pathOfN(v.High, depth+1)
		}
		return derefPath(s) + "]"
	case *ssa.Function:
		return fnName(v)
	case *ssa.MakeClosure:
		return pathOfN(v.Fn, depth+1)
	case *ssa.TypeAssert:
		return pathOfN(v.X, depth+1) + ".(" + types.TypeString(v.AssertedType, func(p *types.Package) string { return p.Name() }) + ")"
	}
	return v.Name()
}

// ---- constants ------------------------------------------------------------------------------

func constInt(v ssa.Value) (int64, bool) {
	for {
		switch x := v.(type) {
		case *ssa.Convert:
			v = x.X
			continue
		case *ssa.ChangeType:
			v = x.X
			continue
		}
		break
	}
	c, ok := v.(*ssa.Const)
	if !ok || c.Value == nil {
		return 0, false
	}
	if c.Value.Kind() == constant.Int {
		n, exact := constant.Int64Val(c.Value)
		return n, exact
	}
	return 0, false
}

func constString(v ssa.Value) (string, bool) {
	c, ok := v.(*ssa.Const)
	if !ok || c.Value == nil || c.Value.Kind() != constant.String {
		return "", false
	}
	return constant.StringVal(c.Value), true
}

func isNilConst(v ssa.Value) bool {
	c, ok := v.(*ssa.Const)
	return ok && c.Value == nil
}

// ---- dominance ------------------------------------------------------------------------------

func instrIndex(instr ssa.Instruction) int {
	for i, x := range instr.Block().Instrs {
		if x == instr {
			return i
		}
	}
	return -1
}

// instrDominates reports whether a is executed before b on every path to b (same function).
func instrDominates(a, b ssa.Instruction) bool {
	if a.Block() == b.Block() {
		return instrIndex(a) < instrIndex(b)
	}
	return a.Block().Dominates(b.Block())
}

// Cond is a branch condition known to hold (Truth) on entry to some block.
type Cond struct {
	V     ssa.Value
	Truth bool
	If    *ssa.If
}

// edgeDominates: the edge from->to dominates block b (A.1).
func edgeDominates(from, to, b *ssa.BasicBlock) bool {
	if !to.Dominates(b) {
		return false
	}
	for _, p := range to.Preds {
		if p == from {
			continue
		}
		if !to.Dominates(p) {
			return false
		}
	}
	// from must reach to through exactly one of its successor slots
	n := 0
	for _, s := range from.Succs {
		if s == to {
			n++
		}
	}
	return n == 1
}

// condsAt returns the branch conditions whose edge dominates block b.
func condsAt(b *ssa.BasicBlock) []Cond {
	var out []Cond
	for d := b.Idom(); d != nil; d = d.Idom() {
		ifi, ok := d.Instrs[len(d.Instrs)-1].(*ssa.If)
		if !ok {
			continue
		}
		if edgeDominates(d, d.Succs[0], b) {
			out = append(out, Cond{ifi.Cond, true, ifi})
		} else if edgeDominates(d, d.Succs[1], b) {
			out = append(out, Cond{ifi.Cond, false, ifi})
		}
	}
	return out
}

// regionExits reports whether every path from t stays inside the blocks dominated by t and so
// ends in a return or panic (no edge leaves the dominated region).
func regionExits(t *ssa.BasicBlock) bool {
	for _, b := range t.Parent().Blocks {
		if !t.Dominates(b) {
			continue
		}
		for _, s := range b.Succs {
			if !t.Dominates(s) {
				return false
			}
		}
	}
	return true
}

// NegConj is the fact "not (c1 and c2 ... and ck)" that holds in every block dominated by Head
// other than the exiting region: some chain of branches from Head leads into a region that
// always returns/panics.
type NegConj struct {
	Head *ssa.BasicBlock
	Conj []Cond
	Exit *ssa.BasicBlock
}

// exitGuards finds, for fn, the chains `if c1 { if c2 { ... return } }` (also written c1 && c2).
func exitGuards(fn *ssa.Function) []NegConj {
	var out []NegConj
	for _, t := range fn.Blocks {
		if len(t.Preds) != 1 || !regionExits(t) {
			continue
		}
		// climb single-predecessor If chain
		var conj []Cond
		cur := t
		for len(cur.Preds) == 1 {
			p := cur.Preds[0]
			ifi, ok := p.Instrs[len(p.Instrs)-1].(*ssa.If)
			if !ok || p.Succs[0] == p.Succs[1] {
				break
			}
			conj = append(conj, Cond{ifi.Cond, p.Succs[0] == cur, ifi})
			out = append(out, NegConj{Head: p, Conj: append([]Cond(nil), conj...), Exit: t})
			// continue climbing only if p has nothing but the branch-relevant pure computation: we
			// accept any instructions (conditions are over immutable operands in our uses).
			cur = p
		}
	}
	return out
}

// ---- value origins and data dependence ------------------------------------------------------

// storesTo lists the stores in fn (and closures when deep) whose address has the given path.
func storesTo(fn *ssa.Function, path string, deep bool) []*ssa.Store {
	var out []*ssa.Store
	visit := func(_ *ssa.Function, instr ssa.Instruction) {
		if st, ok := instr.(*ssa.Store); ok && pathOf(st.Addr) == path {
			out = append(out, st)
		}
	}
	if deep {
		root := fn
		for root.Parent() != nil {
			root = root.Parent()
		}
		eachInstrDeep(root, visit)
	} else {
		eachInstr(fn, func(_ *ssa.BasicBlock, _ int, i ssa.Instruction) { visit(fn, i) })
	}
	return out
}

// dependsOn reports whether v is data-dependent on a value satisfying pred, looking through
// operands, phis, loads (to every store to the same access path in the enclosing function tree)
// and calls (arguments and receiver).
func dependsOn(v ssa.Value, pred func(ssa.Value) bool) bool {
	return dependsOnBarrier(v, pred, nil)
}

// dependsOnBarrier is dependsOn that does not look behind values for which barrier is true.
func dependsOnBarrier(v ssa.Value, pred func(ssa.Value) bool, barrier func(ssa.Value) bool) bool {
	seen := map[ssa.Value]bool{}
	var walk func(v ssa.Value, depth int) bool
	walk = func(v ssa.Value, depth int) bool {
		if v == nil || seen[v] || depth > 60 {
			return false
		}
		seen[v] = true
		if pred(v) {
			return true
		}
		if barrier != nil && barrier(v) {
			return false
		}
		switch x := v.(type) {
		case *ssa.UnOp:
			if x.Op == token.MUL {
				if o := origin(x); o != ssa.Value(x) {
					// local variable in memory with a unique reaching definition of the whole
					// variable; parts of it may still be updated afterwards (field stores, copy)
					if walk(o, depth+1) {
						return true
					}
					if al, ok := x.X.(*ssa.Alloc); ok && partialUpdates(al, func(v ssa.Value) bool { return walk(v, depth+1) }) {
						return true
					}
					return false
				}
				if walk(x.X, depth+1) {
					return true
				}
				if fn := x.Parent(); fn != nil {
					for _, st := range storesTo(fn, pathOf(x.X), true) {
						if walk(st.Val, depth+1) {
							return true
						}
					}
				}
				return false
			}
		}
		_, isAlloc := v.(*ssa.Alloc)
		_, isMake := v.(*ssa.MakeSlice)
		if isAlloc || isMake {
			// whatever is stored into the allocation or its elements/fields, copied into it, or
			// handed to a method called on it (bytes.Buffer.Write and the like)
			var refs func(addr ssa.Value, d int) bool
			refs = func(addr ssa.Value, d int) bool {
				if addr.Referrers() == nil || d > 4 {
					return false
				}
				for _, ref := range *addr.Referrers() {
					switch x := ref.(type) {
					case *ssa.Store:
						if x.Addr == addr && walk(x.Val, depth+1) {
							return true
						}
					case *ssa.IndexAddr:
						if x.X == addr && refs(x, d+1) {
							return true
						}
					case *ssa.FieldAddr:
						if refs(x, d+1) {
							return true
						}
					case *ssa.Slice:
						if x.X == addr && refs(x, d+1) {
							return true
						}
					case ssa.CallInstruction:
						args := x.Common().Args
						if len(args) > 1 && args[0] == addr && !x.Common().IsInvoke() {
							for _, a := range args[1:] {
								if walk(a, depth+1) {
									return true
								}
							}
						}
					}
				}
				return false
			}
			if refs(v, 0) {
				return true
			}
		}
		if ph, ok := v.(*ssa.Phi); ok {
			// control dependence on the branches that select among the incoming edges (not for
			// loop-header phis: every branch of the loop body would count)
			loopHeader := false
			for _, pred := range ph.Block().Preds {
				if ph.Block().Dominates(pred) {
					loopHeader = true
				}
			}
			for _, pred := range ph.Block().Preds {
				if loopHeader {
					break
				}
				if ifi, ok := pred.Instrs[len(pred.Instrs)-1].(*ssa.If); ok && walk(ifi.Cond, depth+1) {
					return true
				}
			}
		}
		if instr, ok := v.(ssa.Instruction); ok {
			for _, op := range instr.Operands(nil) {
				if *op != nil && walk(*op, depth+1) {
					return true
				}
			}
		}
		return false
	}
	return walk(v, 0)
}

// unwrap strips conversions and interface wrappers.
func unwrap(v ssa.Value) ssa.Value {
	for {
		switch x := v.(type) {
		case *ssa.Convert:
			v = x.X
		case *ssa.ChangeType:
			v = x.X
		case *ssa.ChangeInterface:
			v = x.X
		case *ssa.MakeInterface:
			v = x.X
		default:
			return v
		}
	}
}

// returnsOf lists the Return instructions of fn.
func returnsOf(fn *ssa.Function) []*ssa.Return {
	var out []*ssa.Return
	for _, b := range fn.Blocks {
		if b == fn.Recover {
			continue
		}
		if r, ok := b.Instrs[len(b.Instrs)-1].(*ssa.Return); ok {
			out = append(out, r)
		}
	}
	sort.Slice(out, func(i, j int) bool { return out[i].Pos() < out[j].Pos() })
	return out
}

// reachable reports whether block to is reachable from block from (from itself counts when
// from == to only through a cycle) without passing through a block for which avoid is true.
func reachable(from, to *ssa.BasicBlock, avoid func(*ssa.BasicBlock) bool) bool {
	seen := map[*ssa.BasicBlock]bool{}
	var stack []*ssa.BasicBlock
	for _, s := range from.Succs {
		stack = append(stack, s)
	}
	for len(stack) > 0 {
		b := stack[len(stack)-1]
		stack = stack[:len(stack)-1]
		if seen[b] {
			continue
		}
		seen[b] = true
		if b == to {
			return true
		}
		if avoid != nil && avoid(b) {
			continue
		}
		stack = append(stack, b.Succs...)
	}
	return false
}

// instrReaches: instruction b can execute after instruction a.
func instrReaches(a, b ssa.Instruction) bool {
	if a.Block() == b.Block() && instrIndex(a) < instrIndex(b) {
		return true
	}
	return reachable(a.Block(), b.Block(), nil)
}

// ---- must-hold lockset (DESIGN.md A.5) -------------------------------------------------------

// heldAt computes, for every instruction of fn, whether the lock identified by isLock/isUnlock is
// held on every path reaching it. A deferred unlock keeps the lock held up to the exits.
func heldAt(fn *ssa.Function, isLock, isUnlock func(ssa.CallInstruction) bool) map[ssa.Instruction]bool {
	in := map[*ssa.BasicBlock]bool{}
	out := map[*ssa.BasicBlock]bool{}
	for _, b := range fn.Blocks {
		in[b], out[b] = true, true // optimistic start for a must-analysis
	}
	if len(fn.Blocks) == 0 {
		return nil
	}
	transfer := func(b *ssa.BasicBlock, st bool, rec map[ssa.Instruction]bool) bool {
		for _, instr := range b.Instrs {
			if rec != nil {
				rec[instr] = st
			}
			if ci, ok := instr.(ssa.CallInstruction); ok {
				if _, isDefer := instr.(*ssa.Defer); isDefer {
					continue
				}
				if _, isGo := instr.(*ssa.Go); isGo {
					continue
				}
				if isLock(ci) {
					st = true
				} else if isUnlock(ci) {
					st = false
				}
			}
		}
		return st
	}
	for changed := true; changed; {
		changed = false
		for _, b := range fn.Blocks {
			st := true
			if b == fn.Blocks[0] {
				st = false
			} else {
				for _, p := range b.Preds {
					st = st && out[p]
				}
				if len(b.Preds) == 0 {
					st = false
				}
			}
			o := transfer(b, st, nil)
			if st != in[b] || o != out[b] {
				in[b], out[b] = st, o
				changed = true
			}
		}
	}
	rec := map[ssa.Instruction]bool{}
	for _, b := range fn.Blocks {
		transfer(b, in[b], rec)
	}
	return rec
}

// rangedSlice returns the slice (or string) a `for ... range x` loop enclosing block b iterates
// over, together with the instruction computing its length.
func rangedSlice(b *ssa.BasicBlock) (ssa.Value, ssa.Instruction) {
	for d := b; d != nil; d = d.Idom() {
		if d.Comment != "rangeindex.loop" {
			continue
		}
		ifi, ok := d.Instrs[len(d.Instrs)-1].(*ssa.If)
		if !ok {
			continue
		}
		cmp, ok := ifi.Cond.(*ssa.BinOp)
		if !ok {
			continue
		}
		if call, ok := cmp.Y.(*ssa.Call); ok && callName(&call.Call) == "builtin.len" {
			return call.Call.Args[0], call
		}
	}
	return nil, nil
}

// resOf returns result i of a return, looking through the stack slot go/ssa spills results to in
// functions with defers.
func resOf(ret *ssa.Return, i int) ssa.Value { return origin(ret.Results[i]) }

// partialUpdates visits the values written into parts of an allocation: stores through field or
// element addresses, copy() into a slice of it, arguments of methods called on a part of it.
// Stores to the allocation as a whole are not visited.
func partialUpdates(al *ssa.Alloc, visit func(ssa.Value) bool) bool {
	var refs func(addr ssa.Value, d int) bool
	refs = func(addr ssa.Value, d int) bool {
		if addr.Referrers() == nil || d > 4 {
			return false
		}
		for _, ref := range *addr.Referrers() {
			switch x := ref.(type) {
			case *ssa.Store:
				if x.Addr == addr && d > 0 && visit(x.Val) {
					return true
				}
			case *ssa.IndexAddr:
				if x.X == addr && refs(x, d+1) {
					return true
				}
			case *ssa.FieldAddr:
				if refs(x, d+1) {
					return true
				}
			case *ssa.Slice:
				if x.X == addr && refs(x, d+1) {
					return true
				}
			case ssa.CallInstruction:
				args := x.Common().Args
				if len(args) > 1 && args[0] == addr && !x.Common().IsInvoke() && d > 0 {
					for _, a := range args[1:] {
						if visit(a) {
							return true
						}
					}
				}
			}
		}
		return false
	}
	return refs(al, 0)
}

// accumulatingRead: the raw Read call asks for "the rest" on every round - its buffer argument is
// a slice whose lower bound depends on the count the same call returned earlier (buf[n:] with
// n += m), so a short read is followed by another read for the remainder.
func accumulatingRead(ci ssa.CallInstruction) bool {
	v := ci.Value()
	if v == nil || !reachable(ci.Block(), ci.Block(), nil) {
		return false
	}
	args := ci.Common().Args
	buf := args[len(args)-1]
	sl, ok := buf.(*ssa.Slice)
	if !ok || sl.Low == nil {
		return false
	}
	return dependsOn(sl.Low, func(x ssa.Value) bool {
		ex, ok := x.(*ssa.Extract)
		return ok && ex.Tuple == v && ex.Index == 0
	})
}
