package main

// Interprocedural helpers of the mailbox rules (C10-route, C10-store, C11-atomic). The rules state
// the same necessary conditions as before, but independently of whether a test or a step sits in
// the anchored function itself or in a same-package helper reached by static calls:
//
//   - a branch condition that is a call of a same-package predicate is replaced by the ways that
//     predicate can return the required value (one alternative per return, the conditions that
//     dominate the return, parameters bound to the arguments of that very call): ways/allWays;
//   - "event E happens before instruction I" may be established by a helper called before I (E
//     dominates every return of the helper) or, when I lives in a helper, before EVERY call site
//     of that helper, with the helper's parameter bound to the actual argument: eventBefore;
//   - "value v derives from X" looks through parameters of helpers (every call site must pass a
//     value deriving from X) and through the results of same-package callees: dependsOn;
//   - "the function containing the call to X" is searched in the static call closure of the
//     anchored function: closure.
//
// Nothing here is name-based: helpers are identified by what they contain. Whatever cannot be
// decided (recursion, function values, too many alternatives) is left as an opaque atom, i.e. the
// rule sees fewer facts and reports.

import (
	"fmt"
	"go/token"
	"go/types"
	"strings"

	"golang.org/x/tools/go/ssa"
)

const (
	ipMaxDepth = 4  // nesting of helpers / phis followed
	ipMaxAlts  = 24 // alternatives per guarded instruction; more: conditions are not expanded
)

type ipG2 struct {
	c   *Ctx
	pkg string // module-relative package whose functions may be looked into
}

func newIPG2(c *Ctx, pkg string) *ipG2 { return &ipG2{c: c, pkg: pkg} }

// local: a named source function of the package (no closure, no wrapper), or an instantiation of
// a generic one (ip_j5.go).
func (a *ipG2) local(fn *ssa.Function) bool {
	if j5Instance(fn, a.pkg) {
		return true
	}
	return fn != nil && fn.Blocks != nil && fn.Parent() == nil && fn.Synthetic == "" && pkgRel(fn) == a.pkg
}

func ipParamIndex(fn *ssa.Function, p *ssa.Parameter) int {
	for i, q := range fn.Params {
		if q == p {
			return i
		}
	}
	return -1
}

func ipIsBool(t types.Type) bool {
	b, ok := t.Underlying().(*types.Basic)
	return ok && b.Info()&types.IsBoolean != 0
}

// ipSame: the two values of ONE function denote the same thing (identity, same variable slot, or
// the same access path).
func ipSame(x, y ssa.Value) bool {
	if x == nil || y == nil {
		return false
	}
	if x == y || origin(x) == origin(y) {
		return true
	}
	px := pathOf(x)
	return px != "" && !strings.Contains(px, "…") && px == pathOf(y)
}

// closure: root and the same-package functions it reaches through static calls, root first, in
// call order (deterministic).
func (a *ipG2) closure(root *ssa.Function) []*ssa.Function {
	out := []*ssa.Function{root}
	seen := map[*ssa.Function]bool{root: true}
	for i := 0; i < len(out); i++ {
		for _, ci := range allCalls(out[i]) {
			if _, isGo := ci.(*ssa.Go); isGo {
				continue
			}
			if callee := ci.Common().StaticCallee(); a.local(callee) && !seen[callee] {
				seen[callee] = true
				out = append(out, callee)
			}
		}
	}
	return out
}

// ---- conditions read through predicates -----------------------------------------------------

// ipFrame binds the parameters of a callee to the arguments of one call of it.
type ipFrame struct {
	call ssa.CallInstruction
	up   *ipFrame // frame of the caller's values; nil = the anchored function
	virt *ipVirt  // set instead of call: a predicate a library function runs per element (ip_h3.go)
}

// ipResolve rewrites a value of frame fr into the caller's terms as long as it is a parameter.
func ipResolve(v ssa.Value, fr *ipFrame) (ssa.Value, *ipFrame) {
	for fr != nil {
		if fr.virt != nil {
			// captured values of a predicate run by a library call; its parameter (an element of the
			// slice) has no value in the frame above
			w, ok := fr.virt.resolve(v)
			if !ok {
				break
			}
			v, fr = w, fr.up
			continue
		}
		p, ok := origin(v).(*ssa.Parameter)
		if !ok {
			break
		}
		callee := fr.call.Common().StaticCallee()
		k := -1
		if callee != nil {
			k = ipParamIndex(callee, p)
		}
		if k < 0 || k >= len(fr.call.Common().Args) {
			break
		}
		v, fr = fr.call.Common().Args[k], fr.up
	}
	return v, fr
}

// ipCond: a branch condition and the frame its values live in.
type ipCond struct {
	Cond
	fr *ipFrame
}

// ipEnd: a block every execution of an alternative passes through last (the guarded block, the
// return block of a predicate).
type ipEnd struct {
	blk *ssa.BasicBlock
	fr  *ipFrame
}

// ipAlt: one way for a set of conditions to hold - a conjunction of atomic conditions.
type ipAlt struct {
	conds []ipCond
	ends  []ipEnd
	via   []string // predicate returns taken, outermost first
}

func (w ipAlt) and(o ipAlt) ipAlt {
	return ipAlt{
		conds: append(append([]ipCond(nil), w.conds...), o.conds...),
		ends:  append(append([]ipEnd(nil), w.ends...), o.ends...),
		via:   append(append([]string(nil), w.via...), o.via...),
	}
}

func ipCross(xs, ys []ipAlt) []ipAlt {
	var out []ipAlt
	for _, x := range xs {
		for _, y := range ys {
			out = append(out, x.and(y))
		}
	}
	return out
}

func ipAtoms(conds []Cond, fr *ipFrame) ipAlt {
	var w ipAlt
	for _, cd := range conds {
		w.conds = append(w.conds, ipCond{cd, fr})
	}
	return w
}

// ways lists alternatives that together cover every way `v == truth` can hold (values of frame
// fr): negations are stripped, parameters replaced by the arguments of the call, a boolean phi is
// split by incoming edge, a call of a same-package predicate by its returns. An empty list means
// the condition cannot hold. Anything else is one alternative holding the condition itself.
func (a *ipG2) ways(v ssa.Value, truth bool, fr *ipFrame, depth int, busy map[*ssa.Function]bool) []ipAlt {
	self := ipAlt{conds: []ipCond{{Cond{V: v, Truth: truth}, fr}}}
	atom := []ipAlt{self}
	if depth > ipMaxDepth {
		return atom
	}
	if call := h3AnyOfCall(origin(v), truth); call != nil {
		// slices.ContainsFunc(s, pred) and the like: the ways pred returns true for an element of s
		if out, ok := a.h3AnyOf(call, self, fr, depth, busy); ok {
			return out
		}
		return atom
	}
	switch x := origin(v).(type) {
	case *ssa.Const:
		if b, ok := constBool(x); ok {
			if b == truth {
				return []ipAlt{{}}
			}
			return nil
		}
	case *ssa.UnOp:
		if x.Op == token.NOT {
			return a.ways(x.X, !truth, fr, depth+1, busy)
		}
	case *ssa.Parameter:
		if w, fr2 := ipResolve(x, fr); fr2 != fr {
			return a.ways(w, truth, fr2, depth+1, busy)
		}
	case *ssa.Phi:
		if !ipIsBool(x.Type()) {
			return atom
		}
		var out []ipAlt
		for i, e := range x.Edges {
			pred := x.Block().Preds[i]
			sub := a.ways(e, truth, fr, depth+1, busy)
			if len(sub) == 0 {
				continue
			}
			ctx := a.allWays(ipAtoms(append(condsAt(pred), edgeCond(pred, x.Block())...), fr), depth+1, busy)
			out = append(out, ipCross(sub, ctx)...)
			if len(out) > ipMaxAlts {
				return atom
			}
		}
		return out
	case *ssa.Call:
		callee := x.Call.StaticCallee()
		if !a.local(callee) || busy[callee] || callee.Signature.Results().Len() != 1 || !ipIsBool(callee.Signature.Results().At(0).Type()) {
			return atom
		}
		busy[callee] = true
		defer delete(busy, callee)
		frame := &ipFrame{call: x, up: fr}
		var out []ipAlt
		for i, ret := range returnsOf(callee) {
			sub := a.ways(ret.Results[0], truth, frame, depth+1, busy)
			if len(sub) == 0 {
				continue // this return never yields the value
			}
			ctx := a.allWays(ipAtoms(condsAt(ret.Block()), frame), depth+1, busy)
			here := ipAlt{
				conds: self.conds, // the call itself stays visible as a condition
				ends:  []ipEnd{{ret.Block(), frame}},
				via:   []string{fmt.Sprintf("%s return #%d", fnName(callee), i+1)},
			}
			out = append(out, ipCross(ipCross([]ipAlt{here}, sub), ctx)...)
			if len(out) > ipMaxAlts {
				return atom
			}
		}
		return out
	case *ssa.Extract:
		// one boolean result of a same-package function with several results, e.g. (bool, error):
		// read through its returns like a predicate (ip_j5.go, round 5)
		if out, ok := a.j5TupleWays(x, truth, self, fr, depth, busy); ok {
			return out
		}
		return atom
	}
	return atom
}

// allWays: the alternatives for a conjunction of conditions (cross product of ways). When there
// are too many, the conditions are kept unexpanded.
func (a *ipG2) allWays(w ipAlt, depth int, busy map[*ssa.Function]bool) []ipAlt {
	out := []ipAlt{{ends: w.ends, via: w.via}}
	for _, cd := range w.conds {
		out = ipCross(out, a.ways(cd.V, cd.Truth, cd.fr, depth, busy))
		if len(out) > ipMaxAlts {
			return []ipAlt{w}
		}
	}
	return out
}

// guardsOf: the alternatives under which block b of the anchored function executes.
func (a *ipG2) guardsOf(b *ssa.BasicBlock) []ipAlt {
	w := ipAtoms(condsAt(b), nil)
	w.ends = []ipEnd{{b, nil}}
	return a.allWays(w, 0, map[*ssa.Function]bool{})
}

// ---- C10-route ------------------------------------------------------------------------------

type ipRoute struct{ sole, hasFw, noFw, notP2P, notDeferred bool }

// lenVsConst interprets `len(x) op k` / `k op len(x)` holding with the given truth, for a length
// (never negative): positive = the length is at least 1, zero = the length is 0.
func ipLenVsConst(b *ssa.BinOp, truth bool) (arg ssa.Value, positive, zero bool) {
	op, x, y := b.Op, b.X, b.Y
	if _, isC := constInt(x); isC {
		x, y = y, x
		switch op {
		case token.LSS:
			op = token.GTR
		case token.GTR:
			op = token.LSS
		case token.LEQ:
			op = token.GEQ
		case token.GEQ:
			op = token.LEQ
		}
	}
	lc, ok := x.(*ssa.Call)
	if !ok || callName(&lc.Call) != "builtin.len" {
		return nil, false, false
	}
	k, isC := constInt(y)
	if !isC {
		return nil, false, false
	}
	if !truth {
		switch op {
		case token.GTR:
			op = token.LEQ
		case token.LEQ:
			op = token.GTR
		case token.GEQ:
			op = token.LSS
		case token.LSS:
			op = token.GEQ
		case token.EQL:
			op = token.NEQ
		case token.NEQ:
			op = token.EQL
		default:
			return nil, false, false
		}
	}
	switch op {
	case token.GTR:
		positive = k >= 0
	case token.GEQ:
		positive = k >= 1
	case token.NEQ:
		positive = k == 0
	case token.EQL:
		positive, zero = k >= 1, k == 0
	case token.LSS:
		zero = k <= 1
	case token.LEQ:
		zero = k <= 0
	default:
		return nil, false, false
	}
	return lc.Call.Args[0], positive, zero
}

// notP2P: `v == truth` says that the X-P2POnly header is not "true". strict: the compared value
// must be the Header.Get call itself.
func (a *ipG2) notP2P(v ssa.Value, truth bool, fr *ipFrame, strict bool, depth int) bool {
	if depth > 6 {
		return false
	}
	switch x := origin(v).(type) {
	case *ssa.UnOp:
		if x.Op == token.NOT {
			return a.notP2P(x.X, !truth, fr, strict, depth+1)
		}
	case *ssa.Parameter:
		if w, fr2 := ipResolve(x, fr); fr2 != fr {
			return a.notP2P(w, truth, fr2, strict, depth+1)
		}
	case *ssa.BinOp:
		if x.Op != token.EQL && x.Op != token.NEQ {
			return false
		}
		if s, _ := constString(x.Y); s != "true" {
			return false
		}
		if (x.Op == token.EQL) == truth {
			return false // this is the "is P2P-only" side
		}
		hv, _ := ipResolve(x.X, fr)
		if !strict {
			return strings.Contains(pathOf(hv), "X-P2POnly")
		}
		call, isCall := origin(hv).(*ssa.Call)
		return isCall && callName(&call.Call) == "fbb.Header.Get" && dependsOn(call.Call.Args[1], func(y ssa.Value) bool {
			s, ok := constString(y)
			return ok && s == "X-P2POnly"
		})
	}
	return false
}

// edgesExcludeP2P: every feasible edge into blk carries 'not P2P-only' (the edge condition, or a
// condition dominating the edge, is a failed test of the X-P2POnly header against "true"). Edges
// ruled out by the integer conditions that dominate them are ignored.
func (a *ipG2) edgesExcludeP2P(blk *ssa.BasicBlock, fr *ipFrame) bool {
	pr := newProver(a.c)
	if len(blk.Preds) == 0 {
		return false
	}
	for _, pred := range blk.Preds {
		if !pr.edgeFeasible(pred, blk) {
			continue
		}
		ok := false
		for _, cd := range append(condsAt(pred), edgeCond(pred, blk)...) {
			if a.notP2P(cd.V, cd.Truth, fr, true, 0) {
				ok = true
			}
		}
		if !ok {
			return false
		}
	}
	return true
}

// routeOf reads the routing facts of one alternative guarding an append of msg in fn; fws is
// fn's parameter holding the forwarder addresses announced by the remote.
func (a *ipG2) routeOf(w ipAlt, msg ssa.Value, fws *ssa.Parameter) ipRoute {
	var rt ipRoute
	for _, cd := range w.conds {
		if call := h3AnyOfCall(origin(cd.V), cd.Truth); call != nil {
			// a library search over the forwarder list succeeded: the list is not empty
			if v, fr := ipResolve(call.Call.Args[0], cd.fr); fr == nil && fws != nil && ipSame(v, fws) {
				rt.hasFw = true
			}
			continue
		}
		switch x := origin(cd.V).(type) {
		case *ssa.Call:
			if callName(&x.Call) == "fbb.Message.IsOnlyReceiver" && cd.Truth {
				// of the very message that is appended, for one of the announced forwarder addresses
				recv, fr := ipResolve(x.Call.Args[0], cd.fr)
				list, lfr := h3ElemOf(x.Call.Args[1], cd.fr)
				if fr == nil && h3SameMsg(recv, msg) && list != nil && lfr == nil && fws != nil && ipSame(list, fws) {
					rt.sole = true
				}
			}
		case *ssa.BinOp:
			if arg, positive, zero := ipLenVsConst(x, cd.Truth); arg != nil {
				if v, fr := ipResolve(arg, cd.fr); fr == nil && fws != nil && ipSame(v, fws) {
					rt.hasFw = rt.hasFw || positive
					rt.noFw = rt.noFw || zero
				}
			}
			if a.notP2P(x, cd.Truth, cd.fr, false, 0) {
				rt.notP2P = true
			}
		case *ssa.Lookup:
			if m, _ := ipResolve(x.X, cd.fr); !cd.Truth && strings.HasSuffix(pathOf(m), ".deferred") {
				rt.notDeferred = true
			}
		case *ssa.Extract:
			// `_, ok := set[key]` with ok false, possibly inside a membership method of a small set
			// type: the set is the deferral set of the handler and the key is this message's MID
			if m, key, mfr, kfr, ok := j5AbsentTest(x, cd.Truth, cd.fr); ok && mfr == nil && kfr == nil && strings.HasSuffix(pathOf(m), ".deferred") && j5KeyOfMsg(key, msg) {
				rt.notDeferred = true
			}
		}
	}
	if !rt.notP2P {
		// not(len(fws)==0 && p2pOnly) established by a skip clause rather than by a dominating edge
		for _, e := range w.ends {
			if a.edgesExcludeP2P(e.blk, e.fr) {
				rt.notP2P = true
			}
		}
	}
	return rt
}

// ---- events before an instruction -----------------------------------------------------------

// ipEvent recognises the call that constitutes the event, for the message msg (a value of the
// function containing the call).
type ipEvent func(ci ssa.CallInstruction, msg ssa.Value) bool

// eventBefore: on every path to instruction at, the event has happened for msg (a value of at's
// function): a call dominating at is the event or always performs it; or at's function is a
// helper whose call sites can all be enumerated, msg is one of its parameters, and the event
// precedes every call site for the argument passed there.
func (a *ipG2) eventBefore(at ssa.Instruction, msg ssa.Value, ev ipEvent, depth int) bool {
	g := at.Parent()
	for _, ci := range allCalls(g) {
		if _, isCall := ci.(*ssa.Call); !isCall || ssa.Instruction(ci) == at || !instrDominates(ci, at) {
			continue
		}
		if a.performsEvent(ci, msg, ev, depth) {
			return true
		}
	}
	p, ok := origin(msg).(*ssa.Parameter)
	if !ok || depth > ipMaxDepth {
		return false
	}
	k, sites := ipParamIndex(g, p), a.c.callSites(g)
	if k < 0 || len(sites) == 0 {
		return false
	}
	for _, cs := range sites {
		if _, isCall := cs.(*ssa.Call); !isCall || k >= len(cs.Common().Args) {
			return false // deferred or concurrent call: no ordering
		}
		if !a.eventBefore(cs, cs.Common().Args[k], ev, depth+1) {
			return false
		}
	}
	return true
}

// performsEvent: the call is the event for msg, or calls a same-package helper with msg as an
// argument in which the event (for that parameter) dominates every return.
func (a *ipG2) performsEvent(ci ssa.CallInstruction, msg ssa.Value, ev ipEvent, depth int) bool {
	if ev(ci, msg) {
		return true
	}
	callee := ci.Common().StaticCallee()
	if !a.local(callee) || depth > ipMaxDepth {
		return false
	}
	for k, arg := range ci.Common().Args {
		if k >= len(callee.Params) || !ipSame(arg, msg) {
			continue
		}
		rets := returnsOf(callee)
		for _, inner := range allCalls(callee) {
			if _, isCall := inner.(*ssa.Call); !isCall || len(rets) == 0 {
				continue
			}
			all := true
			for _, ret := range rets {
				if !instrDominates(inner, ret) {
					all = false
				}
			}
			if all && a.performsEvent(inner, callee.Params[k], ev, depth+1) {
				return true
			}
		}
	}
	return false
}

// everyActual: check holds for v, or v is a parameter of a helper whose call sites can all be
// enumerated and check holds (recursively) for the argument passed at every one of them.
func (a *ipG2) everyActual(v ssa.Value, check func(ssa.Value) bool, depth int) bool {
	v = origin(v)
	if check(v) {
		return true
	}
	p, ok := v.(*ssa.Parameter)
	if !ok || depth > ipMaxDepth {
		return false
	}
	g := p.Parent()
	k, sites := ipParamIndex(g, p), a.c.callSites(g)
	if k < 0 || len(sites) == 0 {
		return false
	}
	for _, cs := range sites {
		if k >= len(cs.Common().Args) || !a.everyActual(cs.Common().Args[k], check, depth+1) {
			return false
		}
	}
	return true
}

// dependsOn is the data dependence of ssau.go that also looks (1) behind a parameter of a helper:
// the argument passed at EVERY call site must depend on pred; (2) into the results of
// same-package callees (there parameters are not lifted: the arguments of the call itself are
// already followed).
func (a *ipG2) dependsOn(v ssa.Value, pred func(ssa.Value) bool) bool {
	return a.depends(v, pred, true, 0, map[ssa.Value]bool{})
}

func (a *ipG2) depends(v ssa.Value, pred func(ssa.Value) bool, lift bool, depth int, busy map[ssa.Value]bool) bool {
	return dependsOn(v, func(x ssa.Value) bool {
		if pred(x) {
			return true
		}
		if depth >= ipMaxDepth || busy[x] {
			return false
		}
		switch y := x.(type) {
		case *ssa.Parameter:
			if !lift {
				return false
			}
			g := y.Parent()
			k, sites := ipParamIndex(g, y), a.c.callSites(g)
			if k < 0 || len(sites) == 0 {
				return false
			}
			busy[x] = true
			defer delete(busy, x)
			for _, cs := range sites {
				if k >= len(cs.Common().Args) || !a.depends(cs.Common().Args[k], pred, true, depth+1, busy) {
					return false
				}
			}
			return true
		case *ssa.Call:
			callee := y.Call.StaticCallee()
			if !a.local(callee) || busy[callee] {
				return false
			}
			busy[callee] = true
			defer delete(busy, callee)
			for _, ret := range returnsOf(callee) {
				for i := range ret.Results {
					if a.depends(resOf(ret, i), pred, false, depth+1, busy) {
						return true
					}
				}
			}
		}
		return false
	})
}

// ---- C10-store ------------------------------------------------------------------------------

// inboundStore examines how root (ProcessInbound) stores a message, wherever in its static call
// closure the steps live. A store site is a call of a module function that publishes by rename,
// one argument of which is the result of Message.Bytes() - directly, or as a helper's parameter
// that receives such a result at every call site.
//
//	serialised: a store site exists;
//	flagged:    for every Bytes() call feeding a store site, Header.Set("X-Unread","true") on the
//	            same message happens before it on every path;
//	stored:     some store site's path argument derives from "/in/", the MID of a message and ".b2f".
func (a *ipG2) inboundStore(root *ssa.Function) (serialised, flagged, stored bool) {
	setUnread := func(ci ssa.CallInstruction, msg ssa.Value) bool {
		if callName(ci.Common()) != "fbb.Header.Set" {
			return false
		}
		args := ci.Common().Args
		k, _ := constString(args[1])
		v, _ := constString(args[2])
		return k == "X-Unread" && v == "true" && pathOf(args[0]) == pathOf(msg)+".Header"
	}
	bytesOf := func(v ssa.Value) ssa.CallInstruction {
		ex, ok := v.(*ssa.Extract)
		if !ok || ex.Index != 0 {
			return nil
		}
		if call, ok := ex.Tuple.(*ssa.Call); ok && callName(&call.Call) == "fbb.Message.Bytes" {
			return call
		}
		return nil
	}
	flagged = true
	for _, g := range a.closure(root) {
		for _, ci := range allCalls(g) {
			callee := ci.Common().StaticCallee()
			args := ci.Common().Args
			if callee == nil || !a.c.inModule(callee) || len(args) < 2 || !a.c.performs(callee, "os.Rename") {
				continue
			}
			for j, data := range args {
				var feeds []ssa.CallInstruction
				if !a.everyActual(data, func(v ssa.Value) bool {
					bc := bytesOf(v)
					if bc != nil {
						feeds = append(feeds, bc)
					}
					return bc != nil
				}, 0) || len(feeds) == 0 {
					continue
				}
				serialised = true
				for _, bc := range feeds {
					if !a.eventBefore(bc, bc.Common().Args[0], setUnread, 0) {
						flagged = false
					}
				}
				for i, p := range args {
					if i == j || !isStringLike(p.Type()) {
						continue
					}
					has := func(s string) bool {
						return a.dependsOn(p, func(x ssa.Value) bool { cs, ok := constString(x); return ok && cs == s })
					}
					mid := a.dependsOn(p, func(x ssa.Value) bool {
						call, ok := x.(*ssa.Call)
						return ok && callName(&call.Call) == "fbb.Message.MID"
					})
					if has("/in/") && has(".b2f") && mid {
						stored = true
					}
				}
			}
		}
	}
	if !serialised {
		flagged = false
	}
	return
}
