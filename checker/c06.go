package main

// C06 — LZHUF compression is lossless for every input and every chunking.
// Round-trip equality itself is a run-time equality no structural rule reaches (DESIGN.md C06).
// What IS visible in the shape of the code are necessary conditions of *chunking independence*:
// how the caller splits its Write calls or sizes its Read buffers may only influence the
// per-call bookkeeping, never the persistent state of the codec.

import (
	"go/constant"
	"go/token"
	"go/types"
	"sort"
	"strings"

	"golang.org/x/tools/go/ssa"
)

func init() {
	register("C06", false,
		"Structural necessary conditions of chunking independence decided from source (the losslessness of the adaptive coder itself - equality of run-time byte strings - is NOT decided): (C06-percall) in Writer.Write and Reader.Read the per-call counter (the value returned as n and everything it is computed from) is used only to index the caller's buffer, in comparisons with len(p), in its own increments and as the result - it never flows into an index, value or argument that touches the persistent state of the codec, so the compressed bytes cannot depend on how the writes were split and the decoded bytes not on the read sizes; (C06-consumed) Write returns only once n >= len(p) is established (all input consumed); (C06-holdback) in Read every decoded byte of a match is either stored into p on the n < len(p) edge or appended to the hold-back buffer on the other edge, the same byte value on both, and the hold-back buffer is served before decoding resumes; (C06-drain) Read reports io.EOF only when the hold-back buffer is empty; (C06-flush) Writer.Close drains the lookahead (advance(nil) while len > 0) before the end-of-stream code and the header are written. NOT decided: that decode(encode(x)) == x (tree update, match search and bit packing are data dependent), the empty input, the tree rebuild.",
		checkC06)
}

// perCallWeb collects the per-call counter values of fn: the values returned as result 0 and what
// they are computed from by increments and phis (plus the count of bytes taken from the hold-back buffer).
func perCallWeb(c *Ctx, fn *ssa.Function) map[ssa.Value]bool {
	// ip_g7.go: the same closure, which also passes through helpers that take a counter and hand
	// it back advanced (n = d.emit(p, n, b))
	var starts []ssa.Value
	for _, ret := range returnsOf(fn) {
		starts = append(starts, ret.Results[0])
	}
	return newG7Percall(c).web(fn, nil, starts, 0)
}

func checkC06(c *Ctx, r *Report) {
	const pkg = "lzhuf"
	if c.Pkg(pkg) == nil {
		r.Fail("anchor", "package lzhuf not found")
		return
	}
	pr := newProver(c)
	// ---- C06-percall
	percallRule(c, r, "C06-percall")
	mirrorRule(c, r, "C06-mirror")
	codeWidthRule(c, r, pr, "C06-codewidth")
	lengthAgreeRule(c, r, "C06-length")
	noSharedStateRule(c, r, "C06-shared")
	// ---- C06-consumed
	r.Rule("C06-consumed", 1, "Write consumes all input")
	if fn := c.Func(pkg, "(*Writer).Write"); fn != nil {
		for _, ret := range returnsOf(fn) {
			v := resOf(ret, 0)
			if k, isC := constInt(v); isC && k == 0 {
				continue // refused before consuming anything (sticky error)
			}
			okReason := "n >= len(p) holds at the return: every byte of the call was fed to the encoder"
			proved := pr.LE(fn.Params[1], true, 0, v, false, 0, ret)
			if !proved {
				// ip_g7.go: n counted in lock-step with `for range p[n:]`
				var how string
				if proved, how = g7LockstepConsumed(ret, fn.Params[1]); proved {
					okReason += " (" + how + ")"
				}
			}
			r.Check("C06-consumed", fnName(fn), "return n", c.pos(ret.Pos()), proved,
				okReason, "Write can return before all of p was consumed without reporting an error")
		}
	}
	// ---- C06-holdback, C06-drain
	r.Rule("C06-holdback", 2, "bytes that do not fit the caller's buffer are held back, not lost")
	if fn := c.Func(pkg, "(*Reader).Read"); fn != nil {
		where := fnName(fn)
		p := fn.Params[1]
		var serve ssa.CallInstruction
		for _, ci := range callsTo(fn, false, "bytes.Buffer.Read") {
			// p itself, or read back from the variable it was spilled to when a closure captures it (ip_h2.go)
			if strings.HasSuffix(pathOf(ci.Common().Args[0]), ".state.buf") && h2ParamValue(ci.Common().Args[1]) == p {
				serve = ci
			}
		}
		first := true
		for _, ci := range allCalls(fn) {
			if h2Decodes(ci) && serve != nil && !instrDominates(serve, ci) {
				first = false
			}
		}
		r.Check("C06-holdback", where, "hold-back buffer served before decoding resumes", c.pos(fn.Pos()), serve != nil && first,
			"d.state.buf.Read(p) dominates every decode step", "decoding can resume before the bytes held back by the previous call were delivered: output is reordered or lost")
		// the split of a match between p and the hold-back buffer
		o := r.Add("C06-holdback", where, "match bytes go to p or to the hold-back buffer", c.pos(fn.Pos()))
		// in Read itself, in a helper that receives Read's buffer at every call (ip_g7.go) or in a local
		// closure Read calls; the test may be written either way round (ip_h2.go)
		good, inHelper := c.h2HoldbackSplit(fn)
		if good {
			o.OK("on n < len(p) the byte is stored in p[n], otherwise the same byte is appended to d.state.buf%s", inHelper)
		} else {
			o.Bad("a decoded byte that does not fit the caller's buffer is not (or not identically) kept in the hold-back buffer: small Read buffers lose data")
		}
	}
	eofDrainRule(c, r, "C06-drain")
	// ---- C06-flush
	r.Rule("C06-flush", 1, "Close drains the lookahead")
	if fn := c.Func(pkg, "(*Writer).Close"); fn != nil {
		where := fnName(fn)
		// the drain step is a role (ip_g7.go, g7DrainStep): a call, under `<w>.len > 0`, of a helper
		// that takes exactly one byte off the lookahead of that Writer under the arguments given
		var drain ssa.CallInstruction
		notDrain := ""
		for _, ci := range allCalls(fn) {
			for _, cd := range condsAt(ci.Block()) {
				// <w>.len > 0, also spelled 0 < len, len != 0, len >= 1
				if lenV := g7PositiveLen(cd); lenV != nil {
					if ok, why := c.g7DrainStep(ci, g7Root(lenV)); ok {
						drain = ci
					} else if why != "" && notDrain == "" {
						notDrain = "; the call at " + c.pos(ci.Pos()) + " is not a drain step: " + why
					}
				}
			}
		}
		o := r.Add("C06-flush", where, "advance(nil) while len > 0 before the end code and the header", c.pos(fn.Pos()))
		switch {
		case drain == nil || !reachable(drain.Block(), drain.Block(), nil):
			o.Bad("Close does not drain the lookahead buffer in a loop: the last bytes of the input (up to 60) are not encoded%s", notDrain)
		default:
			after := true
			for _, ci := range allCalls(fn) {
				n := callName(ci.Common())
				if n == "lzhuf.Writer.encodeEnd" || n == "io.Copy" || n == "encoding/binary.Write" || n == "bufio.Writer.Write" || n == "bytes.Buffer.WriteTo" {
					// must come after the loop: the loop header dominates them and they are not inside it
					if !drainLoopHeader(drain).Dominates(ci.Block()) || reachable(ci.Block(), drain.Block(), nil) {
						after = false
					}
				}
			}
			refill := c.g7LoopRefills(drain)
			if refill != "" {
				o.Bad("the drain loop also adds to the lookahead (%s): it does not terminate or encodes bytes that were never written", refill)
			} else if after {
				o.OK("the drain loop precedes encodeEnd and every header/data write")
			} else {
				o.Bad("something is written before the lookahead buffer has been drained")
			}
		}
	}
	r.NotCov = append(r.NotCov, "decode(encode(x)) == x for all x (tree update, match search, bit packing)", "the empty input and the tree rebuild at frequency 0x8000", "Close reporting success")
	_ = types.Typ
}

func drainLoopHeader(ci ssa.CallInstruction) *ssa.BasicBlock {
	for d := ci.Block(); d != nil; d = d.Idom() {
		if strings.HasPrefix(d.Comment, "for.loop") || strings.HasPrefix(d.Comment, "for.body") {
			if d.Idom() != nil && strings.HasPrefix(d.Comment, "for.body") {
				continue
			}
			return d
		}
	}
	return ci.Block()
}

// eofDrainRule: (*lzhuf.Reader).Read reports io.EOF only when the hold-back buffer is empty
// (C06-drain, C07-drain, C08-drain).
func eofDrainRule(c *Ctx, r *Report, rule string) {
	r.Rule(rule, 1, "EOF only after the hold-back buffer is drained")
	fn := c.Func("lzhuf", "(*Reader).Read")
	if fn == nil {
		r.Fail(rule, "anchor (*lzhuf.Reader).Read not found")
		return
	}
	n := 0
	for _, ret := range returnsOf(fn) {
		ld, ok := resOf(ret, 1).(*ssa.UnOp)
		if !ok || !strings.HasSuffix(pathOf(ld), "io.EOF") {
			continue
		}
		n++
		empty := false
		for _, cd := range condsAt(ret.Block()) {
			b, ok := cd.V.(*ssa.BinOp)
			if !ok {
				continue
			}
			call, isCall := b.X.(*ssa.Call)
			k, isC := constInt(b.Y)
			if isCall && isC && k == 0 && callName(&call.Call) == "bytes.Buffer.Len" && strings.HasSuffix(pathOf(call.Call.Args[0]), ".state.buf") && (b.Op == token.EQL) == cd.Truth && (b.Op == token.EQL || b.Op == token.NEQ) {
				empty = true
			}
		}
		r.Check(rule, fnName(fn), "return io.EOF", c.pos(ret.Pos()), empty,
			"dominated by d.state.buf.Len() == 0: the tail of a match held back for a small buffer is delivered first", "io.EOF can be returned while decoded bytes are still held back (the tail of a final match that did not fit the previous buffer): the stream ends up to 59 bytes early and Close reports a checksum error on a valid stream")
	}
	// ip_j3.go: io.EOF that reaches Read's error result from a same-package helper (or through a merge)
	for _, ret := range returnsOf(fn) {
		if ld, ok := resOf(ret, 1).(*ssa.UnOp); ok && strings.HasSuffix(pathOf(ld), "io.EOF") {
			continue
		}
		for _, site := range j3EOFSources(ret.Results[1], ret.Block(), nil, nil, fn, false, 0, map[ssa.Value]bool{}) {
			n++
			r.Check(rule, fnName(fn), "return io.EOF", c.pos(site.pos), site.guarded,
				"the io.EOF handed to Read here is produced only where d.state.buf.Len() == 0 holds: the tail of a match held back for a small buffer is delivered first", "io.EOF can be returned while decoded bytes are still held back (the tail of a final match that did not fit the previous buffer): the stream ends up to 59 bytes early and Close reports a checksum error on a valid stream")
		}
	}
	if n == 0 {
		r.Add(rule, fnName(fn), "return io.EOF", c.pos(fn.Pos())).Bad("Read never reports io.EOF")
	}
}

// percallRule: C06-percall / C07-percall.
func percallRule(c *Ctx, r *Report, rule string) {
	const pkg = "lzhuf"
	r.Rule(rule, 2, "per-call counters do not leak into codec state")
	for _, name := range []string{"(*Writer).Write", "(*Reader).Read"} {
		fn := c.Func(pkg, name)
		if fn == nil {
			r.Fail(rule, "anchor lzhuf.%s not found", name)
			continue
		}
		where := fnName(fn)
		p := fn.Params[1]
		web := perCallWeb(c, fn)
		o := r.Add(rule, where, "uses of the per-call counter n", c.pos(fn.Pos()))
		if len(web) == 0 {
			o.Bad("no per-call counter found (the function does not return a count computed by increments): unresolved")
			continue
		}
		// every use of every counter value, followed into same-package helpers that receive the
		// counter (ip_g7.go): the helper is held to the same rule with p bound to its parameter
		leak, nUses := newG7Percall(c).leak(fn, p, web, 0)
		if leak == "" {
			o.OK("%d use(s): only indexing of the caller's buffer, comparisons with len(p), increments and the result", nUses)
		} else {
			o.Bad("the per-call counter flows into codec state or a call at %s: the effect of the call then depends on how the caller split its data (e.g. a first Write shorter than the lookahead followed by another)", leak)
		}
	}
}

// mirrorRule: the first F-1 bytes of the ring buffer are mirrored behind its end so that a string
// starting near the end can be compared without wrapping: text_buf[s+N] = c exactly when s < F-1
// (LZHUF.C, Encode). One slot less and a 60-byte match starting in the last window slot compares
// against a byte that was never written.
func mirrorRule(c *Ctx, r *Report, rule string) {
	r.Rule(rule, 1, "wrap-around mirror of the ring buffer covers F-1 bytes")
	p := c.Pkg("lzhuf")
	if p == nil {
		r.Fail(rule, "package lzhuf not found")
		return
	}
	F, okF := constIntOf(p, "_F")
	N, okN := constIntOf(p, "_N")
	if !okF || !okN {
		r.Fail(rule, "constants _F/_N not found")
		return
	}
	// the mirror store is found by what it is - a store to textBuf[x + N] - in Writer.Write or
	// whichever same-package function Write reaches by static calls (Writer.advance on the pinned tree)
	found := false
	wr := c.Func("lzhuf", "(*Writer).Write")
	if wr == nil {
		r.Fail(rule, "anchor lzhuf.(*Writer).Write not found")
		return
	}
	for _, fn := range g7Closure(wr) {
		eachInstr(fn, func(_ *ssa.BasicBlock, _ int, in ssa.Instruction) {
			st, ok := in.(*ssa.Store)
			if !ok {
				return
			}
			ia, ok := st.Addr.(*ssa.IndexAddr)
			if !ok || !strings.HasSuffix(pathOf(ia.X), ".textBuf") {
				return
			}
			b, ok := ia.Index.(*ssa.BinOp)
			if !ok || b.Op != token.ADD {
				return
			}
			k, isC := constInt(b.Y)
			base := b.X
			if !isC {
				k, isC = constInt(b.X)
				base = b.Y
			}
			if !isC || k != N {
				return
			}
			found = true
			o := r.Add(rule, fnName(fn), "mirror store "+c.exprAt(fn, st.Pos()), c.pos(st.Pos()))
			// the tightest dominating upper bound on the index base
			bound, has := int64(0), false
			for _, cd := range condsAt(st.Block()) {
				cmp, ok := cd.V.(*ssa.BinOp)
				if !ok || pathOf(cmp.X) != pathOf(base) {
					continue
				}
				kk, isK := constInt(cmp.Y)
				if !isK {
					continue
				}
				switch {
				case cmp.Op == token.LSS && cd.Truth:
					bound, has = kk, true // base < kk
				case cmp.Op == token.LEQ && cd.Truth:
					bound, has = kk+1, true
				case cmp.Op == token.GEQ && !cd.Truth:
					bound, has = kk, true
				case cmp.Op == token.GTR && !cd.Truth:
					bound, has = kk+1, true
				}
			}
			switch {
			case !has:
				o.Bad("the mirror store is not guarded by an upper bound on the slot (it would run past the array)")
			case bound != F-1:
				o.Bad("the ring buffer's wrap-around mirror is written for slots below %d, LZHUF needs exactly F-1 = %d: a match of full length starting in the last window slots compares against a stale byte and the encoder emits a match the data does not contain (silent corruption, CRC passes)", bound, F-1)
			default:
				o.OK("text_buf[s+N] = c exactly for s < F-1 = %d", F-1)
			}
		})
	}
	if !found {
		r.Add(rule, "lzhuf", "mirror store", "lzhuf").Bad("no store to textBuf[s+N] found in Writer.Write or the helpers it calls (unresolved)")
	}
}

// codeWidthRule: a Huffman code is collected leaf-first in an accumulator and handed to putCode in
// pieces. (a) The accumulator is at least as wide as the deepest leaf the adaptive tree can have:
// a tree with the sibling property and depth d has total frequency >= Fib(d+2), and the total is
// capped by _MaxFreq (the tree is rebuilt when the root reaches it). (b) putCode moves at most 16
// bits per call (its buffer is a 16 bit window): the bit count of every call is proved <= 16.
func codeWidthRule(c *Ctx, r *Report, pr *prover, rule string) {
	r.Rule(rule, 2, "Huffman codes of any depth the tree can reach are emitted completely")
	p := c.Pkg("lzhuf")
	fn := c.Func("lzhuf", "(*Writer).encodeChar")
	if fn == nil || p == nil {
		r.Fail(rule, "anchor lzhuf.(*Writer).encodeChar not found")
		return
	}
	maxFreq, ok := constIntOf(p, "_MaxFreq")
	if !ok {
		r.Fail(rule, "constant _MaxFreq not found")
		return
	}
	// deepest possible leaf: largest d with Fib(d+2) <= maxFreq
	maxDepth := int64(0)
	{
		a, b := int64(1), int64(1) // Fib(1), Fib(2)
		n := int64(2)
		for b <= maxFreq {
			a, b = b, a+b
			n++
		}
		// now Fib(n) = b > maxFreq, Fib(n-1) = a <= maxFreq  => d+2 = n-1
		maxDepth = n - 3
	}
	where := fnName(fn)
	// (a) the bit injected at the top of the accumulator in the leaf-to-root loop
	width := int64(0)
	eachInstr(fn, func(_ *ssa.BasicBlock, _ int, in ssa.Instruction) {
		b, ok := in.(*ssa.BinOp)
		if !ok || (b.Op != token.ADD && b.Op != token.OR) {
			return
		}
		cst, isC := b.Y.(*ssa.Const)
		if !isC || cst.Value == nil {
			return
		}
		u, exact := constantUint64(cst)
		if !exact || u == 0 || u&(u-1) != 0 {
			return
		}
		// a single bit: its position is the effective width, provided the other operand is the
		// accumulator shifted right by one in the same loop
		if dependsOn(b.X, func(x ssa.Value) bool {
			s, ok := x.(*ssa.BinOp)
			return ok && s.Op == token.SHR
		}) {
			w := int64(0)
			for u != 0 {
				u >>= 1
				w++
			}
			if w > width {
				width = w
			}
		}
	})
	o := r.Add(rule, where, "width of the code accumulator", c.pos(fn.Pos()))
	switch {
	case width == 0:
		o.Bad("could not find the bit injected at the top of the code accumulator (unresolved)")
	case width < maxDepth:
		o.Bad("the code is collected in a window of %d bits, but with _MaxFreq = %#x a leaf can be %d levels deep (Fibonacci-like frequencies, e.g. run lengths): the first bits of a longer code are shifted out and the decoder lands on a sibling leaf - one byte changes silently and the CRC still passes", width, maxFreq, maxDepth)
	default:
		o.OK("window of %d bits >= deepest possible leaf (%d levels for _MaxFreq = %#x)", width, maxDepth, maxFreq)
	}
	// (b) every putCode call in the encoder moves at most 16 bits
	n := 0
	for _, f := range c.SrcFuncs("lzhuf") {
		for _, ci := range callsTo(f, false, "lzhuf.Writer.putCode") {
			n++
			l := ci.Common().Args[1]
			proved := pr.LE(l, false, 0, nil, false, 16, ci)
			if !proved {
				// an entry of a constant table that is never written: bounded by its largest entry
				v := l
				if cv, ok := v.(*ssa.Convert); ok {
					v = cv.X
				}
				if X, _, ok := loadOfIndex(v); ok {
					if g, isG := X.(*ssa.Global); isG && !globalWritten(c, g) {
						if vals, _, _, okT := intTable(p, g.Name()); okT {
							proved = true
							for _, e := range vals {
								if e > 16 {
									proved = false
								}
							}
						}
					}
				}
			}
			r.Check(rule, fnName(f), "bits per putCode call: "+c.exprAt(f, ci.Pos()), c.pos(ci.Pos()), proved,
				"at most 16 bits (proved)", "the number of bits handed to putCode is not proved <= 16: putCode keeps a 16 bit window, bits beyond it are lost")
		}
	}
	if n == 0 {
		r.Fail(rule, "no call of putCode found")
	}
}

func constantUint64(c *ssa.Const) (uint64, bool) {
	if c.Value == nil || c.Value.Kind() != constant.Int {
		return 0, false
	}
	return constant.Uint64Val(c.Value)
}

// globalWritten: some instruction of the module stores into the package-level variable (or takes
// its address for anything but indexing loads).
func globalWritten(c *Ctx, g *ssa.Global) bool {
	written := false
	for _, fn := range c.moduleFuncs() {
		if fn.Name() == "init" && fn.Pkg == g.Pkg {
			continue // the initialiser itself
		}
		eachInstr(fn, func(_ *ssa.BasicBlock, _ int, in ssa.Instruction) {
			for _, op := range in.Operands(nil) {
				if *op != ssa.Value(g) {
					continue
				}
				switch x := in.(type) {
				case *ssa.IndexAddr:
					for _, ref := range *x.Referrers() {
						if st, ok := ref.(*ssa.Store); ok && st.Addr == ssa.Value(x) {
							written = true
						}
						if _, ok := ref.(*ssa.UnOp); !ok {
							if _, isSt := ref.(*ssa.Store); !isSt {
								written = true
							}
						}
					}
				case *ssa.UnOp:
				default:
					written = true
				}
			}
		})
	}
	return written
}

// lengthAgreeRule: the match length the encoder announces (the operand L of the length code
// 255-THRESHOLD+L) is the quantity it then skips in the input (lastMatchLength), and that quantity is
// limited to the bytes left in the lookahead before it is announced.
func lengthAgreeRule(c *Ctx, r *Report, rule string) {
	r.Rule(rule, 2, "the announced match length is the length consumed, clamped to the lookahead")
	fn := c.Func("lzhuf", "(*Writer).encode")
	if fn == nil {
		r.Fail(rule, "anchor lzhuf.(*Writer).encode not found")
		return
	}
	where := fnName(fn)
	// storage identity of a length value: the access path of a load, or the SSA value itself
	ident := func(v ssa.Value) string {
		for {
			cv, ok := v.(*ssa.Convert)
			if !ok {
				break
			}
			v = cv.X
		}
		if ld, ok := v.(*ssa.UnOp); ok && ld.Op == token.MUL {
			return "mem:" + pathOf(ld.X)
		}
		return "val:" + v.Name()
	}
	// L in encodeChar(uint(255 - T + L)): the non-constant leaf of the sum
	var announced ssa.Value
	var at ssa.Instruction
	for _, ci := range callsTo(fn, false, "lzhuf.Writer.encodeChar") {
		unconv := func(v ssa.Value) ssa.Value {
			for {
				if cv, ok := v.(*ssa.Convert); ok {
					v = cv.X
					continue
				}
				return v
			}
		}
		arg := unconv(ci.Common().Args[1])
		var leaves []ssa.Value
		var flat func(v ssa.Value)
		flat = func(v ssa.Value) {
			v = unconv(v)
			if b, ok := v.(*ssa.BinOp); ok && (b.Op == token.ADD || b.Op == token.SUB) {
				flat(b.X)
				flat(b.Y)
				return
			}
			if _, isC := constInt(v); !isC {
				leaves = append(leaves, v)
			}
		}
		flat(arg)
		if b, ok := arg.(*ssa.BinOp); ok && len(leaves) == 1 && (b.Op == token.ADD || b.Op == token.SUB) {
			announced, at = leaves[0], ci
		}
	}
	var remembered ssa.Value
	eachInstr(fn, func(_ *ssa.BasicBlock, _ int, in ssa.Instruction) {
		if st, ok := in.(*ssa.Store); ok && strings.HasSuffix(pathOf(st.Addr), ".lastMatchLength") {
			remembered = st.Val
		}
	})
	// a local merged after the two branches: take the value that flows in from the announcing branch
	if ph, ok := remembered.(*ssa.Phi); ok && at != nil {
		var cands []ssa.Value
		for i, pred := range ph.Block().Preds {
			if pred == at.Block() || at.Block().Dominates(pred) {
				cands = append(cands, ph.Edges[i])
			}
		}
		if len(cands) == 1 {
			remembered = cands[0]
		}
	}
	o := r.Add(rule, where, "announced length = consumed length", c.pos(fn.Pos()))
	switch {
	case announced == nil || remembered == nil:
		o.Bad("could not identify the length code operand or the store to lastMatchLength (unresolved)")
	case ident(announced) != ident(remembered):
		o.Bad("the length written into the stream comes from %s but the encoder then skips %s bytes: when the two differ (a final match clamped to the bytes left) the decoder is told a longer match than the data has - the stream runs past its declared size and fails its own check", pathOf(announced), pathOf(remembered))
	default:
		o.OK("both are %s", pathOf(announced))
	}
	// the clamp: a store of the lookahead count into that storage under `L > w.len`, before the announce
	o = r.Add(rule, where, "length clamped to the lookahead", c.pos(fn.Pos()))
	clamped := false
	if announced != nil {
		id := ident(announced)
		eachInstr(fn, func(_ *ssa.BasicBlock, _ int, in ssa.Instruction) {
			st, ok := in.(*ssa.Store)
			if !ok || "mem:"+pathOf(st.Addr) != id && !strings.HasPrefix(id, "val:") {
				return
			}
			if !strings.HasSuffix(pathOf(strip(st.Val)), ".len") && !strings.HasSuffix(pathOf(st.Val), ".len") {
				return
			}
			for _, cd := range condsAt(st.Block()) {
				if b, ok := cd.V.(*ssa.BinOp); ok && cd.Truth && (b.Op == token.GTR || b.Op == token.GEQ) && strings.HasSuffix(pathOf(b.Y), ".len") {
					if at != nil && instrReaches(st, at) {
						clamped = true
					}
				}
			}
		})
		if strings.HasPrefix(id, "val:") {
			// a local: phi of [original, w.len] under the comparison
			if ph, ok := strip(announced).(*ssa.Phi); ok {
				for _, e := range ph.Edges {
					if strings.HasSuffix(pathOf(e), ".len") {
						clamped = true
					}
				}
			}
		}
	}
	if !clamped && announced != nil {
		// ip_j3.go: the same fact by reaching definitions (min builtin, clamp helper, any spelling of the test)
		clamped = c.j3Clamped(announced, at, func(v ssa.Value) bool {
			ld, ok := v.(*ssa.UnOp)
			return ok && ld.Op == token.MUL && strings.HasSuffix(pathOf(ld), ".len")
		})
	}
	if clamped {
		o.OK("limited to w.len before it is announced")
	} else {
		o.Bad("the announced match length is not limited to the bytes left in the lookahead")
	}
}

// noSharedStateRule: independent Writers/Readers share nothing mutable. Every package-level
// variable of lzhuf is a table that no instruction writes.
func noSharedStateRule(c *Ctx, r *Report, rule string) {
	r.Rule(rule, 1, "package lzhuf has no package-level variable that is written at run time")
	sp := c.SSA["lzhuf"]
	if sp == nil {
		r.Fail(rule, "package lzhuf not found")
		return
	}
	n := 0
	var names []string
	for name := range sp.Members {
		names = append(names, name)
	}
	sort.Strings(names)
	for _, name := range names {
		g, ok := sp.Members[name].(*ssa.Global)
		if !ok || strings.HasPrefix(name, "init$") {
			continue
		}
		n++
		if globalWritten(c, g) {
			r.Add(rule, "lzhuf", "var "+name, c.pos(g.Pos())).Bad("package-level variable %s is written (or its address handed out) at run time: two codecs running at the same time share it - e.g. a scratch buffer for the CRC input gives a stream whose checksum belongs to neither message", name)
		}
	}
	r.Add(rule, "lzhuf", "package-level variables", "lzhuf").OK("%d variable(s) examined", n)
}
