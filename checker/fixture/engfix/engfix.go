// Package engfix is the engine fixture of the wl2k-go checker (DESIGN.md 2.4): for each generic
// analysis one construct that must be reported and near-identical ones that must not. It is
// analysed on every run; it is never built into anything and imports nothing from the library.
// The module path is the library's so that the engines treat it as module code.
package engfix

import (
	"sort"
	"sync"
	"sync/atomic"
)

// ---- fact engine (bounds) -----------------------------------------------------------------

func Entry(s string, p []byte, n int) {
	badIndex(s)
	goodIndex(s)
	goodExitGuard(s, n)
	badExitGuardSameBlock(s, n)
	badSlice(p, n)
	goodSlice(p, n)
	goodLoop(p)
	badLoop(p)
	goodSum(s, s)
	badSum(s, s)
	goodAfterLoop(s)
	badAfterLoop(s)
	badNestedGuard(s, n)
	goodToggle(n)
	badToggle(n)
	goodSortLess(p)
	badSortLess(p, p[:n])
}

// the less function of sort.Slice is called with indices of the slice passed: a post-condition on the
// parameters of the function literal, valid when it indexes that very slice (ip_h1r3.go)
func goodSortLess(p []byte) {
	sort.Slice(p, func(i, j int) bool { return p[i] < p[j] })
}

// ... and not when it indexes another one
func badSortLess(p, q []byte) {
	sort.Slice(p, func(i, j int) bool { return q[i] < q[j] })
}

// a counter that is reflected inside {0, 1}: the interval fixpoint over the phis bounds it (ip_h1.go)
func goodToggle(rounds int) (sum int) {
	var pair [2]int
	side := 0
	if rounds > 3 {
		side = 1
	}
	for i := 0; i < rounds; i++ {
		sum += pair[side]
		side = 1 - side
	}
	return sum
}

// reflected around 1 instead of 1/2: leaves {0, 1} on the second round
func badToggle(rounds int) (sum int) {
	var pair [2]int
	side := 0
	if rounds > 3 {
		side = 1
	}
	for i := 0; i < rounds; i++ {
		sum += pair[side]
		side = 2 - side
	}
	return sum
}

// the index sits between the two tests of a nested exit guard: the inner test has not run yet
func badNestedGuard(s string, n int) (b byte) {
	if n > 0 {
		b = s[3]
		if len(s) < 4 {
			return 0
		}
	}
	return b
}

// induction over the loop header: n <= len(s) holds on entry and on the back edge
func goodAfterLoop(s string) string {
	n := 0
	for n < len(s) && s[n] == ' ' {
		n++
	}
	return s[:n]
}

func badAfterLoop(s string) string {
	n := 0
	for n <= len(s) && n < 100 {
		n++
	}
	return s[:n]
}

func badIndex(s string) byte { return s[3] }

func goodIndex(s string) byte {
	if len(s) < 4 {
		return 0
	}
	return s[3]
}

// the guard is a conjunction whose region exits: not(len(s) < 4 && n > 0), with n > 0 known
func goodExitGuard(s string, n int) byte {
	if n <= 0 {
		return 0
	}
	if len(s) < 4 && n > 0 {
		return 0
	}
	return s[3]
}

// the index sits inside the guarded region itself: nothing is known about len(s) there
func badExitGuardSameBlock(s string, n int) byte {
	if len(s) < 4 && n > 0 {
		return s[3]
	}
	return 0
}

func badSlice(p []byte, n int) []byte { return p[:n] }

func goodSlice(p []byte, n int) []byte {
	if n < 0 || n > len(p) {
		return nil
	}
	return p[:n]
}

func goodLoop(p []byte) (sum int) {
	for i := 0; i < len(p); i++ {
		sum += int(p[i])
	}
	return sum
}

func badLoop(p []byte) (sum int) {
	for i := 0; i <= len(p); i++ {
		sum += int(p[i])
	}
	return sum
}

// interval sum: 0 <= len(a) + len(b) + 2 <= 255 from the bounds of each term
func goodSum(a, b string) byte {
	if len(a) > 80 || len(b) > 21 {
		return 0
	}
	var tab [256]byte
	return tab[len(a)+len(b)+2]
}

func badSum(a, b string) byte {
	if len(a) > 80 {
		return 0
	}
	var tab [256]byte
	return tab[len(a)+len(b)+2]
}

// ---- taint --------------------------------------------------------------------------------

func sink(string) {}

func clean(x string) bool {
	for i := 0; i < len(x); i++ {
		if x[i] == '/' {
			return false
		}
	}
	return true
}

func ident(x string) string { return x }

type holder struct{ name string }

func TaintEntry(remote string) {
	leak(remote)
	leakThroughField(remote)
	leakThroughCallee(remote)
	sanitised(remote)
	notSmeared(remote)
}

func leak(x string) { sink("dir/" + x) }

func leakThroughField(x string) {
	h := &holder{}
	h.name = x
	sink(h.name)
}

func leakThroughCallee(x string) { sink(ident(x) + ".ext") }

func sanitised(x string) {
	if !clean(x) {
		return
	}
	sink("dir/" + x)
}

// the shared accessor must not carry taint from one call site to another
func notSmeared(x string) {
	_ = ident(x)
	sink(ident("constant"))
}

// ---- must-hold lockset --------------------------------------------------------------------

var (
	mu  sync.Mutex
	reg = map[string]int{}
)

func lockedAccess() int {
	mu.Lock()
	defer mu.Unlock()
	return reg["a"]
}

func unlockedAccess() int { return reg["a"] }

func earlyUnlock() int {
	mu.Lock()
	mu.Unlock()
	return reg["a"]
}

func oneBranchOnly(b bool) int {
	if b {
		mu.Lock()
		defer mu.Unlock()
	}
	return reg["a"]
}

// ---- state shared with a goroutine --------------------------------------------------------

type buffer struct{ data []byte }

func (b *buffer) Len() int     { return len(b.data) }
func (b *buffer) Add(p []byte) { b.data = append(b.data, p...) }
func report(n int)             {}
func work() []byte             { return nil }
func racy(done chan struct{}) {
	var buf buffer
	go func() {
		<-done
		report(buf.Len())
	}()
	buf.Add(work())
}

func viaAtomic(done chan struct{}) {
	var buf buffer
	var n atomic.Int64
	go func() {
		<-done
		report(int(n.Load()))
	}()
	buf.Add(work())
	n.Store(int64(buf.Len()))
}

func beforeGoOnly(done chan struct{}) {
	var buf buffer
	buf.Add(work())
	go func() {
		<-done
		report(buf.Len())
	}()
}

// the same three with a small type and a go statement on one of its methods (no closure): what is
// shared are the arguments of the go statement and what the fields of the struct point to

type watcher struct {
	buf *buffer
	n   atomic.Int64
}

func (w *watcher) size() int { return w.buf.Len() }
func (w *watcher) run(done chan struct{}) {
	<-done
	report(w.size())
}
func (w *watcher) count(done chan struct{}) {
	<-done
	report(int(w.n.Load()))
}

func racyMethod(done chan struct{}) {
	buf := &buffer{}
	w := &watcher{buf: buf}
	go w.run(done)
	buf.Add(work())
}

func viaAtomicMethod(done chan struct{}) {
	buf := &buffer{}
	w := &watcher{}
	go w.count(done)
	buf.Add(work())
	w.n.Store(int64(buf.Len()))
}

func beforeGoOnlyMethod(done chan struct{}) {
	buf := &buffer{}
	buf.Add(work())
	w := &watcher{buf: buf}
	go w.run(done)
}
