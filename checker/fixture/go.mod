module github.com/la5nta/wl2k-go

go 1.21
