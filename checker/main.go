package main

// wlcheck: repository-specific static checker for la5nta/wl2k-go (DESIGN.md).
//
//	wlcheck -property C07 -tier quick|thorough [-repo /repo] [-verif /verif]
//	wlcheck -explain /verif/evidence/violations/C07-1.json
//
// Exit status: 0 every obligation discharged (or a listed known finding); 1 at least one
// violated/undecided obligation, unresolved anchor or floor miss (VIOLATION lines on stdout);
// 2 the checker itself failed (ERROR line).

import (
	"encoding/json"
	"flag"
	"fmt"
	"go/types"
	"os"
	"path/filepath"
	"runtime"
	"runtime/debug"
	"sort"
	"strconv"
	"strings"
	"time"

	"golang.org/x/tools/go/ssa"
)

type ssaValue = ssa.Value

type propCheck struct {
	run     func(c *Ctx, r *Report)
	configs bool // rules depend on the build configuration (run on all of them in the thorough tier)
}

var props = map[string]propCheck{}

// explanations[prop] is the coverage.explanation text of the evidence file.
var explanations = map[string]string{}

func register(id string, configs bool, expl string, run func(c *Ctx, r *Report)) {
	props[id] = propCheck{run: run, configs: configs}
	explanations[id] = expl
}

type buildConfig struct{ goos, goarch string }

func (b buildConfig) String() string { return b.goos + "/" + b.goarch }

// darwin/amd64 is not buildable here: the go-serial dependency of transport/ax25 needs cgo on darwin.
var thoroughConfigs = []buildConfig{{"linux", "amd64"}, {"linux", "386"}, {"windows", "amd64"}}

func main() {
	var (
		prop    = flag.String("property", "", "property id (C01..C20)")
		tier    = flag.String("tier", "quick", "quick or thorough")
		repo    = flag.String("repo", "/repo", "repository to analyse")
		verif   = flag.String("verif", "/verif", "verification directory (evidence, known findings)")
		explain = flag.String("explain", "", "violation file to explain (re-runs the property's check)")
		list    = flag.Bool("list", false, "list the properties with a check")
		noEvid  = flag.Bool("no-evidence", false, "do not write evidence (used for scratch variants)")
		dump    = flag.String("dump", "", "development aid: print the SSA of pkg:func with access paths")
		mutants = flag.String("mutants", "", "self-validation: replay the mutant specs of a property (or 'all')")
		mbuild  = flag.Bool("build", false, "with -mutants: also require the variant to compile (go build ./...)")
		only    = flag.String("only", "", "with -mutants: only specs whose name contains this")
	)
	flag.Parse()
	if *mutants != "" {
		var ids []string
		if *mutants == "all" {
			for id := range props {
				ids = append(ids, id)
			}
		} else {
			ids = strings.Split(*mutants, ",")
		}
		os.Exit(mutantsMain(ids, *repo, *verif, *mbuild, *only))
	}
	if *dump != "" {
		c, err := Load(*repo, "linux", "amd64")
		if err != nil {
			fmt.Println("ERROR", err)
			os.Exit(2)
		}
		dumpFunc(c, *dump)
		return
	}
	if *list {
		var ids []string
		for id := range props {
			ids = append(ids, id)
		}
		sort.Strings(ids)
		fmt.Println(strings.Join(ids, " "))
		return
	}
	if *explain != "" {
		b, err := os.ReadFile(*explain)
		if err != nil {
			fmt.Printf("ERROR %v\n", err)
			os.Exit(2)
		}
		var v violationFile
		if err := json.Unmarshal(b, &v); err != nil {
			fmt.Printf("ERROR %v\n", err)
			os.Exit(2)
		}
		fmt.Printf("recorded: %s\n", v.Explain)
		*prop, *tier = v.Property, v.Tier
		if *tier == "" {
			*tier = "quick"
		}
		*noEvid = true
	}
	pc, ok := props[*prop]
	if !ok {
		fmt.Printf("ERROR unknown property %q\n", *prop)
		os.Exit(2)
	}
	if *tier != "quick" && *tier != "thorough" {
		fmt.Printf("ERROR unknown tier %q\n", *tier)
		os.Exit(2)
	}
	seed, _ := strconv.ParseInt(os.Getenv("VERIF_SEED"), 10, 64)
	os.Exit(runProperty(*prop, pc, *tier, *repo, *verif, seed, *noEvid))
}

func runProperty(id string, pc propCheck, tier, repo, verif string, seed int64, noEvid bool) (code int) {
	t0 := time.Now()
	defer func() {
		if e := recover(); e != nil {
			fmt.Printf("ERROR checker panic in %s: %v\n%s\n", id, e, debug.Stack())
			code = 2
		}
	}()
	// the engine fixture (DESIGN.md 2.4) is analysed while the library loads
	fixCh := make(chan fixtureResult, 1)
	go func() { fixCh <- engineFixture(selfDir(verif)) }()
	configs := []buildConfig{{"linux", "amd64"}}
	if tier == "thorough" && pc.configs {
		configs = thoroughConfigs
	}
	var merged *Report
	var cfgNames []string
	var stats interface{}
	for _, bc := range configs {
		c, err := Load(repo, bc.goos, bc.goarch)
		if err != nil {
			fmt.Printf("ERROR load %s: %v\n", bc, err)
			return 2
		}
		c.Tier = tier
		r := NewReport(id, tier)
		r.Config = bc.String()
		pc.run(c, r)
		cfgNames = append(cfgNames, bc.String())
		if merged == nil {
			merged = r
			stats = c.stats
		} else {
			mergeReports(merged, r, bc.String())
		}
		c = nil
		runtime.GC()
	}
	fix := <-fixCh
	if len(fix.Failures) > 0 {
		for _, f := range fix.Failures {
			fmt.Printf("ERROR selftest: engine fixture: %s\n", f)
		}
		return 2
	}
	merged.Infos["engine_fixture"] = fix
	if tier == "thorough" {
		selftestInto(merged, id, repo, verif)
	}
	if noEvid {
		verif2, err := os.MkdirTemp("", "wlcheck-noevid-")
		if err != nil {
			fmt.Printf("ERROR %v\n", err)
			return 2
		}
		defer os.RemoveAll(verif2)
		// known findings still apply
		if b, err := os.ReadFile(verif + "/KNOWN_FINDINGS.txt"); err == nil {
			os.WriteFile(verif2+"/KNOWN_FINDINGS.txt", b, 0o644)
		}
		verif = verif2
	}
	return merged.Finish(verif, repo, stats, cfgNames, time.Since(t0), seed, nil)
}

// selfDir: the directory that holds the checker's own sources (the engine fixture), independent
// of where evidence is written.
func selfDir(verif string) string {
	if d := os.Getenv("WLCHECK_HOME"); d != "" {
		return d
	}
	if exe, err := os.Executable(); err == nil {
		if d := filepath.Dir(filepath.Dir(exe)); fileExists(filepath.Join(d, "checker", "fixture", "go.mod")) {
			return d
		}
	}
	return verif
}

func fileExists(p string) bool { _, err := os.Stat(p); return err == nil }

func rank(s State) int {
	switch s {
	case Violated:
		return 3
	case Undecided:
		return 2
	case Assumed:
		return 1
	}
	return 0
}

// mergeReports folds the obligations of another build configuration into dst: an obligation
// keeps its worst state over all configurations; obligations only present in the other
// configuration are added with the configuration in the key.
func mergeReports(dst, src *Report, cfg string) {
	idx := map[string]*Oblig{}
	for _, o := range dst.Obs {
		idx[o.Key] = o
	}
	for _, o := range src.Obs {
		if d, ok := idx[o.Key]; ok {
			if rank(o.State) > rank(d.State) {
				d.State, d.Reason, d.Pos = o.State, o.Reason+" ["+cfg+"]", o.Pos
			}
			continue
		}
		o.Reason += " [only in " + cfg + "]"
		dst.Obs = append(dst.Obs, o)
		if rs, ok := dst.rules[o.Rule]; ok {
			rs.Instances++
		}
	}
	for _, e := range src.Errors {
		dst.Errors = append(dst.Errors, "["+cfg+"] "+e)
	}
	for _, n := range src.Notes {
		dst.Notes = append(dst.Notes, "["+cfg+"] "+n)
	}
	// floors are checked on the default configuration's counts only
}

// dumpFunc prints the SSA of a function with access paths (development aid: -dump pkg:func).
func dumpFunc(c *Ctx, spec string) {
	rel, name, _ := strings.Cut(spec, ":")
	fn := c.Func(rel, name)
	if fn == nil {
		fmt.Println("not found:", spec)
		return
	}
	for _, g := range withClosures(fn) {
		fmt.Printf("=== %s\n", fnName(g))
		for _, b := range g.Blocks {
			fmt.Printf(" b%d: preds=%v succs=%v idom=%v %s\n", b.Index, idxs(b.Preds), idxs(b.Succs), b.Idom(), b.Comment)
			for _, in := range b.Instrs {
				if v, ok := in.(interface {
					Name() string
					String() string
				}); ok {
					if val, isVal := in.(interface{ Type() types.Type }); isVal {
						_ = val
					}
					fmt.Printf("    %s = %s", v.Name(), in.String())
				} else {
					fmt.Printf("    %s", in.String())
				}
				if val, ok := in.(ssaValue); ok {
					fmt.Printf("      // %s", pathOf(val))
				}
				fmt.Printf("   @%s\n", c.pos(in.Pos()))
			}
		}
	}
}

func idxs(bs []*ssa.BasicBlock) []int {
	var out []int
	for _, b := range bs {
		out = append(out, b.Index)
	}
	return out
}
