package main

import (
	"go/token"
	"go/types"
	"sort"
	"strings"

	"golang.org/x/tools/go/ssa"
)

// C14-gate: the dispatch goroutine hands an ARQ payload to the connection only under conditions;
// where such a condition is the state of a TNC field (a "gate"), every store that can OPEN the gate
// must be executed by the dispatch goroutine itself. A store made by another goroutine in reaction
// to a broadcast is not ordered before the dispatch of the next frame: a data frame that follows the
// enabling event at once is tested against the old value and discarded, so Read no longer yields the
// concatenation of the ARQ payloads (the schedule is "next frame dequeued before the other goroutine
// ran", which the quantifier of C14 includes).
//
// Roles are computed: the delivery is a blocking select-send (or plain send) of a value on a channel
// loaded from a TNC field inside the synchronous call tree of a goroutine started by
// runControlLoop; a gate is a field of TNC loaded (possibly under !) by a branch condition that
// dominates the delivery in its function; "executed by the dispatch goroutine" = the store lies in
// the goroutine's root closure or in a helper all of whose call sites are plain calls from there.
func c14GateRule(c *Ctx, r *Report, pkg string) {
	r.Rule("C14-gate", 1, "a flag that gates the delivery of ARQ data is opened by the dispatch goroutine itself")
	loop := c.Func(pkg, "(*TNC).runControlLoop")
	if loop == nil {
		r.Fail("C14-gate", "anchor (*ardop.TNC).runControlLoop not found")
		return
	}
	isTNC := func(t types.Type) bool {
		if p, ok := t.Underlying().(*types.Pointer); ok {
			t = p.Elem()
		}
		n, ok := t.(*types.Named)
		return ok && n.Obj().Name() == "TNC" && n.Obj().Pkg() != nil && strings.HasSuffix(n.Obj().Pkg().Path(), pkg)
	}
	// fieldOf: v is a load of a field of TNC -> field name
	fieldOf := func(v ssa.Value) (string, bool) {
		u, ok := v.(*ssa.UnOp)
		if !ok || u.Op != token.MUL {
			return "", false
		}
		fa, ok := u.X.(*ssa.FieldAddr)
		if !ok || !isTNC(fa.X.Type()) {
			return "", false
		}
		return fieldName(fa.X.Type(), fa.Field), true
	}
	// the goroutines runControlLoop starts, and the delivery sends in their synchronous trees
	type gate struct {
		field string
		open  int // value that opens the gate: 1 true, 0 false, -1 not a plain boolean test
		at    ssa.Instruction
	}
	var roots []*ssa.Function
	gates := map[string]gate{}
	nDeliver := 0
	// the goroutines the loop function starts: function literals or functions/methods of the package
	// that are started there and called nowhere else (ip_j6.go), with the literals nested in them
	var started []*ssa.Function
	for _, g := range c.j6GoRoots(loop) {
		started = append(started, withClosures(g)...)
	}
	for _, root := range started {
		tree := c.syncTree([]*ssa.Function{root}, pkg)
		delivers := false
		for _, g := range tree {
			eachInstr(g, func(b *ssa.BasicBlock, _ int, in ssa.Instruction) {
				var chans []ssa.Value
				switch x := in.(type) {
				case *ssa.Select:
					for _, st := range x.States {
						if st.Dir == types.SendOnly {
							chans = append(chans, st.Chan)
						}
					}
				case *ssa.Send:
					chans = append(chans, x.Chan)
				}
				for _, ch := range chans {
					if _, isField := fieldOf(ch); !isField {
						continue
					}
					if s, ok := ch.Type().Underlying().(*types.Chan); !ok || s.Elem().String() != "[]byte" {
						continue
					}
					delivers = true
					nDeliver++
					// conditions in force at the delivery, and at the call sites of the helper it lives in
					conds := condsAt(b)
					if g != root {
						conds = c.j6CondsUp(b, 0)
					}
					for _, cd := range conds {
						v, open := cd.V, 1
						if !cd.Truth {
							open = 0
						}
						for {
							if n, ok := v.(*ssa.UnOp); ok && n.Op == token.NOT {
								v, open = n.X, 1-open
								continue
							}
							break
						}
						if f, ok := fieldOf(v); ok {
							gates[f] = gate{f, open, in}
							continue
						}
						// any other condition that reads a TNC field directly: every store counts
						dependsOn(v, func(w ssa.Value) bool {
							if f, ok := fieldOf(w); ok {
								if _, dup := gates[f]; !dup {
									gates[f] = gate{f, -1, in}
								}
							}
							return false
						})
					}
				}
			})
		}
		if delivers {
			roots = append(roots, root)
		}
	}
	if nDeliver == 0 || len(roots) == 0 {
		r.Add("C14-gate", fnName(loop), "delivery of ARQ data by the dispatch goroutine", c.pos(loop.Pos())).Bad("no send of a payload on a TNC data channel found in the goroutines runControlLoop starts (unresolved)")
		return
	}
	inRoot := func(fn *ssa.Function) bool {
		for _, x := range roots {
			if fn == x {
				return true
			}
		}
		return false
	}
	var names []string
	for f := range gates {
		names = append(names, f)
	}
	sort.Strings(names)
	if len(names) == 0 {
		r.Add("C14-gate", fnName(roots[0]), "delivery of ARQ data is not gated by TNC state", c.pos(roots[0].Pos())).OK("no branch condition on a TNC field dominates the delivery: nothing to open")
		return
	}
	for _, f := range names {
		g := gates[f]
		nOpen := 0
		for _, fn := range c.SrcFuncs(pkg) {
			eachInstr(fn, func(_ *ssa.BasicBlock, _ int, in ssa.Instruction) {
				st, ok := in.(*ssa.Store)
				if !ok {
					return
				}
				fa, ok := st.Addr.(*ssa.FieldAddr)
				if !ok || !isTNC(fa.X.Type()) || fieldName(fa.X.Type(), fa.Field) != f {
					return
				}
				if k, isC := st.Val.(*ssa.Const); isC && g.open >= 0 && k.Value != nil {
					if b := k.Value.String() == "true"; (b && g.open == 0) || (!b && g.open == 1) {
						return // closes the gate
					}
				}
				nOpen++
				o := r.Add("C14-gate", fnName(fn), "store that opens the delivery gate tnc."+f, c.pos(st.Pos()))
				if c.calledOnlyFrom(fn, inRoot, map[*ssa.Function]bool{}) {
					o.OK("executed by the dispatch goroutine, between two frames")
				} else {
					o.Bad("the dispatch goroutine delivers ARQ data only while tnc.%s allows it (%s), but this store runs in another goroutine, in reaction to a broadcast: a data frame that follows the enabling event at once is tested before the store and discarded, so Read misses its payload", f, c.pos(g.at.Pos()))
				}
			})
		}
		if nOpen == 0 {
			r.Add("C14-gate", fnName(roots[0]), "store that opens the delivery gate tnc."+f, c.pos(g.at.Pos())).Bad("delivery is gated by tnc.%s but no store opens the gate: ARQ data is never delivered", f)
		}
	}
}
