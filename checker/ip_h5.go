package main

// Shape-independent formulations for rules of C19 and C20 (second round of behaviour-preserving
// refactorings). As in ip_g6/ip_g9 nothing is keyed on the name of a helper, of a local type or
// of a local variable: roles are computed, helpers are followed through static calls with
// parameters bound to the actual arguments of EVERY call site, and what cannot be resolved stays
// undecided, which the rules report.
//
//   - h5Registry: the dialer registry is found by its type (a map from string to a dialer
//     interface of the package, with the mutex that lives beside it); an access made through a
//     receiver or pointer parameter is an access of the registry when every call site of that
//     function passes the registry variable (canon). An access that cannot be bound is reported.
//   - h5DigiGuard: "digipeaters are refused exactly for ardop/telnet" by enumerating the cases
//     {no digipeater, at least one} x {every scheme constant, any other scheme} and following the
//     branches the case decides: no success return may remain reachable in a refused case and no
//     refusing return in any other.
//   - h5HostElem / h5LenRange: Values.Get("host") written as params["host"] with a length test.
//   - h5DigitRun: the digit bytes of a course written by a loop, decided by running the loop over
//     symbolic values (constant trip count; value / 10^j % 10).
//   - h5CaseFormat: the coordinate format with a '*' width, judged per enumerated case.
//   - g9Cases memory (ip_g9.go): small local tables the letter is taken from.
//   - h5AddrKey / line merging (ip_g9.go): a line written piecewise into a builder owned by a
//     small local type.
//   - h5StringerSuffix: the M/T suffix of Course.String when it is not produced by Sprintf.

import (
	"fmt"
	"go/ast"
	"go/constant"
	"go/token"
	"go/types"
	"sort"
	"strings"

	"golang.org/x/tools/go/ssa"
)

// ---- C19: the registry, found by type, reached directly or through a receiver ------------------

// h5Registry describes the dialer registry of a package: the storage of map type whose keys are
// strings and whose elements are an interface type declared in the package (the dialers), rooted
// in a package-level variable, and the mutex that guards it (a sibling field, or the only
// package-level mutex when the map itself is a package-level variable).
type h5Registry struct {
	c        *Ctx
	pkg      string
	mapPath  string // "transport.dialers.m"
	muPath   string // "transport.dialers.mu"
	mapField *types.Var
	memo     map[*ssa.Parameter]string
	busy     map[*ssa.Parameter]bool
}

// c19Reg0 is the registry of the run in progress (set by checkC19; checks run sequentially).
var c19Reg0 *h5Registry

func h5IsMutexType(t types.Type) bool {
	n, ok := t.(*types.Named)
	if !ok || n.Obj().Pkg() == nil || n.Obj().Pkg().Path() != "sync" {
		return false
	}
	return n.Obj().Name() == "Mutex" || n.Obj().Name() == "RWMutex"
}

// h5IsRegistryMap: map[string-like]I with I an interface type declared in package tp.
func h5IsRegistryMap(t types.Type, tp *types.Package) bool {
	m, ok := t.Underlying().(*types.Map)
	if !ok || !isStringLike(m.Key()) {
		return false
	}
	n, ok := m.Elem().(*types.Named)
	if !ok || n.Obj().Pkg() != tp {
		return false
	}
	_, isIface := n.Underlying().(*types.Interface)
	return isIface
}

// h5FindRegistry locates the registry of package pkg. why is non-empty when there is none or
// more than one candidate (map or mutex): the rules then cannot tell which lock guards what.
func h5FindRegistry(c *Ctx, pkg string) (reg *h5Registry, why string) {
	sp := c.SSA[pkg]
	if sp == nil {
		return nil, "package not loaded"
	}
	tp := sp.Pkg
	type cand struct {
		mapPath, muPath string
		field           *types.Var
	}
	var cands []cand
	var names []string
	for n := range sp.Members {
		names = append(names, n)
	}
	sort.Strings(names)
	var globalMus []string
	for _, n := range names {
		g, ok := sp.Members[n].(*ssa.Global)
		if !ok {
			continue
		}
		if h5IsMutexType(g.Type().(*types.Pointer).Elem()) {
			globalMus = append(globalMus, derefPath(pathOf(g)))
		}
	}
	for _, n := range names {
		g, ok := sp.Members[n].(*ssa.Global)
		if !ok {
			continue
		}
		et := g.Type().(*types.Pointer).Elem()
		base := derefPath(pathOf(g))
		if h5IsRegistryMap(et, tp) {
			mu := ""
			if len(globalMus) == 1 {
				mu = globalMus[0]
			}
			cands = append(cands, cand{base, mu, nil})
			continue
		}
		if pt, isPtr := et.Underlying().(*types.Pointer); isPtr {
			// var registry = &T{...}: the same paths, provided the pointer is never replaced at run time
			if _, isStruct := pt.Elem().Underlying().(*types.Struct); !isStruct || h5StoredAtRunTime(c, pkg, g) {
				continue
			}
			et = pt.Elem()
		}
		st, ok := et.Underlying().(*types.Struct)
		if !ok {
			continue
		}
		var maps, mus []*types.Var
		for i := 0; i < st.NumFields(); i++ {
			f := st.Field(i)
			switch {
			case h5IsRegistryMap(f.Type(), tp):
				maps = append(maps, f)
			case h5IsMutexType(f.Type()):
				mus = append(mus, f)
			}
		}
		for _, m := range maps {
			mu := ""
			if len(mus) == 1 {
				mu = base + "." + mus[0].Name()
			}
			cands = append(cands, cand{base + "." + m.Name(), mu, m})
		}
	}
	switch {
	case len(cands) == 0:
		return nil, "no package-level map from scheme to dialer found"
	case len(cands) > 1:
		return nil, fmt.Sprintf("%d candidate registries found (%s, %s, ...): cannot tell which one the dispatch uses", len(cands), cands[0].mapPath, cands[1].mapPath)
	case cands[0].muPath == "":
		return nil, "the registry " + cands[0].mapPath + " has no single mutex beside it"
	}
	return &h5Registry{c: c, pkg: pkg, mapPath: cands[0].mapPath, muPath: cands[0].muPath, mapField: cands[0].field,
		memo: map[*ssa.Parameter]string{}, busy: map[*ssa.Parameter]bool{}}, ""
}

// h5StoredAtRunTime: the package-level variable g is assigned outside the package initialiser.
func h5StoredAtRunTime(c *Ctx, pkg string, g *ssa.Global) bool {
	found := false
	for _, fn := range c.SrcFuncs(pkg) {
		eachInstr(fn, func(_ *ssa.BasicBlock, _ int, in ssa.Instruction) {
			if st, ok := in.(*ssa.Store); ok && st.Addr == ssa.Value(g) {
				found = true
			}
		})
	}
	return found
}

// short: the registry as written in the source of the package ("dialers.m").
func (g *h5Registry) short(path string) string {
	if i := strings.Index(path, "."); i >= 0 {
		return path[i+1:]
	}
	return path
}

// h5PathRoot strips field selections and loads from a value: &r.m, r.m, r.inner.m -> r.
func h5PathRoot(v ssa.Value) ssa.Value {
	for i := 0; i < 12; i++ {
		switch x := v.(type) {
		case *ssa.FieldAddr:
			v = x.X
			continue
		case *ssa.Field:
			v = x.X
			continue
		case *ssa.UnOp:
			if x.Op == token.MUL {
				v = x.X
				continue
			}
		}
		break
	}
	return v
}

// canon renders the access path of v like pathOf, with a root that is a pointer parameter
// (typically the receiver of a method of a small registry type) replaced by what the call sites
// pass for it - provided the call sites of the function can all be enumerated (unexported, not
// used as a value, not reachable through an interface) and every one of them passes the same
// storage. Otherwise the path is left in the function's own terms, which is not the registry.
func (g *h5Registry) canon(v ssa.Value) string {
	return g.canonN(v, 0)
}

func (g *h5Registry) canonN(v ssa.Value, depth int) string {
	p := pathOf(v)
	par, ok := h5PathRoot(v).(*ssa.Parameter)
	if !ok || depth > 3 {
		return p
	}
	if _, isPtr := par.Type().Underlying().(*types.Pointer); !isPtr {
		return p
	}
	bound, ok := g.memo[par]
	if !ok {
		if g.busy[par] {
			return p // recursion establishes nothing
		}
		g.busy[par] = true
		bound = g.bind(par, depth)
		delete(g.busy, par)
		g.memo[par] = bound
	}
	if bound == "" {
		return p
	}
	amp, rest := "", p
	if strings.HasPrefix(rest, "&") {
		amp, rest = "&", rest[1:]
	}
	name := par.Name()
	if rest != name && !strings.HasPrefix(rest, name+".") {
		return p
	}
	if rest == name {
		return "&" + bound // the parameter is the address of the storage
	}
	return amp + bound + rest[len(name):]
}

// bind: the storage every call site passes for pointer parameter par ("" if unknown or not the
// same everywhere).
func (g *h5Registry) bind(par *ssa.Parameter, depth int) string {
	fn := par.Parent()
	idx := -1
	for i, q := range fn.Params {
		if q == par {
			idx = i
		}
	}
	sites := g.c.callSites(fn)
	if idx < 0 || len(sites) == 0 {
		return ""
	}
	bound := ""
	for _, s := range sites {
		args := s.Common().Args
		if idx >= len(args) {
			return ""
		}
		// the address of named storage (&dialers), or the pointer loaded from a package-level
		// variable that is never reassigned (dialers, with var dialers = &T{}): both render the
		// storage as "pkg.dialers"
		ap := derefPath(g.canonN(args[idx], depth+1))
		if bound != "" && ap != bound {
			return ""
		}
		bound = ap
	}
	return bound
}

func (g *h5Registry) isMap(v ssa.Value) bool { return strings.HasSuffix(g.canon(v), g.mapPath) }
func (g *h5Registry) isMu(v ssa.Value) bool  { return strings.HasSuffix(g.canon(v), g.muPath) }

// unbound lists the selections of the registry's map field that cannot be bound to the registry
// variable: made through a pointer whose origin is not known at every call site. The lock rules
// would be blind to such an access, so each is reported.
func (g *h5Registry) unbound() []*ssa.FieldAddr {
	if g.mapField == nil {
		return nil
	}
	var out []*ssa.FieldAddr
	for _, fn := range g.c.SrcFuncs(g.pkg) {
		eachInstr(fn, func(_ *ssa.BasicBlock, _ int, in ssa.Instruction) {
			fa, ok := in.(*ssa.FieldAddr)
			if !ok {
				return
			}
			pt, ok := fa.X.Type().Underlying().(*types.Pointer)
			if !ok {
				return
			}
			st, ok := pt.Elem().Underlying().(*types.Struct)
			if !ok || fa.Field >= st.NumFields() || st.Field(fa.Field) != g.mapField {
				return
			}
			if !g.isMap(fa) {
				out = append(out, fa)
			}
		})
	}
	return out
}

// ---- comparisons of a length with a constant -------------------------------------------------------

const h5Inf = int64(1) << 62

// h5LenRange reads a comparison of len(x) with an integer constant: the condition holds exactly
// when len(x) lies in [lo, hi] (neg: exactly when it does not). hi == h5Inf means unbounded.
func h5LenRange(v ssa.Value) (x ssa.Value, lo, hi int64, neg, ok bool) {
	b, isB := v.(*ssa.BinOp)
	if !isB {
		return nil, 0, 0, false, false
	}
	op := b.Op
	l, k := b.X, b.Y
	if _, isC := constInt(l); isC {
		l, k, op = k, l, flipOp(op)
	}
	n, isC := constInt(k)
	call, isCall := l.(*ssa.Call)
	if !isC || !isCall || callName(&call.Call) != "builtin.len" || len(call.Call.Args) != 1 {
		return nil, 0, 0, false, false
	}
	x = call.Call.Args[0]
	switch op {
	case token.EQL:
		lo, hi = n, n
	case token.NEQ:
		lo, hi, neg = n, n, true
	case token.LSS:
		lo, hi = 0, n-1
	case token.LEQ:
		lo, hi = 0, n
	case token.GTR:
		lo, hi = n+1, h5Inf
	case token.GEQ:
		lo, hi = n, h5Inf
	default:
		return nil, 0, 0, false, false
	}
	if lo < 0 {
		lo = 0
	}
	return x, lo, hi, neg, true
}

// ---- C19-dispatch: digipeaters refused exactly for the schemes without digipeater support ----------

// h5DigiGuard decides the digipeater clause of ParseURL by case enumeration (DESIGN.md E8) instead
// of by the shape of one guard: the function inspects the scheme only through == / != with
// constants (also inside predicates of the package, g6SchemeEval) and the final list of
// digipeaters only through comparisons of its length with constants. For every case
//
//	{no digipeater, at least one} x {each constant the scheme is compared with, ardop, telnet, any other scheme}
//
// the branches the case decides are followed on the side it selects, every other branch on both
// sides. In a case that must be refused (at least one digipeater, scheme without support) no
// return that can succeed may remain reachable and the refusing return must be; in every other
// case no return of ErrDigisUnsupported may remain reachable. A test the case does not decide
// (len > 8, a table lookup, a case-folded comparison) keeps both sides reachable, so the rule
// reports. The length only counts when it is the length of the list finally stored in URL.Digis:
// a test made before a later assignment of the field is about an intermediate value.
func h5DigiGuard(c *Ctx, fn *ssa.Function, pkg string, noDigi []string) (bool, string) {
	isDigisAddr := func(a ssa.Value) bool {
		fa, ok := a.(*ssa.FieldAddr)
		return ok && fieldName(fa.X.Type(), fa.Field) == "Digis"
	}
	var stores []*ssa.Store
	eachInstr(fn, func(_ *ssa.BasicBlock, _ int, in ssa.Instruction) {
		if st, ok := in.(*ssa.Store); ok && isDigisAddr(st.Addr) {
			stores = append(stores, st)
		}
	})
	if len(stores) == 0 {
		return false, "no assignment of URL.Digis found in " + fnName(fn) + " (unresolved)"
	}
	for _, ci := range allCalls(fn) {
		if h := c.helperOf(ci); h != nil && c.modifiesField(h, "Digis") {
			return false, "URL.Digis is also assigned by " + fnName(h) + " (not followed)"
		}
	}
	var last []*ssa.Store
	for _, s := range stores {
		final := true
		for _, t := range stores {
			if t != s && instrReaches(s, t) {
				final = false
			}
		}
		if final {
			last = append(last, s)
		}
	}
	base := derefPath(pathOf(stores[0].Addr.(*ssa.FieldAddr).X))
	// finalDigis: x is the list the returned URL carries - a load of the field that no assignment
	// can follow, or the value that every last assignment stores
	finalDigis := func(x ssa.Value) bool {
		x = origin(x)
		if ld, ok := x.(*ssa.UnOp); ok && ld.Op == token.MUL && isDigisAddr(ld.X) {
			if derefPath(pathOf(ld.X.(*ssa.FieldAddr).X)) != base {
				return false
			}
			for _, s := range stores {
				if instrReaches(ld, s) {
					return false
				}
			}
			return true
		}
		if len(last) == 0 {
			return false
		}
		for _, s := range last {
			if origin(s.Val) != x {
				return false
			}
		}
		return true
	}
	isScheme := func(root ssa.Value, suffix string) bool {
		return strings.HasSuffix(derefPath(pathOf(root))+suffix, ".Scheme")
	}
	type retKind struct{ canSucceed, canRefuse bool }
	kinds := map[*ssa.Return]retKind{}
	nRefuse := 0
	isRefusal := func(v ssa.Value) bool {
		ld, ok := v.(*ssa.UnOp)
		return ok && ld.Op == token.MUL && strings.HasSuffix(pathOf(ld), pkg+".ErrDigisUnsupported")
	}
	for _, ret := range returnsOf(fn) {
		if len(ret.Results) != 2 {
			return false, "a return of " + fnName(fn) + " does not have the shape (url, error)"
		}
		ev := resOf(ret, 1)
		k := retKind{}
		switch {
		case isRefusal(origin(ev)):
			k.canRefuse = true
		case dependsOn(ev, isRefusal):
			k.canRefuse, k.canSucceed = true, true // merged error variable: not decided which
		default:
			k.canSucceed = !isErrorExit(ret) && !isNilConst(resOf(ret, 0))
		}
		if k.canRefuse {
			nRefuse++
		}
		kinds[ret] = k
	}
	if nRefuse == 0 {
		return false, "no return of ErrDigisUnsupported found in " + fnName(fn)
	}
	some := false
	e := &g6SchemeEval{pkg: pkg, consts: map[string]bool{}}
	e.atom = func(v ssa.Value) g6Tri {
		x, lo, hi, neg, ok := h5LenRange(v)
		if !ok || !finalDigis(x) {
			return g6TriUnknown
		}
		in := g6TriUnknown
		if !some {
			in = g6TriOf(lo <= 0 && 0 <= hi)
		} else if lo <= 1 && hi == h5Inf {
			in = g6TriTrue
		} else if hi < 1 {
			in = g6TriFalse
		}
		if neg {
			return in.not()
		}
		return in
	}
	for _, k := range noDigi {
		e.consts[k] = true
	}
	refused := map[string]bool{}
	for _, k := range noDigi {
		refused[k] = true
	}
	done := map[string]bool{}
	check := func(name string) (bool, string) {
		for _, s := range []bool{false, true} {
			some = s
			seen := e.reach(fn.Blocks[0], nil, isScheme, 0)
			mustRefuse := s && !e.other && refused[e.s]
			what := "no digipeater"
			if s {
				what = "at least one digipeater"
			}
			refuses := false
			for _, ret := range returnsOf(fn) {
				if !seen[ret.Block()] {
					continue
				}
				k := kinds[ret]
				if mustRefuse && k.canSucceed {
					return false, fmt.Sprintf("with %s and scheme %s the return at %s can still succeed: digipeaters are accepted for a scheme that cannot use them", what, name, c.pos(ret.Pos()))
				}
				if !mustRefuse && k.canRefuse {
					return false, fmt.Sprintf("with %s and scheme %s the return of ErrDigisUnsupported at %s can still be reached: a URL that must parse is refused (or the test is not decided by the number of digipeaters and the scheme alone)", what, name, c.pos(ret.Pos()))
				}
				if k.canRefuse {
					refuses = true
				}
			}
			if mustRefuse && !refuses {
				return false, fmt.Sprintf("with %s and scheme %s no return of ErrDigisUnsupported is reached", what, name)
			}
		}
		return true, ""
	}
	e.other = true
	if ok, why := check("other than every constant compared with"); !ok {
		return false, why
	}
	for changed := true; changed; {
		changed = false
		var ks []string
		for k := range e.consts {
			if !done[k] {
				ks = append(ks, k)
			}
		}
		sort.Strings(ks)
		for _, k := range ks {
			done[k], changed = true, true
			e.other, e.s = false, k
			if ok, why := check(fmt.Sprintf("%q", k)); !ok {
				return false, why
			}
		}
	}
	return true, ""
}

// h5EmptySlice: v is a slice known to hold no element (nil, a literal without elements, make with
// length 0).
func h5EmptySlice(v ssa.Value) bool {
	switch x := origin(v).(type) {
	case *ssa.Const:
		return x.IsNil()
	case *ssa.Slice:
		if al, ok := x.X.(*ssa.Alloc); ok && x.Low == nil && x.High == nil {
			if pt, ok := al.Type().Underlying().(*types.Pointer); ok {
				if at, ok := pt.Elem().Underlying().(*types.Array); ok {
					return at.Len() == 0
				}
			}
		}
	case *ssa.MakeSlice:
		n, ok := constInt(x.Len)
		return ok && n == 0
	}
	return false
}

// ---- C19-dispatch: the host parameter read without Values.Get ---------------------------------------

// h5HostElem: v is the first element of the list looked up under the constant key "host" in a
// map of string lists (url.Values is one): params["host"][0]. That is the value Values.Get("host")
// returns whenever the list is not empty; for an empty list Get returns "". Returns the lookup.
func h5HostElem(v ssa.Value) *ssa.Lookup {
	ld, ok := v.(*ssa.UnOp)
	if !ok || ld.Op != token.MUL {
		return nil
	}
	ia, ok := ld.X.(*ssa.IndexAddr)
	if !ok {
		return nil
	}
	if k, isC := constInt(ia.Index); !isC || k != 0 {
		return nil
	}
	l := origin(ia.X)
	if ex, ok := l.(*ssa.Extract); ok && ex.Index == 0 {
		l = ex.Tuple
	}
	lk, ok := l.(*ssa.Lookup)
	if !ok {
		return nil
	}
	if _, isMap := lk.X.Type().Underlying().(*types.Map); !isMap {
		return nil
	}
	if k, isC := constString(lk.Index); !isC || k != "host" {
		return nil
	}
	return lk
}

// ---- C20-course: digit bytes written by a loop -----------------------------------------------------

// h5Sym is the symbolic value of an integer in h5DigitRun: unknown, a constant, or the term
// ((base / q) % m) + off  (m == 0: no modulus) over a value base that is computed once, outside
// every loop, on the path walked. For base >= 0 the terms are closed under / and % by powers of
// ten:  (x/q)/k = x/(q*k);  (x/q%m)/k = x/(q*k)%(m/k) when k divides m;  (x/q%m)%k = x/q%k when k
// divides m.
type h5Sym struct {
	kind      int // 0 unknown, 1 constant, 2 term
	k         int64
	base      ssa.Value
	q, m, off int64
}

const (
	h5Unknown = iota
	h5Const
	h5Term
)

func h5PowerOfTen(k int64) bool { return k == 10 || k == 100 || k == 1000 }

type h5DigitState struct {
	env  map[ssa.Value]h5Sym   // loop-carried phis, bound on the edge taken
	arr  map[ssa.Value][]h5Sym // elements of the tracked byte arrays, by the variable that holds them
	snap map[ssa.Value][]h5Sym // array values loaded as a whole, as they were at the load
}

func (s *h5DigitState) clone() *h5DigitState {
	n := &h5DigitState{env: map[ssa.Value]h5Sym{}, arr: map[ssa.Value][]h5Sym{}, snap: map[ssa.Value][]h5Sym{}}
	for k, v := range s.env {
		n.env[k] = v
	}
	for k, v := range s.arr {
		n.arr[k] = append([]h5Sym(nil), v...)
	}
	for k, v := range s.snap {
		n.snap[k] = append([]h5Sym(nil), v...)
	}
	return n
}

// h5DigitRun runs the function over symbolic values from its entry to one return: branches on
// constants are decided (that is how a loop with a constant trip count unrolls itself), every
// other branch is followed on both sides, loop-carried variables take the value of the edge
// walked. What it delivers is, for every path that reaches the return, the symbolic byte in each
// element of the digit array of the value returned - whatever the order or the form of the loop
// that wrote them. Anything outside this small language is unknown, and unknown digits are
// reported by the rule.
type h5DigitRun struct {
	fn      *ssa.Function
	al      *ssa.Alloc
	field   string
	n       int
	ret     *ssa.Return
	inLoop  map[*ssa.BasicBlock]bool
	header  map[*ssa.BasicBlock]bool
	steps   int
	fail    string
	results [][]h5Sym
	at      []*ssa.Store // a store that wrote element i (for positions and as the point of proof)
}

func h5RunDigits(fn *ssa.Function, al *ssa.Alloc, field string, n int, ret *ssa.Return) *h5DigitRun {
	r := &h5DigitRun{fn: fn, al: al, field: field, n: n, ret: ret, inLoop: map[*ssa.BasicBlock]bool{}, header: map[*ssa.BasicBlock]bool{}, at: make([]*ssa.Store, n)}
	for _, lp := range naturalLoops(fn) {
		r.header[lp.header] = true
		for b := range lp.body {
			r.inLoop[b] = true
		}
	}
	if len(fn.Blocks) == 0 {
		r.fail = "no body"
		return r
	}
	st := &h5DigitState{env: map[ssa.Value]h5Sym{}, arr: map[ssa.Value][]h5Sym{}, snap: map[ssa.Value][]h5Sym{}}
	r.walk(fn.Blocks[0], nil, st)
	if r.fail == "" && len(r.results) == 0 {
		r.fail = "the return is not reached"
	}
	return r
}

func (r *h5DigitRun) opaque(v ssa.Value) h5Sym {
	if in, ok := v.(ssa.Instruction); ok && in.Block() != nil && r.inLoop[in.Block()] {
		return h5Sym{} // computed anew in every iteration: not one value
	}
	return h5Sym{kind: h5Term, base: v, q: 1}
}

func (r *h5DigitRun) eval(v ssa.Value, st *h5DigitState, depth int) h5Sym {
	if depth > 24 {
		return h5Sym{}
	}
	if s, ok := st.env[v]; ok {
		return s
	}
	switch x := v.(type) {
	case *ssa.Const:
		if k, ok := constInt(x); ok {
			return h5Sym{kind: h5Const, k: k}
		}
		return h5Sym{}
	case *ssa.Phi:
		return h5Sym{}
	case *ssa.ChangeType:
		return r.eval(x.X, st, depth+1)
	case *ssa.Convert:
		bi, ok1 := x.X.Type().Underlying().(*types.Basic)
		bo, ok2 := x.Type().Underlying().(*types.Basic)
		if !ok1 || !ok2 || bi.Info()&types.IsInteger == 0 || bo.Info()&types.IsInteger == 0 {
			return r.opaque(v)
		}
		a := r.eval(x.X, st, depth+1)
		switch a.kind {
		case h5Const:
			if a.k >= 0 && a.k <= 127 {
				return a
			}
		case h5Term:
			// a value below 128 is the same in every integer type: a remainder by at most 100 plus a
			// small offset, or a quotient by at least 10 of a value that the rule proves below 1000
			small := (a.m != 0 && a.m <= 100) || (a.m == 0 && a.q >= 10)
			bound, limit := int64(99), int64(32767)
			if a.m != 0 {
				bound = a.m - 1
			}
			switch bo.Kind() {
			case types.Int8:
				limit = 127
			case types.Uint8:
				limit = 255
			}
			if small && a.off >= 0 && a.off+bound <= limit {
				return a
			}
		}
		return r.opaque(v)
	case *ssa.Lookup:
		return r.digitTable(v, x.X, x.Index, st, depth)
	case *ssa.Index:
		return r.digitTable(v, x.X, x.Index, st, depth)
	case *ssa.BinOp:
		a, b := r.eval(x.X, st, depth+1), r.eval(x.Y, st, depth+1)
		if a.kind == h5Const && b.kind == h5Const {
			switch x.Op {
			case token.ADD:
				return h5Sym{kind: h5Const, k: a.k + b.k}
			case token.SUB:
				return h5Sym{kind: h5Const, k: a.k - b.k}
			case token.MUL:
				return h5Sym{kind: h5Const, k: a.k * b.k}
			case token.QUO:
				if b.k != 0 {
					return h5Sym{kind: h5Const, k: a.k / b.k}
				}
			case token.REM:
				if b.k != 0 {
					return h5Sym{kind: h5Const, k: a.k % b.k}
				}
			}
			return h5Sym{}
		}
		if a.kind == h5Const && b.kind == h5Term && x.Op == token.ADD {
			a, b = b, a
		}
		if a.kind == h5Term && b.kind == h5Const {
			k := b.k
			switch x.Op {
			case token.ADD:
				a.off += k
				return a
			case token.SUB:
				a.off -= k
				return a
			case token.QUO:
				if k == 1 {
					return a
				}
				if a.off == 0 && h5PowerOfTen(k) {
					if a.m == 0 {
						a.q *= k
						return a
					}
					if a.m%k == 0 && a.m/k > 1 {
						a.q, a.m = a.q*k, a.m/k
						return a
					}
				}
			case token.REM:
				if a.off == 0 && h5PowerOfTen(k) {
					if a.m == 0 || a.m%k == 0 {
						a.m = k
						return a
					}
					if k%a.m == 0 {
						return a
					}
				}
			}
		}
		return r.opaque(v)
	}
	return r.opaque(v)
}

// digitTable: "0123456789"[d] is '0' + d for a digit d.
func (r *h5DigitRun) digitTable(v, tab, idx ssa.Value, st *h5DigitState, depth int) h5Sym {
	if s, isC := constString(tab); isC && s == "0123456789" {
		if d := r.eval(idx, st, depth+1); d.kind == h5Term && d.off == 0 && (d.m == 10 || (d.m == 0 && d.q >= 100)) {
			d.off = '0'
			return d
		}
	}
	return r.opaque(v)
}

// cond decides a branch condition whose operands are constants on this path.
func (r *h5DigitRun) cond(v ssa.Value, st *h5DigitState) g6Tri {
	switch x := v.(type) {
	case *ssa.UnOp:
		if x.Op == token.NOT {
			return r.cond(x.X, st).not()
		}
	case *ssa.BinOp:
		a, b := r.eval(x.X, st, 0), r.eval(x.Y, st, 0)
		if a.kind != h5Const || b.kind != h5Const {
			return g6TriUnknown
		}
		switch x.Op {
		case token.EQL:
			return g6TriOf(a.k == b.k)
		case token.NEQ:
			return g6TriOf(a.k != b.k)
		case token.LSS:
			return g6TriOf(a.k < b.k)
		case token.LEQ:
			return g6TriOf(a.k <= b.k)
		case token.GTR:
			return g6TriOf(a.k > b.k)
		case token.GEQ:
			return g6TriOf(a.k >= b.k)
		}
	}
	return g6TriUnknown
}

// arrayKey: addr is the digit array of the value returned, or a local array of the same length;
// the key is the variable that holds it.
func (r *h5DigitRun) arrayKey(addr ssa.Value) ssa.Value {
	switch x := addr.(type) {
	case *ssa.FieldAddr:
		if x.X == ssa.Value(r.al) && fieldName(x.X.Type(), x.Field) == r.field {
			return r.al
		}
	case *ssa.Alloc:
		if pt, ok := x.Type().Underlying().(*types.Pointer); ok {
			if at, ok := pt.Elem().Underlying().(*types.Array); ok && int(at.Len()) == r.n {
				return x
			}
		}
	}
	return nil
}

func (r *h5DigitRun) elems(st *h5DigitState, key ssa.Value) []h5Sym {
	if st.arr[key] == nil {
		st.arr[key] = make([]h5Sym, r.n)
	}
	return st.arr[key]
}

func (r *h5DigitRun) poison(st *h5DigitState, key ssa.Value) {
	st.arr[key] = make([]h5Sym, r.n)
}

// touched: the tracked array (or the value that holds it) that v gives access to, nil if none.
func (r *h5DigitRun) touched(v ssa.Value) ssa.Value {
	for i := 0; i < 6; i++ {
		if v == ssa.Value(r.al) {
			return r.al
		}
		if k := r.arrayKey(v); k != nil {
			return k
		}
		switch x := v.(type) {
		case *ssa.Slice:
			v = x.X
		case *ssa.IndexAddr:
			v = x.X
		case *ssa.FieldAddr:
			v = x.X
		case *ssa.MakeInterface:
			v = x.X
		default:
			return nil
		}
	}
	return nil
}

func (r *h5DigitRun) walk(b, prev *ssa.BasicBlock, st *h5DigitState) {
	for r.fail == "" {
		r.steps++
		if r.steps > 3000 {
			r.fail = "the walk does not end within its budget (a loop whose trip count is not a constant)"
			return
		}
		// phis: loop-carried variables take the value of the edge walked, evaluated in the state
		// before the block; any other phi is one opaque value (outside loops) or unknown (inside)
		if prev != nil {
			k := -1
			for i, p := range b.Preds {
				if p == prev {
					k = i
				}
			}
			vals := map[ssa.Value]h5Sym{}
			for _, in := range b.Instrs {
				ph, ok := in.(*ssa.Phi)
				if !ok {
					break
				}
				switch {
				case r.header[b] && k >= 0:
					vals[ph] = r.eval(ph.Edges[k], st, 0)
				case r.inLoop[b]:
					vals[ph] = h5Sym{}
				default:
					vals[ph] = h5Sym{kind: h5Term, base: ph, q: 1}
				}
			}
			for ph, s := range vals {
				st.env[ph] = s
			}
		}
		for _, in := range b.Instrs {
			switch x := in.(type) {
			case *ssa.UnOp:
				if x.Op == token.MUL {
					if key := r.arrayKey(x.X); key != nil {
						st.snap[x] = append([]h5Sym(nil), r.elems(st, key)...)
					}
				}
			case *ssa.Store:
				if ia, ok := x.Addr.(*ssa.IndexAddr); ok {
					if key := r.arrayKey(ia.X); key != nil {
						idx := r.eval(ia.Index, st, 0)
						if idx.kind != h5Const || idx.k < 0 || idx.k >= int64(r.n) {
							r.poison(st, key)
							continue
						}
						r.elems(st, key)[idx.k] = r.eval(x.Val, st, 0)
						if key == ssa.Value(r.al) {
							r.at[idx.k] = x
						}
					}
					continue
				}
				if key := r.arrayKey(x.Addr); key != nil {
					if s, ok := st.snap[x.Val]; ok {
						st.arr[key] = append([]h5Sym(nil), s...)
						if key == ssa.Value(r.al) {
							for i := range r.at {
								r.at[i] = x
							}
						}
					} else {
						r.poison(st, key)
					}
					continue
				}
				if x.Addr == ssa.Value(r.al) {
					r.poison(st, r.al) // the value is assigned as a whole: not followed here
				}
			case ssa.CallInstruction:
				for _, a := range x.Common().Args {
					if key := r.touched(a); key != nil {
						r.poison(st, key) // handed to a callee (copy, a helper): not followed
					}
				}
			}
		}
		switch t := b.Instrs[len(b.Instrs)-1].(type) {
		case *ssa.If:
			switch r.cond(t.Cond, st) {
			case g6TriTrue:
				prev, b = b, b.Succs[0]
			case g6TriFalse:
				prev, b = b, b.Succs[1]
			default:
				r.walk(b.Succs[1], b, st.clone())
				prev, b = b, b.Succs[0]
			}
		case *ssa.Jump:
			prev, b = b, b.Succs[0]
		case *ssa.Return:
			if t == r.ret {
				r.results = append(r.results, append([]h5Sym(nil), r.elems(st, r.al)...))
			}
			return
		default:
			return
		}
	}
}

// h5DigitPlace: the decimal place (0 hundreds, 1 tens, 2 units) whose digit byte s is, for a base
// value within [0,999]; ok is false when s is not '0' + one decimal digit of a value.
func h5DigitPlace(s h5Sym) (place int, ok bool) {
	if s.kind != h5Term || s.off != '0' {
		return 0, false
	}
	switch {
	case s.m == 10 && s.q == 1:
		return 2, true
	case s.m == 10 && s.q == 10:
		return 1, true
	case s.m == 10 && s.q == 100, s.m == 0 && s.q == 100:
		return 0, true
	}
	return 0, false
}

// h5CourseDigitsByRun is the part of c20courseDigits for a digit array that is not written element
// by element with constant indices: the function is run over symbolic values (h5DigitRun) and
// the same obligations are stated on what every path leaves in the array. Returns false when the
// run cannot follow the function at all (the caller then reports the array as not followed).
func h5CourseDigitsByRun(c *Ctx, r *Report, pr *prover, fn *ssa.Function, al *ssa.Alloc, field string, ret *ssa.Return, degPar *ssa.Parameter) bool {
	where := fnName(fn)
	run := h5RunDigits(fn, al, field, 3, ret)
	if run.fail != "" {
		return false
	}
	names := []string{"hundreds", "tens", "units"}
	var value ssa.Value
	var at ssa.Instruction
	same := true
	for place := 0; place < 3; place++ {
		o := r.Add("C20-course", where, fmt.Sprintf("digit %d of the course", place+1), c.pos(ret.Pos()))
		if st := run.at[place]; st != nil {
			o.Pos = c.pos(st.Pos())
		}
		var first h5Sym
		agree := true
		for i, res := range run.results {
			if i == 0 {
				first = res[place]
			} else if res[place] != first {
				agree = false
			}
		}
		p, ok := h5DigitPlace(first)
		switch {
		case !agree:
			o.Bad("digit %d differs between the paths to the return: cannot decide what it holds", place+1)
		case first.kind == h5Unknown:
			o.Bad("digit %d is not assigned on this path, or assigned in a way that is not followed (copy, helper, index or value that is not determined by the loop counter): cannot decide what it holds", place+1)
		case !ok:
			o.Bad("cannot decide that this byte is a decimal digit: it is not '0' plus a digit selected with / and %% by powers of ten")
		case p != place:
			o.Bad("position %d of the course holds the %s digit of the value (the report needs hundreds, tens, units in this order)", place+1, names[p])
		default:
			if value == nil {
				value, at = first.base, run.at[place]
			} else if value != first.base {
				same = false
			}
			o.OK("'0' + the %s digit of %s (the loop run over symbolic values, %d path(s)): within '0'..'9' for a value in [0,999]", names[p], pathOf(first.base), len(run.results))
		}
	}
	o := r.Add("C20-course", where, "formatted value within three digits", c.pos(ret.Pos()))
	switch {
	case value == nil || at == nil:
		o.Bad("could not identify the value whose digits are stored")
	case !same:
		o.Bad("the three digits are taken from different values")
	case degPar == nil || !dependsOn(value, func(x ssa.Value) bool { return x == ssa.Value(degPar) }) || g9Narrowed(value, degPar):
		o.Bad("the value whose digits are stored does not derive from the degrees parameter unchanged in width")
	case h5Within(pr, value, 0, 359, at):
		o.OK("0 <= %s <= 359 where the digits are stored (guards on the parameter; 360 is mapped to 0): the three bytes are exactly what %%03d prints", pathOf(value))
	case h5Within(pr, value, 0, 999, at):
		o.Bad("the value is within three digits but 360 is not normalised to 000 (0 <= v <= 359 not established)")
	default:
		o.Bad("the value whose digits are stored is not proven within [0,359]: a digit byte outside '0'..'9' (or a wrapped one) could be stored")
	}
	return true
}

// h5Within: lo <= v <= hi is established at instruction at: by the fact engine, or - for a
// remainder v = x % k by a positive constant - from 0 <= x (then 0 <= v <= k-1: the remainder of a
// non-negative value is non-negative in Go; the fact engine only knows |v| <= k-1).
func h5Within(pr *prover, v ssa.Value, lo, hi int64, at ssa.Instruction) bool {
	if pr.LE(nil, false, lo, v, false, 0, at) && pr.LE(v, false, 0, nil, false, hi, at) {
		return true
	}
	if b, ok := strip(v).(*ssa.BinOp); ok && b.Op == token.REM {
		if k, isC := constInt(b.Y); isC && k > 0 && lo <= 0 && k-1 <= hi {
			return pr.LE(nil, false, 0, b.X, false, 0, at)
		}
	}
	return false
}

// ---- C20-hemi: small local tables in the case enumeration ----------------------------------------------

// h5Cell is one element of a local array variable.
type h5Cell struct {
	arr ssa.Value
	idx int64
}

// h5SimpleArray: al is a local array variable that is only ever used element-wise or as a whole
// by loads and stores of its own function - never sliced, passed on, captured or otherwise
// reachable by code the walk does not see. Only such variables are followed.
func h5SimpleArray(al *ssa.Alloc) bool {
	pt, ok := al.Type().Underlying().(*types.Pointer)
	if !ok || al.Referrers() == nil {
		return false
	}
	if _, ok := pt.Elem().Underlying().(*types.Array); !ok {
		return false
	}
	for _, ref := range *al.Referrers() {
		switch x := ref.(type) {
		case *ssa.IndexAddr:
			if x.Referrers() == nil {
				return false
			}
			for _, r2 := range *x.Referrers() {
				switch y := r2.(type) {
				case *ssa.Store:
					if y.Addr != ssa.Value(x) {
						return false
					}
				case *ssa.UnOp:
					if y.Op != token.MUL {
						return false
					}
				case *ssa.DebugRef:
				default:
					return false
				}
			}
		case *ssa.Store:
			if x.Addr != ssa.Value(al) {
				return false
			}
		case *ssa.UnOp:
			if x.Op != token.MUL {
				return false
			}
		case *ssa.DebugRef:
		default:
			return false
		}
	}
	return true
}

func h5AbsInt(a g9Abs) (int64, bool) {
	if a.kind != g9Constant || a.c == nil {
		return 0, false
	}
	return constInt(a.c)
}

// h5ConstStringByte: s[i] for a constant string and a constant index, as a constant byte.
func h5ConstStringByte(sv ssa.Value, idx g9Abs) g9Abs {
	s, ok := constString(sv)
	i, isC := h5AbsInt(idx)
	if !ok || !isC || i < 0 || i >= int64(len(s)) {
		return g9Abs{}
	}
	return g9Abs{kind: g9Constant, c: ssa.NewConst(constant.MakeInt64(int64(s[i])), types.Typ[types.Uint8])}
}

func (fr *g9Frame) h5Forget(arr ssa.Value) {
	for k := range fr.mem {
		if k.arr == arr {
			delete(fr.mem, k)
		}
	}
}

// h5Exec interprets, on the path walked, the instructions that build and read small local tables:
// a store of an element or of a whole array value into a simple local array, and the loads from
// it. A load is evaluated where it stands (so a later store does not change what was read) and
// only yields what a store on this very path has put there.
func (e *g9Cases) h5Exec(in ssa.Instruction, fr *g9Frame, depth int) {
	switch x := in.(type) {
	case *ssa.Store:
		if ia, ok := x.Addr.(*ssa.IndexAddr); ok {
			al, ok := ia.X.(*ssa.Alloc)
			if !ok || !h5SimpleArray(al) {
				return
			}
			i, isC := h5AbsInt(e.eval(ia.Index, fr, depth))
			if !isC {
				fr.h5Forget(al) // an element not determined by the case: nothing is known any more
				return
			}
			fr.mem[h5Cell{al, i}] = e.eval(x.Val, fr, depth)
			return
		}
		if al, ok := x.Addr.(*ssa.Alloc); ok && h5SimpleArray(al) {
			fr.h5Forget(al)
			for i, a := range fr.whole[x.Val] {
				fr.mem[h5Cell{al, i}] = a
			}
			return
		}
		if al, ok := x.Addr.(*ssa.Alloc); ok && h5SimpleStruct(al) {
			// a local struct variable assigned as a whole (a := table entry)
			fr.h5Forget(al)
			if a := e.eval(x.Val, fr, depth); a.kind == g9Struct {
				for i, f := range a.fields {
					fr.mem[h5Cell{al, int64(i)}] = f
				}
			}
		}
	case *ssa.UnOp:
		if x.Op != token.MUL {
			return
		}
		if fa, ok := x.X.(*ssa.FieldAddr); ok {
			if al, ok := fa.X.(*ssa.Alloc); ok && h5SimpleStruct(al) {
				fr.val[x] = fr.mem[h5Cell{al, int64(fa.Field)}]
			}
			return
		}
		if al, ok := x.X.(*ssa.Alloc); ok && h5SimpleStruct(al) {
			a := g9Abs{kind: g9Struct, fields: map[int]g9Abs{}}
			for k, f := range fr.mem {
				if k.arr == ssa.Value(al) {
					a.fields[int(k.idx)] = f
				}
			}
			fr.val[x] = a
			return
		}
		if ia, ok := x.X.(*ssa.IndexAddr); ok {
			al, ok := ia.X.(*ssa.Alloc)
			if !ok || !h5SimpleArray(al) {
				return
			}
			fr.val[x] = g9Abs{}
			if i, isC := h5AbsInt(e.eval(ia.Index, fr, depth)); isC {
				if a, ok := fr.mem[h5Cell{al, i}]; ok {
					fr.val[x] = a
				}
			}
			return
		}
		if al, ok := x.X.(*ssa.Alloc); ok && h5SimpleArray(al) {
			w := map[int64]g9Abs{}
			for k, a := range fr.mem {
				if k.arr == ssa.Value(al) {
					w[k.idx] = a
				}
			}
			fr.whole[x] = w
		}
	}
}

// ---- C20-format: the format (and a '*' width) per enumerated case --------------------------------------

// h5VerbArgs numbers the arguments a format consumes: for every verb the index of the argument
// it formats, and of the arguments that give its width and precision when those are '*' (-1
// otherwise).
func h5VerbArgs(verbs []fmtVerb) (val, width, prec []int) {
	n := 0
	for _, v := range verbs {
		w, p := -1, -1
		if v.widthStar {
			w = n
			n++
		}
		if v.precStar {
			p = n
			n++
		}
		val, width, prec = append(val, n), append(width, w), append(prec, p)
		n++
	}
	return
}

// h5LetterArg: the index, in the argument list, of the value the last verb of the format
// formats - the same for every constant format that can reach the call; 2 (the third argument of
// degrees, minutes, letter) when the formats do not say.
func h5LetterArg(fv ssa.Value) int64 {
	var formats []string
	if s, ok := constString(fv); ok {
		formats = append(formats, s)
	} else if ph, ok := fv.(*ssa.Phi); ok {
		for _, e := range ph.Edges {
			if s, ok := constString(e); ok {
				formats = append(formats, s)
			}
		}
	}
	idx := int64(-1)
	for _, f := range formats {
		verbs, _ := parseVerbs(f)
		if len(verbs) == 0 {
			return 2
		}
		val, _, _ := h5VerbArgs(verbs)
		k := int64(val[len(val)-1])
		if idx >= 0 && k != idx {
			return 2
		}
		idx = k
	}
	if idx < 0 {
		return 2
	}
	return idx
}

// h5CaseFormat judges the coordinate format per enumerated case (latitude flag x sign of the
// value, the cases of C20-hemi): the branch structure is followed to the formatting call, the
// format operand and - for a '*' width or precision - the argument that supplies it must be
// constants in that case, and the resulting shape must be DD-MM.MMMMH for latitude and
// DDD-MM.MMMMH for longitude. One obligation per kind and distinct (format, width) reaching the
// call.
func h5CaseFormat(c *Ctx, r *Report, fn *ssa.Function, where string, ci ssa.CallInstruction, latParam string) {
	var decParam *ssa.Parameter
	for _, p := range fn.Params {
		if b, ok := p.Type().Underlying().(*types.Basic); ok && b.Info()&types.IsFloat != 0 {
			decParam = p
		}
	}
	var args []ssa.Value
	if len(ci.Common().Args) == 2 {
		args, _ = variadicArgs(ci.Common().Args[1])
	}
	seen := map[string]bool{}
	for _, lat := range []bool{true, false} {
		kind, wantW := "longitude", 3
		if lat {
			kind, wantW = "latitude", 2
		}
		for _, sign := range []int{-1, 0, 1} {
			ev := &g9Cases{c: c, sign: sign, stopAt: ci}
			bind := map[*ssa.Parameter]g9Abs{}
			for _, p := range fn.Params {
				switch {
				case p.Name() == latParam:
					bind[p] = g9Abs{kind: g9Boolean, b: lat}
				case p == decParam:
					bind[p] = g9Abs{kind: g9Coord}
				}
			}
			bad := func(format string, a ...interface{}) {
				msg := fmt.Sprintf(format, a...)
				if key := kind + "|!" + msg; !seen[key] {
					seen[key] = true
					r.Add("C20-format", where, "format operand ("+kind+")", c.pos(ci.Pos())).Bad("%s", msg)
				}
			}
			fr, _, stuck := ev.run(fn, bind, ci.Block(), nil, 0)
			if stuck != "" {
				bad("cannot decide which format reaches Sprintf for a %s: %s", kind, stuck)
				continue
			}
			fa := ev.eval(ci.Common().Args[0], fr, 0)
			if fa.kind != g9Constant || fa.c == nil {
				bad("the format that reaches Sprintf for a %s is not a constant (unresolved)", kind)
				continue
			}
			format, ok := constString(fa.c)
			if !ok {
				bad("the format that reaches Sprintf for a %s is not a constant string (unresolved)", kind)
				continue
			}
			verbs, tail := parseVerbs(format)
			_, wArg, pArg := h5VerbArgs(verbs)
			construct := fmt.Sprintf("format %q", format)
			resolved := true
			for i := range verbs {
				for _, star := range []struct {
					arg  int
					dst  *int
					what string
				}{{wArg[i], &verbs[i].width, "width"}, {pArg[i], &verbs[i].prec, "precision"}} {
					if star.arg < 0 {
						continue
					}
					if star.arg >= len(args) {
						bad("format %q takes a %s from an argument that is not passed", format, star.what)
						resolved = false
						continue
					}
					n, isC := h5AbsInt(ev.eval(args[star.arg], fr, 0))
					if !isC {
						bad("format %q takes the %s of a %s from an argument that is not a constant selected by the latitude flag (unresolved)", format, star.what, kind)
						resolved = false
						continue
					}
					*star.dst = int(n)
					construct += fmt.Sprintf(" with %s %d", star.what, n)
				}
			}
			if !resolved || seen[kind+"|"+construct] {
				continue
			}
			seen[kind+"|"+construct] = true
			o := r.Add("C20-format", where, construct, c.pos(ci.Pos()))
			switch {
			case len(verbs) != 3 || tail != "":
				o.Bad("%s format must be degrees, '-', minutes, hemisphere letter; found %d verbs and tail %q", kind, len(verbs), tail)
			case verbs[0].verb != 'f' || !strings.Contains(verbs[0].flags, "0") || strings.Contains(verbs[0].flags, "-") || verbs[0].width != wantW || verbs[0].prec != 0 || verbs[0].lit != "":
				o.Bad("%s degrees must be formatted %%0%d.0f (zero padded, width %d, no decimals); found flags %q width %d precision %d verb %c", kind, wantW, wantW, verbs[0].flags, verbs[0].width, verbs[0].prec, verbs[0].verb)
			case verbs[1].lit != "-" || verbs[1].verb != 'f' || !strings.Contains(verbs[1].flags, "0") || verbs[1].width != 7 || verbs[1].prec != 4:
				o.Bad("minutes must follow '-' and be formatted %%07.4f (MM.MMMM); found literal %q flags %q width %d precision %d verb %c", verbs[1].lit, verbs[1].flags, verbs[1].width, verbs[1].prec, verbs[1].verb)
			case verbs[2].lit != "" || verbs[2].verb != 'c' || verbs[2].width > 1:
				o.Bad("the hemisphere letter must follow the minutes directly as %%c")
			default:
				o.OK("%s (case enumeration): zero-padded degrees width %d, '-', minutes %%07.4f, hemisphere %%c", kind, wantW)
			}
		}
	}
}

// ---- C20-optional / C20-valid: a builder owned by a small local type ------------------------------------

// h5LiteralWrites: the write calls whose string argument is the text itself (not a format).
var h5LiteralWrites = map[string]bool{"bytes.Buffer.WriteString": true, "strings.Builder.WriteString": true, "io.WriteString": true}

// h5AddrKey renders the destination of a write in the outermost terms reachable: field selections
// are peeled off (&b.text -> b + ".text"), a parameter is bound to the argument of the call that
// entered its function (chain, innermost last), a captured variable to the variable of the
// enclosing function. Two destinations are the same storage when root and selections agree.
func h5AddrKey(v ssa.Value, chain []ssa.CallInstruction) (root ssa.Value, sel string) {
	for i := 0; i < 12; i++ {
		v = unwrap(v)
		switch x := v.(type) {
		case *ssa.FieldAddr:
			sel = "." + fieldName(x.X.Type(), x.Field) + sel
			v = x.X
			continue
		case *ssa.Parameter:
			if len(chain) == 0 {
				return x, sel
			}
			site := chain[len(chain)-1]
			a := g9ParamArg(x, site)
			if sc := site.Common().StaticCallee(); a == nil || site.Common().IsInvoke() || (sc != nil && sc != x.Parent()) {
				return x, sel
			}
			v, chain = a, chain[:len(chain)-1]
			continue
		case *ssa.FreeVar:
			if al := g9SlotOf(x); al != nil {
				return al, sel
			}
		}
		return v, sel
	}
	return v, sel
}

// ---- C20-course: the M/T suffix of the stringer without Sprintf -----------------------------------------

// h5FlagFrame is one function walked for a value of the Magnetic flag: which of its parameters
// denote the course whose flag is the case (the receiver of the stringer, and whatever a helper
// is handed for it), which carry the flag itself, and the phis resolved on the path walked.
type h5FlagFrame struct {
	fn     *ssa.Function
	course map[*ssa.Parameter]bool
	flag   map[*ssa.Parameter]bool
	phis   map[*ssa.Phi]ssa.Value
}

type h5FlagWalk struct {
	c     *Ctx
	mag   bool
	steps int
}

func (fr *h5FlagFrame) resolve(v ssa.Value) ssa.Value {
	for i := 0; i < 8; i++ {
		ph, ok := v.(*ssa.Phi)
		if !ok {
			break
		}
		w, ok := fr.phis[ph]
		if !ok {
			break
		}
		v = w
	}
	return v
}

// isCourse: v denotes the course of the case - the parameter itself, the value loaded from the
// local copy of it, or that local copy (every assignment of the variable stores the parameter and
// its Magnetic field is never assigned separately).
func (w *h5FlagWalk) isCourse(v ssa.Value, fr *h5FlagFrame) bool {
	if ld, ok := v.(*ssa.UnOp); ok && ld.Op == token.MUL {
		if _, isAl := ld.X.(*ssa.Alloc); isAl {
			v = ld.X
		}
	}
	switch x := v.(type) {
	case *ssa.Parameter:
		return fr.course[x]
	case *ssa.Alloc:
		if x.Referrers() == nil {
			return false
		}
		n := 0
		for _, ref := range *x.Referrers() {
			switch y := ref.(type) {
			case *ssa.Store:
				p, isPar := y.Val.(*ssa.Parameter)
				if y.Addr != ssa.Value(x) || !isPar || !fr.course[p] {
					return false
				}
				n++
			case *ssa.FieldAddr:
				if fieldName(y.X.Type(), y.Field) != "Magnetic" || y.Referrers() == nil {
					continue
				}
				for _, r2 := range *y.Referrers() {
					if st, ok := r2.(*ssa.Store); ok && st.Addr == ssa.Value(y) {
						return false // the flag of the copy is changed: no longer the case's flag
					}
				}
			}
		}
		return n > 0
	}
	return false
}

// isFlag: v is the Magnetic flag of the course of the case, or a parameter that was handed it.
func (w *h5FlagWalk) isFlag(v ssa.Value, fr *h5FlagFrame) bool {
	switch x := v.(type) {
	case *ssa.Parameter:
		return fr.flag[x]
	case *ssa.UnOp:
		if x.Op == token.MUL {
			if fa, ok := x.X.(*ssa.FieldAddr); ok && fieldName(fa.X.Type(), fa.Field) == "Magnetic" {
				return w.isCourse(fa.X, fr)
			}
		}
	case *ssa.Field:
		return fieldName(x.X.Type(), x.Field) == "Magnetic" && w.isCourse(x.X, fr)
	}
	return false
}

// run follows the branch structure of the frame's function - which may only consult the flag - to
// its return.
func (w *h5FlagWalk) run(fr *h5FlagFrame) (ret *ssa.Return, stuck string) {
	fn := fr.fn
	if len(fn.Blocks) == 0 {
		return nil, "no body"
	}
	cur, prev := fn.Blocks[0], (*ssa.BasicBlock)(nil)
	for ; w.steps < 400; w.steps++ {
		if prev != nil {
			vals := map[*ssa.Phi]ssa.Value{}
			for i, p := range cur.Preds {
				if p != prev {
					continue
				}
				for _, in := range cur.Instrs {
					ph, ok := in.(*ssa.Phi)
					if !ok {
						break
					}
					vals[ph] = fr.resolve(ph.Edges[i])
				}
			}
			for ph, v := range vals {
				fr.phis[ph] = v
			}
		}
		switch t := cur.Instrs[len(cur.Instrs)-1].(type) {
		case *ssa.If:
			v, truth := t.Cond, true
			for {
				u, ok := v.(*ssa.UnOp)
				if !ok || u.Op != token.NOT {
					break
				}
				v, truth = u.X, !truth
			}
			if !w.isFlag(v, fr) {
				return nil, "a branch at " + w.c.pos(t.Cond.Pos()) + " depends on something other than the Magnetic flag of the course being formatted"
			}
			prev = cur
			if w.mag == truth {
				cur = cur.Succs[0]
			} else {
				cur = cur.Succs[1]
			}
		case *ssa.Jump:
			prev, cur = cur, cur.Succs[0]
		case *ssa.Return:
			return t, ""
		default:
			return nil, "the function does not return on this path"
		}
	}
	return nil, "the branch structure does not end (loop)"
}

// constOf: the constant v is in this case: a constant, a phi resolved on the path, or the result
// of a one-result function of the same package - its branch structure followed for the same
// case, with the parameters that receive the course (or its flag) bound to it.
func (w *h5FlagWalk) constOf(v ssa.Value, fr *h5FlagFrame, depth int) *ssa.Const {
	v = fr.resolve(v)
	switch x := v.(type) {
	case *ssa.Const:
		return x
	case *ssa.Call:
		h := helperCallee(fr.fn, &x.Call)
		if h == nil || depth >= g9MaxDepth || h.Signature.Results().Len() != 1 {
			return nil
		}
		sub := &h5FlagFrame{fn: h, course: map[*ssa.Parameter]bool{}, flag: map[*ssa.Parameter]bool{}, phis: map[*ssa.Phi]ssa.Value{}}
		for i, a := range x.Call.Args {
			a = fr.resolve(a)
			switch {
			case w.isCourse(a, fr):
				sub.course[h.Params[i]] = true
			case w.isFlag(a, fr):
				sub.flag[h.Params[i]] = true
			}
		}
		ret, stuck := w.run(sub)
		if stuck != "" || ret == nil || len(ret.Results) != 1 {
			return nil
		}
		return w.constOf(ret.Results[0], sub, depth+1)
	}
	return nil
}

// h5StringerSuffix states the suffix clause of Course.String for the returns that do not hand back
// a Sprintf result (those are judged by their format): for Magnetic = true and = false the branch
// structure - which may only consult the Magnetic field of the receiver - is followed to the
// return, and the string returned there must be the three digit bytes, in order, followed by
// exactly the letter M (magnetic) or T (true): a concatenation  string(digits) + letter,  or a
// byte slice literal of the three digits and the letter. The letter may come from a helper of
// the package that is handed the course (or its flag): the helper is followed for the same case.
// Anything else is undecided and reported.
func h5StringerSuffix(c *Ctx, r *Report, fn *ssa.Function) {
	where := fnName(fn)
	needed := false
	for _, ret := range returnsOf(fn) {
		if len(ret.Results) == 1 {
			if call, ok := resOf(ret, 0).(*ssa.Call); ok && callName(&call.Call) == "fmt.Sprintf" {
				continue
			}
		}
		needed = true
	}
	if !needed || len(fn.Blocks) == 0 || len(fn.Params) == 0 {
		return
	}
	for _, mag := range []bool{true, false} {
		want := byte('T')
		if mag {
			want = 'M'
		}
		o := r.Add("C20-course", where, fmt.Sprintf("suffix letter when Magnetic is %v", mag), c.pos(fn.Pos()))
		w := &h5FlagWalk{c: c, mag: mag}
		fr := &h5FlagFrame{fn: fn, course: map[*ssa.Parameter]bool{fn.Params[0]: true}, flag: map[*ssa.Parameter]bool{}, phis: map[*ssa.Phi]ssa.Value{}}
		ret, stuck := w.run(fr)
		if stuck != "" {
			o.Bad("cannot decide the suffix: %s", stuck)
			continue
		}
		o.Pos = c.pos(ret.Pos())
		if len(ret.Results) != 1 {
			o.Bad("the stringer does not return one string")
			continue
		}
		v := fr.resolve(resOf(ret, 0))
		if call, ok := v.(*ssa.Call); ok && callName(&call.Call) == "fmt.Sprintf" {
			o.OK("formatted by Sprintf on this path (judged by its format)")
			continue
		}
		// the digits are those of the course being formatted
		isDigits := func(addr ssa.Value) bool {
			fa, ok := addr.(*ssa.FieldAddr)
			return ok && fieldName(fa.X.Type(), fa.Field) == "Digits" && w.isCourse(fa.X, fr)
		}
		isDigit := func(x ssa.Value, i int64) bool {
			ld, ok := x.(*ssa.UnOp)
			if !ok || ld.Op != token.MUL {
				return false
			}
			ia, ok := ld.X.(*ssa.IndexAddr)
			if !ok || !isDigits(ia.X) {
				return false
			}
			k, isC := constInt(ia.Index)
			return isC && k == i
		}
		letter, how := int64(-1), ""
		switch x := v.(type) {
		case *ssa.BinOp:
			// string(c.Digits[:]) + "M"
			cv, isConv := x.X.(*ssa.Convert)
			if x.Op == token.ADD && isConv {
				if sl, ok := cv.X.(*ssa.Slice); ok && sl.Low == nil && sl.High == nil && isDigits(sl.X) {
					if k := w.constOf(x.Y, fr, 0); k != nil {
						if s, isS := constString(k); isS && len(s) == 1 {
							letter, how = int64(s[0]), "string(digits) + letter"
						}
					}
				}
			}
		case *ssa.Convert:
			// string([]byte{d0, d1, d2, letter})
			if elems, ok := variadicArgs(x.X); ok && len(elems) == 4 && isDigit(elems[0], 0) && isDigit(elems[1], 1) && isDigit(elems[2], 2) {
				if k := w.constOf(elems[3], fr, 0); k != nil {
					if n, isC := constInt(k); isC {
						letter, how = n, "the three digit bytes and the letter in one byte slice"
					}
				}
			}
		}
		switch {
		case letter < 0:
			o.Bad("cannot decide what the stringer returns on this path: neither the digits followed by one constant letter (concatenation or byte slice literal, the letter possibly selected by a helper that is handed the course or its flag) nor a Sprintf result (unresolved)")
		case byte(letter) != want:
			o.Bad("with Magnetic=%v the course ends in %q, expected %q (digits followed by the letter)", mag, string(rune(letter)), string(rune(want)))
		default:
			o.OK("Magnetic=%v yields %s with letter %q", mag, how, string(rune(letter)))
		}
	}
}

// h5CompareConsts compares two integer constants of an enumerated case.
func h5CompareConsts(a, b g9Abs, op token.Token) (result, ok bool) {
	x, ok1 := h5AbsInt(a)
	y, ok2 := h5AbsInt(b)
	if !ok1 || !ok2 {
		return false, false
	}
	switch op {
	case token.EQL:
		return x == y, true
	case token.NEQ:
		return x != y, true
	case token.LSS:
		return x < y, true
	case token.LEQ:
		return x <= y, true
	case token.GTR:
		return x > y, true
	case token.GEQ:
		return x >= y, true
	}
	return false, false
}

// h5FoldVerbArgs: for a formatted write (Fprintf/Sprintf) whose constant format begins with plain
// %s / %v verbs, the verbs whose arguments fold to constant strings (a helper's parameter bound to
// the literal passed at the call) are replaced by that text, from the left, up to the first verb
// that cannot be folded: Fprintf(w, "%s: %s\r\n", key, value) called with key = "SPEED" is the line
// "SPEED: %s\r\n". fa is the format argument of ci, format its folded text.
func h5FoldVerbArgs(ci ssa.CallInstruction, fa ssa.Value, format string, chain []ssa.CallInstruction) string {
	n := callName(ci.Common())
	if n != "fmt.Fprintf" && n != "fmt.Sprintf" && n != "fmt.Appendf" {
		return format
	}
	args := ci.Common().Args
	var rest []ssa.Value
	for i, a := range args {
		if a == fa && i+1 < len(args) {
			rest, _ = variadicArgs(args[i+1])
		}
	}
	if len(rest) == 0 {
		return format
	}
	out := ""
	k := 0
	for i := 0; i < len(format); i++ {
		if format[i] != '%' {
			out += string(format[i])
			continue
		}
		if i+1 < len(format) && format[i+1] == '%' {
			out += "%%"
			i++
			continue
		}
		plain := i+1 < len(format) && (format[i+1] == 's' || format[i+1] == 'v')
		if !plain || k >= len(rest) {
			return out + format[i:]
		}
		v := rest[k]
		if mi, ok := v.(*ssa.MakeInterface); ok {
			v = mi.X
		}
		if !isStringLike(v.Type()) {
			return out + format[i:]
		}
		text, complete := g9FoldString(v, chain, 0)
		if !complete {
			return out + format[i:]
		}
		out += strings.ReplaceAll(text, "%", "%%")
		k++
		i++
	}
	return out
}

// ---- C19-dispatch: a split made by a helper --------------------------------------------------------------

// h5HelperResult: x is a result of a static call of a function of package pkg (the call itself for
// a one-result function, an Extract otherwise) and judge holds for what the function returns at
// that result position - on every return (all) or on some return.
func h5HelperResult(x ssa.Value, pkg string, judge func(ret *ssa.Return, res ssa.Value) bool, all bool) bool {
	var call *ssa.Call
	idx := 0
	switch y := x.(type) {
	case *ssa.Extract:
		call, _ = y.Tuple.(*ssa.Call)
		idx = y.Index
	case *ssa.Call:
		if y.Call.Signature().Results().Len() == 1 {
			call = y
		}
	}
	if call == nil || call.Call.IsInvoke() {
		return false
	}
	h := call.Call.StaticCallee()
	if h == nil || len(h.Blocks) == 0 || pkgRel(h) != pkg {
		return false
	}
	rets := returnsOf(h)
	if len(rets) == 0 {
		return false
	}
	for _, ret := range rets {
		ok := idx < len(ret.Results) && judge(ret, resOf(ret, idx))
		if ok && !all {
			return true
		}
		if !ok && all {
			return false
		}
	}
	return all
}

// h5DependsDeep is dependsOn that also looks into the helpers of the package a value comes from:
// a result of a static call satisfies pred when what the helper returns for it depends (in the
// helper's frame, recursively, three levels) on a value satisfying pred - on every return (all:
// "is derived from", e.g. a split at the last slash; a return taken under a test of such a value
// counts too: `if i < 0 { return "", p }`) or on some return ("can pass through", e.g. a
// normalising call). The arguments of the call are followed as dependsOn always does.
func h5DependsDeep(v ssa.Value, pkg string, pred func(ssa.Value) bool, all bool, depth int) bool {
	return dependsOn(v, func(x ssa.Value) bool {
		if pred(x) {
			return true
		}
		if depth >= 3 {
			return false
		}
		return h5HelperResult(x, pkg, func(ret *ssa.Return, res ssa.Value) bool {
			if h5DependsDeep(res, pkg, pred, all, depth+1) {
				return true
			}
			if all {
				for _, cd := range condsAt(ret.Block()) {
					if dependsOn(cd.V, pred) {
						return true
					}
				}
			}
			return false
		}, all)
	})
}

// ---- round 4 -------------------------------------------------------------------------------------------------

// h5CmpOrArgs: v is a call of cmp.Or with its arguments spelled out at the call: Or returns the
// first argument that is not the zero value (for strings: not ""), else the zero value - which is
// what the last argument then is.
func h5CmpOrArgs(v ssa.Value) ([]ssa.Value, bool) {
	call, ok := v.(*ssa.Call)
	if !ok || callName(&call.Call) != "cmp.Or" || len(call.Call.Args) != 1 {
		return nil, false
	}
	args, ok := variadicArgs(call.Call.Args[0])
	return args, ok
}

// h5ReadOnlyTable: g is an unexported package-level slice/array variable of package pkg whose only
// assignment is its literal initialiser with constant string elements and which the code of the
// package only reads: every use is a load whose value goes to len, range, an index read, or the
// first argument of slices.Contains / slices.Index. Returns the elements.
func h5ReadOnlyTable(c *Ctx, pkg string, g *ssa.Global) ([]string, bool) {
	if c == nil || g.Object() == nil || g.Object().Exported() || g.Pkg == nil || relOf(g.Pkg.Pkg.Path()) != pkg {
		return nil, false
	}
	p := c.Pkg(pkg)
	if p == nil {
		return nil, false
	}
	vs, i := varSpec(p, g.Name())
	if vs == nil || i >= len(vs.Values) || len(vs.Values) != len(vs.Names) {
		return nil, false
	}
	lit, ok := vs.Values[i].(*ast.CompositeLit)
	if !ok {
		return nil, false
	}
	var elems []string
	for _, el := range lit.Elts {
		if _, keyed := el.(*ast.KeyValueExpr); keyed {
			return nil, false
		}
		v := exprConst(p.TypesInfo, el)
		if v == nil || v.Kind() != constant.String {
			return nil, false
		}
		elems = append(elems, constant.StringVal(v))
	}
	readOnly := true
	var readOnlyVal func(v ssa.Value, depth int)
	readOnlyVal = func(v ssa.Value, depth int) {
		if v.Referrers() == nil || depth > 3 {
			readOnly = false
			return
		}
		for _, ref := range *v.Referrers() {
			switch x := ref.(type) {
			case *ssa.DebugRef, *ssa.Range, *ssa.Index, *ssa.Lookup:
			case *ssa.IndexAddr:
				if x.Referrers() == nil {
					readOnly = false
					return
				}
				for _, r2 := range *x.Referrers() {
					if ld, ok := r2.(*ssa.UnOp); !ok || ld.Op != token.MUL {
						if _, isDbg := r2.(*ssa.DebugRef); !isDbg {
							readOnly = false
						}
					}
				}
			case *ssa.Call:
				n := callName(&x.Call)
				switch {
				case n == "builtin.len":
				case (n == "slices.Contains" || n == "slices.Index") && len(x.Call.Args) == 2 && x.Call.Args[0] == v && x.Call.Args[1] != v:
				default:
					readOnly = false
				}
			default:
				readOnly = false
			}
		}
	}
	for _, fn := range c.SrcFuncs(pkg) {
		eachInstr(fn, func(_ *ssa.BasicBlock, _ int, in ssa.Instruction) {
			for _, op := range in.Operands(nil) {
				if *op != ssa.Value(g) {
					continue
				}
				ld, ok := in.(*ssa.UnOp)
				if !ok || ld.Op != token.MUL {
					readOnly = false // stored to, address passed on, ...
					continue
				}
				readOnlyVal(ld, 0)
			}
		})
	}
	return elems, readOnly
}

// h5SchemeTableTest: call is slices.Contains(T, s) with T loaded from a read-only table of
// constant strings of the package and s the scheme. Returns the table's elements.
func h5SchemeTableTest(call *ssa.Call, isScheme g6SchemePred) ([]string, bool) {
	if callName(&call.Call) != "slices.Contains" || len(call.Call.Args) != 2 || c19Reg0 == nil {
		return nil, false
	}
	ld, ok := call.Call.Args[0].(*ssa.UnOp)
	if !ok || ld.Op != token.MUL {
		return nil, false
	}
	g, ok := ld.X.(*ssa.Global)
	if !ok || !isScheme(g6KeySplit(call.Call.Args[1])) {
		return nil, false
	}
	return h5ReadOnlyTable(c19Reg0.c, c19Reg0.pkg, g)
}

// h5SimpleStruct: al is a local struct variable that is only assigned as a whole, loaded as a whole
// and read field by field in its own function (no field stores, never passed on by address).
func h5SimpleStruct(al *ssa.Alloc) bool {
	pt, ok := al.Type().Underlying().(*types.Pointer)
	if !ok || al.Referrers() == nil {
		return false
	}
	if _, ok := pt.Elem().Underlying().(*types.Struct); !ok {
		return false
	}
	for _, ref := range *al.Referrers() {
		switch x := ref.(type) {
		case *ssa.FieldAddr:
			if x.Referrers() == nil {
				return false
			}
			for _, r2 := range *x.Referrers() {
				switch y := r2.(type) {
				case *ssa.UnOp:
					if y.Op != token.MUL {
						return false
					}
				case *ssa.DebugRef:
				default:
					return false
				}
			}
		case *ssa.Store:
			if x.Addr != ssa.Value(al) {
				return false
			}
		case *ssa.UnOp:
			if x.Op != token.MUL {
				return false
			}
		case *ssa.DebugRef:
		default:
			return false
		}
	}
	return true
}

// h5GlobalEntry: addr is a package-level struct variable of the module (or a field of one) that is
// a read-only table entry: unexported, initialised by a composite literal of constants, never
// assigned or reached by address in the code of its package. Returns its abstract value.
func h5GlobalEntry(c *Ctx, addr ssa.Value) (g9Abs, bool) {
	field := -1
	if fa, ok := addr.(*ssa.FieldAddr); ok {
		addr, field = fa.X, fa.Field
	}
	g, ok := addr.(*ssa.Global)
	if !ok || c == nil || g.Pkg == nil || g.Object() == nil || g.Object().Exported() {
		return g9Abs{}, false
	}
	pkg := relOf(g.Pkg.Pkg.Path())
	p := c.Pkg(pkg)
	st, isStruct := g.Type().(*types.Pointer).Elem().Underlying().(*types.Struct)
	if p == nil || !isStruct {
		return g9Abs{}, false
	}
	vs, i := varSpec(p, g.Name())
	if vs == nil || i >= len(vs.Values) || len(vs.Values) != len(vs.Names) {
		return g9Abs{}, false
	}
	lit, ok := vs.Values[i].(*ast.CompositeLit)
	if !ok {
		return g9Abs{}, false
	}
	a := g9Abs{kind: g9Struct, fields: map[int]g9Abs{}}
	for k, el := range lit.Elts {
		idx, val := k, el
		if kv, keyed := el.(*ast.KeyValueExpr); keyed {
			id, ok := kv.Key.(*ast.Ident)
			if !ok {
				return g9Abs{}, false
			}
			idx = -1
			for f := 0; f < st.NumFields(); f++ {
				if st.Field(f).Name() == id.Name {
					idx = f
				}
			}
			val = kv.Value
		}
		if idx < 0 || idx >= st.NumFields() {
			return g9Abs{}, false
		}
		if cv := exprConst(p.TypesInfo, val); cv != nil {
			if cv.Kind() == constant.Bool {
				a.fields[idx] = g9Abs{kind: g9Boolean, b: constant.BoolVal(cv)}
			} else {
				a.fields[idx] = g9Abs{kind: g9Constant, c: ssa.NewConst(cv, st.Field(idx).Type())}
			}
		}
	}
	// read-only: every use in the package loads the variable as a whole or loads one of its fields
	readOnly := true
	for _, fn := range c.SrcFuncs(pkg) {
		eachInstr(fn, func(_ *ssa.BasicBlock, _ int, in ssa.Instruction) {
			for _, op := range in.Operands(nil) {
				if *op != ssa.Value(g) {
					continue
				}
				switch x := in.(type) {
				case *ssa.UnOp:
					if x.Op != token.MUL {
						readOnly = false
					}
				case *ssa.FieldAddr:
					if x.Referrers() == nil {
						readOnly = false
						continue
					}
					for _, r2 := range *x.Referrers() {
						if ld, ok := r2.(*ssa.UnOp); !ok || ld.Op != token.MUL {
							if _, isDbg := r2.(*ssa.DebugRef); !isDbg {
								readOnly = false
							}
						}
					}
				default:
					readOnly = false
				}
			}
		})
	}
	if !readOnly {
		return g9Abs{}, false
	}
	if field >= 0 {
		f, ok := a.fields[field]
		return f, ok
	}
	return a, true
}

// h5FormatIndex: the position of the format among the arguments of a formatting call: 0 for
// Sprintf, 1 for Fprintf (after the writer) and Appendf (after the bytes appended to).
func h5FormatIndex(ci ssa.CallInstruction) int {
	switch callName(ci.Common()) {
	case "fmt.Fprintf", "fmt.Appendf":
		return 1
	}
	return 0
}

// ---- round 5: a lookup helper that reports a miss as an error ---------------------------------------------

// h5LookupErrSummary: fn makes a comma-ok registry lookup keyed by (a field of) one of its
// parameters and turns the ok flag into an error result: EVERY return is either on the found
// edge of that lookup, handing back the looked-up value with a nil error, or on the not-found
// edge, handing back ErrMissingDialer itself (by identity). So at a call the error result is nil
// exactly when the scheme was found, and the value result is then the registered dialer. The
// summary gives the positions of the value (dIdx) and of the error (okIdx, errForm).
func h5LookupErrSummary(fn *ssa.Function, pkg string, depth int) *c19LookupSum {
	rets := returnsOf(fn)
	res := fn.Signature.Results()
	if len(rets) == 0 || res.Len() != 2 {
		return nil
	}
	errT := types.Universe.Lookup("error").Type()
	ei := -1
	for i := 0; i < 2; i++ {
		if types.Identical(res.At(i).Type(), errT) {
			ei = i
		}
	}
	if ei < 0 || types.Identical(res.At(1-ei).Type(), errT) {
		return nil
	}
	di := 1 - ei
	for _, l := range c19Lookups(fn, pkg, depth) {
		kp := g6ParamIndex(fn, l.keyRoot)
		if kp < 0 || l.errForm {
			continue
		}
		good := true
		for _, ret := range rets {
			found, missed := false, false
			for _, cd := range condsAt(ret.Block()) {
				if ex, ok := cd.V.(*ssa.Extract); ok && ex.Tuple == l.tuple && ex.Index == l.okIdx {
					found, missed = found || cd.Truth, missed || !cd.Truth
				}
			}
			ev, dv := resOf(ret, ei), resOf(ret, di)
			switch {
			case found && !missed:
				ex, ok := dv.(*ssa.Extract)
				if !ok || ex.Tuple != l.tuple || ex.Index != l.dIdx || !isNilConst(ev) {
					good = false
				}
			case missed && !found:
				ld, ok := ev.(*ssa.UnOp)
				if !ok || ld.Op != token.MUL || !strings.HasSuffix(pathOf(ld), pkg+".ErrMissingDialer") {
					good = false
				} else if _, isGlobal := ld.X.(*ssa.Global); !isGlobal {
					good = false
				}
			default:
				good = false // a return that is on neither edge of the lookup
			}
		}
		if !good {
			continue
		}
		via := fnName(fn)
		if l.via != "" {
			via += " -> " + l.via
		}
		return &c19LookupSum{dIdx: di, okIdx: ei, keyParam: kp, keySuffix: l.keySuffix, via: via, errForm: true}
	}
	return nil
}

// h5LookupEdge classifies a branch condition with respect to a registry lookup as seen from the
// dispatching function: does it put the code on the found or on the not-found edge? For the plain
// form that is the ok flag itself; for the error form it is a nil test of the helper's error.
func h5LookupEdge(look *c19RegLookup, cd Cond) (found, notFound bool) {
	isOK := func(v ssa.Value) bool {
		ex, ok := v.(*ssa.Extract)
		return ok && ex.Tuple == look.tuple && ex.Index == look.okIdx
	}
	if !look.errForm {
		if isOK(cd.V) {
			return cd.Truth, !cd.Truth
		}
		return false, false
	}
	b, ok := cd.V.(*ssa.BinOp)
	if !ok || (b.Op != token.EQL && b.Op != token.NEQ) {
		return false, false
	}
	x, y := b.X, b.Y
	if isNilConst(x) {
		x, y = y, x
	}
	if !isNilConst(y) || !isOK(x) {
		return false, false
	}
	isNil := (b.Op == token.EQL) == cd.Truth
	return isNil, !isNil
}
