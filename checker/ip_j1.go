package main

// Fifth round of shape independence for the outbound side of the session (C01/C02/C04/C05).
//
//  1. droppedWithReport: "a rejected MID that is reported early leaves the pending set in the same
//     step" also holds when the step is the predicate of maps.DeleteFunc (library model: DeleteFunc
//     deletes exactly the keys for which the predicate returned true).
//
//  2. The rules about the proposal block of the sender (block size, prompt format, proposal line
//     shape and field order, FF/FQ choice) find their constructs in the static call tree below the
//     anchored function, with the parameters of helpers bound to the arguments of every call site.
//
// Nothing here is keyed on the names of helpers, closures or local types.

import (
	"go/token"
	"strings"

	"golang.org/x/tools/go/ssa"
)

// ---- 1. early reports and the pending set -------------------------------------------------------

// droppedWithReport: the key reported by the call rep (its first argument), which sits on the true
// edge of its 'rejected' argument, leaves a map in the same step:
//
//	(a) a delete(m, key) with that very key in the block of the report (the loop form), or
//	(b) the report sits in the predicate handed to maps.DeleteFunc: every use of the function that
//	    contains the report is the predicate argument of a maps.DeleteFunc call, the reported key is
//	    the predicate's key parameter, and every return the report can reach hands back true on the
//	    paths through the report. DeleteFunc(m, del) is "for k, v := range m { if del(k, v) {
//	    delete(m, k) } }": the key is deleted right after the predicate returned true for it.
//
// The second result says why not.
func (c *Ctx) droppedWithReport(rep ssa.CallInstruction) (bool, string) {
	key := rep.Common().Args[0]
	for _, in := range rep.Block().Instrs {
		if call, ok := in.(*ssa.Call); ok && callName(&call.Call) == "builtin.delete" && call.Call.Args[1] == key {
			return true, "rejected is the very value tested by the enclosing branch; the MID is deleted from the pending set in the same step"
		}
	}
	fn := rep.Parent()
	if !c.onlyPredicateOf(fn, "maps.DeleteFunc", 1) {
		return false, ""
	}
	first := 0 // a method value binds the receiver: the key is the first parameter after it
	if fn.Signature.Recv() != nil {
		first = 1
	}
	if paramIndex(fn, key) != first || len(fn.Params) != first+2 {
		return false, "the reported MID is not the key the deletion predicate was called for"
	}
	for _, ret := range returnsOf(fn) {
		if ret.Block() != rep.Block() && !reachable(rep.Block(), ret.Block(), nil) {
			continue
		}
		if len(ret.Results) != 1 || !trueAfter(ret.Results[0], ret.Block(), rep.Block(), 0) {
			return false, "the deletion predicate does not return true on every path that reports"
		}
	}
	return true, "rejected is the very value tested by the enclosing branch; the report sits in the predicate of maps.DeleteFunc, which returns true wherever it reported: the MID is deleted from the pending set in the same step"
}

// onlyPredicateOf: the function fn - a function literal (with or without captured variables), a
// package-level function or a method used as a method value - is used in the module only as
// argument number arg of calls of the library function lib, and at least once: never called
// directly, stored, passed elsewhere or reachable through an interface.
func (c *Ctx) onlyPredicateOf(fn *ssa.Function, lib string, arg int) bool {
	if fn.Signature.Recv() != nil && (c.h1Dispatched(fn) || fn.Object() == nil || fn.Object().Exported()) {
		return false
	}
	if fn.Parent() == nil && fn.Object() != nil && fn.Object().Exported() {
		return false
	}
	// boundOf: the synthetic wrapper w does nothing but call fn (the closure of a method value)
	boundOf := func(w *ssa.Function) bool {
		static, invoked := h1WrapperTargets(w)
		return len(static) == 1 && len(invoked) == 0 && static[0] == fn
	}
	isFn := func(v ssa.Value) bool {
		if v == nil {
			return false
		}
		if mc, ok := v.(*ssa.MakeClosure); ok {
			w, _ := mc.Fn.(*ssa.Function)
			return w == fn || (w != nil && fn.Signature.Recv() != nil && boundOf(w))
		}
		return v == ssa.Value(fn)
	}
	n := 0
	bad := false
	seen := map[*ssa.Function]bool{}
	for _, g := range c.moduleFuncs() {
		for _, h := range withClosures(g) {
			if seen[h] || boundOf(h) {
				continue
			}
			seen[h] = true
			eachInstr(h, func(_ *ssa.BasicBlock, _ int, in ssa.Instruction) {
				if _, isMC := in.(*ssa.MakeClosure); isMC {
					return // the function value itself; its uses are what counts
				}
				for _, op := range in.Operands(nil) {
					if op == nil || !isFn(*op) {
						continue
					}
					call, ok := in.(*ssa.Call)
					if !ok || callName(&call.Call) != lib || len(call.Call.Args) <= arg || !isFn(call.Call.Args[arg]) || call.Call.Value == *op {
						bad = true
						continue
					}
					for i, a := range call.Call.Args {
						if i != arg && isFn(a) {
							bad = true
						}
					}
					n++
				}
			})
		}
	}
	return n > 0 && !bad
}

// trueAfter: the boolean v is true whenever block at is entered on a path that passed through
// block via (at == via included): a constant true, a value whose true edge dominates at, a value
// that cannot change between via and at (a parameter, or a register defined outside every loop)
// whose true edge dominates via, or a phi all of whose edges that lie on a path from via carry such
// a value.
func trueAfter(v ssa.Value, at, via *ssa.BasicBlock, depth int) bool {
	if k, ok := v.(*ssa.Const); ok {
		return k.Value != nil && k.Value.String() == "true"
	}
	for _, cd := range condsAt(at) {
		if cd.V == v && cd.Truth {
			return true
		}
	}
	stable := false
	switch x := v.(type) {
	case *ssa.Parameter:
		stable = true
	case ssa.Instruction:
		stable = x.Block() != nil && !reachable(x.Block(), x.Block(), nil)
	}
	if stable {
		for _, cd := range condsAt(via) {
			if cd.V == v && cd.Truth {
				return true
			}
		}
	}
	if phi, ok := v.(*ssa.Phi); ok && depth < 4 && phi.Block() == at {
		for i, p := range at.Preds {
			if p != via && !reachable(via, p, nil) {
				continue
			}
			if !trueAfter(phi.Edges[i], p, via, depth+1) {
				return false
			}
		}
		return true
	}
	return false
}

// ---- 2. constructs in the static call tree below an anchor ---------------------------------------

// j1Below: anchor plus every function of its package that it reaches through plain static calls
// (helpers, methods of small local types, directly called function literals).
func (c *Ctx) j1Below(anchor *ssa.Function) []*ssa.Function {
	return c.syncTree([]*ssa.Function{anchor}, pkgRel(anchor))
}

// j1CallsBelow: the calls of the named callees in the static call tree below anchor, in tree order
// (the anchor's own calls first).
func (c *Ctx) j1CallsBelow(anchor *ssa.Function, names ...string) []ssa.CallInstruction {
	var out []ssa.CallInstruction
	for _, g := range c.j1Below(anchor) {
		out = append(out, callsTo(g, false, names...)...)
	}
	return out
}

// j1Sites: the call sites of g when a fact about "whenever g runs" may be established at its callers:
// liftSites for a declared function; for a function literal every use of the literal in the
// function it is written in has to be the callee of a plain call (bound to a local name or called
// in place; never stored, passed on, deferred or spawned). nil when the set cannot be enumerated.
func (c *Ctx) j1Sites(g *ssa.Function) []*ssa.Call {
	if g.Parent() == nil {
		return c.liftSites(g)
	}
	isG := func(v ssa.Value) bool {
		if mc, ok := v.(*ssa.MakeClosure); ok {
			return mc.Fn == ssa.Value(g)
		}
		return v == ssa.Value(g)
	}
	var out []*ssa.Call
	ok := true
	for _, h := range withClosures(rootFn(g)) {
		eachInstr(h, func(_ *ssa.BasicBlock, _ int, in ssa.Instruction) {
			if _, isMC := in.(*ssa.MakeClosure); isMC {
				return
			}
			for _, op := range in.Operands(nil) {
				if op == nil || *op == nil || !isG(*op) {
					continue
				}
				call, isCall := in.(*ssa.Call)
				if !isCall || !isG(call.Call.Value) {
					ok = false
					continue
				}
				for _, a := range call.Call.Args {
					if isG(a) {
						ok = false
					}
				}
				out = append(out, call)
			}
		})
	}
	if !ok {
		return nil
	}
	return out
}

// j1Actuals expresses the value v of function g in terms of the values of function top: v itself
// when g is top; otherwise v has to be a parameter of g (never reassigned), the call sites of g
// have to be enumerable (liftSites) and the argument bound to the parameter at EVERY site has to
// resolve the same way in the caller. The result lists one value per chain of call sites; ok is
// false when some chain does not end in top or v is not a parameter.
func (c *Ctx) j1Actuals(top, g *ssa.Function, v ssa.Value, depth int) ([]ssa.Value, bool) {
	if g == top {
		return []ssa.Value{v}, true
	}
	i := paramIndex(g, v)
	if i < 0 || depth > ipG1MaxDepth {
		return nil, false
	}
	sites := c.j1Sites(g)
	if len(sites) == 0 {
		return nil, false
	}
	var out []ssa.Value
	for _, site := range sites {
		if i >= len(site.Call.Args) {
			return nil, false
		}
		sub, ok := c.j1Actuals(top, site.Parent(), site.Call.Args[i], depth+1)
		if !ok {
			return nil, false
		}
		out = append(out, sub...)
	}
	return out, true
}

// j1LenBounded: len(v) <= max holds at instruction at of function g: proved there, or v is a
// parameter of the unexported helper g and the bound holds for the argument at every call site of g.
func (c *Ctx) j1LenBounded(pr *prover, v ssa.Value, at ssa.Instruction, max int64, depth int) bool {
	if pr.LE(v, true, 0, nil, false, max, at) {
		return true
	}
	g := at.Parent()
	i := paramIndex(g, v)
	if i < 0 || depth > ipG1MaxDepth {
		return false
	}
	sites := c.j1Sites(g)
	if len(sites) == 0 {
		return false
	}
	for _, site := range sites {
		if i >= len(site.Call.Args) || !c.j1LenBounded(pr, site.Call.Args[i], site, max, depth+1) {
			return false
		}
	}
	return true
}

// j1BlockEmitters: the loops that emit the proposal lines of a block in the call tree below anchor:
// for every fmt.Sprintf of a constant proposal line format the slice the enclosing range loop
// iterates over and the instruction that takes its length.
type j1Emitter struct {
	call   ssa.CallInstruction
	ranged ssa.Value
	at     ssa.Instruction
}

func (c *Ctx) j1BlockEmitters(anchor *ssa.Function) []j1Emitter {
	var out []j1Emitter
	for _, ci := range c.j1CallsBelow(anchor, "fmt.Sprintf") {
		if s, ok := constString(ci.Common().Args[0]); ok && strings.HasPrefix(s, "F%c") {
			e := j1Emitter{call: ci}
			e.ranged, e.at = rangedSlice(ci.Block())
			out = append(out, e)
		}
	}
	return out
}

// j1FlagResult: the boolean v, returned where conds hold, says whether FQ was chosen: the flag
// itself (isFlag load), a constant that agrees with a test of the flag on the way, or the result of
// a same-package helper every return of which is such a value.
func (c *Ctx) j1FlagResult(v ssa.Value, conds []Cond, isFlag func(ssa.Value) bool, flagCond func([]Cond, bool) bool, depth int) bool {
	if u, isLoad := v.(*ssa.UnOp); isLoad && u.Op == token.MUL && isFlag(u.X) {
		return true
	}
	if b, isC := constBool(v); isC {
		return flagCond(conds, b)
	}
	idx := 0
	if ex, ok := v.(*ssa.Extract); ok {
		v, idx = ex.Tuple, ex.Index
	}
	call, ok := v.(*ssa.Call)
	if !ok || depth > ipG1MaxDepth {
		return false
	}
	h := c.helperOf(call)
	if h == nil || h.Signature.Results().Len() <= idx {
		return false
	}
	rets := returnsOf(h)
	if len(rets) == 0 {
		return false
	}
	for _, ret := range rets {
		if !c.j1FlagResult(resOf(ret, idx), condsAt(ret.Block()), isFlag, flagCond, depth+1) {
			return false
		}
	}
	return true
}
