package main

// Shape-independent forms of rules of C03, C05, C09, C11, C12 and C18 (see NOTES-ip_g8.md). Each
// rule states the same necessary condition as before; what changed is where and in which idiom
// the condition may be established:
//
//   - "after X, Y on every path to a return" is a path condition (g8AlwaysBetween), not dominance
//     of Y over the return: a single-exit function `if ok { X; Y }; return` satisfies it;
//   - writes to the output buffer of the anchored function are followed into same-package helpers
//     that receive the buffer, parameters bound to the arguments of that very call (g8BufferWrites);
//   - a fact about a variable that lives in memory (a named result captured by a deferred closure)
//     is read off its reaching stores (g8NilImpliesLoad) as it is read off a phi;
//   - guards are read through same-package predicates with the machinery of ip_g2.go
//     (g8DotFilesSkipped), values behind helper parameters are followed to every call site;
//   - a hand-written scan loop over the bytes of a string is recognised as the separator test it
//     implements (g8ScanExcludes), and separator summaries are two-sided and compositional
//     (g8SepSummaries);
//   - an exception of the crash inventory is granted to a role (first byte of the name of a
//     directory entry that came out of a directory listing), not to a function name
//     (g8DirEntryNameExceptions).
//
// Nothing is keyed on the name of a helper. Whatever cannot be decided is not established, so the
// rule that asked reports.

import (
	"go/token"
	"go/types"
	"strings"

	"golang.org/x/tools/go/ssa"
)

const g8MaxDepth = 3 // helpers followed below the anchored function

// ---- paths -----------------------------------------------------------------------------------

// g8AlwaysBetween: every path from instruction from (exclusive) to instruction to passes an
// instruction for which barrier holds. True when to cannot be reached from from at all.
func g8AlwaysBetween(from, to ssa.Instruction, barrier func(ssa.Instruction) bool) bool {
	seen := map[*ssa.BasicBlock]bool{}
	var scan func(b *ssa.BasicBlock, idx int) bool
	scan = func(b *ssa.BasicBlock, idx int) bool {
		if idx == 0 {
			if seen[b] {
				return true
			}
			seen[b] = true
		}
		for _, in := range b.Instrs[idx:] {
			if barrier(in) {
				return true
			}
			if in == to {
				return false
			}
		}
		for _, s := range b.Succs {
			if !scan(s, 0) {
				return false
			}
		}
		return true
	}
	return scan(from.Block(), instrIndex(from)+1)
}

// g8FollowedOrPreceded: on every path through instruction st to the return ret, one of the
// instructions in marks is executed: a mark dominates st, a mark dominates ret, or no path from
// st to ret avoids the marks. (If neither the first nor the last holds there is a path to st
// without a mark and a path from st to ret without one, hence a path through st without any.)
func g8FollowedOrPreceded(st ssa.Instruction, ret *ssa.Return, marks []ssa.CallInstruction) bool {
	for _, m := range marks {
		if instrDominates(m, st) || instrDominates(m, ret) {
			return true
		}
	}
	return g8AlwaysBetween(st, ret, func(in ssa.Instruction) bool {
		for _, m := range marks {
			if in == ssa.Instruction(m) {
				return true
			}
		}
		return false
	})
}

// ---- C18-wrap: writes to the output buffer, through helpers --------------------------------------

// g8Chunk is one write `buf.Write(line[:n])` of a piece of a line to an output buffer.
type g8Chunk struct {
	write ssa.CallInstruction // the bytes.Buffer.Write call
	slice *ssa.Slice          // the slice written; lives in at.Parent()
	at    ssa.Instruction     // where the bound of the slice has to hold: the Write itself, or the call that hands the slice down towards the Write
}

// g8BufferWrites lists the writes of non-constant slices to a bytes.Buffer made by fn itself (any
// buffer, as the rule always did) and, below it, by same-package helpers reached through plain
// static calls - there only writes to a buffer that the caller handed down (the receiver resolves,
// through the parameters bound at that very call, to a value of a caller). The slice written may
// likewise be a parameter: it is resolved to the caller's slice expression.
func (a *ipG2) g8BufferWrites(fn *ssa.Function) []g8Chunk {
	var out []g8Chunk
	busy := map[*ssa.Function]bool{}
	var visit func(g *ssa.Function, fr *ipFrame, depth int)
	visit = func(g *ssa.Function, fr *ipFrame, depth int) {
		busy[g] = true
		defer delete(busy, g)
		for _, ci := range allCalls(g) {
			com := ci.Common()
			_, plain := ci.(*ssa.Call)
			// (a chunk of a string goes out through WriteString: the same write, ip_j4.go)
			if n := callName(com); (n == "bytes.Buffer.Write" || n == "bytes.Buffer.WriteString") && len(com.Args) == 2 {
				if fr != nil {
					if _, up := ipResolve(com.Args[0], fr); up == fr || !plain {
						continue // a buffer of the helper's own
					}
				}
				dv, dfr := ipResolve(com.Args[1], fr)
				sl, ok := dv.(*ssa.Slice)
				if !ok || sl.High == nil {
					continue
				}
				if _, isC := constInt(sl.High); isC {
					continue
				}
				at := ssa.Instruction(ci)
				for f := fr; f != nil && f != dfr; f = f.up {
					at = f.call
				}
				dup := false
				for _, o := range out {
					if o.write == ci && o.slice == sl && o.at == at {
						dup = true
					}
				}
				if !dup {
					out = append(out, g8Chunk{ci, sl, at})
				}
				continue
			}
			if callee := com.StaticCallee(); plain && a.local(callee) && !busy[callee] && depth < g8MaxDepth {
				visit(callee, &ipFrame{call: ci, up: fr}, depth+1)
			}
		}
	}
	visit(fn, nil, 0)
	return out
}

// g8CRLFFollows: directly after the write (same block) "\r\n" goes to the same buffer, by
// WriteString or by a same-package helper that always does so for the buffer it is given.
func (a *ipG2) g8CRLFFollows(w ssa.CallInstruction) bool {
	buf := w.Common().Args[0]
	crlf := func(ci ssa.CallInstruction, b ssa.Value) bool {
		if callName(ci.Common()) != "bytes.Buffer.WriteString" || !ipSame(ci.Common().Args[0], b) {
			return false
		}
		s, _ := constString(ci.Common().Args[1])
		return s == "\r\n"
	}
	for _, in := range w.Block().Instrs[instrIndex(w)+1:] {
		call, ok := in.(*ssa.Call)
		if !ok {
			continue
		}
		if callName(&call.Call) == "bytes.Buffer.WriteString" {
			if (call.Call.Args[0] == buf || j4SameLoad(buf, call.Call.Args[0], w, call)) && crlf(call, buf) {
				return true
			}
			continue
		}
		if a.performsEvent(call, buf, crlf, 0) {
			return true
		}
	}
	return false
}

// ---- C09-delims: Mid first, and not again -----------------------------------------------------------

// g8MidExcluded: the keys of the header lines written after the Mid line cannot be Mid. The key
// of every other Fprintf of hw is traced back to the appends that collect it - in hw or in a
// same-package function whose result it is -; at least one such append exists and each of them
// is guarded by the false edge of strings.EqualFold(<the key appended>, "Mid") (read through
// same-package predicates).
func g8MidExcluded(c *Ctx, hw *ssa.Function, pkg string, lines []*j5Line, first *j5Line) bool {
	ip := newIPG2(c, pkg)
	var appends []*ssa.Call
	for _, g := range ip.closure(hw) {
		for _, ci := range callsTo(g, false, "builtin.append") {
			call, ok := ci.(*ssa.Call)
			if !ok {
				continue
			}
			if sl, isSl := call.Type().Underlying().(*types.Slice); isSl && isStringLike(sl.Elem()) {
				appends = append(appends, call)
			}
		}
	}
	// the lines of hw, wherever below it they are written, with the key bound per call site (ip_j4.go)
	n := 0
	for _, l := range lines {
		if strings.HasPrefix(strings.ToLower(l.format), "mid:") {
			if l != first {
				return false // a second Mid line
			}
			continue
		}
		if l.noArgs {
			continue // a constant line: no key
		}
		if l.folded {
			n++ // another constant key: not Mid
			continue
		}
		if l.badArgs || l.key == nil {
			return false
		}
		n++
		ci, key := l.site, l.key
		if j4KeyNotMid(ip, ci, key) {
			continue // the line itself is written on the unequal edge of the Mid test of its key (ip_j4.go)
		}
		feeding := 0
		for _, ap := range appends {
			ap := ap
			if !ip.dependsOn(key, func(x ssa.Value) bool { return x == ssa.Value(ap) }) {
				continue
			}
			feeding++
			elems, ok := variadicArgs(ap.Call.Args[1])
			if !ok || len(elems) != 1 {
				return false
			}
			alts := ip.guardsOf(ap.Block())
			if len(alts) == 0 {
				return false
			}
			for _, w := range alts {
				guarded := false
				for _, cd := range w.conds {
					call, isCall := origin(cd.V).(*ssa.Call)
					if !isCall || cd.Truth || callName(&call.Call) != "strings.EqualFold" {
						continue
					}
					x, y := call.Call.Args[0], call.Call.Args[1]
					if s, isC := constString(x); isC && strings.EqualFold(s, "Mid") {
						x, y = y, x
					}
					if s, isC := constString(y); !isC || !strings.EqualFold(s, "Mid") {
						continue
					}
					if v, fr := ipResolve(x, cd.fr); fr == nil && ipSame(v, elems[0]) {
						guarded = true
					}
				}
				if !guarded {
					return false
				}
			}
		}
		if feeding == 0 {
			return false
		}
	}
	return n > 0
}

// ---- C11-atomic: nil reasoning over an error variable that lives in memory ---------------------------

// g8ReadOnlyCaptured: the local variable al is only ever written by stores of its own function:
// every other use is a load, or a capture by a closure that (recursively) only loads it. Then the
// stores of the function are all its definitions, whatever deferred closures run in between.
func g8ReadOnlyCaptured(addr ssa.Value, depth int) bool {
	if addr.Referrers() == nil || depth > 3 {
		return false
	}
	for _, ref := range *addr.Referrers() {
		switch x := ref.(type) {
		case *ssa.Store:
			if x.Addr != addr || depth > 0 {
				return false // the address itself is stored somewhere, or a closure writes the variable
			}
		case *ssa.UnOp:
			if x.Op != token.MUL {
				return false
			}
		case *ssa.DebugRef:
		case *ssa.MakeClosure:
			fn, ok := x.Fn.(*ssa.Function)
			if !ok {
				return false
			}
			for i, b := range x.Bindings {
				if b == addr && (i >= len(fn.FreeVars) || !g8ReadOnlyCaptured(fn.FreeVars[i], depth+1)) {
					return false
				}
			}
		default:
			return false
		}
	}
	return true
}

// g8NilImpliesLoad is nilImplies for a load of a local variable that go/ssa keeps in memory (a
// named result captured by a deferred closure is not turned into phis): whenever the value loaded
// by ld is nil, target is nil. Every store that can reach the load is examined, together with the
// branch conditions that hold on the way from it: the store is harmless when its value is the
// target (or implies it), when the target was established nil on that way, or when the way is
// closed because a test on it found the variable non-nil.
func g8NilImpliesLoad(ld *ssa.UnOp, target ssa.Value, depth int) bool {
	al, ok := ld.X.(*ssa.Alloc)
	if !ok || depth > 4 || !g8ReadOnlyCaptured(al, 0) {
		return false
	}
	budget := 200
	onPath := map[*ssa.BasicBlock]bool{}
	targetNil := func(conds []Cond) bool {
		for _, cd := range conds {
			if is, isNil := nilTest(cd, target); is && isNil {
				return true
			}
		}
		return false
	}
	// lastStoreIdx: index of the last store to the variable in block b before position idx, or -1
	lastStoreIdx := func(b *ssa.BasicBlock, idx int) int {
		for i := idx - 1; i >= 0; i-- {
			if st, ok := b.Instrs[i].(*ssa.Store); ok && st.Addr == ssa.Value(al) {
				return i
			}
		}
		return -1
	}
	// leavesNonNil: the conditions say that the variable, as it is when block p is left, is not nil
	leavesNonNil := func(p *ssa.BasicBlock, conds []Cond) bool {
		last := lastStoreIdx(p, len(p.Instrs))
		for _, cd := range conds {
			b, ok := cd.V.(*ssa.BinOp)
			if !ok || (b.Op != token.EQL && b.Op != token.NEQ) {
				continue
			}
			other := b.X
			if isNilConst(b.X) {
				other = b.Y
			} else if !isNilConst(b.Y) {
				continue
			}
			if (b.Op == token.NEQ) != cd.Truth {
				continue // this side says nil
			}
			if l, isLoad := other.(*ssa.UnOp); isLoad && l.Op == token.MUL && l.X == ssa.Value(al) && l.Block() == p && instrIndex(l) > last {
				return true
			}
		}
		return false
	}
	var back func(b *ssa.BasicBlock, idx int, conds []Cond) bool
	back = func(b *ssa.BasicBlock, idx int, conds []Cond) bool {
		if budget--; budget < 0 {
			return false
		}
		if i := lastStoreIdx(b, idx); i >= 0 {
			val := b.Instrs[i].(*ssa.Store).Val
			all := append(append([]Cond(nil), conds...), condsAt(b)...)
			if val == target || origin(val) == target || targetNil(all) {
				return true
			}
			for _, cd := range all {
				if is, isNil := nilTest(cd, val); is && !isNil {
					return true // this definition is not nil where it matters
				}
			}
			return nilImplies(val, target, depth+1)
		}
		if len(b.Preds) == 0 || onPath[b] {
			return false // the zero value, or a loop without a definition
		}
		onPath[b] = true
		defer delete(onPath, b)
		for _, p := range b.Preds {
			cs := append(append([]Cond(nil), conds...), edgeCond(p, b)...)
			here := append(append([]Cond(nil), cs...), condsAt(p)...)
			if leavesNonNil(p, here) || targetNil(here) {
				continue
			}
			if !back(p, len(p.Instrs), cs) {
				return false
			}
		}
		return true
	}
	return back(ld.Block(), instrIndex(ld), nil)
}

// ---- C11-temp / C03-crash: names of directory entries ---------------------------------------------------

// g8NameCallRecv: v is the result of calling Name() on an interface value (os.FileInfo,
// fs.DirEntry): returns that value.
func g8NameCallRecv(v ssa.Value) ssa.Value {
	call, ok := origin(unwrap(v)).(*ssa.Call)
	if !ok || !call.Call.IsInvoke() || call.Call.Method.Name() != "Name" || len(call.Call.Args) != 0 {
		return nil
	}
	return call.Call.Value
}

// g8FirstByteOfName: v is <entry>.Name()[0]: returns the entry.
func g8FirstByteOfName(v ssa.Value) ssa.Value {
	var x, idx ssa.Value
	switch l := unwrap(v).(type) {
	case *ssa.Lookup:
		x, idx = l.X, l.Index
	case *ssa.Index:
		x, idx = l.X, l.Index
	default:
		return nil
	}
	if k, isC := constInt(idx); !isC || k != 0 {
		return nil
	}
	return g8NameCallRecv(x)
}

// g8NotDotCond: the condition says that the first byte of <entry>.Name() is not '.': returns the
// entry (a value of the condition's frame).
func g8NotDotCond(cd Cond) ssa.Value {
	switch x := origin(cd.V).(type) {
	case *ssa.BinOp:
		if !((x.Op == token.EQL && !cd.Truth) || (x.Op == token.NEQ && cd.Truth)) {
			return nil
		}
		a, b := x.X, x.Y
		if _, isC := constInt(a); isC {
			a, b = b, a
		}
		if k, isC := constInt(b); !isC || k != '.' {
			return nil
		}
		return g8FirstByteOfName(a)
	case *ssa.Call:
		if cd.Truth || callName(&x.Call) != "strings.HasPrefix" {
			return nil
		}
		if s, _ := constString(x.Call.Args[1]); s != "." {
			return nil
		}
		return g8NameCallRecv(x.Call.Args[0])
	}
	return nil
}

// g8DotFilesSkipped: the call op (opening a message file by the name of a directory entry) is
// only reached for entries whose name does not start with '.'. The conditions guarding the call
// are read through same-package predicates (one case per return that can yield the value, the
// predicate's parameter bound to the argument of that very call); in every case one of them must
// be the dot test, made on the very entry whose Name() goes into the path that is opened.
func g8DotFilesSkipped(c *Ctx, pkg string, op ssa.CallInstruction) bool {
	ip := newIPG2(c, pkg)
	var opened []ssa.Value
	for _, a := range op.Common().Args {
		dependsOn(a, func(v ssa.Value) bool {
			if e := g8NameCallRecv(v); e != nil {
				opened = append(opened, e)
			}
			return false
		})
	}
	alts := ip.guardsOf(op.Block())
	if len(alts) == 0 {
		return false
	}
	for _, w := range alts {
		skip := false
		for _, cd := range w.conds {
			e := g8NotDotCond(cd.Cond)
			if e == nil {
				continue
			}
			v, fr := ipResolve(e, cd.fr)
			if fr != nil {
				continue
			}
			if len(opened) == 0 {
				skip = true // the name opened is not visibly an entry's Name(): any entry (as before)
			}
			for _, o := range opened {
				if ipSame(v, o) {
					skip = true
				}
			}
		}
		if !skip {
			return false
		}
	}
	return true
}

var g8DirListings = map[string]bool{
	"io/ioutil.ReadDir": true, "os.ReadDir": true, "os.File.Readdir": true, "os.File.ReadDir": true, "io/fs.ReadDir": true,
}

// g8ListedEntry: v is an element of the slice a directory listing returned (possibly re-sliced,
// merged by phis).
func g8ListedEntry(v ssa.Value, depth int) bool {
	if depth > 6 {
		return false
	}
	switch x := origin(v).(type) {
	case *ssa.UnOp:
		if ia, ok := x.X.(*ssa.IndexAddr); ok && x.Op == token.MUL {
			return g8ListingSlice(ia.X, depth+1)
		}
	case *ssa.Phi:
		for _, e := range x.Edges {
			if !g8ListedEntry(e, depth+1) {
				return false
			}
		}
		return len(x.Edges) > 0
	}
	return false
}

func g8ListingSlice(v ssa.Value, depth int) bool {
	if depth > 6 {
		return false
	}
	switch x := origin(v).(type) {
	case *ssa.Extract:
		call, ok := x.Tuple.(*ssa.Call)
		return ok && x.Index == 0 && g8DirListings[callName(&call.Call)]
	case *ssa.Slice:
		return g8ListingSlice(x.X, depth+1)
	case *ssa.Phi:
		for _, e := range x.Edges {
			if !g8ListingSlice(e, depth+1) {
				return false
			}
		}
		return len(x.Edges) > 0
	}
	return false
}

// g8DirEntryNameExceptions computes the crash-inventory exception "directory entries have
// non-empty names" by role instead of by function name: every expression <entry>.Name()[0] in
// the given functions whose <entry> comes out of a directory listing (ioutil.ReadDir, os.ReadDir,
// File.Readdir, ...) - in the function itself, or, when <entry> is a parameter of an unexported
// helper, at EVERY call site of that helper. Index 0 only: that is all the contract gives.
// Returns "<function>|index <expr>" -> why, the key format of crashCfg.exceptions.
func g8DirEntryNameExceptions(c *Ctx, fns map[*ssa.Function]bool, why string) map[string]string {
	out := map[string]string{}
	for fn := range fns {
		fn := fn
		if fn.Blocks == nil {
			continue
		}
		ip := newIPG2(c, pkgRel(fn))
		eachInstr(fn, func(_ *ssa.BasicBlock, _ int, in ssa.Instruction) {
			v, ok := in.(ssa.Value)
			if !ok {
				return
			}
			switch in.(type) {
			case *ssa.Lookup, *ssa.Index:
			default:
				return
			}
			entry := g8FirstByteOfName(v)
			if entry == nil {
				return
			}
			if !ip.everyActual(entry, func(x ssa.Value) bool { return g8ListedEntry(x, 0) }, 0) {
				return
			}
			construct := c.exprAt(fn, in.Pos())
			if construct == "" {
				return
			}
			out[fnName(fn)+"|index "+construct] = why
		})
	}
	return out
}

// ---- C12-confine: separator tests, as library calls, scan loops and predicates over them ----------------

// g8Seps: the separators a confinement check has to refuse.
func g8Seps(needBackslash bool) []int64 {
	if needBackslash {
		return []int64{'/', '\\'}
	}
	return []int64{'/'}
}

// g8ScanExcludes: block at is only reached after a loop has looked at every byte (or every
// character) of the string param and has found none of the separators:
//
//   - the edge that leads to at is the exit edge at the header of a natural loop, taken when a
//     counter that starts at 0 and goes up in steps of 1 is no longer below len(param) (three-clause
//     loop, or range over []byte(param)), or when a range over param itself is exhausted;
//   - the loop cannot be left in any other way towards at (other exits - `return false` - do not
//     reach it);
//   - every way round the loop (every latch) lies, for each separator s, on the unequal edge of a
//     comparison of the element of this iteration - param[i], the range value, the byte at the
//     range index - with s.
//
// By induction over the visits of the header every element 0..len-1 has been compared with every
// separator and differed. Both separators are ASCII, so bytes and characters are interchangeable.
func g8ScanExcludes(at *ssa.BasicBlock, param *ssa.Parameter, needBackslash bool) bool {
	fn := at.Parent()
	var loops []loop
	for _, cd := range condsAt(at) {
		if cd.If == nil {
			continue
		}
		h := cd.If.Block()
		// which element does an iteration look at?
		var isElem func(v ssa.Value) bool
		switch x := cd.V.(type) {
		case *ssa.BinOp:
			// i < len(param) failed (or i >= len(param) held, ...)
			exhausted := (x.Op == token.LSS && !cd.Truth) || (x.Op == token.GEQ && cd.Truth) || (x.Op == token.NEQ && !cd.Truth) || (x.Op == token.EQL && cd.Truth)
			lc, isLen := x.Y.(*ssa.Call)
			if !exhausted || !isLen || callName(&lc.Call) != "builtin.len" {
				continue
			}
			seq := lc.Call.Args[0] // param, or []byte(param)
			if seq != ssa.Value(param) {
				cv, isConv := seq.(*ssa.Convert)
				if !isConv || cv.X != ssa.Value(param) || !isByteSliceOrString(cv.Type()) {
					continue
				}
			}
			counter := x.X
			isElem = func(v ssa.Value) bool {
				switch e := unwrap(v).(type) {
				case *ssa.Lookup:
					return e.X == seq && e.Index == counter
				case *ssa.Index:
					return e.X == seq && e.Index == counter
				case *ssa.UnOp:
					ia, ok := e.X.(*ssa.IndexAddr)
					return ok && e.Op == token.MUL && ia.X == seq && ia.Index == counter
				}
				return false
			}
			if loops == nil {
				loops = naturalLoops(fn)
			}
			ok := false
			for i := range loops {
				if loops[i].header == h && countsFromZero(counter, &loops[i]) {
					ok = true
				}
			}
			if !ok {
				continue
			}
		case *ssa.Extract:
			// ok-flag of `range param` is false
			nx, isNext := x.Tuple.(*ssa.Next)
			if !isNext || x.Index != 0 || cd.Truth || !nx.IsString {
				continue
			}
			rg, isRange := nx.Iter.(*ssa.Range)
			if !isRange || rg.X != ssa.Value(param) || nx.Block() != h {
				continue
			}
			isElem = func(v ssa.Value) bool {
				switch e := unwrap(v).(type) {
				case *ssa.Extract:
					return e.Tuple == ssa.Value(nx) && e.Index == 2
				case *ssa.Lookup:
					k, ok := e.Index.(*ssa.Extract)
					return ok && e.X == ssa.Value(param) && k.Tuple == ssa.Value(nx) && k.Index == 1
				case *ssa.Index:
					k, ok := e.Index.(*ssa.Extract)
					return ok && e.X == ssa.Value(param) && k.Tuple == ssa.Value(nx) && k.Index == 1
				}
				return false
			}
		default:
			continue
		}
		if loops == nil {
			loops = naturalLoops(fn)
		}
		for i := range loops {
			lp := &loops[i]
			if lp.header != h || lp.body[at] {
				continue
			}
			good := true
			// no other way out of the loop leads to at
			for b := range lp.body {
				for _, s := range b.Succs {
					if lp.body[s] || b == h {
						continue
					}
					if s == at || reachable(s, at, nil) {
						good = false
					}
				}
			}
			// every way round compares this iteration's element with every separator
			for _, latch := range lp.latches {
				conds := append(condsAt(latch), edgeCond(latch, h)...)
				for _, sep := range g8Seps(needBackslash) {
					found := false
					for _, lc := range conds {
						b, ok := lc.V.(*ssa.BinOp)
						if !ok || !((b.Op == token.EQL && !lc.Truth) || (b.Op == token.NEQ && lc.Truth)) {
							continue
						}
						e, k := b.X, b.Y
						if _, isC := constInt(e); isC {
							e, k = k, e
						}
						if n, isC := constInt(k); isC && n == sep && isElem(e) {
							found = true
						}
					}
					if !found {
						good = false
					}
				}
			}
			if good && len(lp.latches) > 0 {
				return true
			}
		}
	}
	return false
}

// g8SepSummary decides, for a same-package function fn(string) bool, for which result values
// "the argument contains no path separator" is guaranteed. res[1] is the old "confining
// predicate" (true => no separator); res[0] covers the complementary spelling `if hasSep(x) {
// refuse }`. A result value is covered when every return that can yield it is reached only past a
// failed separator test on the parameter: strings.Contains/ContainsAny/ContainsRune, a scan loop
// (g8ScanExcludes), or another summarised predicate called on the parameter.
type g8SepSummaries struct {
	needBackslash bool
	done          map[*ssa.Function]*[2]bool
	busy          map[*ssa.Function]bool
}

func g8b2i(b bool) int {
	if b {
		return 1
	}
	return 0
}

func (s *g8SepSummaries) of(fn *ssa.Function) [2]bool {
	if r, ok := s.done[fn]; ok {
		return *r
	}
	var res [2]bool
	if fn == nil || fn.Blocks == nil || s.busy[fn] || len(fn.Params) != 1 || !isStringLike(fn.Params[0].Type()) || fn.Signature.Results().Len() != 1 || !ipIsBool(fn.Signature.Results().At(0).Type()) {
		return res
	}
	s.busy[fn] = true
	defer delete(s.busy, fn)
	for _, truth := range []bool{false, true} {
		okAll, n := true, 0
		for _, ret := range returnsOf(fn) {
			v := resOf(ret, 0)
			if b, isC := constBool(v); isC && b != truth {
				continue
			}
			n++
			if !s.implies(v, truth, ret.Block(), fn.Params[0], 0) {
				okAll = false
			}
		}
		res[g8b2i(truth)] = okAll && n > 0
	}
	s.done[fn] = &res
	return res
}

// sepTest: `v == truth` says that a separator test on param failed (no separator).
func (s *g8SepSummaries) sepTest(v ssa.Value, truth bool, param *ssa.Parameter) bool {
	if j5SepAbsent(v, truth, func(x ssa.Value) bool { return x == ssa.Value(param) }, s.needBackslash) {
		return true // a search with a character predicate, an index compared with -1 (ip_j5.go)
	}
	call, ok := v.(*ssa.Call)
	if !ok || len(call.Call.Args) == 0 || call.Call.Args[0] != ssa.Value(param) {
		return false
	}
	if sepCheck(call, s.needBackslash) {
		return !truth
	}
	if callee := call.Call.StaticCallee(); callee != nil && len(call.Call.Args) == 1 && callee.Pkg == param.Parent().Pkg {
		return s.of(callee)[g8b2i(truth)]
	}
	return false
}

// implies: whenever boolean v, evaluated at the end of block at, equals truth, a separator test on
// param has failed.
func (s *g8SepSummaries) implies(v ssa.Value, truth bool, at *ssa.BasicBlock, param *ssa.Parameter, depth int) bool {
	if depth > 5 {
		return false
	}
	established := func(b *ssa.BasicBlock, conds []Cond) bool {
		for _, cd := range conds {
			if s.sepTest(cd.V, cd.Truth, param) {
				return true
			}
		}
		return g8ScanExcludes(b, param, s.needBackslash)
	}
	if established(at, condsAt(at)) || s.sepTest(v, truth, param) {
		return true
	}
	switch x := v.(type) {
	case *ssa.UnOp:
		if x.Op == token.NOT {
			return s.implies(x.X, !truth, at, param, depth+1)
		}
	case *ssa.Phi:
		for i, e := range x.Edges {
			if b, isC := constBool(e); isC && b != truth {
				continue
			}
			pred := x.Block().Preds[i]
			if established(pred, append(condsAt(pred), edgeCond(pred, x.Block())...)) {
				continue
			}
			if !s.implies(e, truth, pred, param, depth+1) {
				return false
			}
		}
		return true
	}
	return false
}

// g8ConfiningPredicates: the separator summaries of the package's functions that guarantee
// something.
func g8ConfiningPredicates(c *Ctx, pkg string, needBackslash bool) map[*ssa.Function][2]bool {
	s := &g8SepSummaries{needBackslash: needBackslash, done: map[*ssa.Function]*[2]bool{}, busy: map[*ssa.Function]bool{}}
	out := map[*ssa.Function][2]bool{}
	for _, fn := range c.SrcFuncs(pkg) {
		if r := s.of(fn); r[0] || r[1] {
			out[fn] = r
		}
	}
	return out
}

// ---- C05-frame: the markers the receiver dispatches on ---------------------------------------------------

// g8MarkerArms: the byte constants for which fn has an arm: a comparison of a byte value with the
// constant - written as == (switch case, if) or as != (guard clause `if c != SOH { return err }`)
// - whose EQUAL edge does not lead to error exits only, i.e. a byte with that value is accepted
// and processed. Comparisons of wider integers (lengths, counters, checksums) are not dispatch.
func g8MarkerArms(fn *ssa.Function) map[int64]bool {
	arms := map[int64]bool{}
	eachInstr(fn, func(blk *ssa.BasicBlock, _ int, instr ssa.Instruction) {
		b, ok := instr.(*ssa.BinOp)
		if !ok || (b.Op != token.EQL && b.Op != token.NEQ) {
			return
		}
		x, y := b.X, b.Y
		if _, isC := constInt(x); isC {
			x, y = y, x
		}
		n, isC := constInt(y)
		if !isC {
			return
		}
		if bt, isB := unwrap(x).Type().Underlying().(*types.Basic); !isB || bt.Kind() != types.Uint8 {
			return
		}
		// the branch on this comparison: where does the equal edge go?
		for _, ref := range *b.Referrers() {
			ifi, isIf := ref.(*ssa.If)
			if !isIf || ifi.Cond != ssa.Value(b) {
				continue
			}
			eq := ifi.Block().Succs[0]
			if b.Op == token.NEQ {
				eq = ifi.Block().Succs[1]
			}
			if !regionOnlyErrorExits(eq) {
				arms[n] = true
			}
		}
	})
	return arms
}
