package main

// C13 — an AGWPE connection is a reliable, ordered byte stream.

import (
	"fmt"
	"go/token"
	"go/types"
	"sort"
	"strings"

	"golang.org/x/tools/go/ssa"
)

func init() {
	register("C13", true,
		"Structural necessary conditions decided from source for package transport/ax25/agwpe: (C13-ctor) every parameter of every frame constructor flows into the frame it returns, each constructor sets the frame kind the AGWPE table names for it, and every call site passes the owning port's number; (C13-layout) the packed header layout is 36 bytes with Port/DataKind/PID/From/To/DataLen at offsets 0/4/6/8/18/28, all binary.Read/Write are little-endian, the kind constants equal the AGWPE letters, connected data carries PID 0xF0 and DataLen = len(data); (C13-fullread) no fixed-length field is read with a single raw Read (a TCP segment boundary inside a frame must not matter); (C13-lossless) on the path TNC reader -> demux chain -> Conn.Read no frame is sent with a non-blocking send (select with default), i.e. no frame can be dropped because a reader is briefly slow - the one such send in (*demux).Enqueue is a recorded KNOWN FINDING; (C13-stream) Conn.Read returns exactly the count of bytes copied into the caller's buffer and keeps the rest of the frame for the next call, serving it first; Conn.Write sends one connected-data frame with the connection's port and callsigns carrying the caller's bytes and reports len(p); (C13-ops) every answer subscription (NextFrame) is made before the request is written, waits for exactly the answer kinds the AGWPE table pairs with the request written, and every wait is dominated by that write; (C13-filter) the demux of a connection filters on the peer callsign parameter, the demux of a port on the port parameter, and the filter predicate compares them with the frame's fields; (C13-crash) crash-site inventory from the TNC reader goroutine, the demux goroutines and all Conn/Port/Listener/TNC methods. NOT decided: end-to-end stream equality under all segmentations and schedules; liveness (a writer and reader sharing one goroutine can block each other through the demux).",
		checkC13)
}

var agwpeKinds = map[string]byte{
	"kindLogin": 'P', "kindRegister": 'X', "kindUnregister": 'x', "kindVersionNumber": 'R', "kindOutstandingFramesForPort": 'y',
	"kindPortCapabilities": 'g', "kindConnect": 'C', "kindConnectVia": 'v', "kindDisconnect": 'd', "kindConnectedData": 'D',
	"kindOutstandingFramesForConn": 'Y', "kindUnprotoInformation": 'M',
}

var agwpeCtorKind = map[string]byte{
	"versionNumberFrame": 'R', "portCapabilitiesFrame": 'g', "connectedDataFrame": 'D', "outstandingFramesForConnFrame": 'Y',
	"outstandingFramesForPortFrame": 'y', "loginFrame": 'P', "registerCallsignFrame": 'X', "unregisterCallsignFrame": 'x',
	"connectFrame": 'C', "connectViaFrame": 'v', "unprotoInformationFrame": 'M', "disconnectFrame": 'd',
}

// request kind -> answer kinds a host waits for
var agwpeAnswers = map[byte]string{'X': "Xx", 'C': "Cd", 'v': "Cd", 'd': "d", 'Y': "Y", 'y': "y", 'g': "g", 'R': "R"}

func checkC13(c *Ctx, r *Report) {
	const pkg = "transport/ax25/agwpe"
	p := c.Pkg(pkg)
	if p == nil {
		r.Fail("anchor", "package %s not found", pkg)
		return
	}
	borrowRule(c, r, "C13-borrow", "transport/ax25/agwpe")
	serialWriteRule(c, r, "C13-serial")
	frameT, _ := p.Types.Scope().Lookup("frame").(*types.TypeName)
	headerT, _ := p.Types.Scope().Lookup("header").(*types.TypeName)
	if frameT == nil || headerT == nil {
		r.Fail("anchor", "types agwpe.frame / agwpe.header not found")
		return
	}
	isFrame := func(t types.Type) bool { return types.Identical(t, frameT.Type()) }

	// ---- C13-ctor
	r.Rule("C13-ctor", 12, "frame constructors use all their parameters and set the right kind")
	var ctors []*ssa.Function
	for _, fn := range c.SrcFuncs(pkg) {
		if fn.Parent() != nil || fn.Signature.Recv() != nil || fn.Signature.Results().Len() != 1 || !isFrame(fn.Signature.Results().At(0).Type()) {
			continue
		}
		ctors = append(ctors, fn)
	}
	if len(ctors) < 12 {
		r.Fail("C13-ctor", "found %d frame constructors, expected 12", len(ctors))
	}
	// kind stored by a constructor on each return
	kindsOf := func(fn *ssa.Function) (kinds []int64, delegates []*ssa.Function) {
		for _, ret := range returnsOf(fn) {
			v := resOf(ret, 0)
			if call, ok := v.(*ssa.Call); ok {
				if callee := call.Call.StaticCallee(); callee != nil {
					delegates = append(delegates, callee)
					continue
				}
			}
			found := false
			dependsOn(v, func(x ssa.Value) bool { return false }) // no-op; stores are examined below
			var root ssa.Value = v
			if ld, ok := v.(*ssa.UnOp); ok {
				root = ld.X
			}
			// any store to a DataKind field in this function that the returned value depends on
			eachInstr(fn, func(_ *ssa.BasicBlock, _ int, in ssa.Instruction) {
				st, ok := in.(*ssa.Store)
				if !ok || !strings.HasSuffix(pathOf(st.Addr), ".DataKind") {
					return
				}
				if k, isC := constInt(st.Val); isC && instrReaches(st, ret) || isC && st.Block() == ret.Block() {
					kinds = append(kinds, k)
					found = true
				}
			})
			_ = root
			if !found {
				kinds = append(kinds, -1)
			}
		}
		return
	}
	for _, fn := range ctors {
		where := fnName(fn)
		for _, par := range fn.Params {
			o := r.Add("C13-ctor", where, "parameter "+par.Name(), c.pos(fn.Pos()))
			flows := true
			isPar := func(v ssa.Value) bool { return v == ssa.Value(par) }
			for _, ret := range returnsOf(fn) {
				if dependsOn(resOf(ret, 0), isPar) {
					continue
				}
				// a return selected by a test of the parameter uses it too (connect without digipeaters)
				ctl := false
				for _, cd := range condsAt(ret.Block()) {
					if dependsOn(cd.V, isPar) {
						ctl = true
					}
				}
				if !ctl {
					flows = false
				}
			}
			if flows {
				o.OK("flows into the returned frame on every return")
			} else {
				o.Bad("parameter %s does not reach the returned frame: the frame goes out with a zero %s (e.g. the wrong radio port)", par.Name(), par.Name())
			}
		}
		want, known := agwpeCtorKind[fn.Name()]
		o := r.Add("C13-ctor", where, "frame kind", c.pos(fn.Pos()))
		if !known {
			o.Bad("constructor %s is not in the AGWPE reference table of the checker (new frame type: extend the table)", fn.Name())
			continue
		}
		kinds, delegates := kindsOf(fn)
		bad := ""
		for _, k := range kinds {
			if k != int64(want) {
				bad = fmt.Sprintf("sets kind %q, the AGWPE table names %q", string(rune(k)), string(rune(want)))
				if k < 0 {
					bad = "does not set a constant DataKind"
				}
			}
		}
		for _, d := range delegates {
			if fn.Name() == "connectFrame" && d.Name() == "connectViaFrame" {
				// delegation exactly when digipeaters are given
				okDeleg := false
				for _, ci := range callsTo(fn, false, short(objName(d.Object().(*types.Func)))) {
					for _, cd := range condsAt(ci.Block()) {
						// any spelling of "the list of digipeaters is not empty" (emptyform.go); the list
						// is the one handed on to the via-connect constructor
						if x, empty, ok := emptyCond(cd); ok && !empty {
							for _, a := range ci.Common().Args {
								if a == x {
									okDeleg = true
								}
							}
						}
					}
				}
				if !okDeleg {
					bad = "delegates to the via-connect constructor without the 'digipeaters given' test"
				}
				continue
			}
			bad = "delegates to " + d.Name()
		}
		if bad == "" {
			o.OK("kind %q", string(rune(want)))
		} else {
			o.Bad("%s %s", fn.Name(), bad)
		}
	}
	// call sites pass the owning port
	for _, fn := range c.SrcFuncs(pkg) {
		for _, ci := range allCalls(fn) {
			callee := ci.Common().StaticCallee()
			if callee == nil || callee.Pkg == nil || relOf(callee.Pkg.Pkg.Path()) != pkg {
				continue
			}
			if _, isCtor := agwpeCtorKind[callee.Name()]; !isCtor || fn.Signature.Recv() == nil {
				continue
			}
			for i, par := range callee.Params {
				if par.Name() != "port" {
					continue
				}
				arg := pathOf(ci.Common().Args[i])
				r.Check("C13-ctor", fnName(fn), "port argument of "+c.exprAt(fn, ci.Pos()), c.pos(ci.Pos()), strings.HasSuffix(arg, ".port"),
					"the frame is built for the owning port ("+arg+")", "the frame is built for "+arg+", not for the port that owns the connection")
			}
		}
	}

	// ---- C13-layout
	r.Rule("C13-layout", 10, "wire layout")
	{
		st := headerT.Type().Underlying().(*types.Struct)
		sizes := types.SizesFor("gc", "amd64")
		off := int64(0)
		got := map[string]int64{}
		for i := 0; i < st.NumFields(); i++ {
			f := st.Field(i)
			if f.Name() != "_" {
				got[f.Name()] = off
			}
			off += sizes.Sizeof(f.Type())
		}
		want := map[string]int64{"Port": 0, "DataKind": 4, "PID": 6, "From": 8, "To": 18, "DataLen": 28}
		var names []string
		for n := range want {
			names = append(names, n)
		}
		sort.Strings(names)
		for _, n := range names {
			g, ok := got[n]
			r.Check("C13-layout", "agwpe.header", "offset of "+n, "transport/ax25/agwpe/frame.go", ok && g == want[n],
				fmt.Sprintf("packed offset %d", g), fmt.Sprintf("field %s is at packed offset %d (present: %v), the AGWPE header has it at %d", n, g, ok, want[n]))
		}
		r.Check("C13-layout", "agwpe.header", "total size", "transport/ax25/agwpe/frame.go", off == 36, "36 bytes", fmt.Sprintf("the packed header is %d bytes, AGWPE uses 36", off))
		if f := st; f != nil {
			for i := 0; i < st.NumFields(); i++ {
				if st.Field(i).Name() == "DataLen" {
					b, _ := st.Field(i).Type().Underlying().(*types.Basic)
					r.Check("C13-layout", "agwpe.header", "DataLen width", "transport/ax25/agwpe/frame.go", b != nil && b.Kind() == types.Uint32, "uint32", "DataLen is not a 32-bit unsigned integer")
				}
			}
		}
	}
	for name, want := range agwpeKinds {
		v, ok := constIntOf(p, name)
		o := r.Add("C13-layout", "agwpe", "const "+name, "transport/ax25/agwpe/frame_kinds.go")
		switch {
		case !ok:
			o.Bad("constant %s not found", name)
		case v != int64(want):
			o.Bad("%s = %q, AGWPE uses %q", name, string(rune(v)), string(rune(want)))
		default:
			o.Triv("%s = %q", name, string(rune(v)))
		}
	}
	for _, fn := range c.SrcFuncs(pkg) {
		for _, ci := range callsTo(fn, false, "encoding/binary.Read", "encoding/binary.Write") {
			u, ok := unwrap(ci.Common().Args[1]).(*ssa.UnOp)
			le := false
			if ok {
				if g, ok := u.X.(*ssa.Global); ok && g.Name() == "LittleEndian" {
					le = true
				}
			}
			r.Check("C13-layout", fnName(fn), c.exprAt(fn, ci.Pos()), c.pos(ci.Pos()), le, "little-endian", "AGWPE integers are little-endian")
		}
		for _, ci := range allCalls(fn) {
			n := callName(ci.Common())
			if strings.HasPrefix(n, "encoding/binary.bigEndian.") {
				r.Add("C13-layout", fnName(fn), c.exprAt(fn, ci.Pos()), c.pos(ci.Pos())).Bad("AGWPE integers are little-endian")
			}
		}
	}
	if fn := c.Func(pkg, "connectedDataFrame"); fn != nil {
		var pid int64 = -1
		dataLenOK := false
		eachInstr(fn, func(_ *ssa.BasicBlock, _ int, in ssa.Instruction) {
			st, ok := in.(*ssa.Store)
			if !ok {
				return
			}
			if strings.HasSuffix(pathOf(st.Addr), ".PID") {
				pid, _ = constInt(st.Val)
			}
			if strings.HasSuffix(pathOf(st.Addr), ".DataLen") {
				dataLenOK = dependsOn(st.Val, func(v ssa.Value) bool {
					call, ok := v.(*ssa.Call)
					return ok && callName(&call.Call) == "builtin.len" && pathOf(call.Call.Args[0]) == "data"
				})
			}
		})
		r.Check("C13-layout", fnName(fn), "PID of connected data", c.pos(fn.Pos()), pid == 0xf0, "PID 0xF0 (no layer 3)", fmt.Sprintf("connected data frames carry PID %#x, AX.25 text uses 0xF0", pid))
		r.Check("C13-layout", fnName(fn), "DataLen of connected data", c.pos(fn.Pos()), dataLenOK, "DataLen = len(data)", "connected data frames do not carry DataLen = len(data)")
	}
	if fn := c.Func(pkg, "(frame).WriteTo"); fn != nil {
		ok := false
		eachInstr(fn, func(_ *ssa.BasicBlock, _ int, in ssa.Instruction) {
			if st, isSt := in.(*ssa.Store); isSt && strings.HasSuffix(pathOf(st.Addr), ".DataLen") {
				ok = dependsOn(st.Val, func(v ssa.Value) bool {
					call, isC := v.(*ssa.Call)
					return isC && callName(&call.Call) == "builtin.len" && strings.HasSuffix(pathOf(call.Call.Args[0]), ".Data")
				})
			}
		})
		r.Check("C13-layout", fnName(fn), "DataLen = len(Data) when written", c.pos(fn.Pos()), ok, "the header written carries len(f.Data)", "the header written does not carry len(f.Data): the TNC loses framing")
	}

	// ---- C13-fullread
	r.Rule("C13-fullread", 1, "no single raw Read for a fixed-length field")
	nRaw := 0
	for _, fn := range c.SrcFuncs(pkg) {
		for _, ci := range allCalls(fn) {
			if !ci.Common().IsInvoke() || ci.Common().Method.Name() != "Read" {
				continue
			}
			recvT := types.TypeString(ci.Common().Value.Type(), nil)
			if recvT != "io.Reader" && recvT != "net.Conn" {
				continue
			}
			nRaw++
			// acceptable only inside a loop that asks for the remainder again
			inLoop := accumulatingRead(ci)
			r.Check("C13-fullread", fnName(fn), "raw "+c.exprAt(fn, ci.Pos()), c.pos(ci.Pos()), inLoop,
				"inside a loop", "a single Read may return fewer bytes than the field is long (frame split over two TCP segments): use io.ReadFull")
		}
	}
	r.Add("C13-fullread", "agwpe", "raw Read calls on io.Reader/net.Conn in the package", pkg).OK("%d raw Read call(s) examined; frame and header fields are read with io.ReadFull / binary.Read", nRaw)
	if fn := c.Func(pkg, "(*frame).ReadFrom"); fn != nil {
		// io.ReadFull / io.ReadAtLeast(len) on the data field, or an equivalent fill loop, in ReadFrom
		// or in a same-package helper ReadFrom hands the field to (ip_g3.go)
		full, how := c.readsFully(newProver(c), fn, func(v ssa.Value) bool { return strings.HasSuffix(pathOf(v), ".Data") }, 0)
		bad := "the data field of a frame is not read with io.ReadFull or an equivalent loop that only stops when the field is full or the reader fails"
		if how != "" {
			bad += " (" + how + ")"
		}
		r.Check("C13-fullread", fnName(fn), "data field read completely", c.pos(fn.Pos()), full, how, bad)
	}

	// ---- C13-lossless
	r.Rule("C13-lossless", 1, "frames are never sent with a non-blocking send")
	nSel := 0
	for _, fn := range c.SrcFuncs(pkg) {
		eachInstr(fn, func(_ *ssa.BasicBlock, _ int, in ssa.Instruction) {
			sel, ok := in.(*ssa.Select)
			if !ok {
				return
			}
			for _, stt := range sel.States {
				if stt.Dir != types.SendOnly || stt.Send == nil || !isFrame(stt.Send.Type()) {
					continue
				}
				nSel++
				// a blocking select whose other arm is a cancellation channel is fine
				r.Check("C13-lossless", fnName(fn), "send of a frame on "+strings.TrimPrefix(pathOf(stt.Chan), "&"), c.pos(stt.Pos), sel.Blocking,
					"blocking send (with cancellation arm): the frame is delivered or the receiver is gone", "non-blocking send (select with default): the frame is silently dropped when the queue is full - a reader briefly slower than the TNC loses connected data")
			}
		})
	}
	if nSel == 0 {
		r.Fail("C13-lossless", "no select sending a frame found (anchor unresolved)")
	}

	// ---- C13-stream
	r.Rule("C13-stream", 4, "Read/Write byte accounting")
	if fn := c.Func(pkg, "(*Conn).Read"); fn == nil {
		r.Fail("C13-stream", "anchor (*agwpe.Conn).Read not found")
	} else {
		streamReadRule(c, r, fn, "C13-stream", ".unread")
	}
	if fn := c.Func(pkg, "(*Conn).Write"); fn == nil {
		r.Fail("C13-stream", "anchor (*agwpe.Conn).Write not found")
	} else {
		where := fnName(fn)
		pParam := fn.Params[1]
		var sent *ssa.Call
		for _, ci := range callsTo(fn, false, pkg+".connectedDataFrame") {
			sent, _ = ci.(*ssa.Call)
		}
		o := r.Add("C13-stream", where, "frame written carries the caller's bytes and addresses", c.pos(fn.Pos()))
		if sent == nil {
			o.Bad("Write does not build a connected-data frame")
		} else {
			a := sent.Call.Args
			dataOK := a[3] == ssa.Value(pParam) || dependsOn(a[3], func(v ssa.Value) bool {
				call, ok := v.(*ssa.Call)
				return ok && callName(&call.Call) == "builtin.copy" && call.Call.Args[1] == ssa.Value(pParam)
			}) || copiedFrom(fn, a[3], pParam)
			switch {
			case !strings.HasSuffix(pathOf(a[1]), ".srcCall") || !strings.HasSuffix(pathOf(a[2]), ".dstCall"):
				o.Bad("the frame is addressed from %s to %s, not from the connection's source to its destination callsign", pathOf(a[1]), pathOf(a[2]))
			case !dataOK:
				o.Bad("the frame does not carry the bytes passed to Write")
			default:
				written := false
				for _, w := range allCalls(fn) {
					if strings.HasSuffix(callName(w.Common()), ".Port.write") && origin(unwrap(w.Common().Args[1])) == ssa.Value(sent) {
						written = true
					}
				}
				if written {
					o.OK("connectedDataFrame(port, srcCall, dstCall, p) is written to the port")
				} else {
					o.Bad("the connected-data frame is built but not written to the port")
				}
			}
		}
		o = r.Add("C13-stream", where, "Write reports len(p) on success", c.pos(fn.Pos()))
		good := true
		for _, ret := range returnsOf(fn) {
			if isErrorExit(ret) {
				continue
			}
			call, ok := resOf(ret, 0).(*ssa.Call)
			if !ok || callName(&call.Call) != "builtin.len" || call.Call.Args[0] != ssa.Value(pParam) {
				good = false
			}
		}
		if good {
			o.OK("every successful return reports len(p)")
		} else {
			o.Bad("a successful Write reports something other than len(p): callers would resend or skip data")
		}
	}

	// received frames must not share storage: a frame variable that outlives one iteration of a
	// receive loop is overwritten (ReadFrom reuses the data buffer when it is large enough) while
	// earlier frames, passed on by value, still refer to it
	nRecvLoops := 0
	for _, fn := range c.SrcFuncs(pkg) {
		for _, lp := range naturalLoops(fn) {
			for b := range lp.body {
				for _, in := range b.Instrs {
					ci, ok := in.(ssa.CallInstruction)
					if !ok {
						continue
					}
					n := callName(ci.Common())
					var addr ssa.Value
					switch {
					case strings.HasSuffix(n, ".TNC.read"):
						addr = ci.Common().Args[1]
					case strings.HasSuffix(n, ".frame.ReadFrom"):
						addr = ci.Common().Args[0]
					default:
						continue
					}
					nRecvLoops++
					al, isAlloc := addr.(*ssa.Alloc)
					fresh := isAlloc && lp.body[al.Block()]
					r.Check("C13-stream", fnName(fn), "frame read in a loop into fresh storage", c.pos(in.Pos()), fresh,
						"the frame variable is allocated inside the loop: every received frame has its own data buffer",
						"the frame read in this loop lives outside the loop: frame.ReadFrom reuses its data buffer, so frames already queued (or the rest Conn.Read keeps) are overwritten by the next frame")
				}
			}
		}
	}
	if nRecvLoops == 0 {
		r.Fail("C13-stream", "no receive loop reading frames found (anchor unresolved)")
	}

	// ---- C13-ops
	r.Rule("C13-ops", 7, "request/response pairing")
	kindOfValue := func(v ssa.Value) (byte, bool) {
		k, ok := constInt(v)
		return byte(k), ok
	}
	for _, fn := range c.SrcFuncs(pkg) {
		for _, nf := range allCalls(fn) {
			if !strings.HasSuffix(callName(nf.Common()), ".demux.NextFrame") {
				continue
			}
			where := fnName(fn)
			// kinds subscribed
			var kinds []byte
			if sl, ok := nf.Common().Args[1].(*ssa.Slice); ok {
				if al, ok := sl.X.(*ssa.Alloc); ok {
					for _, ref := range *al.Referrers() {
						if ia, ok := ref.(*ssa.IndexAddr); ok {
							for _, r2 := range *ia.Referrers() {
								if st, ok := r2.(*ssa.Store); ok {
									if k, ok := kindOfValue(st.Val); ok {
										kinds = append(kinds, k)
									}
								}
							}
						}
					}
				}
			}
			sort.Slice(kinds, func(i, j int) bool { return kinds[i] < kinds[j] })
			// request written in this function
			var writes []ssa.CallInstruction
			for _, w := range allCalls(fn) {
				n := callName(w.Common())
				if strings.HasSuffix(n, ".Port.write") || strings.HasSuffix(n, ".TNC.write") {
					if _, isDefer := w.(*ssa.Defer); !isDefer && w.Parent() == fn {
						writes = append(writes, w)
					}
				}
			}
			o := r.Add("C13-ops", where, "subscription "+c.exprAt(fn, nf.Pos()), c.pos(nf.Pos()))
			// the request this subscription belongs to: the first write the subscription dominates
			var req ssa.CallInstruction
			for _, w := range writes {
				if instrDominates(nf, w) && (req == nil || w.Pos() < req.Pos()) {
					req = w
				}
			}
			if req == nil {
				if len(writes) == 0 {
					o.OK("passive subscription (no request is written in this function): waits for %q", string(kinds))
				} else {
					o.Bad("the answer subscription does not dominate the request written at %s: a fast reply can be missed", c.pos(writes[0].Pos()))
				}
				continue
			}
			// request kind from the constructor
			var reqKinds []byte
			if call, ok := origin(unwrap(req.Common().Args[1])).(*ssa.Call); ok {
				if callee := call.Call.StaticCallee(); callee != nil {
					if k, ok := agwpeCtorKind[callee.Name()]; ok {
						reqKinds = append(reqKinds, k)
						if callee.Name() == "connectFrame" {
							reqKinds = append(reqKinds, 'v')
						}
					}
				}
			}
			if len(reqKinds) == 0 {
				o.Bad("could not identify the kind of the request written at %s", c.pos(req.Pos()))
				continue
			}
			want := []byte(agwpeAnswers[reqKinds[0]])
			sort.Slice(want, func(i, j int) bool { return want[i] < want[j] })
			if string(want) != string(kinds) {
				o.Bad("after writing a %q request the host waits for %q; AGWPE answers it with %q", string(reqKinds), string(kinds), string(want))
				continue
			}
			// every wait on the channel is dominated by the write
			ch := nf.Value()
			waitsOK := true
			for _, ref := range *ch.Referrers() {
				var at ssa.Instruction
				switch x := ref.(type) {
				case *ssa.UnOp:
					if x.Op == token.ARROW {
						at = x
					}
				case *ssa.Select:
					at = x
				}
				if at != nil && !instrDominates(req, at) {
					waitsOK = false
				}
			}
			if !waitsOK {
				o.Bad("the answer is awaited on a path on which the request at %s was not written", c.pos(req.Pos()))
				continue
			}
			o.OK("subscribed for %q before the %q request is written at %s; every wait follows the write", string(kinds), string(reqKinds), c.pos(req.Pos()))
		}
	}

	// ---- C13-filter
	r.Rule("C13-filter", 3, "frames of other stations and ports are filtered out")
	filterArg := func(fn *ssa.Function, field string) ssa.Value {
		var out ssa.Value
		for _, ci := range allCalls(fn) {
			if !strings.HasSuffix(callName(ci.Common()), ".demux.Chain") {
				continue
			}
			arg := ci.Common().Args[1]
			if ld, ok := arg.(*ssa.UnOp); ok {
				if al, ok := ld.X.(*ssa.Alloc); ok {
					for _, ref := range *al.Referrers() {
						if fa, ok := ref.(*ssa.FieldAddr); ok && fieldName(fa.X.Type(), fa.Field) == field {
							for _, r2 := range *fa.Referrers() {
								if st, ok := r2.(*ssa.Store); ok {
									out = st.Val
								}
							}
						}
					}
				}
			}
		}
		return out
	}
	if fn := c.Func(pkg, "newConn"); fn == nil {
		r.Fail("C13-filter", "anchor agwpe.newConn not found")
	} else {
		v := filterArg(fn, "call")
		good := v != nil && dependsOn(v, func(x ssa.Value) bool { return x == ssa.Value(fn.Params[1]) })
		r.Check("C13-filter", fnName(fn), "connection demux filters on the peer callsign", c.pos(fn.Pos()), good,
			"Chain(framesFilter{call: callsignFromString(dstCall)})", "the demux of a connection is not filtered on the peer callsign: frames of other stations reach Conn.Read")
	}
	if fn := c.Func(pkg, "newPort"); fn == nil {
		r.Fail("C13-filter", "anchor agwpe.newPort not found")
	} else {
		v := filterArg(fn, "port")
		good := v != nil && strings.TrimPrefix(pathOf(v), "&") == "port"
		r.Check("C13-filter", fnName(fn), "port demux filters on the port number", c.pos(fn.Pos()), good,
			"Chain(framesFilter{port: &port})", "the demux of a port is not filtered on its port number: frames of other ports are delivered")
	}
	if fn := c.Func(pkg, "(framesFilter).Want"); fn == nil {
		r.Fail("C13-filter", "anchor framesFilter.Want not found")
	} else {
		// what Want compares, by role: the receiver's and the parameter's fields, wherever the
		// comparison is written (ip_h3.go)
		h3WantRule(c, r, fn, pkg)
	}

	// ---- C13-crash
	r.Rule("C13-crash", 6, "crash-site inventory of the AGWPE driver")
	var entries []*ssa.Function
	for _, fn := range c.SrcFuncs(pkg) {
		if fn.Parent() != nil {
			continue
		}
		if fn.Signature.Recv() != nil || fn.Name() == "OpenTCP" || fn.Name() == "OpenPortTCP" || fn.Name() == "newTNC" {
			entries = append(entries, fn)
		}
	}
	st := crashInventory(c, r, crashCfg{
		rule:    "C13-crash",
		entries: entries,
		scope:   func(fn *ssa.Function) bool { return pkgRel(fn) == pkg },
		bcePkgs: []string{pkg},
		exceptions: map[string]string{
			"(*transport/ax25/agwpe.demux).run|index clients[i]":                              "loop index discipline: i < len(clients) is tested at the top of every iteration and i-- only follows the removal of element i",
			"(*transport/ax25/agwpe.demux).run|slice clients[:i]":                             "same loop: 0 <= i < len(clients) holds where an element is removed",
			"(*transport/ax25/agwpe.demux).run|slice clients[i + 1:]":                         "same loop: i+1 <= len(clients)",
			"(*transport/ax25/agwpe.frame).ReadFrom|make make([]byte, int(f.header.DataLen))": "the data length is a 32-bit field of the frame header: on 64-bit targets the conversion cannot be negative; the size is bounded by 4 GiB - allocation proportional to what the TNC announces (local TNC, see DESIGN.md C13)",
		},
		fatalIsOK: map[string]string{
			"(*transport/ax25/agwpe.Conn).connect|panic panic(\"impossible\")":            "the awaited kinds (C, d) equal the switch arms: rule C13-ops checks the subscription; a frame of another kind cannot arrive on that channel",
			"(*transport/ax25/agwpe.Port).write|panic panic(\"incorrect port in frame\")": "guards a local programming error: every constructor sets the port it is given and every call site passes the owning port (rule C13-ctor), so the test cannot fail on TNC input",
		},
	})
	r.Infos["crash_inventory"] = st
	r.NotCov = append(r.NotCov, "end-to-end stream equality under all segmentations and schedules", "liveness of the demux when one goroutine both reads and writes", "monitor/unproto frames")
}

// copiedFrom: value v is a slice that was filled by copy(v, src).
func copiedFrom(fn *ssa.Function, v ssa.Value, src ssa.Value) bool {
	found := false
	eachInstr(fn, func(_ *ssa.BasicBlock, _ int, in ssa.Instruction) {
		if call, ok := in.(*ssa.Call); ok && callName(&call.Call) == "builtin.copy" && call.Call.Args[0] == v && call.Call.Args[1] == src {
			found = true
		}
	})
	return found
}

// streamReadRule: a Read that hands out frames from a channel must return the number of bytes
// copied and keep the remainder (shared by agwpe.Conn.Read and ardop.tncConn.Read).
func streamReadRule(c *Ctx, r *Report, fn *ssa.Function, rule, field string) {
	where := fnName(fn)
	pParam := fn.Params[1]
	o := r.Add(rule, where, "Read returns the count copied into p", c.pos(fn.Pos()))
	// the places where bytes are copied into p: copy(p, x) in Read itself, or a call of a
	// same-package helper that receives p, copies into it and returns the count (ip_g3.go)
	copies := deliveriesIn(fn, pParam, map[ssa.Value]bool{fn.Params[0]: true}, field, 0)
	good := len(copies) > 0
	why := "Read does not copy into the caller's buffer with copy()"
	for _, ret := range returnsOf(fn) {
		if isErrorExit(ret) {
			continue
		}
		v := resOf(ret, 0)
		if k, isC := constInt(v); isC && k == 0 {
			continue // (0, nil) for an empty buffer, or with an error value that is not recognised as exit
		}
		isCopy := false
		for _, cp := range copies {
			if cp.val != nil && v == cp.val {
				isCopy = true
			}
		}
		if !isCopy {
			good, why = false, fmt.Sprintf("the return at %s reports %s, not the number of bytes copied into p: a frame larger than the buffer is truncated or overruns", c.pos(ret.Pos()), pathOf(v))
		}
	}
	if good {
		o.OK("every data-returning exit reports the result of copy(p, ...): any buffer size is accepted")
	} else {
		o.Bad("%s", why)
	}
	// end of stream is reported only when the data channel itself is closed (queued frames first)
	o = r.Add(rule, where, "io.EOF only when the data channel is closed", c.pos(fn.Pos()))
	eofOK, nEOF := true, 0
	for _, ret := range returnsOf(fn) {
		ld, ok := resOf(ret, 1).(*ssa.UnOp)
		if !ok || !strings.HasSuffix(pathOf(ld), "io.EOF") {
			continue
		}
		nEOF++
		closedEdge := false
		for _, cd := range condsAt(ret.Block()) {
			v := cd.V
			truth := cd.Truth
			if u, isNot := v.(*ssa.UnOp); isNot && u.Op == token.NOT {
				v, truth = u.X, !truth
			}
			ex, ok := v.(*ssa.Extract)
			if !ok || truth {
				continue
			}
			switch src := ex.Tuple.(type) {
			case *ssa.UnOp: // v, ok := <-ch
				if src.Op == token.ARROW && src.CommaOk && ex.Index == 1 && strings.Contains(pathOf(src.X), ".data") {
					closedEdge = true
				}
			case *ssa.Select: // tuple (index, recvOk, values...): recvOk false on the data channel's arm
				if ex.Index != 1 {
					continue
				}
				for _, c2 := range condsAt(ret.Block()) {
					bo, ok := c2.V.(*ssa.BinOp)
					if !ok || bo.Op != token.EQL || !c2.Truth {
						continue
					}
					if e0, ok := bo.X.(*ssa.Extract); ok && e0.Tuple == ssa.Value(src) && e0.Index == 0 {
						k, _ := constInt(bo.Y)
						if int(k) < len(src.States) && src.States[k].Dir == types.RecvOnly && strings.Contains(pathOf(src.States[k].Chan), ".data") {
							closedEdge = true
						}
					}
				}
			}
		}
		if !closedEdge {
			eofOK = false
		}
	}
	if eofOK && nEOF > 0 {
		o.OK("every return of io.EOF lies on the 'closed' edge of a receive from the data channel: frames queued before a disconnect are still delivered")
	} else if nEOF == 0 {
		o.Bad("Read never reports io.EOF")
	} else {
		o.Bad("Read can report io.EOF on a path other than 'data channel closed' (e.g. a disconnect signal racing with queued frames): the tail of the stream is lost")
	}
	o = r.Add(rule, where, "the rest of a frame is kept for the next Read", c.pos(fn.Pos()))
	kept := 0
	var hows []string
	for _, cp := range copies {
		// x[n:] stored in the field after the copy (in Read, or in the helper that copies, which
		// must store it into the connection it was called on)
		if cp.kept {
			kept++
		}
		hows = append(hows, cp.how())
	}
	// and served first: a frame is taken from the channel only when nothing of the previous one is
	// left, and what is left can be handed out without taking one (remainderServedFirst, ip_g4.go)
	var sites []copySite
	for _, cp := range copies {
		if cp.srcV != nil {
			sites = append(sites, copySite{cp.at, cp.srcV})
		}
	}
	servedFirst, whyNot := remainderServedFirst(c, fn, sites, field)
	switch {
	case kept < len(copies) || len(copies) == 0:
		o.Bad("after copy(p, x) the remainder x[n:] is not stored for the next call (%d of %d copies keep it): bytes of a frame that does not fit the buffer are lost", kept, len(copies))
	case !servedFirst:
		o.Bad("the kept remainder is not served before the next frame is taken from the channel: bytes are reordered or lost (%s)", whyNot)
	default:
		o.OK("each copy stores x[n:] in %s; a frame is received only where len(%s) == 0 is established and a kept remainder is copied out without receiving (%s)", strings.TrimPrefix(field, "."), strings.TrimPrefix(field, "."), strings.Join(hows, "; "))
	}
}

// serialWriteRule: frames reach the TNC connection whole. Either every call that writes a frame to
// the connection holds one mutex of the TNC, or a frame is written with a single Write call.
func serialWriteRule(c *Ctx, r *Report, rule string) {
	const pkg = "transport/ax25/agwpe"
	r.Rule(rule, 1, "frames written by different goroutines cannot interleave on the TNC connection")
	wt := c.Func(pkg, "(frame).WriteTo")
	if wt == nil {
		r.Fail(rule, "anchor frame.WriteTo not found")
		return
	}
	// number of writes WriteTo performs on its writer on the longest path (calls that receive w)
	nWrites := 0
	w := wt.Params[len(wt.Params)-1]
	for _, ci := range allCalls(wt) {
		for _, a := range ci.Common().Args {
			if sameSlotValue(a, w) {
				nWrites++
			}
		}
		if ci.Common().IsInvoke() && sameSlotValue(ci.Common().Value, w) {
			nWrites++
		}
	}
	single := nWrites == 1
	n := 0
	for _, fn := range c.SrcFuncs(pkg) {
		for _, ci := range allCalls(fn) {
			callee := ci.Common().StaticCallee()
			if callee != wt || fn == wt {
				continue
			}
			// only writes to the TNC's connection
			if !strings.HasSuffix(pathOf(ci.Common().Args[len(ci.Common().Args)-1]), ".conn") {
				continue
			}
			n++
			o := r.Add(rule, fnName(fn), "frame written to the TNC: "+c.exprAt(fn, ci.Pos()), c.pos(ci.Pos()))
			if single {
				o.OK("frame.WriteTo hands the whole frame to the connection in one Write")
				continue
			}
			isMu := func(call ssa.CallInstruction, m string) bool {
				nm := callName(call.Common())
				return (nm == "sync.Mutex."+m || nm == "sync.RWMutex."+m) && len(call.Common().Args) > 0 && strings.HasPrefix(strings.TrimPrefix(pathOf(call.Common().Args[0]), "&"), pathOf(fn.Params[0])+".")
			}
			held := heldAt(fn, func(call ssa.CallInstruction) bool { return isMu(call, "Lock") }, func(call ssa.CallInstruction) bool { return isMu(call, "Unlock") })
			if held[ci.(ssa.Instruction)] {
				o.OK("a mutex of the TNC is held while the %d parts of the frame are written", nWrites)
			} else {
				o.Bad("a frame is written in %d separate writes without holding a lock of the TNC, and several goroutines write frames (Conn.Write, the outstanding-frames poll of Flush/Close, the cancel goroutine of connect, inbound handling, other connections): another frame can land between a frame's header and its data and the TNC loses framing", nWrites)
			}
		}
	}
	if n == 0 {
		r.Add(rule, pkg, "frame writes to the TNC connection", pkg).Bad("no call of frame.WriteTo on the TNC connection found (unresolved)")
	}
	// and nothing else writes to that connection
	for _, fn := range c.SrcFuncs(pkg) {
		for _, ci := range allCalls(fn) {
			name := callName(ci.Common())
			if ci.Common().IsInvoke() && ci.Common().Method.Name() == "Write" && strings.HasSuffix(pathOf(ci.Common().Value), ".conn") && rootFn(fn) != wt {
				r.Add(rule, fnName(fn), "raw write to the TNC connection "+c.exprAt(fn, ci.Pos()), c.pos(ci.Pos())).Bad("bytes are written to the TNC connection outside frame.WriteTo (%s): they are not ordered with the frames other goroutines write", name)
			}
		}
	}
}
