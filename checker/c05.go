package main

// C05 — wire behaviour conforms to B2F as judged by an independently written peer.
// Engine E5: constants, tables and writer/reader agreement against the reference tables taken
// from docs/F6FBB-B2F/protocole.html and sid.html (embedded below).

import (
	"fmt"
	"go/ast"
	"go/constant"
	"go/token"
	"go/types"
	"sort"
	"strings"

	"golang.org/x/tools/go/ssa"
)

func init() {
	register("C05", false,
		"Structural necessary conditions of conformance decided from source against reference tables embedded in the checker (FBB protocol document in docs/F6FBB-B2F): (C05-const) framing bytes SOH/STX/EOT/NUL = 1/2/4/0, at most 5 proposals per block, data block size within 1..256, offset limit 999999, the local SID announces B2 and F and ends in $, the answer constants are + - =, the block checksum is emitted as two upper-case hex digits; (C05-alphabet) the proposal-answer parser has an arm for every answer letter of the FBB table in both cases (+Y -N =L H R !A) and each arm assigns the class the table prescribes; every value that can be stored in a proposal's answer (and hence emitted in the FS line) is one of the three answer constants or comes from the inbound handler; (C05-fields) the proposal line emits exactly the number of fields the parser requires, the answer line carries one byte per proposal; (C05-order) byPrecedence is only ever sorted with a stable sort, applied after the size sort; (C05-frame) every frame marker the sender writes has an arm in the receiver's dispatch, a zero length byte is read as 256, the header strings are NUL terminated on both sides; (C05-block) the block of proposals emitted is proven to hold at most MaxBlockSize entries; (C05-sid) the handshake refuses a remote SID without B2. NOT decided: transcript-level conformance (checksum values, turn-taking, MOTD/;PM handling, forwarder hashes) - needs a second implementation as oracle. 'E' answers are excluded: a conforming peer sends them only for a malformed proposal.",
		checkC05)
}

// FBB v1 answer table: letter -> class ("Accept": the message must be transferred).
var fbbAnswerTable = map[byte]string{
	'+': "Accept", 'Y': "Accept", 'y': "Accept",
	'-': "Reject", 'N': "Reject", 'n': "Reject",
	'=': "Defer", 'L': "Defer", 'l': "Defer",
	'H': "Accept", 'h': "Accept", // "Message is accepted but will be held"
	'R': "Reject", 'r': "Reject", // "Message is rejected"
	'!': "Accept", 'A': "Accept", 'a': "Accept", // accepted from offset
}

// answerArms extracts letter -> assigned answer constant from the parser's switch.
func answerArms(c *Ctx, fd *ast.FuncDecl, info *types.Info) (map[byte]string, map[byte]token.Pos) {
	arms := map[byte]string{}
	poss := map[byte]token.Pos{}
	ast.Inspect(fd, func(n ast.Node) bool {
		sw, ok := n.(*ast.SwitchStmt)
		if !ok || sw.Tag == nil {
			return true
		}
		for _, st := range sw.Body.List {
			cc := st.(*ast.CaseClause)
			var letters []byte
			for _, e := range cc.List {
				if v := exprConst(info, e); v != nil && v.Kind() == constant.Int {
					if n, ok := constant.Int64Val(v); ok && n >= 0 && n < 256 {
						letters = append(letters, byte(n))
					}
				}
			}
			if len(letters) == 0 {
				continue
			}
			class := ""
			ast.Inspect(cc, func(m ast.Node) bool {
				as, ok := m.(*ast.AssignStmt)
				if !ok {
					return true
				}
				for i, lhs := range as.Lhs {
					sel, ok := lhs.(*ast.SelectorExpr)
					if !ok || sel.Sel.Name != "answer" || i >= len(as.Rhs) {
						continue
					}
					if id, ok := ast.Unparen(as.Rhs[i]).(*ast.Ident); ok {
						if cst, ok := info.Uses[id].(*types.Const); ok {
							class = cst.Name()
						}
					}
				}
				return true
			})
			for _, l := range letters {
				arms[l] = class
				poss[l] = cc.Pos()
			}
		}
		return true
	})
	return arms, poss
}

func checkC05(c *Ctx, r *Report) {
	p := c.Pkg("fbb")
	if p == nil {
		r.Fail("anchor", "package fbb not found")
		return
	}
	pr := newProver(c)

	// ---- C05-const
	r.Rule("C05-const", 12, "protocol constants")
	eq := func(name string, want int64, what string) {
		v, ok := constIntOf(p, name)
		o := r.Add("C05-const", "fbb", "const "+name, "fbb")
		switch {
		case !ok:
			o.Bad("constant %s not found (anchor unresolved)", name)
		case v != want:
			o.Bad("%s = %d, B2F %s is %d", name, v, what, want)
		default:
			o.Triv("%s = %d (%s)", name, v, what)
		}
	}
	eq("_CHRNUL", 0, "NUL terminator")
	eq("_CHRSOH", 1, "SOH header marker")
	eq("_CHRSTX", 2, "STX data block marker")
	eq("_CHREOT", 4, "EOT end marker")
	eq("MaxBlockSize", 5, "maximum number of proposals per block")
	eq("ProtocolOffsetSizeLimit", 999999, "largest offset (6 digits)")
	eq("Accept", '+', "answer 'accept'")
	eq("Reject", '-', "answer 'already received'")
	eq("Defer", '=', "answer 'later'")
	eq("Wl2kProposal", 'C', "B2 proposal code")
	if v, ok := constIntOf(p, "MaxMsgLength"); true {
		o := r.Add("C05-const", "fbb", "const MaxMsgLength", "fbb")
		if !ok {
			o.Bad("constant MaxMsgLength not found")
		} else if v < 1 || v > 256 {
			o.Bad("MaxMsgLength = %d does not fit the one-byte block length (1..256, 0 meaning 256)", v)
		} else {
			o.Triv("MaxMsgLength = %d fits the one-byte block length", v)
		}
	}
	if v, _, ok := constOf(p, "localSID"); true {
		o := r.Add("C05-const", "fbb", "const localSID", "fbb/handshake.go")
		if !ok || v.Kind() != constant.String {
			o.Bad("constant localSID not found")
		} else {
			s := constant.StringVal(v)
			switch {
			case !strings.Contains(s, "B2"):
				o.Bad("local SID %q does not announce B2 (compressed protocol version 2)", s)
			case !strings.Contains(s, "F"):
				o.Bad("local SID %q does not announce F (FBB basic protocol)", s)
			case !strings.HasSuffix(s, "$"):
				o.Bad("local SID %q does not end in $ (BID support must be the last character)", s)
			default:
				o.Triv("local SID %q contains B2 and F and ends in $", s)
			}
		}
	}
	// block checksum format
	if fn := c.Func("fbb", "(*Session).sendOutbound"); fn == nil {
		r.Fail("C05-const", "anchor (*fbb.Session).sendOutbound not found")
	} else {
		found := false
		for _, ci := range callsTo(fn, false, "fmt.Fprintf") {
			s, ok := constString(ci.Common().Args[1])
			if !ok || !strings.HasPrefix(s, "F>") {
				continue
			}
			found = true
			verbs, tail := parseVerbs(s)
			o := r.Add("C05-const", fnName(fn), "block checksum format", c.pos(ci.Pos()))
			if len(verbs) == 1 && verbs[0].lit == "F> " && verbs[0].verb == 'X' && verbs[0].width == 2 && strings.Contains(verbs[0].flags, "0") && tail == "\r" {
				o.OK("prompt line is %q: two upper-case hex digits after 'F> ', CR terminated", s)
			} else {
				o.Bad("prompt line format %q: the protocol needs 'F> ' followed by the checksum as two hex digits and CR", s)
			}
		}
		if !found {
			r.Add("C05-const", fnName(fn), "block checksum format", c.pos(fn.Pos())).Bad("no constant 'F>' prompt format found (unresolved)")
		}
	}

	// ---- C05-alphabet
	r.Rule("C05-alphabet", 17, "answer alphabet")
	fd := funcDecl(p, "parseProposalAnswer")
	if fd == nil {
		r.Fail("C05-alphabet", "anchor fbb.parseProposalAnswer not found")
	} else {
		arms, poss := answerArms(c, fd, p.TypesInfo)
		var letters []int
		for l := range fbbAnswerTable {
			letters = append(letters, int(l))
		}
		sort.Ints(letters)
		for _, li := range letters {
			l := byte(li)
			want := fbbAnswerTable[l]
			o := r.Add("C05-alphabet", "fbb.parseProposalAnswer", fmt.Sprintf("answer %q", string(rune(l))), c.pos(poss[l]))
			got, has := arms[l]
			switch {
			case !has:
				o.Bad("no arm for answer %q: a conforming peer may send it (FBB table: %s)", string(rune(l)), want)
			case got != want:
				o.Bad("answer %q is handled as %s, the FBB table prescribes %s", string(rune(l)), got, want)
			default:
				o.OK("arm assigns %s as the FBB table prescribes", got)
			}
		}
		// offset arms must also parse the offset
		if fn := c.Func("fbb", "parseProposalAnswer"); fn != nil {
			n := 0
			eachInstr(fn, func(_ *ssa.BasicBlock, _ int, instr ssa.Instruction) {
				if st, ok := instr.(*ssa.Store); ok && strings.HasSuffix(pathOf(st.Addr), ".offset") {
					n++
				}
			})
			r.Check("C05-alphabet", "fbb.parseProposalAnswer", "offset answers store the requested offset", c.pos(fn.Pos()), n > 0,
				"the parser stores Proposal.offset", "no store to Proposal.offset: offset requests (!offset / Aoffset) are not honoured")
		}
	}
	// every value stored into Proposal.answer is an answer constant or a handler result
	group := map[int64]string{}
	for _, n := range []string{"Accept", "Reject", "Defer"} {
		if v, ok := constIntOf(p, n); ok {
			group[v] = n
		}
	}
	nStores := 0
	for _, fn := range c.SrcFuncs("fbb") {
		eachInstr(fn, func(_ *ssa.BasicBlock, _ int, instr ssa.Instruction) {
			st, ok := instr.(*ssa.Store)
			if !ok {
				return
			}
			fa, ok := st.Addr.(*ssa.FieldAddr)
			if !ok || fieldName(fa.X.Type(), fa.Field) != "answer" || namedOf(fa.X.Type()) == nil || namedOf(fa.X.Type()).Obj().Name() != "Proposal" {
				return
			}
			nStores++
			o := r.Add("C05-alphabet", fnName(fn), "store to Proposal.answer", c.pos(st.Pos()))
			if n, isC := constInt(st.Val); isC {
				if name, in := group[n]; in {
					o.OK("stores the answer constant %s", name)
				} else {
					o.Bad("stores %d (%q), which is not one of the answer constants + - =", n, string(rune(n)))
				}
				return
			}
			fromHandler := dependsOn(st.Val, func(v ssa.Value) bool {
				call, ok := v.(*ssa.Call)
				if !ok {
					return false
				}
				n := callName(&call.Call)
				return strings.HasSuffix(n, ".GetInboundAnswer") || strings.HasSuffix(n, ".GetInboundAnswers")
			})
			if fromHandler {
				o.OK("stores the inbound handler's answer")
			} else {
				o.Bad("stores a value that is neither an answer constant nor the handler's answer (%s)", pathOf(st.Val))
			}
		})
	}
	if nStores < 6 {
		r.Fail("C05-alphabet", "found %d stores to Proposal.answer, expected at least 6", nStores)
	}

	// ---- C05-fields
	r.Rule("C05-fields", 2, "proposal and answer line shapes agree between writer and parser")
	if fn := c.Func("fbb", "(*Session).sendOutbound"); fn != nil {
		emitted := -1
		var at token.Pos
		for _, ci := range callsTo(fn, false, "fmt.Sprintf") {
			if s, ok := constString(ci.Common().Args[0]); ok && strings.HasPrefix(s, "F%c") {
				emitted = len(strings.Split(s, " ")) - 1
				at = ci.Pos()
			}
		}
		required := int64(-1)
		if pf := c.Func("fbb", "parseB2Proposal"); pf != nil {
			eachInstr(pf, func(_ *ssa.BasicBlock, _ int, instr ssa.Instruction) {
				if b, ok := instr.(*ssa.BinOp); ok && b.Op == token.LSS {
					if k, isC := constInt(b.Y); isC {
						if call, ok := b.X.(*ssa.Call); ok && callName(&call.Call) == "builtin.len" && isSliceType(call.Call.Args[0].Type()) {
							required = k
						}
					}
				}
			})
		}
		o := r.Add("C05-fields", fnName(fn), "proposal line field count", c.pos(at))
		switch {
		case emitted < 0:
			o.Bad("no constant proposal line format 'F%%c ...' found (unresolved)")
		case required < 0:
			o.Bad("the proposal parser's minimum field count was not found (unresolved)")
		case int64(emitted) != required || emitted != 5:
			o.Bad("the proposal line carries %d fields after the code, the parser requires %d, B2F prescribes 5 (type, MID, size, compressed size, 0)", emitted, required)
		default:
			o.OK("the writer emits 5 space separated fields after the code; the parser requires at least 5 and rejects more")
		}
	}
	if fn := c.Func("fbb", "(*Session).writeProposalsAnswer"); fn == nil {
		r.Fail("C05-fields", "anchor writeProposalsAnswer not found")
	} else {
		o := r.Add("C05-fields", fnName(fn), "one answer byte per proposal", c.pos(fn.Pos()))
		var mk *ssa.MakeSlice
		for _, ci := range callsTo(fn, false, "fmt.Fprintf") {
			s, ok := constString(ci.Common().Args[1])
			if !ok || !strings.HasPrefix(s, "FS ") {
				continue
			}
			dependsOn(ci.Common().Args[2], func(v ssa.Value) bool {
				if m, ok := v.(*ssa.MakeSlice); ok {
					mk = m
					return true
				}
				return false
			})
		}
		if mk == nil {
			o.Bad("the 'FS ' answer line is not built from a slice allocated in this function (unresolved)")
		} else if pr.LE(mk.Len, false, 0, fn.Params[2], true, 0, mk) && pr.LE(fn.Params[2], true, 0, mk.Len, false, 0, mk) {
			o.OK("the answer line is a slice of exactly len(proposals) bytes")
		} else {
			o.Bad("the answer line holds %s bytes, not one per proposal", pathOf(mk.Len))
		}
	}

	// ---- C05-order
	r.Rule("C05-order", 2, "precedence sort is stable and follows the size sort")
	{
		nPrec, bad := 0, ""
		for _, fn := range c.moduleFuncs() {
			eachInstr(fn, func(_ *ssa.BasicBlock, _ int, instr ssa.Instruction) {
				mi, ok := instr.(*ssa.MakeInterface)
				if !ok {
					return
				}
				n := namedOf(mi.X.Type())
				if n == nil || n.Obj().Name() != "byPrecedence" || n.Obj().Pkg().Path() != modPath+"/fbb" {
					return
				}
				for _, ref := range *mi.Referrers() {
					nPrec++
					ci, isCall := ref.(ssa.CallInstruction)
					if !isCall || callName(ci.Common()) != "sort.Stable" {
						bad = c.pos(ref.Pos())
					}
				}
			})
		}
		o := r.Add("C05-order", "fbb", "byPrecedence only passed to sort.Stable", "fbb/wl2k.go")
		switch {
		case nPrec == 0:
			o.Bad("byPrecedence is never sorted (anchor unresolved): proposals are not ordered by precedence")
		case bad != "":
			o.Bad("byPrecedence is used with something other than sort.Stable at %s: an unstable sort destroys the size order within a precedence", bad)
		default:
			o.OK("%d use(s), all sort.Stable", nPrec)
		}
		if fn := c.Func("fbb", "sortProposals"); fn == nil {
			r.Fail("C05-order", "anchor fbb.sortProposals not found")
		} else {
			o := r.Add("C05-order", fnName(fn), "size sort precedes precedence sort", c.pos(fn.Pos()))
			var sizeSort, precSort ssa.CallInstruction
			for _, ci := range callsTo(fn, false, "sort.Sort", "sort.Stable") {
				if mi, ok := ci.Common().Args[0].(*ssa.MakeInterface); ok {
					switch namedOf(mi.X.Type()).Obj().Name() {
					case "bySize":
						sizeSort = ci
					case "byPrecedence":
						precSort = ci
					}
				}
			}
			if sizeSort != nil && precSort != nil && instrDominates(sizeSort, precSort) {
				o.OK("sort by size at %s dominates the stable sort by precedence at %s", c.pos(sizeSort.Pos()), c.pos(precSort.Pos()))
			} else {
				o.Bad("the size sort does not precede the precedence sort on every path (size sort found: %v, precedence sort found: %v)", sizeSort != nil, precSort != nil)
			}
			// and outbound() sorts what it returns
			if ob := c.Func("fbb", "(*Session).outbound"); ob != nil {
				calls := callsTo(ob, false, "fbb.sortProposals")
				ok := len(calls) > 0
				r.Check("C05-order", fnName(ob), "outbound proposals are sorted", c.pos(ob.Pos()), ok,
					"outbound() calls sortProposals on the proposals it returns", "outbound() no longer sorts the proposals")
			}
		}
	}

	// ---- C05-frame
	r.Rule("C05-frame", 4, "frame markers agree between sender and receiver")
	wfn, rfn := c.Func("fbb", "(*Session).writeCompressed"), c.Func("fbb", "(*Session).readCompressed")
	if wfn == nil || rfn == nil {
		r.Fail("C05-frame", "anchors writeCompressed/readCompressed not found")
	} else {
		written := map[int64]token.Pos{}
		for _, ci := range callsTo(wfn, false, "bufio.Writer.Write") {
			if sl, ok := ci.Common().Args[1].(*ssa.Slice); ok {
				if al, ok := sl.X.(*ssa.Alloc); ok {
					for _, ref := range *al.Referrers() {
						ia, ok := ref.(*ssa.IndexAddr)
						if !ok {
							continue
						}
						if k, _ := constInt(ia.Index); k != 0 {
							continue
						}
						for _, r2 := range *ia.Referrers() {
							if st, ok := r2.(*ssa.Store); ok {
								if n, isC := constInt(st.Val); isC {
									written[n] = ci.Pos()
								}
							}
						}
					}
				}
			}
		}
		handled := map[int64]bool{}
		eachInstr(rfn, func(_ *ssa.BasicBlock, _ int, instr ssa.Instruction) {
			if b, ok := instr.(*ssa.BinOp); ok && b.Op == token.EQL {
				if n, isC := constInt(b.Y); isC {
					handled[n] = true
				}
			}
		})
		for _, m := range []struct {
			name string
			v    int64
		}{{"SOH", 1}, {"STX", 2}, {"EOT", 4}} {
			o := r.Add("C05-frame", "fbb.writeCompressed/readCompressed", "marker "+m.name, c.pos(written[m.v]))
			_, w := written[m.v]
			switch {
			case !w:
				o.Bad("the sender never writes a block starting with %s (%d)", m.name, m.v)
			case !handled[m.v]:
				o.Bad("the receiver has no arm for %s (%d)", m.name, m.v)
			default:
				o.OK("written by the sender at %s and dispatched by the receiver", c.pos(written[m.v]))
			}
		}
		for v, pos := range written {
			if v != 1 && v != 2 && v != 4 {
				r.Add("C05-frame", fnName(wfn), fmt.Sprintf("marker %d", v), c.pos(pos)).Bad("the sender writes a block starting with %d, which is not a B2F frame marker", v)
			}
		}
		// zero length byte means 256
		o := r.Add("C05-frame", fnName(rfn), "length byte 0 means 256", c.pos(rfn.Pos()))
		found := false
		eachInstr(rfn, func(_ *ssa.BasicBlock, _ int, instr ssa.Instruction) {
			ph, ok := instr.(*ssa.Phi)
			if !ok {
				return
			}
			for i, e := range ph.Edges {
				if k, isC := constInt(e); isC && k == 256 {
					// the edge must be taken exactly when the other value is zero
					pred := ph.Block().Preds[i]
					for _, cd := range append(condsAt(pred), edgeCond(pred, ph.Block())...) {
						if b, ok := cd.V.(*ssa.BinOp); ok && b.Op == token.EQL && cd.Truth {
							if z, isC := constInt(b.Y); isC && z == 0 {
								found = true
							}
						}
					}
				}
			}
		})
		if found {
			o.OK("a length of 0 is replaced by 256 before the block is read")
		} else {
			o.Bad("no replacement of a zero length byte by 256: a conforming peer's 256-byte blocks would be read as empty")
		}
		// NUL terminators
		nW := 0
		for _, ci := range callsTo(wfn, false, "bufio.Writer.WriteByte") {
			if k, isC := constInt(ci.Common().Args[1]); isC && k == 0 {
				nW++
			}
		}
		nR := 0
		for _, ci := range callsTo(rfn, false, "bufio.Reader.ReadString") {
			if k, isC := constInt(ci.Common().Args[1]); isC && k == 0 {
				nR++
			}
		}
		r.Check("C05-frame", "fbb.writeCompressed/readCompressed", "title and offset NUL terminated", c.pos(wfn.Pos()), nW == 2 && nR == 2,
			"the sender writes two NUL terminators, the receiver reads two NUL terminated strings", fmt.Sprintf("sender writes %d NUL terminators, receiver reads %d NUL terminated strings; the header has exactly two (title, offset)", nW, nR))
	}

	// ---- C05-block
	blockRule(c, r, pr, "C05-block")
	frameLenRule(c, r, pr, "C05-framelen")

	// ---- C05-sid
	r.Rule("C05-sid", 1, "handshake requires B2")
	if fn := c.Func("fbb", "(*Session).readHandshake"); fn == nil {
		r.Fail("C05-sid", "anchor readHandshake not found")
	} else {
		o := r.Add("C05-sid", fnName(fn), "remote SID without B2 refused", c.pos(fn.Pos()))
		good := false
		for _, ret := range returnsOf(fn) {
			ld, ok := resOf(ret, 1).(*ssa.UnOp)
			if !ok || !strings.HasSuffix(pathOf(ld), "fbb.ErrNoFB2") {
				continue
			}
			for _, cd := range condsAt(ret.Block()) {
				if call, ok := cd.V.(*ssa.Call); ok && callName(&call.Call) == "fbb.sid.Has" && !cd.Truth {
					if s, ok := constString(call.Call.Args[1]); ok && s == "B2" {
						good = true
					}
				}
			}
		}
		if good {
			o.OK("ErrNoFB2 is returned on the false edge of SID.Has(\"B2\")")
		} else {
			o.Bad("no return of ErrNoFB2 on the false edge of a SID.Has(\"B2\") test: a peer without B2 support would be talked to in B2F")
		}
	}
	r.NotCov = append(r.NotCov, "checksum values, turn-taking (FF/FQ), MOTD and ;PM handling, forwarder hashes, every byte of a transcript")
}

// edgeCond returns the condition holding on the edge pred->to, if pred ends in a branch.
func edgeCond(pred, to *ssa.BasicBlock) []Cond {
	if ifi, ok := pred.Instrs[len(pred.Instrs)-1].(*ssa.If); ok && pred.Succs[0] != pred.Succs[1] {
		return []Cond{{ifi.Cond, pred.Succs[0] == to, ifi}}
	}
	return nil
}

// blockRule: the slice of proposals emitted in one block holds at most MaxBlockSize entries.
func blockRule(c *Ctx, r *Report, pr *prover, rule string) {
	p := c.Pkg("fbb")
	r.Rule(rule, 1, "at most MaxBlockSize proposals are emitted per block")
	fn := c.Func("fbb", "(*Session).sendOutbound")
	if fn == nil {
		r.Fail(rule, "anchor sendOutbound not found")
		return
	}
	var ranged ssa.Value
	var at ssa.Instruction
	for _, ci := range callsTo(fn, false, "fmt.Sprintf") {
		if s, ok := constString(ci.Common().Args[0]); ok && strings.HasPrefix(s, "F%c") {
			ranged, at = rangedSlice(ci.Block())
		}
	}
	o := r.Add(rule, fnName(fn), "len(block) <= MaxBlockSize", c.pos(fn.Pos()))
	max, _ := constIntOf(p, "MaxBlockSize")
	switch {
	case ranged == nil:
		o.Bad("could not identify the slice of proposals the block loop ranges over (unresolved)")
	case pr.LE(ranged, true, 0, nil, false, max, at):
		o.OK("the proposals emitted are a slice proven to hold at most %d entries (truncation dominates the loop)", max)
	default:
		o.Bad("the slice of proposals emitted (%s) is not proven to hold at most MaxBlockSize=%d entries: more than five proposals per block", pathOf(ranged), max)
	}
	// the answers are parsed against, and the transfers dispatched over, the same truncated block
	for _, ci := range callsTo(fn, false, "fbb.parseProposalAnswer") {
		same := ci.Common().Args[1] == ranged
		r.Check(rule, fnName(fn), "answers matched against the emitted block", c.pos(ci.Pos()), same,
			"parseProposalAnswer receives the same (truncated) slice that was emitted", "the answers are matched against a different slice than the block that was emitted")
	}
}
