package main

// C05 — wire behaviour conforms to B2F as judged by an independently written peer.
// Engine E5: constants, tables and writer/reader agreement against the reference tables taken
// from docs/F6FBB-B2F/protocole.html and sid.html (embedded below).

import (
	"fmt"
	"go/constant"
	"go/token"
	"go/types"
	"sort"
	"strings"

	"golang.org/x/tools/go/ssa"
)

func init() {
	register("C05", false,
		"Structural necessary conditions of conformance decided from source against reference tables embedded in the checker (FBB protocol document in docs/F6FBB-B2F): (C05-const) framing bytes SOH/STX/EOT/NUL = 1/2/4/0, at most 5 proposals per block, data block size within 1..256, offset limit 999999, the local SID announces B2 and F and ends in $, the answer constants are + - =, the block checksum is emitted as two upper-case hex digits; (C05-alphabet) the proposal-answer parser has an arm for every answer letter of the FBB table in both cases (+Y -N =L H R !A) and each arm assigns the class the table prescribes; every value that can be stored in a proposal's answer (and hence emitted in the FS line) is one of the three answer constants or comes from the inbound handler; (C05-fields) the proposal line emits exactly the number of fields the parser requires, the answer line carries one byte per proposal; (C05-order) byPrecedence is only ever sorted with a stable sort, applied after the size sort; (C05-frame) every frame marker the sender writes has an arm in the receiver's dispatch, a zero length byte is read as 256, the header strings are NUL terminated on both sides; (C05-block) the block of proposals emitted is proven to hold at most MaxBlockSize entries; (C05-sid) the handshake refuses a remote SID without B2. NOT decided: transcript-level conformance (checksum values, turn-taking, MOTD/;PM handling, forwarder hashes) - needs a second implementation as oracle. 'E' answers are excluded: a conforming peer sends them only for a malformed proposal.",
		checkC05)
}

// FBB v1 answer table: letter -> class ("Accept": the message must be transferred).
var fbbAnswerTable = map[byte]string{
	'+': "Accept", 'Y': "Accept", 'y': "Accept",
	'-': "Reject", 'N': "Reject", 'n': "Reject",
	'=': "Defer", 'L': "Defer", 'l': "Defer",
	'H': "Accept", 'h': "Accept", // "Message is accepted but will be held"
	'R': "Reject", 'r': "Reject", // "Message is rejected"
	'!': "Accept", 'A': "Accept", 'a': "Accept", // accepted from offset
}

func checkC05(c *Ctx, r *Report) {
	p := c.Pkg("fbb")
	if p == nil {
		r.Fail("anchor", "package fbb not found")
		return
	}
	pr := newProver(c)

	// ---- C05-const
	r.Rule("C05-const", 12, "protocol constants")
	eq := func(name string, want int64, what string) {
		v, ok := constIntOf(p, name)
		o := r.Add("C05-const", "fbb", "const "+name, "fbb")
		switch {
		case !ok:
			o.Bad("constant %s not found (anchor unresolved)", name)
		case v != want:
			o.Bad("%s = %d, B2F %s is %d", name, v, what, want)
		default:
			o.Triv("%s = %d (%s)", name, v, what)
		}
	}
	eq("_CHRNUL", 0, "NUL terminator")
	eq("_CHRSOH", 1, "SOH header marker")
	eq("_CHRSTX", 2, "STX data block marker")
	eq("_CHREOT", 4, "EOT end marker")
	eq("MaxBlockSize", 5, "maximum number of proposals per block")
	eq("ProtocolOffsetSizeLimit", 999999, "largest offset (6 digits)")
	eq("Accept", '+', "answer 'accept'")
	eq("Reject", '-', "answer 'already received'")
	eq("Defer", '=', "answer 'later'")
	eq("Wl2kProposal", 'C', "B2 proposal code")
	if v, ok := constIntOf(p, "MaxMsgLength"); true {
		o := r.Add("C05-const", "fbb", "const MaxMsgLength", "fbb")
		if !ok {
			o.Bad("constant MaxMsgLength not found")
		} else if v < 1 || v > 256 {
			o.Bad("MaxMsgLength = %d does not fit the one-byte block length (1..256, 0 meaning 256)", v)
		} else {
			o.Triv("MaxMsgLength = %d fits the one-byte block length", v)
		}
	}
	if v, _, ok := constOf(p, "localSID"); true {
		o := r.Add("C05-const", "fbb", "const localSID", "fbb/handshake.go")
		if !ok || v.Kind() != constant.String {
			o.Bad("constant localSID not found")
		} else {
			s := constant.StringVal(v)
			switch {
			case !strings.Contains(s, "B2"):
				o.Bad("local SID %q does not announce B2 (compressed protocol version 2)", s)
			case !strings.Contains(s, "F"):
				o.Bad("local SID %q does not announce F (FBB basic protocol)", s)
			case !strings.HasSuffix(s, "$"):
				o.Bad("local SID %q does not end in $ (BID support must be the last character)", s)
			default:
				o.Triv("local SID %q contains B2 and F and ends in $", s)
			}
		}
	}
	// block checksum format
	if fn := c.Func("fbb", "(*Session).sendOutbound"); fn == nil {
		r.Fail("C05-const", "anchor (*fbb.Session).sendOutbound not found")
	} else {
		found := false
		for _, ci := range c.j1CallsBelow(fn, "fmt.Fprintf") { // in sendOutbound or a helper below it (ip_j1.go)
			s, ok := constString(ci.Common().Args[1])
			if !ok || !strings.HasPrefix(s, "F>") {
				continue
			}
			found = true
			verbs, tail := parseVerbs(s)
			o := r.Add("C05-const", fnName(fn), "block checksum format", c.pos(ci.Pos()))
			if len(verbs) == 1 && verbs[0].lit == "F> " && verbs[0].verb == 'X' && verbs[0].width == 2 && strings.Contains(verbs[0].flags, "0") && tail == "\r" {
				o.OK("prompt line is %q: two upper-case hex digits after 'F> ', CR terminated", s)
			} else {
				o.Bad("prompt line format %q: the protocol needs 'F> ' followed by the checksum as two hex digits and CR", s)
			}
		}
		if !found {
			r.Add("C05-const", fnName(fn), "block checksum format", c.pos(fn.Pos())).Bad("no constant 'F>' prompt format found (unresolved)")
		}
	}

	// ---- C05-alphabet
	r.Rule("C05-alphabet", 17, "answer alphabet")
	// the arms are read off the code by following it once per letter with the answer character fixed
	// (ip_h1.go): a switch, an if-chain and a look-up in a constant table give the same result
	pfn := c.Func("fbb", "parseProposalAnswer")
	var char *ssa.Index
	if pfn != nil {
		char, _ = h1AnswerChar(pfn)
	}
	classNames := map[int64]string{}
	for _, n := range []string{"Accept", "Reject", "Defer"} {
		if v, ok := constIntOf(p, n); ok {
			classNames[v] = n
		}
	}
	if pfn == nil {
		r.Fail("C05-alphabet", "anchor fbb.parseProposalAnswer not found")
	} else if char == nil {
		r.Fail("C05-alphabet", "fbb.parseProposalAnswer: no read of an answer character from the answer line comes before every store to Proposal.answer (anchor unresolved)")
	} else {
		var letters []int
		for l := range fbbAnswerTable {
			letters = append(letters, int(l))
		}
		sort.Ints(letters)
		var lb []byte
		for _, li := range letters {
			lb = append(lb, byte(li))
		}
		arms := c.h1AnswerArms(pfn, char, lb, func(n int64) string {
			if name, ok := classNames[n]; ok {
				return name
			}
			return fmt.Sprintf("byte %d", n)
		})
		for _, l := range lb {
			want := fbbAnswerTable[l]
			arm := arms[l]
			o := r.Add("C05-alphabet", "fbb.parseProposalAnswer", fmt.Sprintf("answer %q", string(rune(l))), c.pos(arm.pos))
			got := arm.classes()
			switch {
			case arm.truncated:
				o.Bad("the handling of answer %q could not be followed to its end (too many paths): undecided", string(rune(l)))
			case len(got) == 0:
				o.Bad("no arm for answer %q: a conforming peer may send it (FBB table: %s)", string(rune(l)), want)
			case len(got) > 1 || got[0] == "?":
				o.Bad("answer %q does not store one decided answer: the paths that go on store %s%s", string(rune(l)), strings.Join(got, ", "), c.h1TableComplaints(pfn))
			case arm.skips:
				o.Bad("answer %q: some path goes on to the next answer without storing an answer for this proposal", string(rune(l)))
			case got[0] != want:
				o.Bad("answer %q is handled as %s, the FBB table prescribes %s", string(rune(l)), got[0], want)
			default:
				o.OK("arm assigns %s as the FBB table prescribes", got[0])
			}
		}
		// offset arms must also parse the offset
		if fn := c.Func("fbb", "parseProposalAnswer"); fn != nil {
			n := 0
			eachInstr(fn, func(_ *ssa.BasicBlock, _ int, instr ssa.Instruction) {
				if st, ok := instr.(*ssa.Store); ok && strings.HasSuffix(pathOf(st.Addr), ".offset") {
					n++
				}
			})
			r.Check("C05-alphabet", "fbb.parseProposalAnswer", "offset answers store the requested offset", c.pos(fn.Pos()), n > 0,
				"the parser stores Proposal.offset", "no store to Proposal.offset: offset requests (!offset / Aoffset) are not honoured")
			// the digits of an offset end where the next answer begins: the cut position must come from a
			// scan forward from the answer character, never from a search from the end of the line
			eachInstr(fn, func(_ *ssa.BasicBlock, _ int, instr ssa.Instruction) {
				call, ok := instr.(*ssa.Call)
				if !ok || callName(&call.Call) != "strconv.Atoi" {
					return
				}
				fromEnd := dependsOn(call.Call.Args[0], func(x ssa.Value) bool {
					cc, ok := x.(*ssa.Call)
					return ok && strings.HasPrefix(callName(&cc.Call), "strings.Last")
				})
				r.Check("C05-alphabet", "fbb.parseProposalAnswer", "offset digits end at the next answer", c.pos(call.Pos()), !fromEnd,
					"the offset is cut by scanning forward over the digits that follow the answer character", "the end of the offset is found by searching from the END of the answer line: with a later offset answer in the same line (\"FS !0!0\", \"FS !100+!50\") the rest of the line is swallowed and the remaining proposals stay unanswered")
			})
		}
	}
	// every value stored into Proposal.answer is an answer constant or a handler result
	group := map[int64]string{}
	for _, n := range []string{"Accept", "Reject", "Defer"} {
		if v, ok := constIntOf(p, n); ok {
			group[v] = n
		}
	}
	nStores := 0
	for _, fn := range c.SrcFuncs("fbb") {
		eachInstr(fn, func(_ *ssa.BasicBlock, _ int, instr ssa.Instruction) {
			st, ok := instr.(*ssa.Store)
			if !ok {
				return
			}
			fa, ok := st.Addr.(*ssa.FieldAddr)
			if !ok || fieldName(fa.X.Type(), fa.Field) != "answer" || namedOf(fa.X.Type()) == nil || namedOf(fa.X.Type()).Obj().Name() != "Proposal" {
				return
			}
			nStores++
			o := r.Add("C05-alphabet", fnName(fn), "store to Proposal.answer", c.pos(st.Pos()))
			if n, isC := constInt(st.Val); isC {
				if name, in := group[n]; in {
					o.OK("stores the answer constant %s", name)
				} else {
					o.Bad("stores %d (%q), which is not one of the answer constants + - =", n, string(rune(n)))
				}
				return
			}
			fromHandler := dependsOn(st.Val, func(v ssa.Value) bool {
				call, ok := v.(*ssa.Call)
				if !ok {
					return false
				}
				n := callName(&call.Call)
				return strings.HasSuffix(n, ".GetInboundAnswer") || strings.HasSuffix(n, ".GetInboundAnswers")
			})
			if vals, tab, isTab := c.h1TableStoreValues(st); isTab && !fromHandler {
				// ip_h1.go: a field of an entry of a package-level table that is never written at run time
				var alien []string
				for _, n := range vals {
					if _, in := group[n]; !in {
						alien = append(alien, fmt.Sprintf("%d (%q)", n, string(rune(n))))
					}
				}
				if len(alien) == 0 {
					o.OK("stores a field of an entry of the constant table %s; every value it can take is an answer constant", tab)
				} else {
					o.Bad("stores a field of an entry of the table %s, which can be %s: not one of the answer constants + - = (a missing key yields the zero value unless the store is on the found edge of the look-up)", tab, strings.Join(alien, ", "))
				}
				return
			}
			if fromHandler {
				o.OK("stores the inbound handler's answer")
			} else {
				o.Bad("stores a value that is neither an answer constant nor the handler's answer (%s)", pathOf(st.Val))
			}
		})
	}
	if nStores < 6 {
		r.Fail("C05-alphabet", "found %d stores to Proposal.answer, expected at least 6", nStores)
	}

	// ---- C05-fields
	r.Rule("C05-fields", 2, "proposal and answer line shapes agree between writer and parser")
	if fn := c.Func("fbb", "(*Session).sendOutbound"); fn != nil {
		emitted := -1
		var at token.Pos
		for _, e := range c.j1BlockEmitters(fn) { // in sendOutbound or a helper below it (ip_j1.go)
			s, _ := constString(e.call.Common().Args[0])
			if n := len(strings.Split(s, " ")) - 1; emitted < 0 || emitted == 5 {
				emitted = n
				at = e.call.Pos()
			}
		}
		required := int64(-1)
		if pf := c.Func("fbb", "parseB2Proposal"); pf != nil {
			eachInstr(pf, func(_ *ssa.BasicBlock, _ int, instr ssa.Instruction) {
				if b, ok := instr.(*ssa.BinOp); ok && b.Op == token.LSS {
					if k, isC := constInt(b.Y); isC {
						if call, ok := b.X.(*ssa.Call); ok && callName(&call.Call) == "builtin.len" && isSliceType(call.Call.Args[0].Type()) {
							required = k
						}
					}
				}
			})
		}
		o := r.Add("C05-fields", fnName(fn), "proposal line field count", c.pos(at))
		switch {
		case emitted < 0:
			o.Bad("no constant proposal line format 'F%%c ...' found (unresolved)")
		case required < 0:
			o.Bad("the proposal parser's minimum field count was not found (unresolved)")
		case int64(emitted) != required || emitted != 5:
			o.Bad("the proposal line carries %d fields after the code, the parser requires %d, B2F prescribes 5 (type, MID, size, compressed size, 0)", emitted, required)
		default:
			o.OK("the writer emits 5 space separated fields after the code; the parser requires at least 5 and rejects more")
		}
	}
	if fn := c.Func("fbb", "(*Session).writeProposalsAnswer"); fn == nil {
		r.Fail("C05-fields", "anchor writeProposalsAnswer not found")
	} else {
		o := r.Add("C05-fields", fnName(fn), "one answer byte per proposal", c.pos(fn.Pos()))
		var mk *ssa.MakeSlice
		for _, ci := range callsTo(fn, false, "fmt.Fprintf") {
			s, ok := constString(ci.Common().Args[1])
			if !ok || !strings.HasPrefix(s, "FS ") {
				continue
			}
			dependsOn(ci.Common().Args[2], func(v ssa.Value) bool {
				if m, ok := v.(*ssa.MakeSlice); ok {
					mk = m
					return true
				}
				return false
			})
		}
		if mk == nil {
			o.Bad("the 'FS ' answer line is not built from a slice allocated in this function (unresolved)")
		} else if pr.LE(mk.Len, false, 0, fn.Params[2], true, 0, mk) && pr.LE(fn.Params[2], true, 0, mk.Len, false, 0, mk) {
			o.OK("the answer line is a slice of exactly len(proposals) bytes")
		} else {
			o.Bad("the answer line holds %s bytes, not one per proposal", pathOf(mk.Len))
		}
	}

	// ---- C05-order
	r.Rule("C05-order", 2, "precedence sort is stable and follows the size sort")
	h1OrderRule(c, r, "C05-order")

	// ---- C05-frame
	r.Rule("C05-frame", 4, "frame markers agree between sender and receiver")
	wfn, rfn := c.Func("fbb", "(*Session).writeCompressed"), c.Func("fbb", "(*Session).readCompressed")
	if wfn == nil || rfn == nil {
		r.Fail("C05-frame", "anchors writeCompressed/readCompressed not found")
	} else {
		written := map[int64]token.Pos{}
		for _, ci := range callsTo(wfn, false, "bufio.Writer.Write") {
			if sl, ok := ci.Common().Args[1].(*ssa.Slice); ok {
				if al, ok := sl.X.(*ssa.Alloc); ok {
					for _, ref := range *al.Referrers() {
						ia, ok := ref.(*ssa.IndexAddr)
						if !ok {
							continue
						}
						if k, _ := constInt(ia.Index); k != 0 {
							continue
						}
						for _, r2 := range *ia.Referrers() {
							if st, ok := r2.(*ssa.Store); ok {
								if n, isC := constInt(st.Val); isC {
									written[n] = ci.Pos()
								}
							}
						}
					}
				}
			}
		}
		// an arm is a comparison of a byte with the marker whose equal edge goes on: `case SOH:`,
		// `if c == SOH`, or the guard clause `if c != SOH { return err }` (ip_g8.go)
		handled := j2MarkerArms(c, rfn) // over the call tree below readCompressed (ip_j2.go)
		for _, m := range []struct {
			name string
			v    int64
		}{{"SOH", 1}, {"STX", 2}, {"EOT", 4}} {
			o := r.Add("C05-frame", "fbb.writeCompressed/readCompressed", "marker "+m.name, c.pos(written[m.v]))
			_, w := written[m.v]
			switch {
			case !w:
				o.Bad("the sender never writes a block starting with %s (%d)", m.name, m.v)
			case !handled[m.v]:
				o.Bad("the receiver has no arm for %s (%d)", m.name, m.v)
			default:
				o.OK("written by the sender at %s and dispatched by the receiver", c.pos(written[m.v]))
			}
		}
		for v, pos := range written {
			if v != 1 && v != 2 && v != 4 {
				r.Add("C05-frame", fnName(wfn), fmt.Sprintf("marker %d", v), c.pos(pos)).Bad("the sender writes a block starting with %d, which is not a B2F frame marker", v)
			}
		}
		// zero length byte means 256
		o := r.Add("C05-frame", fnName(rfn), "length byte 0 means 256", c.pos(rfn.Pos()))
		found := j2ZeroMeans256(c, rfn) // anywhere in the call tree below readCompressed (ip_j2.go)
		if found {
			o.OK("a length of 0 is replaced by 256 before the block is read")
		} else {
			o.Bad("no replacement of a zero length byte by 256: a conforming peer's 256-byte blocks would be read as empty")
		}
		// NUL terminators
		nW := 0
		for _, ci := range callsTo(wfn, false, "bufio.Writer.WriteByte") {
			if k, isC := constInt(ci.Common().Args[1]); isC && k == 0 {
				nW++
			}
		}
		nR := j2DelimitedReads(c, rfn, 0) // one per call path in the tree below readCompressed (ip_j2.go)
		r.Check("C05-frame", "fbb.writeCompressed/readCompressed", "title and offset NUL terminated", c.pos(wfn.Pos()), nW == 2 && nR == 2,
			"the sender writes two NUL terminators, the receiver reads two NUL terminated strings", fmt.Sprintf("sender writes %d NUL terminators, receiver reads %d NUL terminated strings; the header has exactly two (title, offset)", nW, nR))
	}

	// ---- C05-block
	blockRule(c, r, pr, "C05-block")
	frameLenRule(c, r, pr, "C05-framelen")
	alignRule(c, r, "C05-align")
	turnRule(c, r, "C05-turn")
	hdrCheckRule(c, r, "C05-hdrcheck")
	fieldOrderRule(c, r, "C05-fieldorder")
	auxListRule(c, r, "C05-fwline")

	// ---- C05-sid
	r.Rule("C05-sid", 1, "handshake requires B2")
	if fn := c.Func("fbb", "(*Session).readHandshake"); fn == nil {
		r.Fail("C05-sid", "anchor readHandshake not found")
	} else {
		o := r.Add("C05-sid", fnName(fn), "remote SID without B2 refused", c.pos(fn.Pos()))
		// the return may be made by a helper below readHandshake whose error every caller on the way
		// up returns whenever it is not nil (ip_h4r3.go)
		good := c05SidRefused(c, fn)
		if good {
			o.OK("ErrNoFB2 is returned on the false edge of SID.Has(\"B2\")")
		} else {
			o.Bad("no return of ErrNoFB2 on the false edge of a SID.Has(\"B2\") test: a peer without B2 support would be talked to in B2F")
		}
	}
	r.NotCov = append(r.NotCov, "checksum values, turn-taking (FF/FQ), MOTD and ;PM handling, forwarder hashes, every byte of a transcript")
}

// edgeCond returns the condition holding on the edge pred->to, if pred ends in a branch.
func edgeCond(pred, to *ssa.BasicBlock) []Cond {
	if ifi, ok := pred.Instrs[len(pred.Instrs)-1].(*ssa.If); ok && pred.Succs[0] != pred.Succs[1] {
		return []Cond{{ifi.Cond, pred.Succs[0] == to, ifi}}
	}
	return nil
}

// blockRule: the slice of proposals emitted in one block holds at most MaxBlockSize entries.
func blockRule(c *Ctx, r *Report, pr *prover, rule string) {
	p := c.Pkg("fbb")
	r.Rule(rule, 1, "at most MaxBlockSize proposals are emitted per block")
	fn := c.Func("fbb", "(*Session).sendOutbound")
	if fn == nil {
		r.Fail(rule, "anchor sendOutbound not found")
		return
	}
	max, _ := constIntOf(p, "MaxBlockSize")
	// the loop that emits the proposal lines may sit in sendOutbound or in a helper below it; a slice
	// that is a parameter of the helper is bound to the argument of every call site (ip_j1.go)
	emitters := c.j1BlockEmitters(fn)
	var ranged ssa.Value
	var block []ssa.Value // the emitted slice(s) as values of sendOutbound
	resolved, bounded := len(emitters) > 0, true
	for _, e := range emitters {
		if e.ranged == nil {
			resolved = false
			continue
		}
		ranged = e.ranged
		if !c.j1LenBounded(pr, e.ranged, e.at, max, 0) {
			bounded = false
		}
		vs, ok := c.j1Actuals(fn, e.call.Parent(), e.ranged, 0)
		if !ok {
			vs = []ssa.Value{nil}
		}
		block = append(block, vs...)
	}
	o := r.Add(rule, fnName(fn), "len(block) <= MaxBlockSize", c.pos(fn.Pos()))
	switch {
	case !resolved:
		o.Bad("could not identify the slice of proposals the block loop ranges over (unresolved)")
	case bounded:
		o.OK("the proposals emitted are a slice proven to hold at most %d entries (truncation dominates the loop)", max)
	default:
		o.Bad("the slice of proposals emitted (%s) is not proven to hold at most MaxBlockSize=%d entries: more than five proposals per block", pathOf(ranged), max)
	}
	// the answers are parsed against, and the transfers dispatched over, the same truncated block
	for _, ci := range c.j1CallsBelow(fn, "fbb.parseProposalAnswer") {
		against, ok := c.j1Actuals(fn, ci.Parent(), ci.Common().Args[1], 0)
		same := ok && resolved
		for _, a := range against {
			for _, b := range block {
				if a == nil || a != b {
					same = false
				}
			}
		}
		r.Check(rule, fnName(fn), "answers matched against the emitted block", c.pos(ci.Pos()), same,
			"parseProposalAnswer receives the same (truncated) slice that was emitted", "the answers are matched against a different slice than the block that was emitted")
	}
}

// loadOfIndex: v == *(&X[i]) -> (X, i).
func loadOfIndex(v ssa.Value) (ssa.Value, ssa.Value, bool) {
	u, ok := v.(*ssa.UnOp)
	if !ok || u.Op != token.MUL {
		return nil, nil, false
	}
	ia, ok := u.X.(*ssa.IndexAddr)
	if !ok {
		return nil, nil, false
	}
	return ia.X, ia.Index, true
}

// alignRule: answers are attached to the proposal they were asked for, and byte i of the FS line is
// the answer of proposal i.
func alignRule(c *Ctx, r *Report, rule string) {
	r.Rule(rule, 3, "each answer goes to the proposal it was asked for; byte i of the FS line answers proposal i")
	fn := c.Func("fbb", "(*Session).writeProposalsAnswer")
	if fn == nil {
		r.Fail(rule, "anchor writeProposalsAnswer not found")
		return
	}
	where := fnName(fn)
	var props ssa.Value
	for _, p := range fn.Params {
		if isSliceType(p.Type()) {
			props = p
		}
	}
	isProps := func(v ssa.Value) bool { return props != nil && sameSlotValue(v, props.(*ssa.Parameter)) }
	loops := naturalLoops(fn)
	everyIteration := func(in ssa.Instruction) bool {
		for _, l := range loops {
			if !l.body[in.Block()] {
				continue
			}
			for _, latch := range l.latches {
				if !in.Block().Dominates(latch) {
					return false
				}
			}
			return true
		}
		return false
	}
	nStores := 0
	eachInstr(fn, func(_ *ssa.BasicBlock, _ int, in ssa.Instruction) {
		st, ok := in.(*ssa.Store)
		if !ok {
			return
		}
		// ---- stores to Proposal.answer
		if fa, ok := st.Addr.(*ssa.FieldAddr); ok && strings.HasSuffix(pathOf(fa), ".answer") {
			if _, isC := st.Val.(*ssa.Const); isC {
				return
			}
			nStores++
			o := r.Add(rule, where, "answer stored: "+c.exprAt(fn, st.Pos()), c.pos(st.Pos()))
			// (a) one proposal at a time
			if call, ok := st.Val.(*ssa.Call); ok && call.Call.IsInvoke() && call.Call.Method.Name() == "GetInboundAnswer" {
				arg := call.Call.Args[0]
				if u, ok := arg.(*ssa.UnOp); ok && u.Op == token.MUL && u.X == fa.X {
					o.OK("the handler is asked about the very proposal that receives the answer")
				} else {
					o.Bad("the answer of GetInboundAnswer is stored into a proposal other than the one the handler was asked about")
				}
				return
			}
			// (b) batched
			A, i, ok := loadOfIndex(st.Val)
			var batchCall *ssa.Call
			if ok {
				if call, isCall := A.(*ssa.Call); isCall && call.Call.IsInvoke() && call.Call.Method.Name() == "GetInboundAnswers" {
					batchCall = call
				}
			}
			if batchCall == nil {
				o.Bad("the value stored as answer is neither a constant, the result of GetInboundAnswer for this proposal, nor element i of the GetInboundAnswers result (unresolved)")
				return
			}
			P, e, ok1 := loadOfIndex(fa.X)
			var U, i2 ssa.Value
			ok2 := false
			if ok1 {
				U, i2, ok2 = loadOfIndex(e)
			}
			switch {
			case !ok1 || !isProps(P):
				o.Bad("the batched answer is not stored into an element of the proposals of this block (unresolved)")
				return
			case !ok2 || i2 != i:
				o.Bad("answer i of GetInboundAnswers is stored into proposals[%s]: the batch holds only the proposals that still needed an answer, so answer i belongs to proposals[unanswered[i]] - after a duplicate MID or an unsupported proposal the answers shift onto the wrong proposals", pathOf(e))
				return
			}
			// the batch handed to the handler is built, in order, from proposals[U[k]] for every k
			okBatch, nApp := true, 0
			var walk func(v ssa.Value, depth int)
			seen := map[ssa.Value]bool{}
			walk = func(v ssa.Value, depth int) {
				if seen[v] || depth > 6 {
					return
				}
				seen[v] = true
				switch x := v.(type) {
				case *ssa.Phi:
					for _, ed := range x.Edges {
						walk(ed, depth+1)
					}
				case *ssa.MakeSlice:
					if k, isC := constInt(x.Len); !isC || k != 0 {
						okBatch = false
					}
				case *ssa.Const:
				case *ssa.Call:
					if callName(&x.Call) != "builtin.append" {
						okBatch = false
						return
					}
					nApp++
					walk(x.Call.Args[0], depth+1)
					els, ok := variadicArgs(x.Call.Args[1])
					if !ok || len(els) != 1 {
						okBatch = false
						return
					}
					d, isLoad := els[0].(*ssa.UnOp)
					if !isLoad || d.Op != token.MUL {
						okBatch = false
						return
					}
					P2, e2, okP := loadOfIndex(d.X)
					if !okP || !isProps(P2) {
						okBatch = false
						return
					}
					U2, _, okU := loadOfIndex(e2)
					if !okU || U2 != U || !everyIteration(x) {
						okBatch = false
					}
				default:
					okBatch = false
				}
			}
			walk(batchCall.Call.Args[0], 0)
			if okBatch && nApp == 1 {
				o.OK("answer i is stored into proposals[U[i]] and the batch is built in order from proposals[U[k]] for every k of the same index list")
			} else {
				o.Bad("could not establish that the batch handed to GetInboundAnswers is built in order from proposals[U[k]] over the same index list that places the answers (unresolved)")
			}
			return
		}
		// ---- the FS line: byte i is the answer of proposal i
		if ia, ok := st.Addr.(*ssa.IndexAddr); ok {
			mk, isMk := ia.X.(*ssa.MakeSlice)
			if !isMk || !types.Identical(mk.Type().Underlying().(*types.Slice).Elem(), types.Typ[types.Byte]) {
				return
			}
			v := st.Val
			if cv, ok := v.(*ssa.Convert); ok {
				v = cv.X
			}
			if cv, ok := v.(*ssa.ChangeType); ok {
				v = cv.X
			}
			ld, ok := v.(*ssa.UnOp)
			if !ok {
				return
			}
			fa, ok := ld.X.(*ssa.FieldAddr)
			if !ok || !strings.HasSuffix(pathOf(fa), ".answer") {
				return
			}
			nStores++
			P, e, okP := loadOfIndex(fa.X)
			r.Check(rule, where, "FS byte: "+c.exprAt(fn, st.Pos()), c.pos(st.Pos()), okP && isProps(P) && e == ia.Index,
				"byte i of the answer line is the answer of proposals[i]", "byte i of the FS line is not the answer of proposal i: answers are reported for the wrong proposals")
		}
	})
	if nStores < 3 {
		r.Fail(rule, "only %d answer stores found in writeProposalsAnswer, expected the single, the batched and the FS-line store", nStores)
	}
}

// turnRule: the FF/FQ decision. The session may quit (FQ) only when the remote's last turn carried
// no proposals; a proposal block from the remote clears that flag before it is answered.
func turnRule(c *Ctx, r *Report, rule string) {
	r.Rule(rule, 4, "FQ only after a remote turn without proposals; a proposal block clears the flag")
	isFlag := func(v ssa.Value) bool { return strings.HasSuffix(pathOf(v), ".remoteNoMsgs") }
	flagCond := func(conds []Cond, truth bool) bool {
		for _, cd := range conds {
			if u, ok := cd.V.(*ssa.UnOp); ok && u.Op == token.MUL && isFlag(u.X) && cd.Truth == truth {
				return true
			}
		}
		return false
	}
	// ---- sender side
	if fn := c.Func("fbb", "(*Session).handleOutbound"); fn == nil {
		r.Fail(rule, "anchor handleOutbound not found")
	} else {
		where := fnName(fn)
		found := map[string]int{}
		// the choice may be made in handleOutbound or in a helper below it (ip_j1.go)
		eachBelow := func(f func(b *ssa.BasicBlock, _ int, in ssa.Instruction)) {
			for _, g := range c.j1Below(fn) {
				eachInstr(g, f)
			}
		}
		eachBelow(func(b *ssa.BasicBlock, _ int, in ssa.Instruction) {
			ops := in.Operands(nil)
			for k, op := range ops {
				s, ok := constString(*op)
				if !ok || (!strings.HasPrefix(s, "FQ") && !strings.HasPrefix(s, "FF")) || len(strings.TrimRight(s, "\r\n")) != 2 {
					continue
				}
				word := s[:2]
				var conds []Cond
				if ph, isPhi := in.(*ssa.Phi); isPhi {
					pred := b.Preds[k]
					conds = append(append(conds, condsAt(pred)...), edgeCond(pred, b)...)
					_ = ph
				} else {
					conds = condsAt(b)
				}
				found[word]++
				o := r.Add(rule, where, "sends "+word, c.pos(in.Pos()))
				switch {
				case word == "FQ" && flagCond(conds, true):
					o.OK("FQ is chosen only on the edge where the remote's last turn had no proposals")
				case word == "FQ":
					o.Bad("FQ can be sent although the remote's last turn was a proposal block (not chosen under remoteNoMsgs): the session quits while the remote still has messages")
				case flagCond(conds, false):
					o.OK("FF is chosen on the edge where the remote may still have messages")
				default:
					o.Bad("FF is not chosen exactly on the edge 'remote may still have messages'")
				}
			}
		})
		if found["FQ"] == 0 || found["FF"] == 0 {
			r.Add(rule, where, "FF/FQ choice", c.pos(fn.Pos())).Bad("could not find the constants FF and FQ in handleOutbound (unresolved)")
		}
		// the result says whether FQ was sent
		for _, ret := range returnsOf(fn) {
			emptyOut := false
			for _, cd := range condsAt(ret.Block()) {
				if b, ok := cd.V.(*ssa.BinOp); ok && b.Op == token.EQL && cd.Truth {
					if k, isC := constInt(b.Y); isC && k == 0 {
						emptyOut = true
					}
				}
			}
			if !emptyOut {
				continue
			}
			// the flag itself, a constant under a test of the flag, or the result of a helper that
			// returns such a value on every path (ip_j1.go)
			ok := c.j1FlagResult(resOf(ret, 0), condsAt(ret.Block()), isFlag, flagCond, 0)
			r.Check(rule, where, "quitSent result", c.pos(ret.Pos()), ok,
				"the result reports FQ exactly when the flag chose FQ", "the quitSent result does not follow the FF/FQ choice: the turn loop continues after FQ or stops after FF")
		}
	}
	// ---- receiver side
	if fn := c.Func("fbb", "(*Session).handleInbound"); fn == nil {
		r.Fail(rule, "anchor handleInbound not found")
	} else {
		where := fnName(fn)
		var falseStores, trueStores []*ssa.Store
		eachInstr(fn, func(_ *ssa.BasicBlock, _ int, in ssa.Instruction) {
			st, ok := in.(*ssa.Store)
			if !ok || !isFlag(st.Addr) {
				return
			}
			b, isC := constBool(st.Val)
			switch {
			case !isC:
				r.Add(rule, where, "store to remoteNoMsgs", c.pos(st.Pos())).Bad("remoteNoMsgs is assigned a non-constant value (unresolved)")
			case b:
				trueStores = append(trueStores, st)
				// only after FF, or after a prompt that closed an empty block. "After FF": the tests that
				// hold at the store say that the line read from the remote starts with FF - whatever their
				// form (ip_h1.go: prefix compared with "FF", command byte compared after the 'F' test, ...)
				okWhere := h1LineStartsWith(condsAt(st.Block()), "FF", func(v ssa.Value) bool {
					return dependsOn(v, func(x ssa.Value) bool {
						ci, isCall := x.(ssa.CallInstruction)
						return isCall && c.isRemoteRead(ci)
					})
				})
				for _, cd := range condsAt(st.Block()) {
					// any spelling of "the block is empty": len(x) == 0, len(x) < 1, !(len(x) > 0), ... of a slice
					if x, empty, ok := emptyCond(cd); ok && empty {
						if _, isSlice := x.Type().Underlying().(*types.Slice); isSlice {
							okWhere = true
						}
					}
				}
				r.Check(rule, where, "remoteNoMsgs = true", c.pos(st.Pos()), okWhere,
					"set only after FF or after a prompt that closed an empty block", "remoteNoMsgs is set although the remote sent neither FF nor an empty block")
			default:
				falseStores = append(falseStores, st)
			}
		})
		for _, ci := range callsTo(fn, false, "fbb.Session.writeProposalsAnswer") {
			ok := false
			for _, fs := range falseStores {
				if !instrDominates(fs, ci) {
					continue
				}
				ok = true
				for _, ts := range trueStores {
					// a set of the flag between the clearing store and the answer: after fs, and reaching the
					// answer without fs being executed again (fs dominates the answer; a way round a loop that
					// passes fs again clears the flag again - e.g. when `break Loop` became a loop-scoped flag)
					if instrReaches(fs, ts) && reachesWithoutRedoing(ts, ci, fs) {
						ok = false
					}
				}
			}
			r.Check(rule, where, "proposal block clears remoteNoMsgs", c.pos(ci.Pos()), ok,
				"remoteNoMsgs = false dominates the answer to a proposal block", "a proposal block from the remote is answered without clearing remoteNoMsgs: after an earlier FF the flag stays set and the session sends FQ while the remote still has messages for a later block")
		}
	}
}

// hdrCheckRule: the receiver compares the SOH length byte with the lengths of the title and offset
// exactly as they came off the wire (not of a decoded or trimmed form).
func hdrCheckRule(c *Ctx, r *Report, rule string) {
	r.Rule(rule, 1, "the SOH length byte is compared with the raw lengths of title and offset")
	fn := c.Func("fbb", "(*Session).readCompressed")
	if fn == nil {
		r.Fail(rule, "anchor readCompressed not found")
		return
	}
	// decided over the static call tree below readCompressed (ip_j2.go): the comparison may be made in a
	// helper, the strings handed back by a helper that reads them and removes the terminator
	j2HdrCheckRule(c, r, rule, fn)
}

// fieldOrderRule: the proposal line carries type, MID, size, compressed size in that order on both
// sides, and the parser keeps the MID exactly as it came (the identifier the two mailboxes and the
// traffic statistics are keyed on).
func fieldOrderRule(c *Ctx, r *Report, rule string) {
	r.Rule(rule, 5, "proposal fields: same order in writer and parser, MID kept verbatim")
	want := map[string]int64{".msgType": 0, ".mid": 1, ".size": 2, ".compressedSize": 3}
	// ---- parser
	if fn := c.Func("fbb", "parseB2Proposal"); fn == nil {
		r.Fail(rule, "anchor parseB2Proposal not found")
	} else {
		where := fnName(fn)
		eachInstr(fn, func(_ *ssa.BasicBlock, _ int, in ssa.Instruction) {
			st, ok := in.(*ssa.Store)
			if !ok {
				return
			}
			var field string
			for f := range want {
				if strings.HasSuffix(pathOf(st.Addr), f) {
					field = f
				}
			}
			if field == "" {
				return
			}
			o := r.Add(rule, where, "parsed field"+field, c.pos(st.Pos()))
			// the element the value comes from
			src := st.Val
			viaAtoi := false
			if ex, ok := src.(*ssa.Extract); ok {
				if call, ok := ex.Tuple.(*ssa.Call); ok && callName(&call.Call) == "strconv.Atoi" && ex.Index == 0 {
					src = call.Call.Args[0]
					viaAtoi = true
				}
			}
			X, idx, isElem := loadOfIndex(src)
			var split *ssa.Call
			if isElem {
				split, _ = X.(*ssa.Call)
			}
			if split == nil || !strings.HasPrefix(callName(&split.Call), "strings.Split") && callName(&split.Call) != "strings.Fields" {
				if field == ".mid" {
					o.Bad("the MID stored by the parser is not the field as it came off the wire (it is transformed: %s): the handler is asked about, and the statistics list, an identifier that was never proposed - e.g. a MID with lower-case letters", pathOf(st.Val))
				} else {
					o.Bad("could not trace the stored value to a field of the split proposal line (unresolved)")
				}
				return
			}
			if (field == ".size" || field == ".compressedSize") != viaAtoi {
				o.Bad("field%s is not parsed the way its type requires", field)
				return
			}
			// which field: constant index, or the range index under a dominating `i == k`
			k, isC := constInt(idx)
			if !isC {
				for _, cd := range condsAt(st.Block()) {
					b, ok := cd.V.(*ssa.BinOp)
					if ok && b.Op == token.EQL && cd.Truth && b.X == idx {
						if kk, ok := constInt(b.Y); ok {
							k, isC = kk, true
						}
					}
				}
			}
			switch {
			case !isC:
				o.Bad("could not determine which field of the line is stored (unresolved)")
			case k != want[field]:
				o.Bad("field %d of the proposal line is stored as%s, the writer (and the protocol) put it at position %d", k, field, want[field])
			default:
				o.OK("field %d, %s", k, map[bool]string{true: "parsed as decimal", false: "stored verbatim"}[viaAtoi])
			}
		})
	}
	// ---- writer
	if fn := c.Func("fbb", "(*Session).sendOutbound"); fn == nil {
		r.Fail(rule, "anchor sendOutbound not found")
	} else {
		for _, e := range c.j1BlockEmitters(fn) { // in sendOutbound or a helper below it (ip_j1.go)
			ci := e.call
			o := r.Add(rule, fnName(fn), "proposal line arguments", c.pos(ci.Pos()))
			args, ok := variadicArgs(ci.Common().Args[1])
			if !ok || len(args) < 5 {
				o.Bad("could not read the arguments of the proposal line (unresolved)")
				continue
			}
			bad := ""
			for f, k := range want {
				a := args[k+1]
				if mi, ok := a.(*ssa.MakeInterface); ok {
					a = mi.X
				}
				suffix := f
				okArg := dependsOn(a, func(x ssa.Value) bool {
					if ld, ok := x.(*ssa.UnOp); ok && ld.Op == token.MUL && strings.HasSuffix(pathOf(ld), suffix) {
						return true
					}
					if call, ok := x.(*ssa.Call); ok && suffix == ".mid" && callName(&call.Call) == "fbb.Proposal.MID" {
						return true
					}
					return false
				})
				if !okArg {
					bad += fmt.Sprintf(" argument %d is not Proposal%s;", k+1, f)
				}
			}
			if bad == "" {
				o.OK("code, type, MID, size, compressed size - in the order the parser reads them")
			} else {
				o.Bad("the proposal line is written in a different field order than it is parsed:%s", bad)
			}
		}
	}
}
