package main

// C04 — a transfer damaged in transit is never delivered as a good message.

import (
	"fmt"
	"go/token"
	"strings"

	"golang.org/x/tools/go/ssa"
)

func init() {
	register("C04", false,
		"Structural necessary conditions decided from source: (C04-verdict) for every lzhuf.Reader created outside package lzhuf, Close is called after the last read, and every return that hands back decoded data is dominated by the nil-error edge of that Close (so the CRC-16 and size verdict is consulted before anything is delivered; the decompression error and the constructor error are tested the same way); (C04-frame) the store that accepts a received payload is dominated by the pass edges of guards depending on each of the four integrity sources - running block checksum (a loop-carried sum of bytes read from the remote), declared compressed size, header-length byte, requested offset - and the failing edge of each guard reaches only error exits; (C04-close-verdict) in (*lzhuf.Reader).Close the nil return is dominated by guards depending on the sticky read errors, on header.crc versus the running CRC (under the crc16 flag) and on header.size versus the decoded position; (C04-deliver) the inbound handler receives exactly the result of the decompress-and-verify call whose error was tested (shared with C02-process), and the sender reports 'sent' only after the peer's confirmation (C02-confirm). NOT decided: correctness of the checksum arithmetic itself; which alterations an independent reference codec would also accept.",
		checkC04)
}

func checkC04(c *Ctx, r *Report) {
	c04verdict(c, r, "C04-verdict")
	c04frame(c, r, "C04-frame")
	hdrCheckRule(c, r, "C04-hdrcheck")
	c04Extra(c, r)
	c04closeVerdict(c, r, "C04-close-verdict")
	r.Rule("C04-deliver", 3, "only verified data is delivered; sent only after confirmation")
	c02process(c, r, "C04-deliver")
	c02confirm(c, r, "C04-deliver")
	r.NotCov = append(r.NotCov, "the checksum arithmetic (mod 256, two's complement)", "the CRC-16 computation itself (C07-crc checks its table)")
}

// c04verdict: every lzhuf.Reader created outside lzhuf has its Close verdict consulted.
func c04verdict(c *Ctx, r *Report, rule string) {
	r.Rule(rule, 1, "the decompressor's Close verdict is consulted before data is returned")
	n := 0
	for _, fn := range c.moduleFuncs() {
		if pkgRel(fn) == "lzhuf" {
			continue
		}
		for _, ci := range callsTo(fn, false, "lzhuf.NewB2Reader", "lzhuf.NewReader") {
			n++
			where := fnName(fn)
			o := r.Add(rule, where, callName(ci.Common())+" reader", c.pos(ci.Pos()))
			val := ci.Value()
			if val == nil {
				o.Bad("reader created in a go/defer statement")
				continue
			}
			var seeds []ssa.Value
			for _, ref := range *val.Referrers() {
				if ex, ok := ref.(*ssa.Extract); ok && ex.Index == 0 {
					seeds = append(seeds, ex)
				}
			}
			// ip_h1r3.go: the obligation is checked where the reader is used up - in fn, or, when an
			// unexported helper hands it back, at every call of that helper
			if ok, why := c.h1Verdict(fn, seeds, false, 0); ok {
				o.OK("%s", why)
			} else {
				o.Bad("%s", why)
			}
		}
	}
	if n == 0 {
		r.Fail(rule, "no lzhuf reader is created outside package lzhuf (anchor unresolved)")
	}
	// Proposal.Message must test data()'s error before parsing
	if fn := c.Func("fbb", "(*Proposal).Message"); fn != nil {
		o := r.Add(rule, fnName(fn), "Message parses only verified data", c.pos(fn.Pos()))
		var dataCall *ssa.Call
		eachInstr(fn, func(_ *ssa.BasicBlock, _ int, instr ssa.Instruction) {
			if call, ok := instr.(*ssa.Call); ok && c.callPerforms(call, "lzhuf.NewB2Reader", "lzhuf.NewReader") {
				dataCall = call
			}
		})
		parse := callsTo(fn, false, "fbb.Message.ReadFrom")
		switch {
		case dataCall == nil || len(parse) == 0:
			o.Bad("Message() does not decompress through a verifying helper and then parse (anchors unresolved)")
		case !okEdgeDominates(dataCall, parse[0].Block()):
			o.Bad("the decompressed data is parsed although the decompression error at %s was not tested", c.pos(dataCall.Pos()))
		default:
			good := true
			for _, ret := range returnsOf(fn) {
				if !isNilConst(resOf(ret, 0)) && !okEdgeDominates(dataCall, ret.Block()) {
					good = false
				}
			}
			if good {
				o.OK("every return of a message is dominated by the nil-error edge of the decompress-and-verify call at %s", c.pos(dataCall.Pos()))
			} else {
				o.Bad("a message can be returned without the nil-error edge of the decompress-and-verify call dominating the return")
			}
		}
	}
}

// c04frame: guards in front of the store that accepts a payload.
func c04frame(c *Ctx, r *Report, rule string) {
	r.Rule(rule, 4, "payload accepted only after all four frame checks")
	fn := c.Func("fbb", "(*Session).readCompressed")
	if fn == nil {
		r.Fail(rule, "anchor (*fbb.Session).readCompressed not found")
		return
	}
	// decided over the static call tree below readCompressed (ip_j2.go): the store, the guards, the
	// running sum and the buffer may live in helpers, methods of a small local type or closures
	j2FrameRule(c, r, rule, fn)
}

func unwrapConv(v ssa.Value) ssa.Value {
	for {
		if cv, ok := v.(*ssa.Convert); ok {
			v = cv.X
			continue
		}
		return v
	}
}

// c04closeVerdict: guards in front of the nil return of (*lzhuf.Reader).Close.
func c04closeVerdict(c *Ctx, r *Report, rule string) {
	r.Rule(rule, 4, "Close returns nil only after CRC, size and sticky-error checks")
	fn := c.Func("lzhuf", "(*Reader).Close")
	if fn == nil {
		r.Fail(rule, "anchor (*lzhuf.Reader).Close not found")
		return
	}
	where := fnName(fn)
	// A return hands back nil when its result is the nil constant or the error result of a
	// same-package helper that can return nil. The guards may be spelled through predicates and
	// helpers (ip_g7.go, g7Verdict): the facts at the return are a disjunction of alternatives and
	// every alternative has to contain each check.
	vd := &g7Verdict{c: c, fn: fn, busy: map[*ssa.Function]bool{}}
	type nilRet struct {
		ret  *ssa.Return
		alts []g7VAlt
	}
	var nilRets []nilRet
	for _, ret := range returnsOf(fn) {
		res := resOf(ret, 0)
		switch {
		case isNilConst(res):
			nilRets = append(nilRets, nilRet{ret, vd.factsAt(ret.Block(), nil, true, 0)})
		case isErrorExit(ret) || g7KnownNonNil(res, ret.Block()):
		default:
			if w := vd.waysNil(res, nil, 0); len(w) != 1 || len(w[0].lits) != 1 || !w[0].lits[0].nilEq || w[0].lits[0].fr != nil {
				// expanded through a helper (an unexpandable value stays what it was: not a nil return)
				nilRets = append(nilRets, nilRet{ret, g7Cross(vd.factsAt(ret.Block(), nil, true, 0), w)})
			}
		}
	}
	if len(nilRets) == 0 {
		r.Fail(rule, "Close has no nil return (anchor unresolved)")
		return
	}
	loadOf := func(suffix string, fr *ipFrame) func(ssa.Value) bool {
		return func(v ssa.Value) bool {
			ld, ok := v.(*ssa.UnOp)
			return ok && ld.Op == token.MUL && strings.HasSuffix(pathOf(ld), suffix) && vd.rootIsReceiver(ld.X, fr)
		}
	}
	callOf := func(name string, fr *ipFrame) func(ssa.Value) bool {
		return func(v ssa.Value) bool {
			call, ok := v.(*ssa.Call)
			return ok && callName(&call.Call) == name && len(call.Call.Args) > 0 && vd.rootIsReceiver(call.Call.Args[0], fr)
		}
	}
	type need struct {
		name   string
		pred   func(v ssa.Value, fr *ipFrame) bool
		escape bool // the check may be skipped when the crc16 mode flag is off
	}
	needs := []need{
		{"sticky decode error (d.err)", func(v ssa.Value, fr *ipFrame) bool {
			return dependsOn(v, loadOf(".err", fr)) && !dependsOn(v, callOf("lzhuf.bitReader.Err", fr))
		}, false},
		{"bit reader error", func(v ssa.Value, fr *ipFrame) bool { return dependsOn(v, callOf("lzhuf.bitReader.Err", fr)) }, false},
		{"CRC-16 (header.crc vs running CRC)", func(v ssa.Value, fr *ipFrame) bool {
			return dependsOn(v, loadOf(".header.crc", fr)) && dependsOn(v, callOf("lzhuf.crcWriter.Sum", fr))
		}, true},
		{"size (header.size vs decoded position)", func(v ssa.Value, fr *ipFrame) bool {
			// ip_j3.go: either operand may be handed out by an accessor of the same reader
			return vd.j3DependsOnLoad(v, ".header.size", fr, 0) && vd.j3DependsOnLoad(v, ".state.pos", fr, 0)
		}, false},
	}
	viaOf := func(lit g7Lit, via string) string {
		if lit.fr == nil || via != "" {
			return via
		}
		return " (the check is made in " + fnName(lit.fr.call.Common().StaticCallee()) + ", called on this Reader)"
	}
	for _, nr := range nilRets {
		ret := nr.ret
		for _, nd := range needs {
			o := r.Add(rule, where, "nil return guarded by "+nd.name, c.pos(ret.Pos()))
			why, via := "", ""
			good := len(nr.alts) > 0
			for _, alt := range nr.alts {
				found := false
				for _, lit := range alt.lits {
					v := lit.v
					for {
						u, ok := v.(*ssa.UnOp)
						if !ok || u.Op != token.NOT {
							break
						}
						v, lit.truth = u.X, !lit.truth
					}
					if lit.nilEq {
						// the error handed back as the verdict is itself the value to be checked
						if nd.pred(v, lit.fr) {
							found, via = true, viaOf(lit, via)
						}
						continue
					}
					if nd.escape && !lit.truth && strings.HasSuffix(pathOf(v), ".crc16") && loadOf(".crc16", lit.fr)(v) {
						found = true // checksum mode off: the only condition under which the check may be skipped
						continue
					}
					b, ok := v.(*ssa.BinOp)
					if !ok || (b.Op != token.EQL && b.Op != token.NEQ) || !nd.pred(b, lit.fr) {
						continue
					}
					// on the path to `return nil` the comparison must hold as "no error / equal"
					if (b.Op == token.NEQ) == lit.truth {
						why = fmt.Sprintf("nil is returned on the mismatch/error edge of the check at %s", c.pos(b.Pos()))
						continue
					}
					found, via = true, viaOf(lit, via)
				}
				if !found {
					good = false
					if why == "" && len(alt.lits) > 0 {
						var conds []string
						for _, lit := range alt.lits {
							if len(conds) < 4 {
								conds = append(conds, fmt.Sprintf("%s is %v", pathOf(lit.v), lit.truth || lit.nilEq))
							}
						}
						why = "no guard depends on it on the path where " + strings.Join(conds, ", ")
					}
				}
			}
			if good {
				o.OK("a guard depending on the %s separates this return from an error exit%s", nd.name, via)
			} else {
				if why == "" {
					why = "no dominating guard depends on it"
				}
				if vd.over {
					why += " (too many alternatives: some conditions were not expanded)"
				}
				o.Bad("Close can report success without the %s being checked: %s", nd.name, why)
			}
		}
	}
}
