package main

import (
	"go/token"

	"golang.org/x/tools/go/ssa"
)

// emptyForm normalises the many spellings of "x is empty" / "x is not empty" for a string or slice
// value x: x == "", "" != x, len(x) == 0, len(x) != 0, len(x) > 0, len(x) >= 1, len(x) < 1,
// len(x) <= 0, 0 < len(x), ... It returns x and whether the condition being TRUE means that x is
// empty (empty) or that it is not (!empty). ok is false for any other condition, in particular
// for length tests that neither pin the length to zero nor exclude zero (len(x) > 3).
func emptyForm(v ssa.Value) (x ssa.Value, empty, ok bool) {
	for {
		if n, isN := v.(*ssa.UnOp); isN && n.Op == token.NOT {
			if x, e, ok := emptyForm(n.X); ok {
				return x, !e, true
			}
			return nil, false, false
		}
		break
	}
	if lx, lo, hi, neg, isLen := h5LenRange(v); isLen {
		switch {
		case lo == 0 && hi == 0: // len == 0, len < 1, len <= 0   (neg: len != 0)
			return lx, !neg, true
		case lo == 1 && hi == h5Inf: // len > 0, len >= 1   (neg would be !(len >= 1): not produced by h5LenRange)
			return lx, neg, true
		}
		return nil, false, false
	}
	b, isB := v.(*ssa.BinOp)
	if !isB || (b.Op != token.EQL && b.Op != token.NEQ) {
		return nil, false, false
	}
	l, r := b.X, b.Y
	if sv, isS := constString(l); isS && sv == "" {
		l, r = r, l
	}
	if sv, isS := constString(r); !isS || sv != "" {
		return nil, false, false
	}
	return l, b.Op == token.EQL, true
}

// emptyCond: the branch condition cd establishes that x is empty (true) or not empty (false).
func emptyCond(cd Cond) (x ssa.Value, empty, ok bool) {
	x, e, ok := emptyForm(cd.V)
	if !ok {
		return nil, false, false
	}
	return x, e == cd.Truth, true
}
