package main

// Shape-independent forms of the mailbox rules C02-dedup / C10-answer, C10-move / C11-move,
// C12-localid, C10-sole and C11-atomic (see NOTES-ip_i1.md). Each rule states the necessary
// condition it stated before; what changed is where the ingredients may live:
//
//   - "the path operand is built from X, Y and Z" (C02-dedup, C10-answer, C10-move, C11-move) is a
//     data dependence that is followed INTO same-package functions called statically, with the
//     callee's parameters bound to the arguments of that very call (ipI1.dependsOn): a result
//     depends on an argument only if some return of the callee depends on the parameter it is
//     bound to; returns ruled out by the constants of the call are ignored, and the dependence
//     must hold on EVERY remaining return;
//   - "two symmetric names Join(base, d1, X), Join(base, d2, X)" (C12-localid) is decided on path
//     terms (i1Term): joins, concatenations, constants, pure library calls and leaves, computed
//     through side-effect-free same-package path builders with parameter binding, one term per
//     return that the constants of the call do not rule out; every pair of alternatives has to be
//     symmetric;
//   - "true only when there is exactly one receiver and it is the address" (C10-sole) is decided
//     per WAY the result can be true (ipG2.ways: a short-circuit `a && b` is a phi that is split
//     by incoming edge), every way has to contain both tests;
//   - "open, every write and the close succeeded before the rename" (C11-atomic) accepts writes
//     and the close made by a same-package function the file is handed to, through a summary
//     proven on every return of that function that can yield a nil error (fileHelper).
//
// Nothing is keyed on the name of a helper. Whatever cannot be decided is not established: the
// rule that asked sees fewer facts and reports.

import (
	"fmt"
	"go/constant"
	"go/token"
	"go/types"
	"strconv"
	"strings"

	"golang.org/x/tools/go/ssa"
)

const (
	i1MaxDepth = 4 // helpers followed below the anchored function
	i1MaxAlts  = 8 // alternative terms per path operand
)

type ipI1 struct {
	*ipG2
	busy map[*ssa.Function]bool
}

func newIPI1(c *Ctx, pkg string) *ipI1 {
	return &ipI1{ipG2: newIPG2(c, pkg), busy: map[*ssa.Function]bool{}}
}

// ---- callees that are looked into, and their frames ---------------------------------------------

// callee: the function a call runs when that is known statically and the function may be looked
// into: a named function of the package; a closure literal of such a function, called directly
// through the value that created it; a method value x.m of a method of the package, called
// directly (the bound-method wrapper only forwards to the method).
func (a *ipI1) callee(com *ssa.CallCommon) *ssa.Function {
	if com.IsInvoke() {
		return nil
	}
	g := com.StaticCallee()
	if g == nil || g.Blocks == nil {
		return nil
	}
	if a.local(g) {
		return g
	}
	if lit, isFn := com.Value.(*ssa.Function); isFn && lit == g && g.Synthetic == "" && g.Parent() != nil && pkgRel(g) == a.pkg {
		return g // a function literal that captures nothing, called through the value that holds it (ip_j5)
	}
	if _, isMC := com.Value.(*ssa.MakeClosure); !isMC {
		return nil
	}
	if g.Synthetic == "" && g.Parent() != nil && pkgRel(g) == a.pkg {
		return g
	}
	if o := g.Object(); o != nil && o.Pkg() != nil && strings.HasPrefix(g.Synthetic, "bound method wrapper") && relOf(o.Pkg().Path()) == a.pkg {
		return g
	}
	return nil
}

func i1FrameCallee(fr *ipFrame) *ssa.Function { return fr.call.Common().StaticCallee() }

// i1Resolve rewrites a value of frame fr into the terms of the calling frames as long as it is a
// parameter (the argument of that very call), a free variable used as a value (the receiver a
// method value was bound to) or a load of a captured variable that is assigned exactly once, in
// the function that makes the call, before the call. The result has been passed through origin.
func i1Resolve(v ssa.Value, fr *ipFrame) (ssa.Value, *ipFrame) {
	for i := 0; i < 16; i++ {
		v = origin(v)
		if fr == nil {
			return v, fr
		}
		g := i1FrameCallee(fr)
		binding := func(fv *ssa.FreeVar) ssa.Value {
			mc, ok := fr.call.Common().Value.(*ssa.MakeClosure)
			if !ok || g == nil {
				return nil
			}
			for k, f := range g.FreeVars {
				if f == fv && k < len(mc.Bindings) {
					return mc.Bindings[k]
				}
			}
			return nil
		}
		switch x := v.(type) {
		case *ssa.Parameter:
			k := ipParamIndex(g, x)
			if g == nil || k < 0 || k >= len(fr.call.Common().Args) {
				return v, fr
			}
			v, fr = fr.call.Common().Args[k], fr.up
			continue
		case *ssa.FreeVar:
			b := binding(x)
			if b == nil || !types.Identical(b.Type(), x.Type()) {
				return v, fr
			}
			if _, isAlloc := b.(*ssa.Alloc); isAlloc {
				return v, fr // the address of a captured variable, not a value
			}
			v, fr = b, fr.up
			continue
		case *ssa.UnOp:
			fv, ok := x.X.(*ssa.FreeVar)
			if x.Op != token.MUL || !ok {
				return v, fr
			}
			al, ok := binding(fv).(*ssa.Alloc)
			if !ok || g9StoreCount(al) != 1 {
				return v, fr
			}
			var def *ssa.Store
			for _, ref := range *al.Referrers() {
				if st, ok := ref.(*ssa.Store); ok && st.Addr == ssa.Value(al) {
					def = st
				}
			}
			if def == nil || def.Parent() != fr.call.Parent() || !instrDominates(def, fr.call) {
				return v, fr
			}
			v, fr = def.Val, fr.up
			continue
		}
		return v, fr
	}
	return v, fr
}

// ---- constants of a call decide which returns of the callee are possible ------------------------

// i1Const: v, a value of frame fr, is a constant once parameters are replaced by the arguments of
// the calls that make up the frame.
func i1Const(v ssa.Value, fr *ipFrame) *ssa.Const {
	w, _ := i1Resolve(v, fr)
	c, _ := w.(*ssa.Const)
	if c == nil || c.Value == nil {
		return nil
	}
	return c
}

// i1EvalCond evaluates a branch condition of frame fr when the constants of the calls decide it:
// comparisons (== !=) of two strings or two integers, negation, boolean constants.
func i1EvalCond(v ssa.Value, fr *ipFrame, depth int) (truth, known bool) {
	if depth > 4 {
		return false, false
	}
	w, wfr := i1Resolve(v, fr)
	switch x := w.(type) {
	case *ssa.Const:
		return constBool(x)
	case *ssa.UnOp:
		if x.Op == token.NOT {
			t, ok := i1EvalCond(x.X, wfr, depth+1)
			return !t, ok
		}
	case *ssa.BinOp:
		if x.Op != token.EQL && x.Op != token.NEQ {
			return false, false
		}
		a, b := i1Const(x.X, wfr), i1Const(x.Y, wfr)
		if a == nil || b == nil || a.Value.Kind() != b.Value.Kind() {
			return false, false
		}
		if k := a.Value.Kind(); k != constant.String && k != constant.Int {
			return false, false
		}
		return constant.Compare(a.Value, x.Op, b.Value), true
	}
	return false, false
}

// i1Feasible: no condition that holds in block blk (of the callee of frame fr) is refuted by the
// constants of the call.
func i1Feasible(blk *ssa.BasicBlock, fr *ipFrame) bool {
	for _, cd := range condsAt(blk) {
		if t, ok := i1EvalCond(cd.V, fr, 0); ok && t != cd.Truth {
			return false
		}
	}
	return true
}

// expandable: the call is a plain call of a function that may be looked into (callee), with one
// result, that is not being expanded already.
func (a *ipI1) expandable(call *ssa.Call, depth int) *ssa.Function {
	g := a.callee(&call.Call)
	if depth >= i1MaxDepth || g == nil || a.busy[g] || g.Signature.Results().Len() != 1 {
		return nil
	}
	return g
}

// ---- data dependence through helpers, parameters bound per call ---------------------------------

// dependsOn is the data dependence of ssau.go for a value v of frame fr (nil = the anchored
// function) that is context-sensitive at static calls of same-package functions: instead of
// "the result of a call depends on all its arguments", the results the callee returns are
// examined with its parameters bound to the arguments of that call. The dependence has to hold on
// every return the constants of the call do not rule out (at least one).
func (a *ipI1) dependsOn(v ssa.Value, fr *ipFrame, pred func(ssa.Value) bool) bool {
	return a.dep(v, fr, pred, 0)
}

func (a *ipI1) dep(v ssa.Value, fr *ipFrame, pred func(ssa.Value) bool, depth int) bool {
	return dependsOnBarrier(v, func(x ssa.Value) bool {
		if pred(x) {
			return true
		}
		switch y := x.(type) {
		case *ssa.Parameter:
			// the argument of the call that created the frame the parameter belongs to (a closure
			// of a helper sees the helper's parameters)
			for f := fr; f != nil; f = f.up {
				if k := ipParamIndex(i1FrameCallee(f), y); k >= 0 && k < len(f.call.Common().Args) {
					return a.dep(f.call.Common().Args[k], f.up, pred, depth+1)
				}
			}
			return false
		case *ssa.FreeVar:
			// the receiver a method value was bound to; captured variables are reached through
			// their stores (dependsOn looks at every store to the same access path)
			if w, wfr := i1Resolve(y, fr); wfr != fr {
				return a.dep(w, wfr, pred, depth+1)
			}
			return false
		case *ssa.Call:
			g := a.expandable(y, depth)
			if g == nil {
				return false
			}
			a.busy[g] = true
			defer delete(a.busy, g)
			frame := &ipFrame{call: y, up: fr}
			n := 0
			for _, ret := range returnsOf(g) {
				if !i1Feasible(ret.Block(), frame) {
					continue
				}
				n++
				if !a.dep(resOf(ret, 0), frame, pred, depth+1) {
					return false
				}
			}
			return n > 0
		}
		return false
	}, func(x ssa.Value) bool {
		// the arguments of an expanded call are reached through the callee's parameters only
		y, ok := x.(*ssa.Call)
		return ok && a.expandable(y, depth) != nil
	})
}

// ---- path terms ---------------------------------------------------------------------------------

type i1Kind int

const (
	i1Leaf   i1Kind = iota // a value the term does not look into; s identifies it
	i1Str                  // constant string s
	i1Concat               // elems[0] + elems[1] + ...
	i1Join                 // s(elems...) with s = path.Join or path/filepath.Join
	i1Call                 // s(elems...), s a side-effect-free library function of strings only
)

type i1Term struct {
	kind  i1Kind
	s     string
	elems []*i1Term
}

func (t *i1Term) String() string {
	switch t.kind {
	case i1Str:
		return strconv.Quote(t.s)
	case i1Leaf:
		return "<" + t.s + ">"
	}
	var parts []string
	for _, e := range t.elems {
		parts = append(parts, e.String())
	}
	if t.kind == i1Concat {
		return "(" + strings.Join(parts, " + ") + ")"
	}
	return t.s + "(" + strings.Join(parts, ", ") + ")"
}

func i1Equal(x, y *i1Term) bool {
	if x.kind != y.kind || x.s != y.s || len(x.elems) != len(y.elems) {
		return false
	}
	for i := range x.elems {
		if !i1Equal(x.elems[i], y.elems[i]) {
			return false
		}
	}
	return true
}

// i1PureString: library functions from strings to a string whose result is determined by their
// arguments (no environment, no file system).
var i1PureString = map[string]bool{
	"strings.ToUpper": true, "strings.ToLower": true, "strings.TrimSpace": true, "strings.Trim": true,
	"strings.TrimPrefix": true, "strings.TrimSuffix": true, "strings.TrimLeft": true, "strings.TrimRight": true,
	"path.Base": true, "path.Clean": true, "path.Dir": true, "path.Ext": true,
	"path/filepath.Base": true, "path/filepath.Clean": true, "path/filepath.Dir": true, "path/filepath.Ext": true,
	"path/filepath.FromSlash": true, "path/filepath.ToSlash": true,
}

func i1IsJoin(name string) bool { return name == "path.Join" || name == "path/filepath.Join" }

// leafKey identifies a value of frame fr that a term does not look into. Two leaves are the same
// when they are the same SSA value in the same frame, or loads of the same field of the same
// value (x.f with x resolved through the parameter bindings), or - in the anchored function, as
// sameTerm always did - loads of the same access path.
func (a *ipI1) leafKey(v ssa.Value, fr *ipFrame, depth int) string {
	v, fr = i1Resolve(v, fr)
	if depth < 6 {
		if ld, ok := v.(*ssa.UnOp); ok && ld.Op == token.MUL {
			if fa, ok := ld.X.(*ssa.FieldAddr); ok {
				return a.leafKey(fa.X, fr, depth+1) + "." + fieldName(fa.X.Type(), fa.Field)
			}
			if p := pathOf(ld.X); fr == nil && p != "" && !strings.Contains(p, "…") {
				return "load " + p
			}
		}
		if f, ok := v.(*ssa.Field); ok {
			return a.leafKey(f.X, fr, depth+1) + "." + fieldName(f.X.Type(), f.Field)
		}
	}
	return fmt.Sprintf("%s@%p/%p", v.Name(), v, fr)
}

// pureBuilder: g computes its result from its parameters, fields read through them and constants
// and does nothing else: no store other than into the argument array of a variadic call it makes
// itself, no map update, send, defer or go, and every call is a join, a side-effect-free string
// function, len, or another pure builder of the package.
func (a *ipI1) pureBuilder(g *ssa.Function, depth int) bool {
	if g == nil || g.Blocks == nil || depth > i1MaxDepth {
		return false
	}
	if a.busy[g] {
		return false
	}
	a.busy[g] = true
	defer delete(a.busy, g)
	pure := true
	eachInstr(g, func(_ *ssa.BasicBlock, _ int, in ssa.Instruction) {
		if !pure {
			return
		}
		switch x := in.(type) {
		case *ssa.Store:
			ia, ok := x.Addr.(*ssa.IndexAddr)
			if !ok {
				pure = false
				return
			}
			if al, ok := ia.X.(*ssa.Alloc); !ok || al.Comment != "varargs" {
				pure = false
			}
		case *ssa.Call:
			name := callName(&x.Call)
			if i1IsJoin(name) || i1PureString[name] || name == "builtin.len" {
				return
			}
			if callee := a.callee(&x.Call); callee == nil || !a.pureBuilder(callee, depth+1) {
				pure = false
			}
		case *ssa.MakeClosure:
			// only to be called on the spot (checked where it is called); must not be stored or passed on
			for _, ref := range *x.Referrers() {
				if call, ok := ref.(*ssa.Call); !ok || call.Call.Value != ssa.Value(x) {
					if _, isDbg := ref.(*ssa.DebugRef); !isDbg {
						pure = false
					}
				}
			}
		case *ssa.MapUpdate, *ssa.Send, *ssa.Defer, *ssa.Go, *ssa.Panic, *ssa.RunDefers, *ssa.Select, *ssa.MakeChan, *ssa.Next, *ssa.Range:
			pure = false
		}
	})
	return pure
}

// terms evaluates the string value v of frame fr to path terms, one per combination of returns
// of the pure path builders involved. nil = too many alternatives.
func (a *ipI1) terms(v ssa.Value, fr *ipFrame, depth int) []*i1Term {
	v, fr = i1Resolve(v, fr)
	leaf := []*i1Term{{kind: i1Leaf, s: a.leafKey(v, fr, 0)}}
	if depth > 12 {
		return leaf
	}
	cross := func(kind i1Kind, s string, args []ssa.Value) []*i1Term {
		out := []*i1Term{{kind: kind, s: s}}
		for _, arg := range args {
			alts := a.terms(arg, fr, depth+1)
			if alts == nil {
				return nil
			}
			var next []*i1Term
			for _, o := range out {
				for _, e := range alts {
					next = append(next, &i1Term{kind: kind, s: s, elems: append(append([]*i1Term(nil), o.elems...), e)})
				}
			}
			if len(next) > i1MaxAlts {
				return nil
			}
			out = next
		}
		return out
	}
	switch x := v.(type) {
	case *ssa.Const:
		if s, ok := constString(x); ok {
			return []*i1Term{{kind: i1Str, s: s}}
		}
	case *ssa.BinOp:
		if x.Op == token.ADD && isStringLike(x.Type()) {
			out := cross(i1Concat, "", []ssa.Value{x.X, x.Y})
			for _, t := range out {
				// (a + b) + c = a + (b + c)
				var flat []*i1Term
				for _, e := range t.elems {
					if e.kind == i1Concat {
						flat = append(flat, e.elems...)
					} else {
						flat = append(flat, e)
					}
				}
				t.elems = flat
			}
			return out
		}
	case *ssa.Call:
		name := callName(&x.Call)
		switch {
		case i1IsJoin(name):
			args, ok := variadicArgs(x.Call.Args[0])
			if !ok {
				return leaf
			}
			out := cross(i1Join, name, args)
			for _, t := range out {
				// Join(Join(a, b), c) = Join(a, b, c): both are Clean(a/b/c) without the empty elements
				if len(t.elems) > 0 && t.elems[0].kind == i1Join && t.elems[0].s == t.s {
					t.elems = append(append([]*i1Term(nil), t.elems[0].elems...), t.elems[1:]...)
				}
			}
			return out
		case i1PureString[name]:
			return cross(i1Call, name, x.Call.Args)
		}
		g := a.callee(&x.Call)
		if depth/2 >= i1MaxDepth || g == nil || g.Signature.Results().Len() != 1 || !isStringLike(g.Signature.Results().At(0).Type()) || !a.pureBuilder(g, 0) {
			return leaf
		}
		frame := &ipFrame{call: x, up: fr}
		var out []*i1Term
		for _, ret := range returnsOf(g) {
			if !i1Feasible(ret.Block(), frame) {
				continue
			}
			alts := a.terms(ret.Results[0], frame, depth+2)
			if alts == nil || len(out)+len(alts) > i1MaxAlts {
				return nil
			}
			out = append(out, alts...)
		}
		if len(out) == 0 {
			return leaf
		}
		return out
	}
	return leaf
}

// symmetricNames: every value x can take is Join(base, d1, X) and every value y can take is
// Join(base, d2, X) with the same join function, the same base and X, and d1, d2 constant single
// path components (C12-localid). The terms are computed through pure path builders of the
// package; on plain joins in the anchored function this is symmetricJoins.
func (a *ipI1) symmetricNames(x, y ssa.Value) bool {
	tx, ty := a.terms(x, nil, 0), a.terms(y, nil, 0)
	if len(tx) == 0 || len(ty) == 0 {
		return false
	}
	single := func(t *i1Term) bool {
		if t.kind != i1Str {
			return false
		}
		s := strings.Trim(t.s, "/")
		return s != "" && s != "." && s != ".." && !strings.ContainsAny(s, `/\`)
	}
	for _, p := range tx {
		for _, q := range ty {
			if p.kind != i1Join || q.kind != i1Join || p.s != q.s || len(p.elems) != 3 || len(q.elems) != 3 {
				return false
			}
			if !i1Equal(p.elems[0], q.elems[0]) || !single(p.elems[1]) || !single(q.elems[1]) || !i1Equal(p.elems[2], q.elems[2]) {
				return false
			}
		}
	}
	return true
}

// ---- C10-sole -----------------------------------------------------------------------------------

// i1LenBounds interprets `len(x) op k` / `k op len(x)` holding with the given truth as bounds on
// the length: lo <= len(x) <= hi (hi < 0: no upper bound).
func i1LenBounds(b *ssa.BinOp, truth bool) (arg ssa.Value, lo, hi int64, ok bool) {
	op, x, y := b.Op, b.X, b.Y
	if _, isC := constInt(x); isC {
		x, y = y, x
		switch op {
		case token.LSS:
			op = token.GTR
		case token.GTR:
			op = token.LSS
		case token.LEQ:
			op = token.GEQ
		case token.GEQ:
			op = token.LEQ
		}
	}
	lc, isLen := x.(*ssa.Call)
	k, isC := constInt(y)
	if !isLen || !isC || callName(&lc.Call) != "builtin.len" {
		return nil, 0, 0, false
	}
	if !truth {
		switch op {
		case token.GTR:
			op = token.LEQ
		case token.LEQ:
			op = token.GTR
		case token.GEQ:
			op = token.LSS
		case token.LSS:
			op = token.GEQ
		case token.EQL:
			op = token.NEQ
		case token.NEQ:
			op = token.EQL
		default:
			return nil, 0, 0, false
		}
	}
	lo, hi = 0, -1
	switch op {
	case token.EQL:
		lo, hi = k, k
	case token.NEQ:
		if k != 0 {
			return nil, 0, 0, false
		}
		lo = 1
	case token.GTR:
		lo = k + 1
	case token.GEQ:
		lo = k
	case token.LSS:
		hi = k - 1
	case token.LEQ:
		hi = k
	default:
		return nil, 0, 0, false
	}
	if lo < 0 {
		lo = 0
	}
	return lc.Call.Args[0], lo, hi, true
}

// soleWays examines every way the boolean result of fn (the sole-receiver test) can be true:
// a way is a conjunction of branch conditions (a short-circuit expression is split by the edges
// of its phi, same-package predicates by their returns). okLen: every way establishes
// len(recv) == 1 for the receiver list recv of fn; okCmp: every way contains a positive
// comparison that depends on an element of recv and on the address parameter addr.
func (a *ipI1) soleWays(fn *ssa.Function, recv *ssa.Call, addr *ssa.Parameter) (okLen, okCmp bool, n int) {
	okLen, okCmp = true, true
	isElem := func(x ssa.Value) bool {
		ia, ok := x.(*ssa.IndexAddr)
		return ok && ia.X == ssa.Value(recv)
	}
	isAddr := func(x ssa.Value) bool { return x == ssa.Value(addr) }
	for _, ret := range returnsOf(fn) {
		busy := map[*ssa.Function]bool{}
		alts := a.ways(resOf(ret, 0), true, nil, 0, busy)
		alts = ipCross(alts, a.allWays(ipAtoms(condsAt(ret.Block()), nil), 0, busy))
		for _, w := range alts {
			n++
			lo, hi := int64(0), int64(-1)
			cmp := false
			for _, cd := range w.conds {
				v := origin(cd.V)
				if b, ok := v.(*ssa.BinOp); ok {
					if arg, l, h, ok := i1LenBounds(b, cd.Truth); ok {
						if lv, lfr := ipResolve(arg, cd.fr); lfr == nil && origin(lv) == ssa.Value(recv) {
							if l > lo {
								lo = l
							}
							if h >= 0 && (hi < 0 || h < hi) {
								hi = h
							}
						}
						continue
					}
				}
				positive := false
				switch x := v.(type) {
				case *ssa.BinOp:
					positive = (x.Op == token.EQL && cd.Truth) || (x.Op == token.NEQ && !cd.Truth)
				case *ssa.Call:
					positive = cd.Truth
				}
				if positive && a.dependsOn(v, cd.fr, isElem) && a.dependsOn(v, cd.fr, isAddr) {
					cmp = true
				}
			}
			if lo != 1 || hi != 1 {
				okLen = false
			}
			if !cmp {
				okCmp = false
			}
		}
	}
	return okLen, okCmp, n
}

// ---- C11-atomic: the file handed to a helper ----------------------------------------------------

var i1FileWrites = map[string]bool{
	"os.File.Write": true, "os.File.WriteString": true, "os.File.WriteAt": true, "os.File.ReadFrom": true, "os.File.Truncate": true,
}

// methods of *os.File that neither change the content nor close the file
var i1FileNeutral = map[string]bool{
	"os.File.Name": true, "os.File.Stat": true, "os.File.Sync": true, "os.File.Chmod": true, "os.File.Fd": true, "os.File.Seek": true,
}

// i1FileSummary: what a nil error result of a function says about the *os.File it was handed.
type i1FileSummary struct {
	ok     bool   // a nil result implies that every write the function made to the file succeeded
	closes bool   // ... and that the file was closed, the close having succeeded
	writes int    // number of write calls (in the function and the helpers below it)
	why    string // when !ok
}

// fileHelper summarises function g for its parameter k, an *os.File. The parameter may only be
// the receiver of File methods or be handed on to another same-package function (summarised the
// same way); anything else - stored, converted to an interface, captured - is not followed and
// makes the summary fail. For every return whose error result may be nil, every write, close or
// helper call that can reach the return must dominate it and have succeeded whenever the value
// returned is nil (a dominating nil edge, or `returned == nil => that error == nil` by the phi /
// memory reasoning of nilImplies).
func (a *ipI1) fileHelper(g *ssa.Function, k int, depth int) (sum i1FileSummary) {
	fail := func(format string, args ...any) i1FileSummary {
		return i1FileSummary{why: fmt.Sprintf(format, args...)}
	}
	if g == nil || !a.local(g) || k >= len(g.Params) {
		return fail("the callee is not a function of the package")
	}
	if depth > g8MaxDepth || a.busy[g] {
		return fail("%s: helpers nested too deeply", fnName(g))
	}
	a.busy[g] = true
	defer delete(a.busy, g)
	p := g.Params[k]
	type event struct {
		ci     ssa.CallInstruction
		closes bool
	}
	var events []event
	for _, ref := range *p.Referrers() {
		if _, isDbg := ref.(*ssa.DebugRef); isDbg {
			continue
		}
		ci, isCI := ref.(ssa.CallInstruction)
		if !isCI {
			return fail("%s stores or converts the file (%T): its writes are not followed", fnName(g), ref)
		}
		com := ci.Common()
		_, plain := ci.(*ssa.Call)
		name := callName(com)
		isRecv := !com.IsInvoke() && len(com.Args) > 0 && com.Args[0] == ssa.Value(p)
		uses := 0
		for _, arg := range com.Args {
			if arg == ssa.Value(p) {
				uses++
			}
		}
		switch {
		case isRecv && uses == 1 && i1FileWrites[name]:
			if !plain {
				return fail("%s writes the file in a deferred or concurrent call", fnName(g))
			}
			sum.writes++
			events = append(events, event{ci, false})
		case isRecv && uses == 1 && name == "os.File.Close":
			if _, isGo := ci.(*ssa.Go); isGo {
				return fail("%s closes the file concurrently", fnName(g))
			}
			if plain {
				events = append(events, event{ci, true})
			} // a deferred close: its error is lost, it does not count as a close that succeeded
		case isRecv && uses == 1 && i1FileNeutral[name]:
		default:
			callee := com.StaticCallee()
			if !plain || !a.local(callee) || com.Value != ssa.Value(callee) {
				return fail("%s hands the file to %s, which is not followed", fnName(g), c11CalleeName(com))
			}
			closes, relevant := true, false
			for j, arg := range com.Args {
				if arg != ssa.Value(p) {
					continue
				}
				nested := a.fileHelper(callee, j, depth+1)
				if !nested.ok {
					return nested
				}
				sum.writes += nested.writes
				closes = closes && nested.closes
				if nested.writes > 0 || nested.closes {
					relevant = true
				}
			}
			if relevant {
				events = append(events, event{ci, closes})
			}
		}
	}
	res := g.Signature.Results()
	errIdx := res.Len() - 1
	hasErr := errIdx >= 0 && types.Identical(res.At(errIdx).Type(), types.Universe.Lookup("error").Type())
	if !hasErr {
		if sum.writes > 0 {
			return fail("%s writes the file but returns no error", fnName(g))
		}
		sum.ok = true // nothing to report; a close whose error is dropped is not a successful close
		return sum
	}
	sum.ok, sum.closes = true, true
	for _, ret := range returnsOf(g) {
		// a result variable kept in memory (function with defer) is read back after the deferred
		// calls ran: they must not be able to change it
		if ld, ok := ret.Results[errIdx].(*ssa.UnOp); ok && ld.Op == token.MUL {
			if al, isAlloc := ld.X.(*ssa.Alloc); !isAlloc || !g8ReadOnlyCaptured(al, 0) {
				return fail("%s: a deferred closure can change the error it returns", fnName(g))
			}
		}
		rv := resOf(ret, errIdx)
		if i1NonNil(rv, ret.Block()) {
			continue
		}
		closed := false
		for _, e := range events {
			if !instrReaches(e.ci, ret) {
				continue
			}
			ev := errResult(e.ci.Value())
			if !instrDominates(e.ci, ret) || ev == nil || !(succeededBefore(e.ci.Value(), ret.Block()) || nilImplies(rv, ev, 0)) {
				return fail("%s can return a nil error although %s at %s failed (or was skipped)", fnName(g), c11CalleeName(e.ci.Common()), a.c.pos(e.ci.Pos()))
			}
			if e.closes {
				closed = true
			}
		}
		if !closed {
			sum.closes = false
		}
	}
	return sum
}

func c11CalleeName(com *ssa.CallCommon) string {
	if n := callName(com); n != "" {
		return n
	}
	return "a function value"
}

// i1NonNil: the error value rv returned from block blk is not nil there: it was tested non-nil on
// every path to the block, or it is a freshly made error.
func i1NonNil(rv ssa.Value, blk *ssa.BasicBlock) bool {
	for _, cd := range condsAt(blk) {
		if is, isNil := nilTest(cd, rv); is && !isNil {
			return true
		}
	}
	switch x := rv.(type) {
	case *ssa.MakeInterface:
		return true
	case *ssa.Call:
		n := callName(&x.Call)
		return n == "errors.New" || n == "fmt.Errorf"
	}
	return false
}

// i1FileCall is a call in the publishing function that hands the file to a same-package function.
type i1FileCall struct {
	ci  ssa.CallInstruction
	sum i1FileSummary
}

// fileCalls lists the calls of fn that pass file to a same-package function, with the summary of
// what the callee does to it. A call that is not a plain call (defer, go) only counts when the
// callee writes: it then writes after the function's body, i.e. possibly after the rename.
func (a *ipI1) fileCalls(fn *ssa.Function, file ssa.Value) []i1FileCall {
	var out []i1FileCall
	if file == nil {
		return nil
	}
	for _, ci := range allCalls(fn) {
		com := ci.Common()
		callee := com.StaticCallee()
		if callee == nil || com.Value != ssa.Value(callee) || !a.local(callee) {
			continue
		}
		for j, arg := range com.Args {
			if arg != file {
				continue
			}
			sum := a.fileHelper(callee, j, 1)
			if _, plain := ci.(*ssa.Call); !plain {
				if sum.ok && sum.writes == 0 {
					continue // e.g. a deferred helper that closes: as `defer f.Close()`, not a close before the rename
				}
				sum = i1FileSummary{why: fmt.Sprintf("%s writes the file in a deferred or concurrent call", fnName(callee))}
			}
			out = append(out, i1FileCall{ci, sum})
		}
	}
	return out
}

// fileCallsBefore applies the C11-atomic condition to the helper calls: each one that can reach
// the rename rn must be summarised, and - if it writes or closes - dominate the rename with its
// nil error established there. closed: one of them guarantees a successful close.
func (a *ipI1) fileCallsBefore(calls []i1FileCall, rn ssa.CallInstruction) (ok, closed bool, writes int, why string) {
	ok = true
	for _, h := range calls {
		if !instrReaches(h.ci, rn) {
			continue
		}
		name := fnName(h.ci.Common().StaticCallee())
		switch {
		case !h.sum.ok:
			ok, why = false, fmt.Sprintf("the file is handed to %s at %s and what happens to it there is not established: %s", name, a.c.pos(h.ci.Pos()), h.sum.why)
		case h.sum.writes == 0 && !h.sum.closes:
			// reads the name, syncs, ...: nothing to establish
		case !instrDominates(h.ci, rn) || !succeededBefore(h.ci.Value(), rn.Block()):
			ok, why = false, fmt.Sprintf("the rename at %s is not dominated by the success of %s at %s (which writes and/or closes the file): a failed or partial write would be published", a.c.pos(rn.Pos()), name, a.c.pos(h.ci.Pos()))
		default:
			writes += h.sum.writes
			if h.sum.closes {
				closed = true
			}
		}
	}
	return
}
