package main

// Loading of /repo's current working tree: go/packages (type-checked syntax of every package of
// the module and its dependencies) and go/ssa (DESIGN.md section 1).

import (
	"fmt"
	"go/ast"
	"go/token"
	"go/types"
	"os"
	"sort"
	"strings"

	"golang.org/x/tools/go/packages"
	"golang.org/x/tools/go/ssa"
	"golang.org/x/tools/go/ssa/ssautil"
)

const modPath = "github.com/la5nta/wl2k-go"

// Ctx is the loaded program plus lazily built indexes.
type Ctx struct {
	Repo   string
	Tier   string
	GOOS   string
	GOARCH string

	Fset  *token.FileSet
	Pkgs  []*packages.Package          // module packages only, sorted by path
	ByRel map[string]*packages.Package // "fbb", "transport/ardop", ...
	Prog  *ssa.Program
	SSA   map[string]*ssa.Package // by rel path

	allFuncs  map[*ssa.Function]bool
	funcOfPos map[token.Pos]*ssa.Function
	declOf    map[*types.Func]*ast.FuncDecl
	fileOf    map[*ast.File]*packages.Package

	stats LoadStats

	modFuncs   []*ssa.Function
	sites      *siteIndex
	modref     map[*ssa.Function]map[string]bool
	fieldLen   map[string]int64
	summaries  map[*ssa.Function][]resultSummary
	impls      map[*types.Func][]*ssa.Function
	bitsMasked int
	h1         *h1Index // ip_h1.go: calls made through function values kept in local tables
}

type LoadStats struct {
	Packages   int      `json:"packages"`
	Files      []string `json:"files"`
	Functions  int      `json:"functions_with_bodies_in_module"`
	AllFuncs   int      `json:"ssa_functions_total"`
	DepsLoaded int      `json:"dependency_packages"`
}

func relOf(path string) string {
	if path == modPath {
		return "."
	}
	return strings.TrimPrefix(path, modPath+"/")
}

// Load type-checks and builds SSA for ./... in repo. Any type error fails the load.
func Load(repo, goos, goarch string) (*Ctx, error) {
	env := os.Environ()
	if goos != "" {
		env = append(env, "GOOS="+goos)
	}
	if goarch != "" {
		env = append(env, "GOARCH="+goarch)
	}
	env = append(env, "CGO_ENABLED=0")
	fset := token.NewFileSet()
	cfg := &packages.Config{
		Mode:  packages.LoadAllSyntax,
		Dir:   repo,
		Fset:  fset,
		Env:   env,
		Tests: false,
	}
	pkgs, err := packages.Load(cfg, "./...")
	if err != nil {
		return nil, fmt.Errorf("packages.Load: %v", err)
	}
	if len(pkgs) == 0 {
		return nil, fmt.Errorf("no packages loaded from %s", repo)
	}
	var errs []string
	nDeps := 0
	packages.Visit(pkgs, nil, func(p *packages.Package) {
		nDeps++
		for _, e := range p.Errors {
			errs = append(errs, e.Error())
		}
	})
	if len(errs) > 0 {
		sort.Strings(errs)
		if len(errs) > 10 {
			errs = errs[:10]
		}
		return nil, fmt.Errorf("type/load errors:\n  %s", strings.Join(errs, "\n  "))
	}
	c := &Ctx{Repo: repo, GOOS: goos, GOARCH: goarch, Fset: fset,
		ByRel: map[string]*packages.Package{}, SSA: map[string]*ssa.Package{}}
	for _, p := range pkgs {
		if p.PkgPath == modPath || strings.HasPrefix(p.PkgPath, modPath+"/") {
			c.Pkgs = append(c.Pkgs, p)
			c.ByRel[relOf(p.PkgPath)] = p
		}
	}
	sort.Slice(c.Pkgs, func(i, j int) bool { return c.Pkgs[i].PkgPath < c.Pkgs[j].PkgPath })
	if len(c.Pkgs) == 0 {
		return nil, fmt.Errorf("no package of module %s found in %s", modPath, repo)
	}
	prog, ssapkgs := ssautil.AllPackages(pkgs, ssa.InstantiateGenerics)
	prog.Build()
	c.Prog = prog
	for i, p := range pkgs {
		if ssapkgs[i] == nil {
			return nil, fmt.Errorf("no SSA for %s", p.PkgPath)
		}
		if _, ok := c.ByRel[relOf(p.PkgPath)]; ok && strings.HasPrefix(p.PkgPath, modPath) {
			c.SSA[relOf(p.PkgPath)] = ssapkgs[i]
		}
	}
	c.allFuncs = ssautil.AllFunctions(prog)
	c.declOf = map[*types.Func]*ast.FuncDecl{}
	c.fileOf = map[*ast.File]*packages.Package{}
	for _, p := range c.Pkgs {
		for _, f := range p.Syntax {
			c.fileOf[f] = p
			name := fset.Position(f.Pos()).Filename
			c.stats.Files = append(c.stats.Files, strings.TrimPrefix(name, repo+"/"))
			for _, d := range f.Decls {
				if fd, ok := d.(*ast.FuncDecl); ok {
					if obj, ok := p.TypesInfo.Defs[fd.Name].(*types.Func); ok {
						c.declOf[obj] = fd
						if fd.Body != nil {
							c.stats.Functions++
						}
					}
				}
			}
		}
	}
	sort.Strings(c.stats.Files)
	c.stats.Packages = len(c.Pkgs)
	c.stats.AllFuncs = len(c.allFuncs)
	c.stats.DepsLoaded = nDeps
	return c, nil
}

// Pkg returns the module package with the given relative path or nil.
func (c *Ctx) Pkg(rel string) *packages.Package { return c.ByRel[rel] }

// pos renders a position relative to the repository root.
func (c *Ctx) pos(p token.Pos) string {
	if !p.IsValid() {
		return "-"
	}
	q := c.Fset.Position(p)
	return fmt.Sprintf("%s:%d", strings.TrimPrefix(q.Filename, c.Repo+"/"), q.Line)
}

// Func resolves "Name" or "(*T).Name" / "T.Name" in package rel to its SSA function.
func (c *Ctx) Func(rel, name string) *ssa.Function {
	sp := c.SSA[rel]
	if sp == nil {
		return nil
	}
	if !strings.Contains(name, ".") {
		return sp.Func(name)
	}
	recv, meth, _ := strings.Cut(name, ".")
	recv = strings.Trim(recv, "()")
	ptr := strings.HasPrefix(recv, "*")
	recv = strings.TrimPrefix(recv, "*")
	tn, _ := sp.Pkg.Scope().Lookup(recv).(*types.TypeName)
	if tn == nil {
		return nil
	}
	var t types.Type = tn.Type()
	// Look in the pointer method set first (superset), but honour the declared receiver kind.
	for _, tt := range []types.Type{types.NewPointer(t), t} {
		ms := c.Prog.MethodSets.MethodSet(tt)
		for i := 0; i < ms.Len(); i++ {
			sel := ms.At(i)
			if sel.Obj().Name() != meth || sel.Obj().Pkg() != sp.Pkg {
				continue
			}
			fobj := sel.Obj().(*types.Func)
			fn := c.Prog.FuncValue(fobj)
			if fn == nil {
				continue
			}
			sig := fobj.Type().(*types.Signature)
			_, isPtr := sig.Recv().Type().(*types.Pointer)
			_ = ptr
			_ = isPtr
			return fn
		}
	}
	return nil
}

// Decl returns the syntax of a source function.
func (c *Ctx) Decl(fn *ssa.Function) *ast.FuncDecl {
	if fn == nil {
		return nil
	}
	if obj, ok := fn.Object().(*types.Func); ok {
		return c.declOf[obj]
	}
	return nil
}

// Info returns the types.Info of the package that declares fn.
func (c *Ctx) InfoOf(fn *ssa.Function) *types.Info {
	for fn.Parent() != nil {
		fn = fn.Parent()
	}
	if fn.Pkg == nil {
		return nil
	}
	if p := c.ByRel[relOf(fn.Pkg.Pkg.Path())]; p != nil {
		return p.TypesInfo
	}
	return nil
}

// SrcFuncs lists every function with a body of package rel, including anonymous ones, sorted.
func (c *Ctx) SrcFuncs(rel string) []*ssa.Function {
	sp := c.SSA[rel]
	var out []*ssa.Function
	for fn := range c.allFuncs {
		if fn.Blocks == nil || fn.Synthetic != "" {
			continue
		}
		root := fn
		for root.Parent() != nil {
			root = root.Parent()
		}
		if root.Pkg == sp && sp != nil {
			out = append(out, fn)
		}
	}
	sort.Slice(out, func(i, j int) bool {
		if out[i].Pos() != out[j].Pos() {
			return out[i].Pos() < out[j].Pos()
		}
		return out[i].String() < out[j].String()
	})
	return out
}

// fnName is a stable short name: "fbb.(*Session).Exchange", closures as "...$1".
func fnName(fn *ssa.Function) string {
	if fn == nil {
		return "?"
	}
	s := fn.String()
	s = strings.ReplaceAll(s, modPath+"/", "")
	return s
}

// withClosures returns fn and every anonymous function nested in it.
func withClosures(fn *ssa.Function) []*ssa.Function {
	out := []*ssa.Function{fn}
	for _, a := range fn.AnonFuncs {
		out = append(out, withClosures(a)...)
	}
	return out
}
