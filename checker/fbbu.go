package main

// Helpers shared by the session rules (C01, C02, C03, C04, C17): roles of package fbb.

import (
	"go/token"
	"go/types"
	"strings"

	"golang.org/x/tools/go/ssa"
)

// invokes reports whether ci is an interface call of the named method.
func invokes(ci ssa.CallInstruction, method string) bool {
	return ci.Common().IsInvoke() && ci.Common().Method.Name() == method
}

// errResult returns the value carrying the error result of a call (the call itself when it
// returns a single error, otherwise the Extract of the last result), or nil.
func errResult(call ssa.Value) ssa.Value {
	c, ok := call.(*ssa.Call)
	if !ok {
		return nil
	}
	res := c.Call.Signature().Results()
	if res.Len() == 0 {
		return nil
	}
	last := res.At(res.Len() - 1).Type()
	if !types.Identical(last, types.Universe.Lookup("error").Type()) {
		return nil
	}
	if res.Len() == 1 {
		return c
	}
	for _, ref := range *c.Referrers() {
		if ex, ok := ref.(*ssa.Extract); ok && ex.Index == res.Len()-1 {
			return ex
		}
	}
	return nil
}

// nilTest interprets a condition as a test of v against nil: returns (isTest, holdsNil).
func nilTest(cd Cond, v ssa.Value) (bool, bool) {
	b, ok := cd.V.(*ssa.BinOp)
	if !ok || (b.Op != token.EQL && b.Op != token.NEQ) {
		return false, false
	}
	var other ssa.Value
	switch {
	case isNilConst(b.Y):
		other = b.X
	case isNilConst(b.X):
		other = b.Y
	default:
		return false, false
	}
	if origin(other) != v && other != v {
		return false, false
	}
	return true, (b.Op == token.EQL) == cd.Truth
}

// okEdgeDominates: the nil-error edge of the call's error test dominates block b.
func okEdgeDominates(call ssa.Value, b *ssa.BasicBlock) bool {
	ev := errResult(call)
	if ev == nil {
		return false
	}
	for _, cd := range condsAt(b) {
		if is, isNil := nilTest(cd, ev); is && isNil {
			return true
		}
	}
	return false
}

// errEdgeAt: block b is on the non-nil edge of some error test (an error exit path).
func errEdgeAt(b *ssa.BasicBlock) bool {
	for _, cd := range condsAt(b) {
		bo, ok := cd.V.(*ssa.BinOp)
		if !ok || (bo.Op != token.EQL && bo.Op != token.NEQ) {
			continue
		}
		var other ssa.Value
		switch {
		case isNilConst(bo.Y):
			other = bo.X
		case isNilConst(bo.X):
			other = bo.Y
		default:
			continue
		}
		if !types.Identical(other.Type(), types.Universe.Lookup("error").Type()) {
			continue
		}
		if (bo.Op == token.NEQ) == cd.Truth {
			return true
		}
	}
	return false
}

// isErrorExit: the return hands back a non-nil error (tested non-nil on its path, freshly made,
// or a package-level error variable).
func isErrorExit(ret *ssa.Return) bool {
	if len(ret.Results) == 0 {
		return false
	}
	ev := resOf(ret, len(ret.Results)-1)
	if !types.Identical(ev.Type(), types.Universe.Lookup("error").Type()) {
		return false
	}
	if isNilConst(ev) {
		return false
	}
	ev = origin(ev)
	switch x := ev.(type) {
	case *ssa.Call:
		n := callName(&x.Call)
		if n == "errors.New" || n == "fmt.Errorf" {
			return true
		}
	case *ssa.UnOp:
		if _, ok := x.X.(*ssa.Global); ok {
			return true
		}
	case *ssa.MakeInterface:
		return true
	}
	for _, cd := range condsAt(ret.Block()) {
		if is, isNil := nilTest(cd, ev); is && !isNil {
			return true
		}
	}
	return false
}

// regionOnlyErrorExits: every path from block t ends in an error exit or a panic.
func regionOnlyErrorExits(t *ssa.BasicBlock) bool {
	if !regionExits(t) {
		return false
	}
	for _, b := range t.Parent().Blocks {
		if !t.Dominates(b) {
			continue
		}
		if ret, ok := b.Instrs[len(b.Instrs)-1].(*ssa.Return); ok && !isErrorExit(ret) {
			return false
		}
	}
	return true
}

// performs: fn calls one of the named functions, directly or through module callees.
func (c *Ctx) performs(fn *ssa.Function, names ...string) bool {
	seen := map[*ssa.Function]bool{}
	var walk func(f *ssa.Function) bool
	walk = func(f *ssa.Function) bool {
		if f == nil || seen[f] || f.Blocks == nil {
			return false
		}
		seen[f] = true
		found := false
		eachInstrDeep(f, func(_ *ssa.Function, instr ssa.Instruction) {
			if found {
				return
			}
			ci, ok := instr.(ssa.CallInstruction)
			if !ok {
				return
			}
			n := callName(ci.Common())
			for _, w := range names {
				if n == w {
					found = true
					return
				}
			}
			if callee := ci.Common().StaticCallee(); callee != nil && c.inModule(callee) && walk(callee) {
				found = true
			}
		})
		return found
	}
	return walk(fn)
}

// callPerforms: the call instruction is, or leads to, one of the named functions.
func (c *Ctx) callPerforms(ci ssa.CallInstruction, names ...string) bool {
	n := callName(ci.Common())
	for _, w := range names {
		if n == w {
			return true
		}
	}
	if callee := ci.Common().StaticCallee(); callee != nil && c.inModule(callee) {
		return c.performs(callee, names...)
	}
	return false
}

var remoteReadPrims = map[string]bool{
	"bufio.Reader.ReadByte": true, "bufio.Reader.ReadString": true, "bufio.Reader.ReadBytes": true,
	"bufio.Reader.Peek": true, "bufio.Reader.Read": true, "bufio.Reader.ReadLine": true, "bufio.Reader.ReadRune": true,
}

// isRemoteRead: a read primitive on the session's reader (a value loaded from Session.rd), or a
// module wrapper that performs one and hands back its error.
func (c *Ctx) isRemoteRead(ci ssa.CallInstruction) bool {
	n := callName(ci.Common())
	if remoteReadPrims[n] {
		args := ci.Common().Args
		return len(args) > 0 && strings.HasSuffix(pathOf(args[0]), ".rd")
	}
	if callee := ci.Common().StaticCallee(); callee != nil && c.inModule(callee) && callee.Blocks != nil {
		switch short(objName(calleeObj(ci.Common()))) {
		case "fbb.Session.nextLine", "fbb.Session.nextLineRemoteErr":
			return c.wrapperReads(callee, map[*ssa.Function]bool{})
		}
	}
	return false
}

// wrapperReads: every path of fn performs a remote read (directly or via another wrapper) whose
// error reaches the function's own error result.
func (c *Ctx) wrapperReads(fn *ssa.Function, seen map[*ssa.Function]bool) bool {
	if seen[fn] {
		return false
	}
	seen[fn] = true
	var first ssa.CallInstruction
	eachInstr(fn, func(b *ssa.BasicBlock, _ int, instr ssa.Instruction) {
		ci, ok := instr.(ssa.CallInstruction)
		if !ok || first != nil {
			return
		}
		n := callName(ci.Common())
		isRead := remoteReadPrims[n] && len(ci.Common().Args) > 0 && strings.HasSuffix(pathOf(ci.Common().Args[0]), ".rd")
		if !isRead {
			if callee := ci.Common().StaticCallee(); callee != nil && c.inModule(callee) && callee.Blocks != nil && pkgRel(callee) == "fbb" {
				isRead = c.wrapperReads(callee, seen)
			}
		}
		if isRead && b == fn.Blocks[0] {
			first = ci
		}
	})
	if first == nil {
		return false
	}
	// its error is returned on the error path
	ev := errResult(first.Value())
	if ev == nil {
		return false
	}
	for _, ret := range returnsOf(fn) {
		if len(ret.Results) > 0 && resOf(ret, len(ret.Results)-1) == ev {
			return true
		}
	}
	return false
}

// answerConst returns the value of fbb.Accept/Reject/Defer.
func (c *Ctx) answerConst(name string) int64 {
	v, _ := constIntOf(c.Pkg("fbb"), name)
	return v
}

// answerIs interprets a condition as "<x>.answer == const" and returns the object path, the
// constant and whether equality holds on that edge.
func answerIs(cd Cond) (obj string, k int64, equal bool, ok bool) {
	b, isB := cd.V.(*ssa.BinOp)
	if !isB || (b.Op != token.EQL && b.Op != token.NEQ) {
		return "", 0, false, false
	}
	p := pathOf(b.X)
	if !strings.HasSuffix(p, ".answer") {
		return "", 0, false, false
	}
	n, isC := constInt(b.Y)
	if !isC {
		return "", 0, false, false
	}
	return strings.TrimSuffix(p, ".answer"), n, (b.Op == token.EQL) == cd.Truth, true
}
